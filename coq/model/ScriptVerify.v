(* VerifyScript and the witness-v0 part of VerifyWitnessProgram / ExecuteWitnessScript, on top of the
   interpreter of model/Script.v.  Transcribed from src/script/interpreter.cpp and src/script/script.cpp
   (IsPushOnly, IsPayToScriptHash, IsWitnessProgram, IsPayToAnchor).
   Taproot (witness v1, 32-byte program): annex, key path / script path, control-block size rule, leaf version,
   validation weight and the tapscript OP_SUCCESSx pre-scan are modelled; the commitment check (tapleaf hash, Merkle
   path, key tweak) is the Section oracle tap_commit.  Executable definitions only; proofs are in proofs/ScriptFlagsLemmas.v. *)
From BV Require Import lib.Ints gen.Params_gen model.Script.
Local Open Scope Z_scope.

(* bool CScript::IsPushOnly(const_iterator pc) const
   { while (pc < end()) { opcodetype opcode; if (!GetOp(pc, opcode)) return false;
                          if (opcode > OP_16) return false; }   // OP_RESERVED counts as a push
     return true; } *)
Definition is_push_only (s : bytes) : bool :=
  let '(ops, ok) := parse_script s in ok && forallb (fun p => p_code p <=? 96) ops.

(* bool CScript::IsPayToScriptHash() const
   { return (this->size() == 23 && this[0] == OP_HASH160 && this[1] == 0x14 && this[22] == OP_EQUAL); } *)
Definition is_pay_to_script_hash (s : bytes) : bool :=
  match s with
  | 169 :: 20 :: r => (lenz s =? 23) && match rev r with 135 :: _ => true | _ => false end
  | _ => false
  end.

(* bool CScript::IsWitnessProgram(int& version, std::vector<unsigned char>& program) const
   { if (this->size() < 4 || this->size() > 42) return false;
     if (this[0] != OP_0 && (this[0] < OP_1 || this[0] > OP_16)) return false;
     if ((size_t)(this[1] + 2) == this->size()) { version = DecodeOP_N((opcodetype)this[0]);
                                                     program = std::vector<unsigned char>(this->begin() + 2, this->end()); return true; }
     return false; } *)
Definition witness_program (s : bytes) : option (Z * bytes) :=
  let n := lenz s in
  if (n <? 4) || (n >? 42) then None else
  match s with
  | b0 :: b1 :: prog =>
    if negb (b0 =? 0) && ((b0 <? 81) || (b0 >? 96)) then None
    else if b1 + 2 =? n then Some ((if b0 =? 0 then 0 else b0 - 80), prog)
    else None
  | _ => None
  end.

(* bool CScript::IsPayToAnchor(int version, const std::vector<unsigned char>& program)
   { return version == 1 && program.size() == 2 && program[0] == 0x4e && program[1] == 0x73; } *)
Definition is_pay_to_anchor (version : Z) (program : bytes) : bool :=
  (version =? 1) && match program with [78; 115] => true | _ => false end.

(* bool IsOpSuccess(const opcodetype& opcode)   (script.cpp)
   { return opcode == 80 || opcode == 98 || (opcode >= 126 && opcode <= 129) || (opcode >= 131 && opcode <= 134) ||
            (opcode >= 137 && opcode <= 138) || (opcode >= 141 && opcode <= 142) || (opcode >= 149 && opcode <= 153) ||
            (opcode >= 187 && opcode <= 254); } *)
Definition is_op_success (c : Z) : bool :=
  (c =? 80) || (c =? 98) || ((126 <=? c) && (c <=? 129)) || ((131 <=? c) && (c <=? 134)) ||
  ((137 <=? c) && (c <=? 138)) || ((141 <=? c) && (c <=? 142)) || ((149 <=? c) && (c <=? 153)) ||
  ((187 <=? c) && (c <=? 254)).

(* size of the compact-size prefix / of the serialization of a vector of byte vectors (GetSerializeSize(witness.stack)) *)
Definition compact_size_len (n : Z) : Z :=
  if n <? 253 then 1 else if n <=? 65535 then 3 else if n <=? 4294967295 then 5 else 9.
Fixpoint ser_elems_size (l : list bytes) : Z :=
  match l with [] => 0 | e :: r => compact_size_len (lenz e) + lenz e + ser_elems_size r end.
Definition witness_serialize_size (l : list bytes) : Z := compact_size_len (lenz l) + ser_elems_size l.

Section Verify.
Variable sha256 : bytes -> bytes.
Variable ripemd160 : bytes -> bytes.
Variable sha1 : bytes -> bytes.
Variable fl : Z.
Variable ck : checker.
(* VerifyTaprootCommitment(control, program, ComputeTapleafHash(control[0] & TAPROOT_LEAF_MASK, script)):
   the tapleaf hash, the Merkle path of the control block and the x-only key tweak check, as an oracle
   tap_commit control program script *)
Variable tap_commit : bytes -> bytes -> bytes -> bool.

Definition eval (sv : sigversion) (script : bytes) (stack : list bytes) : result (list bytes) :=
  eval_script sha256 ripemd160 sha1 fl ck sv script stack.

(* the tapscript pre-scan of ExecuteWitnessScript over the instruction stream (ops, tail_ok) = parse_script:
     while (pc < exec_script.end()) { opcodetype opcode;
       if (!exec_script.GetOp(pc, opcode)) return set_error(serror, SCRIPT_ERR_BAD_OPCODE);   // not reached if an OP_SUCCESSx came first
       if (IsOpSuccess(opcode)) { if (flags & SCRIPT_VERIFY_DISCOURAGE_OP_SUCCESS) return set_error(serror, SCRIPT_ERR_DISCOURAGE_OP_SUCCESS);
                                  return set_success(serror); } }
   Some r = the function returns r here; None = the scan ends without a verdict *)
Fixpoint op_success_scan (ops : list pop) (tail_ok : bool) : option (result unit) :=
  match ops with
  | [] => if tail_ok then None else Some (Err SE_BAD_OPCODE)
  | p :: r =>
    if is_op_success (p_code p)
    then Some (if has fl SCR_FLAG_DISCOURAGE_OP_SUCCESS then Err SE_DISCOURAGE_OP_SUCCESS else Ok tt)
    else op_success_scan r tail_ok
  end.

(* static bool ExecuteWitnessScript(stack_span, exec_script, flags, sigversion, checker, execdata, serror)
   { std::vector<valtype> stack{stack_span.begin(), stack_span.end()};
     if (sigversion == SigVersion::TAPSCRIPT) {
         // OP_SUCCESSx processing overrides everything, including stack element size limits
         <pre-scan>
         // Tapscript enforces initial stack size limits (altstack is empty here)
         if (stack.size() > MAX_STACK_SIZE) return set_error(serror, SCRIPT_ERR_STACK_SIZE); }
     // Disallow stack item size > MAX_SCRIPT_ELEMENT_SIZE in witness stack
     for (const valtype& elem : stack) if (elem.size() > MAX_SCRIPT_ELEMENT_SIZE) return set_error(serror, SCRIPT_ERR_PUSH_SIZE);
     if (!EvalScript(stack, exec_script, flags, checker, sigversion, execdata, serror)) return false;
     if (stack.size() != 1) return set_error(serror, SCRIPT_ERR_CLEANSTACK);
     if (!CastToBool(stack.back())) return set_error(serror, SCRIPT_ERR_EVAL_FALSE);
     return true; }
   weight = execdata.m_validation_weight_left on entry (tapscript). *)
Definition execute_witness_script (sv : sigversion) (stack : list bytes) (exec_script : bytes) (weight : Z) : result unit :=
  match (if is_tapscript sv then (let '(ops, ok) := parse_script exec_script in op_success_scan ops ok) else None) with
  | Some r => r
  | None =>
    guard (is_tapscript sv && (lenz stack >? MAX_STACK_SIZE)) SE_STACK_SIZE
    (guard (existsb (fun e => lenz e >? MAX_SCRIPT_ELEMENT_SIZE) stack) SE_PUSH_SIZE
     (do st <- eval_script_state sha256 ripemd160 sha1 fl ck sv exec_script stack weight;
      match st_stack st with
      | [top] => if cast_to_bool top then Ok tt else Err SE_EVAL_FALSE
      | _ => Err SE_CLEANSTACK
      end))
  end.

(* the taproot branch of VerifyWitnessProgram (witness v1, 32-byte program, not P2SH), wstack = witness.stack top first:
     if (!(flags & SCRIPT_VERIFY_TAPROOT)) return set_success(serror);
     if (stack.size() == 0) return set_error(serror, SCRIPT_ERR_WITNESS_PROGRAM_WITNESS_EMPTY);
     if (stack.size() >= 2 && !stack.back().empty() && stack.back()[0] == ANNEX_TAG) { drop annex; m_annex_present = true }
     if (stack.size() == 1) { // key path
         if (!checker.CheckSchnorrSignature(stack.front(), program, SigVersion::TAPROOT, execdata, serror)) return false;
         return set_success(serror);
     } else { // script path
         control = SpanPopBack(stack); script = SpanPopBack(stack);
         if (control.size() < TAPROOT_CONTROL_BASE_SIZE || control.size() > TAPROOT_CONTROL_MAX_SIZE ||
             ((control.size() - TAPROOT_CONTROL_BASE_SIZE) % TAPROOT_CONTROL_NODE_SIZE) != 0) return set_error(serror, SCRIPT_ERR_TAPROOT_WRONG_CONTROL_SIZE);
         execdata.m_tapleaf_hash = ComputeTapleafHash(control[0] & TAPROOT_LEAF_MASK, script);
         if (!VerifyTaprootCommitment(control, program, execdata.m_tapleaf_hash)) return set_error(serror, SCRIPT_ERR_WITNESS_PROGRAM_MISMATCH);
         if ((control[0] & TAPROOT_LEAF_MASK) == TAPROOT_LEAF_TAPSCRIPT) {
             execdata.m_validation_weight_left = ::GetSerializeSize(witness.stack) + VALIDATION_WEIGHT_OFFSET;
             return ExecuteWitnessScript(stack, exec_script, flags, SigVersion::TAPSCRIPT, checker, execdata, serror); }
         if (flags & SCRIPT_VERIFY_DISCOURAGE_UPGRADABLE_TAPROOT_VERSION) return set_error(serror, SCRIPT_ERR_DISCOURAGE_UPGRADABLE_TAPROOT_VERSION);
         return set_success(serror); } *)
Definition is_annex (e : bytes) : bool := match e with b :: _ => b =? SCR_ANNEX_TAG | [] => false end.
Definition drop_annex (wstack : list bytes) : list bytes :=
  match wstack with
  | last :: ((_ :: _) as rest) => if is_annex last then rest else wstack
  | _ => wstack
  end.
Definition control_size_ok (n : Z) : bool :=
  negb ((n <? 33) || (n >? 33 + 32 * 128) || negb ((n - 33) mod 32 =? 0)).
Definition leaf_is_tapscript (control : bytes) : bool :=
  match control with c0 :: _ => Z.land c0 254 =? 192 | [] => false end.
Definition verify_taproot (wstack : list bytes) (program : bytes) : result unit :=
  if negb (has fl SCR_FLAG_TAPROOT) then Ok tt else
  match wstack with
  | [] => Err SE_WITNESS_PROGRAM_WITNESS_EMPTY
  | _ =>
    match drop_annex wstack with
    | [] => Err SE_UNKNOWN_ERROR                                   (* not reachable: drop_annex keeps at least one element *)
    | [sig] =>
      match chk_schnorr_keypath ck sig program with None => Ok tt | Some e => Err e end
    | control :: script :: args =>
      if negb (control_size_ok (lenz control)) then Err SE_TAPROOT_WRONG_CONTROL_SIZE
      else if negb (tap_commit control program script) then Err SE_WITNESS_PROGRAM_MISMATCH
      else if leaf_is_tapscript control then
        execute_witness_script SV_TAPSCRIPT args script (witness_serialize_size wstack + SCR_VALIDATION_WEIGHT_OFFSET)
      else if has fl SCR_FLAG_DISCOURAGE_UPGRADABLE_TAPROOT_VERSION then Err SE_DISCOURAGE_UPGRADABLE_TAPROOT_VERSION
      else Ok tt
    end
  end.

(* static bool VerifyWitnessProgram(witness, witversion, program, flags, checker, serror, is_p2sh)
   wstack is witness.stack with the LAST element first (top first).  (The result is always Some; the option is kept
   so that statements written for the earlier, partial model keep their shape.) *)
Definition verify_witness_program (wstack : list bytes) (witversion : Z) (program : bytes) (is_p2sh : bool) : option (result unit) :=
  if witversion =? 0 then
    if lenz program =? SCR_WITNESS_V0_SCRIPTHASH_SIZE then
      (* BIP141 P2WSH: 32-byte witness v0 program (which encodes SHA256(script)) *)
      match wstack with
      | [] => Some (Err SE_WITNESS_PROGRAM_WITNESS_EMPTY)
      | script_bytes :: rest =>
        if negb (bytes_eqb (sha256 script_bytes) program) then Some (Err SE_WITNESS_PROGRAM_MISMATCH)
        else Some (execute_witness_script SV_WITNESS_V0 rest script_bytes 0)
      end
    else if lenz program =? SCR_WITNESS_V0_KEYHASH_SIZE then
      (* BIP141 P2WPKH: exec_script << OP_DUP << OP_HASH160 << program << OP_EQUALVERIFY << OP_CHECKSIG *)
      if negb (lenz wstack =? 2) then Some (Err SE_WITNESS_PROGRAM_MISMATCH)
      else Some (execute_witness_script SV_WITNESS_V0 wstack ([118; 169] ++ push_encoding program ++ [136; 172]) 0)
    else Some (Err SE_WITNESS_PROGRAM_WRONG_LENGTH)
  else if (witversion =? 1) && (lenz program =? SCR_WITNESS_V1_TAPROOT_SIZE) && negb is_p2sh then
    (* BIP341 Taproot *)
    Some (verify_taproot wstack program)
  else if negb is_p2sh && is_pay_to_anchor witversion program then Some (Ok tt)
  else if has fl SCR_FLAG_DISCOURAGE_UPGRADABLE_WITNESS_PROGRAM then Some (Err SE_DISCOURAGE_UPGRADABLE_WITNESS_PROGRAM)
  else Some (Ok tt).

(* stack.resize(1) on a non-empty vector keeps the bottom element *)
Definition resize1 (s : list bytes) : list bytes :=
  match rev s with x :: _ => [x] | [] => [[]] end.

Definition top_true (s : list bytes) : bool := match s with top :: _ => cast_to_bool top | [] => false end.

(* the "valid combinations" VerifyScript asserts: CLEANSTACK => P2SH and WITNESS; WITNESS => P2SH *)
Definition flags_valid (f : Z) : bool :=
  (negb (has f SCR_FLAG_CLEANSTACK) || (has f SCR_FLAG_P2SH && has f SCR_FLAG_WITNESS)) &&
  (negb (has f SCR_FLAG_WITNESS) || has f SCR_FLAG_P2SH).

(* results of the stages of VerifyScript: None = outside the model (taproot), Some r = what the code returns *)
Definition vres (A : Type) : Type := option (result A).
Definition obind {A B} (r : vres A) (k : A -> vres B) : vres B :=
  match r with
  | None => None
  | Some (Err e) => Some (Err e)
  | Some (Ok a) => k a
  end.
Definition verr {A} (e : script_error) : vres A := Some (Err e).
Definition vok {A} (a : A) : vres A := Some (Ok a).
Definition nonempty_list {A} (l : list A) : bool := match l with [] => false | _ => true end.

(* bool VerifyScript(scriptSig, scriptPubKey, witness, flags, checker, serror)
   witness = witness->stack in the C++ order (first element = bottom); [] when there is no witness. *)
Definition verify_script (scriptSig scriptPubKey : bytes) (witness : list bytes) : vres unit :=
  let wstack := rev witness in
  (* if ((flags & SCRIPT_VERIFY_SIGPUSHONLY) != 0 && !scriptSig.IsPushOnly()) return set_error(serror, SCRIPT_ERR_SIG_PUSHONLY); *)
  if has fl SCR_FLAG_SIGPUSHONLY && negb (is_push_only scriptSig) then verr SE_SIG_PUSHONLY else
  (* if (!EvalScript(stack, scriptSig, ...)) return false;  if (flags & P2SH) stackCopy = stack;
     if (!EvalScript(stack, scriptPubKey, ...)) return false;
     if (stack.empty()) EVAL_FALSE;  if (CastToBool(stack.back()) == false) EVAL_FALSE; *)
  obind (Some (eval SV_BASE scriptSig [])) (fun stack1 =>
  obind (Some (eval SV_BASE scriptPubKey stack1)) (fun stack2 =>
  if negb (top_true stack2) then verr SE_EVAL_FALSE else
  (* Bare witness programs:
     if (flags & SCRIPT_VERIFY_WITNESS) { if (scriptPubKey.IsWitnessProgram(witnessversion, witnessprogram)) {
         hadWitness = true;
         if (scriptSig.size() != 0) return set_error(serror, SCRIPT_ERR_WITNESS_MALLEATED);
         if (!VerifyWitnessProgram(witness, witnessversion, witnessprogram, flags, checker, serror, false)) return false;
         stack.resize(1); } } *)
  obind (if has fl SCR_FLAG_WITNESS then
           match witness_program scriptPubKey with
           | Some (ver, prog) =>
             if negb (lenz scriptSig =? 0) then verr SE_WITNESS_MALLEATED
             else obind (verify_witness_program wstack ver prog false) (fun _ => vok (resize1 stack2, true))
           | None => vok (stack2, false)
           end
         else vok (stack2, false)) (fun '(stack3, had1) =>
  (* Additional validation for spend-to-script-hash transactions:
     if ((flags & SCRIPT_VERIFY_P2SH) && scriptPubKey.IsPayToScriptHash()) {
         if (!scriptSig.IsPushOnly()) return set_error(serror, SCRIPT_ERR_SIG_PUSHONLY);
         swap(stack, stackCopy);  assert(!stack.empty());
         pubKey2 = CScript(stack.back()); popstack(stack);
         if (!EvalScript(stack, pubKey2, ...)) return false;  empty / false top -> EVAL_FALSE
         if (flags & SCRIPT_VERIFY_WITNESS) { if (pubKey2.IsWitnessProgram(...)) { hadWitness = true;
             if (scriptSig != CScript() << std::vector<unsigned char>(pubKey2.begin(), pubKey2.end())) WITNESS_MALLEATED_P2SH;
             if (!VerifyWitnessProgram(..., true)) return false;  stack.resize(1); } } } *)
  obind (if has fl SCR_FLAG_P2SH && is_pay_to_script_hash scriptPubKey then
           if negb (is_push_only scriptSig) then verr SE_SIG_PUSHONLY else
           match stack1 with
           | [] => verr SE_UNKNOWN_ERROR                    (* assert(!stack.empty()): not reachable *)
           | pubKey2 :: rest =>
             obind (Some (eval SV_BASE pubKey2 rest)) (fun stack4 =>
             if negb (top_true stack4) then verr SE_EVAL_FALSE else
             if has fl SCR_FLAG_WITNESS then
               match witness_program pubKey2 with
               | Some (ver, prog) =>
                 if negb (bytes_eqb scriptSig (push_encoding pubKey2)) then verr SE_WITNESS_MALLEATED_P2SH
                 else obind (verify_witness_program wstack ver prog true) (fun _ => vok (resize1 stack4, true))
               | None => vok (stack4, had1)
               end
             else vok (stack4, had1))
           end
         else vok (stack3, had1)) (fun '(stack5, had_witness) =>
  (* if ((flags & SCRIPT_VERIFY_CLEANSTACK) != 0) { assert P2SH, WITNESS; if (stack.size() != 1) CLEANSTACK }
     if (flags & SCRIPT_VERIFY_WITNESS) { assert P2SH; if (!hadWitness && !witness->IsNull()) WITNESS_UNEXPECTED } *)
  if has fl SCR_FLAG_CLEANSTACK && negb (lenz stack5 =? 1) then verr SE_CLEANSTACK
  else if has fl SCR_FLAG_WITNESS && negb had_witness && nonempty_list witness then verr SE_WITNESS_UNEXPECTED
  else vok tt)))).

End Verify.
