(* C45 — executable instance of the BIP32 model: secp256k1 from model/EC.v, HMAC-SHA512, SHA-256 and
   RIPEMD-160 from the crypto family's executable models. *)
From Coq Require Import NArith ZArith.
From BV Require Import lib.Ints model.CryptoSHA256 model.CryptoRIPEMD160 model.CryptoHMACInst model.EC model.Bip32.
Local Open Scope Z_scope.

Definition pt_is_inf (P : point) : bool := match P with None => true | Some _ => false end.
Definition ser33 (P : point) : list N := match P with Some xy => ec_pubkey_serialize true xy | None => [] end.
Definition hash160 (b : list N) : list N := ripemd160_spec (sha256_spec b).
Definition parse33 (b : list N) : option point :=
  match b with
  | tag :: _ => if ((tag =? 2)%N || (tag =? 3)%N) then match ec_pubkey_parse b with Some xy => Some (Some xy) | None => None end else None
  | [] => None
  end.

Definition xprv := ext Z.
Definition xpub := ext point.
Definition bip32_ckd_priv : xprv -> Z -> option xprv :=
  extkey_derive point mul_G secp_n ser33 hmac_sha512_spec hash160.
Definition bip32_ckd_pub : xpub -> Z -> option xpub :=
  extpub_derive point pt_add pt_is_inf mul_G secp_n ser33 hmac_sha512_spec hash160.
Definition bip32_neuter : xprv -> xpub := neuter point mul_G.
Definition bip32_encode_prv : xprv -> list N := extkey_encode.
Definition bip32_encode_pub : xpub -> list N := extpub_encode point ser33.
Definition bip32_decode_prv : list N -> option xprv := extkey_decode secp_n.
Definition bip32_decode_pub : list N -> option xpub := extpub_decode point parse33.

(* void CExtKey::SetSeed(seed): HMAC-SHA512(key = "Bitcoin seed", seed); key = out[0..32), chaincode = out[32..64) *)
Definition bitcoin_seed : list N := [66; 105; 116; 99; 111; 105; 110; 32; 115; 101; 101; 100]%N.
Definition bip32_set_seed (seed : list N) : option xprv :=
  let out := hmac_sha512_spec bitcoin_seed seed in
  let k := be_val (firstn 32 out) in
  if (0 <? k) && (k <? secp_n)
  then Some {| x_depth := 0; x_fpr := [0; 0; 0; 0]%N; x_child := 0; x_cc := skipn 32 out; x_key := k |}
  else None.
