(* Coin selection (C40).  Transcribed from
     src/wallet/coinselection.h    COutput (fee / effective value), OutputGroup, SelectionResult
     src/wallet/coinselection.cpp  OutputGroup::Insert, GetSelectionAmount, OutputGroupTypeMap::Push,
                                   SelectionResult::GetChange / RecalculateWaste, the `descending`
                                   comparator, SelectCoinsBnB; and the acceptance conditions of
                                   CoinGrinder, SelectCoinsSRD and KnapsackSolver
   Executable definitions only (proofs are in proofs/CoinSelLemmas.v).

   Amounts are CAmount (int64_t) and weights are int in the C++.  The model computes in unbounded Z and
   does not insert wraps in the sums: the check's cases keep every total below 2^62 / 2^30 (stated as an
   assumption in props/C40.py); money amounts are bounded by MAX_MONEY in the wallet. *)
From BV Require Import lib.Ints gen.Params_gen.
Local Open Scope Z_scope.

(* ------------------------------------------------------------------------------------------- *)
(* The offered pool *)

(* one COutput of a case: txout.nValue, input_bytes, ancestor bump fee *)
Record coin := mkCoin { co_value : Z; co_bytes : Z; co_bump : Z }.

(* what an OutputGroup carries for coin selection:
     m_value, effective_value, fee, long_term_fee, m_weight *)
Record group := mkGroup { g_value : Z; g_eff : Z; g_fee : Z; g_ltf : Z; g_weight : Z }.

(* CFeeRate{rate} is FeePerVSize(rate, 1000); for rate >= 0 and bytes >= 0
   CAmount CFeeRate::GetFee(int32_t virtual_bytes) const
   {   if (m_feerate.IsEmpty()) { return CAmount(0);}
       CAmount nFee = CAmount(m_feerate.EvaluateFeeUp(virtual_bytes));      // ceil(rate * bytes / 1000)
       if (nFee == 0 && virtual_bytes != 0 && m_feerate.fee < 0) return CAmount(-1);
       return nFee; }
   (the general FeeFrac arithmetic is the subject of the feefrac family; only rate >= 0 is used here) *)
Definition fee_at (rate bytes : Z) : Z := (rate * bytes + 999) / 1000.

(* COutput(..., feerate):  fee = input_bytes < 0 ? 0 : feerate.GetFee(input_bytes);
                           effective_value = txout.nValue - fee
   ApplyBumpFee(bump):     *fee += bump_fee; effective_value = txout.nValue - fee *)
Definition coin_fee (rate : Z) (c : coin) : Z :=
  (if co_bytes c <? 0 then 0 else fee_at rate (co_bytes c)) + co_bump c.
Definition coin_eff (rate : Z) (c : coin) : Z := co_value c - coin_fee rate c.
(* OutputGroup::Insert: coin.long_term_fee = coin.input_bytes < 0 ? 0 : m_long_term_feerate.GetFee(coin.input_bytes) *)
Definition coin_ltf (ltrate : Z) (c : coin) : Z :=
  if co_bytes c <? 0 then 0 else fee_at ltrate (co_bytes c).
(* if (output->input_bytes > 0) m_weight += output->input_bytes * WITNESS_SCALE_FACTOR *)
Definition coin_weight (c : coin) : Z :=
  if 0 <? co_bytes c then co_bytes c * WITNESS_SCALE_FACTOR else 0.

(* void OutputGroup::Insert(output, ...) { fee += coin.GetFee(); long_term_fee += coin.long_term_fee;
       effective_value += coin.GetEffectiveValue(); m_value += coin.txout.nValue; m_weight += ... } *)
Definition group_of (rate ltrate : Z) (cs : list coin) : group :=
  mkGroup (zsum (map co_value cs)) (zsum (map (coin_eff rate) cs)) (zsum (map (coin_fee rate) cs))
          (zsum (map (coin_ltf ltrate) cs)) (zsum (map coin_weight cs)).

(* CAmount OutputGroup::GetSelectionAmount() const { return m_subtract_fee_outputs ? m_value : effective_value; } *)
Definition amt (sffo : bool) (g : group) : Z := if sffo then g_value g else g_eff g.
Definition gwaste (g : group) : Z := g_fee g - g_ltf g.

Definition sum_by {A} (f : A -> Z) (l : list A) : Z := zsum (map f l).

(* ------------------------------------------------------------------------------------------- *)
(* Selections.  A selection is reported as a strictly increasing list of positions of the pool.
   pick_at i pool sel returns the selected elements, or None when sel is not strictly increasing
   or mentions a position outside the pool (a coin twice / an invented coin). *)
Fixpoint pick_at {A} (i : nat) (pool : list A) (sel : list nat) : option (list A) :=
  match pool with
  | [] => match sel with [] => Some [] | _ => None end
  | x :: r =>
    match sel with
    | [] => Some []
    | j :: sel' =>
      if Nat.eqb j i then option_map (cons x) (pick_at (S i) r sel')
      else if Nat.ltb j i then None
      else pick_at (S i) r sel
    end
  end.

(* OutputGroupTypeMap::Push: if (insert_positive && group.GetSelectionAmount() > 0) positive_group.emplace_back(group);
                             if (insert_mixed) mixed_group.emplace_back(group);
   BnB, CoinGrinder and SRD are given positive_group, the knapsack solver mixed_group. *)
Inductive algo := ABnB | ACG | ASRD | AKnap.
Definition is_offered (a : algo) (sffo : bool) (g : group) : bool :=
  match a with AKnap => true | _ => 0 <? amt sffo g end.
(* the groups an algorithm may use *)
Definition offered_groups (a : algo) (sffo : bool) (pool : list group) : list group :=
  filter (is_offered a sffo) pool.

(* ------------------------------------------------------------------------------------------- *)
(* The arguments of one call and the reported result *)
Record sparams := mkParams {
  p_sffo : bool;             (* m_subtract_fee_outputs *)
  p_target : Z;              (* selection_target / nTargetValue *)
  p_coc : Z;                 (* cost_of_change *)
  p_change_target : Z;       (* m_min_change_target (knapsack, CoinGrinder) *)
  p_change_fee : Z;          (* m_change_fee *)
  p_min_viable : Z;          (* min_viable_change *)
  p_maxw : Z;                (* max_selection_weight *)
  p_disc : Z                 (* bump_fee_group_discount set before RecalculateWaste *)
}.

Record sresult := mkResult {
  r_sel : list nat;          (* selected positions, increasing *)
  r_value : Z;               (* GetSelectedValue() *)
  r_eff : Z;                 (* GetSelectedEffectiveValue() (before the discount is set) *)
  r_weight : Z;              (* GetWeight() *)
  r_waste : Z;               (* GetWaste() after RecalculateWaste(min_viable_change, cost_of_change, change_fee) *)
  r_done : bool              (* GetAlgoCompleted() *)
}.

Definition sel_amount (P : sparams) (s : list group) : Z := sum_by (amt (p_sffo P)) s.
Definition sel_weight (s : list group) : Z := sum_by g_weight s.

(* CAmount SelectionResult::GetChange(min_viable_change, change_fee) const
   {   const CAmount change = m_use_effective ? GetSelectedEffectiveValue() - m_target - change_fee
                                              : GetSelectedValue() - m_target;
       if (change < min_viable_change) return 0;
       return change; }
   with m_use_effective = !m_subtract_fee_outputs and GetSelectedEffectiveValue() = sum + bump_fee_group_discount *)
Definition sel_change (P : sparams) (s : list group) : Z :=
  let change := if p_sffo P then sum_by g_value s - p_target P
                else sum_by g_eff s + p_disc P - p_target P - p_change_fee P in
  if change <? p_min_viable P then 0 else change.

(* void SelectionResult::RecalculateWaste(min_viable_change, change_cost, change_fee)
   {   CAmount waste = 0;
       for (coin : m_selected_inputs) waste += coin.GetFee() - coin.long_term_fee;
       waste -= bump_fee_group_discount;
       if (GetChange(min_viable_change, change_fee)) { waste += change_cost; }
       else { CAmount selected_effective_value = m_use_effective ? GetSelectedEffectiveValue() : GetSelectedValue();
              assert(selected_effective_value >= m_target);
              waste += selected_effective_value - m_target; }
       m_waste = waste; } *)
Definition waste_of (P : sparams) (s : list group) : Z :=
  sum_by gwaste s - p_disc P +
  (if sel_change P s =? 0
   then (if p_sffo P then sum_by g_value s else sum_by g_eff s + p_disc P) - p_target P
   else p_coc P).

(* the objective SelectCoinsBnB minimises: curr_selection_waste + (curr_amount - selection_target) *)
Definition bnb_waste (P : sparams) (s : list group) : Z :=
  sum_by gwaste s + (sel_amount P s - p_target P).

(* ------------------------------------------------------------------------------------------- *)
(* What each algorithm promises about the amount it selects (read off its acceptance condition). *)

(* KnapsackSolver classifies the groups with m_weight <= max_selection_weight:
     amount == nTargetValue                   -> returned alone
     amount <  nTargetValue + change_target   -> applicable_groups, nTotalLower += amount
     otherwise                                -> candidate for lowest_larger *)
Definition knap_light (P : sparams) (g : group) : bool := g_weight g <=? p_maxw P.
Definition knap_total_lower (P : sparams) (pool : list group) : Z :=
  sum_by (amt (p_sffo P))
    (filter (fun g => knap_light P g && (amt (p_sffo P) g <? p_target P + p_change_target P)) pool).
Definition knap_has_larger (P : sparams) (pool : list group) : bool :=
  existsb (fun g => knap_light P g && (p_target P + p_change_target P <=? amt (p_sffo P) g)) pool.

Definition amount_ok (a : algo) (P : sparams) (pool s : list group) : bool :=
  let x := sel_amount P s in
  match a with
  | ABnB =>  (* curr_amount >= selection_target, and not curr_amount > selection_target + cost_of_change *)
      (p_target P <=? x) && (x <=? p_target P + p_coc P)
  | ACG =>   (* curr_amount >= total_target, total_target = selection_target + change_target *)
      p_target P + p_change_target P <=? x
  | ASRD =>  (* target_value += CHANGE_LOWER + change_fee; selected_eff_value >= target_value *)
      p_target P + CS_CHANGE_LOWER + p_change_fee P <=? x
  | AKnap => (* at least the target; exactly the target, or target plus the change target, unless the
                light groups below target+change_target cannot reach that and no larger group exists *)
      (p_target P <=? x) &&
      ((x =? p_target P) || (p_target P + p_change_target P <=? x) ||
       (negb (knap_has_larger P pool) && (knap_total_lower P pool <? p_target P + p_change_target P)))
  end.

(* The executable checker of C40's first sentence, evaluated on what the implementation returned. *)
Definition valid_selection (a : algo) (P : sparams) (pool : list group) (r : sresult) : bool :=
  match pick_at 0 pool (r_sel r) with
  | None => false
  | Some s =>
      forallb (is_offered a (p_sffo P)) s &&
      (r_value r =? sum_by g_value s) && (r_eff r =? sum_by g_eff s) &&
      (r_weight r =? sel_weight s) && (r_weight r <=? p_maxw P) &&
      amount_ok a P pool s &&
      (r_waste r =? waste_of P s)
  end.

(* ------------------------------------------------------------------------------------------- *)
(* Brute-force reference: every sub-list (subset keeping pool order) of the pool. *)
Fixpoint subsets {A} (l : list A) : list (list A) :=
  match l with
  | [] => [[]]
  | x :: r => map (cons x) (subsets r) ++ subsets r
  end.

Definition exists_sub {A} (ok : list A -> bool) (pool : list A) : bool := existsb ok (subsets pool).

Definition omin (a : option Z) (b : Z) : option Z :=
  match a with None => Some b | Some x => Some (Z.min x b) end.
(* minimum of obj over the sub-lists satisfying ok; None when there is none *)
Fixpoint min_list {A} (obj : list A -> Z) (ok : list A -> bool) (L : list (list A)) : option Z :=
  match L with
  | [] => None
  | t :: L' => let r := min_list obj ok L' in if ok t then omin r (obj t) else r
  end.
Definition min_over {A} (obj : list A -> Z) (ok : list A -> bool) (pool : list A) : option Z :=
  min_list obj ok (subsets pool).

(* BnB: inside the window and within the weight limit *)
Definition bnb_adm (P : sparams) (s : list group) : bool :=
  (p_target P <=? sel_amount P s) && (sel_amount P s <=? p_target P + p_coc P) && (sel_weight s <=? p_maxw P).
(* ... and no selected group can be dropped while still reaching the target (BnB never adds a UTXO
   to a selection that already reached the target) *)
Definition nonredundant (P : sparams) (s : list group) : bool :=
  forallb (fun g => sel_amount P s - amt (p_sffo P) g <? p_target P) s.
(* CoinGrinder: at least target + change target, within the weight limit *)
Definition cg_adm (P : sparams) (s : list group) : bool :=
  (p_target P + p_change_target P <=? sel_amount P s) && (sel_weight s <=? p_maxw P).

(* SRD: at least target + CHANGE_LOWER + change_fee, within the weight limit *)
Definition srd_adm (P : sparams) (s : list group) : bool :=
  (p_target P + CS_CHANGE_LOWER + p_change_fee P <=? sel_amount P s) && (sel_weight s <=? p_maxw P).

(* checked when the algorithm returned a result and reported a complete search *)
Definition optimal_check (a : algo) (P : sparams) (pool : list group) (r : sresult) : bool :=
  match pick_at 0 pool (r_sel r) with
  | None => false
  | Some s =>
    match a with
    | ABnB => match min_over (bnb_waste P) (fun t => bnb_adm P t && nonredundant P t) (offered_groups a (p_sffo P) pool) with
              | Some m => bnb_waste P s <=? m | None => true end
    | ACG => match min_over sel_weight (cg_adm P) (offered_groups a (p_sffo P) pool) with
             | Some m => sel_weight s <=? m | None => true end
    | _ => true
    end
  end.

(* checked when the algorithm returned no result: then no admissible subset may exist *)
Definition none_check (a : algo) (P : sparams) (pool : list group) : bool :=
  match a with
  | ABnB => negb (exists_sub (bnb_adm P) (offered_groups a (p_sffo P) pool))
  | ACG => negb (exists_sub (cg_adm P) (offered_groups a (p_sffo P) pool))
  | ASRD => (* every offered group ends up selected unless the weight limit evicts one *)
      negb (srd_adm P (offered_groups a (p_sffo P) pool))
  | AKnap => true
  end.

(* ------------------------------------------------------------------------------------------- *)
(* SelectCoinsBnB, transcribed.

   struct { bool operator()(const OutputGroup& a, const OutputGroup& b) const {
       if (a.GetSelectionAmount() == b.GetSelectionAmount()) {
           return (a.fee - a.long_term_fee) < (b.fee - b.long_term_fee); }
       return a.GetSelectionAmount() > b.GetSelectionAmount(); } } descending; *)
Definition descending (sffo : bool) (a b : group) : bool :=
  if amt sffo a =? amt sffo b then gwaste a <? gwaste b else amt sffo b <? amt sffo a.

(* std::sort(utxo_pool.begin(), utxo_pool.end(), descending).  std::sort is not stable in general; for
   at most 16 elements libstdc++ runs its insertion sort, which is the stable sort below.  The check's
   cases with more than 16 groups have pairwise different selection amounts, where the order is unique. *)
Fixpoint insert_by {A} (lt : A -> A -> bool) (x : A) (l : list A) : list A :=
  match l with
  | [] => [x]
  | y :: r => if lt x y then x :: y :: r else y :: insert_by lt x r
  end.
Definition sort_by {A} (lt : A -> A -> bool) (l : list A) : list A :=
  fold_left (fun acc x => insert_by lt x acc) l [].

(* lookahead[index] = sum of the amounts after index; second component: total_available *)
Fixpoint lookahead (l : list Z) : list Z * Z :=
  match l with
  | [] => ([], 0)
  | x :: r => let '(la, t) := lookahead r in (t :: la, t + x)
  end.

Definition TOTAL_TRIES : Z := 100000.   (* static const size_t TOTAL_TRIES = 100000; *)

(* the local variables of the search; curr_selection / best_selection are stacks (head = back()) *)
Record bst := mkB {
  b_cs : list nat;      (* curr_selection *)
  b_amt : Z;            (* curr_amount *)
  b_w : Z;              (* curr_weight *)
  b_waste : Z;          (* curr_selection_waste *)
  b_best : list nat;    (* best_selection *)
  b_bestw : Z;          (* best_waste *)
  b_next : nat;         (* next_utxo *)
  b_try : Z;            (* curr_try *)
  b_mwe : bool          (* max_tx_weight_exceeded *)
}.

Inductive iter_out :=
| ItErr                               (* an index outside utxo_pool / lookahead: undefined behaviour in the C++ *)
| ItFuel                              (* the model's fuel ran out (proved impossible with fuel = TOTAL_TRIES) *)
| ItCont (st : bst)
| ItStop (st : bst) (completed : bool).

Section BnB.
Variable pool : list group.       (* utxo_pool after the sort *)
Variable sffo : bool.
Variable la : list Z.             (* lookahead *)
Variables target coc maxw : Z.
Variable high : bool.             (* is_feerate_high *)

(* auto deselect_last = [&]() { OutputGroup& utxo = utxo_pool[curr_selection.back()];
       curr_amount -= utxo.GetSelectionAmount(); curr_weight -= utxo.m_weight;
       curr_selection_waste -= utxo.fee - utxo.long_term_fee; curr_selection.pop_back(); }; *)
Definition deselect_last (st : bst) : option bst :=
  match b_cs st with
  | [] => None
  | i :: rest =>
    match nth_error pool i with
    | None => None
    | Some u => Some (mkB rest (b_amt st - amt sffo u) (b_w st - g_weight u) (b_waste st - gwaste u)
                          (b_best st) (b_bestw st) (b_next st) (b_try st) (b_mwe st))
    end
  end.

Definition set_next (st : bst) (n : nat) : bst :=
  mkB (b_cs st) (b_amt st) (b_w st) (b_waste st) (b_best st) (b_bestw st) n (b_try st) (b_mwe st).

(* while (utxo_pool[next_utxo - 1].GetSelectionAmount() == utxo_pool[next_utxo].GetSelectionAmount()) {
       if (next_utxo >= utxo_pool.size() - 1) { should_shift = true; break; }
       ++next_utxo; }
   result: the new next_utxo and should_shift *)
Fixpoint skip_clones (fuel : nat) (nxt : nat) : option (nat * bool) :=
  match fuel with
  | O => None
  | S f =>
    match nxt with
    | O => None
    | S pn =>
      match nth_error pool pn, nth_error pool nxt with
      | Some a, Some b =>
        if amt sffo a =? amt sffo b then
          if Nat.leb (length pool - 1) nxt then Some (nxt, true)
          else skip_clones f (S nxt)
        else Some (nxt, false)
      | _, _ => None
      end
    end
  end.

(* while (should_shift) {
       if (curr_selection.empty()) { is_done = true; result.SetAlgoCompleted(true); break; }
       next_utxo = curr_selection.back() + 1;
       deselect_last();
       should_shift = false;
       <skip clones> }
   result: the state and is_done *)
Fixpoint shift_loop (fuel : nat) (st : bst) : option (bst * bool) :=
  match fuel with
  | O => None
  | S f =>
    match b_cs st with
    | [] => Some (st, true)
    | i :: _ =>
      match deselect_last st with
      | None => None
      | Some st1 =>
        match skip_clones (S (length pool)) (S i) with
        | None => None
        | Some (nxt, again) =>
          let st2 := set_next st1 nxt in
          if again then shift_loop f st2 else Some (st2, false)
        end
      end
    end
  end.

(* EVALUATE current selection: (should_cut, should_shift, max_tx_weight_exceeded, best_selection, best_waste)
       if (curr_amount + lookahead[curr_selection.back()] < selection_target) { should_cut = true; }
       else if (curr_weight > max_selection_weight) { max_tx_weight_exceeded = true; should_shift = true; }
       else if (curr_amount > selection_target + cost_of_change) { should_shift = true; }
       else if (is_feerate_high && curr_selection_waste > best_waste) { should_shift = true; }
       else if (curr_amount >= selection_target) { should_shift = true;
           CAmount curr_excess = curr_amount - selection_target;
           CAmount curr_waste = curr_selection_waste + curr_excess;
           if (curr_waste <= best_waste) { best_selection = curr_selection; best_waste = curr_waste; } } *)
Definition bnb_eval (st : bst) (cs' : list nat) (amt' w' waste' lah : Z) : bool * bool * bool * list nat * Z :=
  if amt' + lah <? target then (true, false, b_mwe st, b_best st, b_bestw st)
  else if maxw <? w' then (false, true, true, b_best st, b_bestw st)
  else if target + coc <? amt' then (false, true, b_mwe st, b_best st, b_bestw st)
  else if high && (b_bestw st <? waste') then (false, true, b_mwe st, b_best st, b_bestw st)
  else if target <=? amt' then
    let curr_waste := waste' + (amt' - target) in
    if curr_waste <=? b_bestw st then (false, true, b_mwe st, cs', curr_waste)
    else (false, true, b_mwe st, b_best st, b_bestw st)
  else (false, false, b_mwe st, b_best st, b_bestw st).

(* one iteration of `while (!is_done)` *)
Definition bnb_iter (st : bst) : iter_out :=
  match nth_error pool (b_next st), nth_error la (b_next st) with
  | Some u, Some lah =>
    (* Select `next_utxo` *)
    let amt' := b_amt st + amt sffo u in
    let w' := b_w st + g_weight u in
    let waste' := b_waste st + gwaste u in
    let cs' := b_next st :: b_cs st in
    let nxt' := S (b_next st) in
    let try' := b_try st + 1 in
    let '(cut, shift, mwe', best', bestw') := bnb_eval st cs' amt' w' waste' lah in
    let st1 := mkB cs' amt' w' waste' best' bestw' nxt' try' mwe' in
    (* if (curr_try >= TOTAL_TRIES) { result.SetAlgoCompleted(false); break; } *)
    if TOTAL_TRIES <=? try' then ItStop st1 false
    else
      (* if (next_utxo == utxo_pool.size()) should_cut = true; *)
      let cut := cut || Nat.eqb nxt' (length pool) in
      (* if (should_cut) { deselect_last(); should_shift = true; } *)
      match (if cut then deselect_last st1 else Some st1) with
      | None => ItErr
      | Some st2 =>
        if cut || shift then
          match shift_loop (S (length pool)) st2 with
          | None => ItErr
          | Some (st3, done) => if done then ItStop st3 true else ItCont st3
          end
        else ItCont st2
      end
  | _, _ => ItErr
  end.

Fixpoint bnb_loop (fuel : nat) (st : bst) : iter_out :=
  match fuel with
  | O => ItFuel
  | S f => match bnb_iter st with ItCont st' => bnb_loop f st' | o => o end
  end.
End BnB.

Inductive bnb_out :=
| BnbErr                                                  (* undefined behaviour / exception in the C++ *)
| BnbNone (weight_exceeded : bool)                        (* util::Error / ErrorMaxWeightExceeded *)
| BnbSome (sel : list nat) (s : list group) (waste : Z) (completed : bool) (tries : Z).
   (* sel: positions in the sorted pool, increasing; s: the groups at these positions *)

(* the search on the sorted pool *)
Definition bnb_core (sffo : bool) (pool : list group) (target coc maxw : Z) : bnb_out :=
  let '(la, total_available) := lookahead (map (amt sffo) pool) in
  (* if (total_available < selection_target) return util::Error(); *)
  if total_available <? target then BnbNone false
  else
    match pool with
    | [] => BnbErr      (* utxo_pool.at(0) throws *)
    | g0 :: _ =>
      (* bool is_feerate_high = utxo_pool.at(0).fee > utxo_pool.at(0).long_term_fee; *)
      let high := g_ltf g0 <? g_fee g0 in
      match bnb_loop pool sffo la target coc maxw high (Z.to_nat TOTAL_TRIES)
                     (mkB [] 0 0 0 [] MAX_MONEY 0%nat 0 false) with
      | ItStop st completed =>
        (* if (best_selection.empty()) return max_tx_weight_exceeded ? ErrorMaxWeightExceeded() : util::Error(); *)
        match b_best st with
        | [] => BnbNone (b_mwe st)
        | best =>
          match pick_at 0 pool (rev best) with
          | Some s => BnbSome (rev best) s (b_bestw st) completed (b_try st)
          | None => BnbErr
          end
        end
      | _ => BnbErr
      end
    end.

(* SelectCoinsBnB on the offered pool: sort, search, and report the selection as positions of the
   pool as it was given (the driver identifies coins by outpoint). *)
Definition tag_pool (pool : list group) : list (nat * group) := combine (seq 0 (length pool)) pool.
Definition select_coins_bnb (sffo : bool) (pool : list group) (target coc maxw : Z)
  : bnb_out * list nat (* positions in the given pool, in sorted-pool order *) :=
  let tagged := sort_by (fun a b => descending sffo (snd a) (snd b))
                        (filter (fun p => 0 <? amt sffo (snd p)) (tag_pool pool)) in
  match bnb_core sffo (map snd tagged) target coc maxw with
  | BnbSome sel s w c t =>
    match pick_at 0 tagged sel with
    | Some ps => (BnbSome sel s w c t, map fst ps)
    | None => (BnbErr, [])
    end
  | o => (o, [])
  end.

(* ------------------------------------------------------------------------------------------- *)
(* CoinGrinder, transcribed.  The search loop has the shape of SelectCoinsBnB's (same deselect_last, SHIFT loop and
   clone skipping); the evaluation differs: minimum weight, ties broken by the lower amount.

   struct { bool operator()(const OutputGroup& a, const OutputGroup& b) const {
       if (a.GetSelectionAmount() == b.GetSelectionAmount()) { return a.m_weight < b.m_weight; }
       return a.GetSelectionAmount() > b.GetSelectionAmount(); } } descending_effval_weight; *)
Definition descending_effval_weight (sffo : bool) (a b : group) : bool :=
  if amt sffo a =? amt sffo b then g_weight a <? g_weight b else amt sffo b <? amt sffo a.

(* min_tail_weight[index] = minimum weight after index (std::numeric_limits<int>::max() after the last) *)
Fixpoint min_tail (l : list Z) : list Z * Z :=
  match l with
  | [] => ([], INT32_MAX)
  | w :: r => let '(mt, m) := min_tail r in (m :: mt, Z.min m w)
  end.

Section CG.
Variable pool : list group.
Variable sffo : bool.
Variable la : list Z.             (* lookahead *)
Variable mtw : list Z.            (* min_tail_weight *)
Variables total_target maxw : Z.

(* EVALUATE current selection (b_bestw holds best_selection_weight, best_amt is best_selection_amount):
       auto curr_tail = curr_selection.back();
       if (curr_amount + lookahead[curr_tail] < total_target) { should_cut = true; }
       else if (curr_weight > best_selection_weight) {
           if (curr_weight > max_selection_weight) max_tx_weight_exceeded = true;
           if (utxo_pool[curr_tail].m_weight <= min_tail_weight[curr_tail]) should_cut = true; else should_shift = true; }
       else if (curr_amount >= total_target) { should_shift = true;
           if (curr_weight < best_selection_weight || (curr_weight == best_selection_weight && curr_amount < best_selection_amount)) {
               best_selection = curr_selection; best_selection_weight = curr_weight; best_selection_amount = curr_amount; } }
       else if (!best_selection.empty() && curr_weight + int64_t{min_tail_weight[curr_tail]} *
                ((total_target - curr_amount + utxo_pool[curr_tail].GetSelectionAmount() - 1) / utxo_pool[curr_tail].GetSelectionAmount())
                > best_selection_weight) {
           if (utxo_pool[curr_tail].m_weight <= min_tail_weight[curr_tail]) should_cut = true; else should_shift = true; } *)
Definition cg_eval (st : bst) (best_amt : Z) (cs' : list nat) (amt' w' lah : Z) (u : group) (mt : Z)
  : bool * bool * bool * list nat * Z * Z :=
  let cut_not_shift := g_weight u <=? mt in
  if amt' + lah <? total_target then (true, false, b_mwe st, b_best st, b_bestw st, best_amt)
  else if b_bestw st <? w' then
    (cut_not_shift, negb cut_not_shift, (if maxw <? w' then true else b_mwe st), b_best st, b_bestw st, best_amt)
  else if total_target <=? amt' then
    if (w' <? b_bestw st) || ((w' =? b_bestw st) && (amt' <? best_amt))
    then (false, true, b_mwe st, cs', w', amt')
    else (false, true, b_mwe st, b_best st, b_bestw st, best_amt)
  else if negb (match b_best st with [] => true | _ => false end) &&
          (b_bestw st <? w' + mt * cdiv (total_target - amt' + amt sffo u - 1) (amt sffo u))
  then (cut_not_shift, negb cut_not_shift, b_mwe st, b_best st, b_bestw st, best_amt)
  else (false, false, b_mwe st, b_best st, b_bestw st, best_amt).

Inductive cg_out :=
| CgErr | CgFuel
| CgCont (st : bst) (best_amt : Z)
| CgStop (st : bst) (best_amt : Z) (completed : bool).

(* one iteration of `while (!is_done)`; b_waste is not used by CoinGrinder *)
Definition cg_iter (st : bst) (best_amt : Z) : cg_out :=
  match nth_error pool (b_next st), nth_error la (b_next st), nth_error mtw (b_next st) with
  | Some u, Some lah, Some mt =>
    let amt' := b_amt st + amt sffo u in
    let w' := b_w st + g_weight u in
    let cs' := b_next st :: b_cs st in
    let nxt' := S (b_next st) in
    let try' := b_try st + 1 in
    let '(cut, shift, mwe', best', bestw', bamt') := cg_eval st best_amt cs' amt' w' lah u mt in
    let st1 := mkB cs' amt' w' (b_waste st + gwaste u) best' bestw' nxt' try' mwe' in
    if TOTAL_TRIES <=? try' then CgStop st1 bamt' false
    else
      let cut := cut || Nat.eqb nxt' (length pool) in
      match (if cut then deselect_last pool sffo st1 else Some st1) with
      | None => CgErr
      | Some st2 =>
        if cut || shift then
          match shift_loop pool sffo (S (length pool)) st2 with
          | None => CgErr
          | Some (st3, done) => if done then CgStop st3 bamt' true else CgCont st3 bamt'
          end
        else CgCont st2 bamt'
      end
  | _, _, _ => CgErr
  end.

Fixpoint cg_loop (fuel : nat) (st : bst) (best_amt : Z) : cg_out :=
  match fuel with
  | O => CgFuel
  | S f => match cg_iter st best_amt with CgCont st' b' => cg_loop f st' b' | o => o end
  end.
End CG.

(* the search on the sorted pool; result in the shape of bnb_out (waste := the selection's weight) *)
Definition cg_core (sffo : bool) (pool : list group) (target change_target maxw : Z) : bnb_out :=
  let '(la, total_available) := lookahead (map (amt sffo) pool) in
  let '(mtw, _) := min_tail (map g_weight pool) in
  (* const CAmount total_target = selection_target + change_target;
     if (total_available < total_target) return util::Error(); *)
  let total_target := target + change_target in
  if total_available <? total_target then BnbNone false
  else
    (* best_selection_amount = MAX_MONEY; best_selection_weight = max_selection_weight *)
    match cg_loop pool sffo la mtw total_target maxw (Z.to_nat TOTAL_TRIES)
                  (mkB [] 0 0 0 [] maxw 0%nat 0 false) MAX_MONEY with
    | CgStop st _ completed =>
      match b_best st with
      | [] => BnbNone (b_mwe st)
      | best =>
        match pick_at 0 pool (rev best) with
        | Some s => BnbSome (rev best) s (b_bestw st) completed (b_try st)
        | None => BnbErr
        end
      end
    | _ => BnbErr
    end.

Definition coin_grinder (sffo : bool) (pool : list group) (target change_target maxw : Z)
  : bnb_out * list nat (* positions in the given pool, in sorted-pool order *) :=
  let tagged := sort_by (fun a b => descending_effval_weight sffo (snd a) (snd b))
                        (filter (fun p => 0 <? amt sffo (snd p)) (tag_pool pool)) in
  match cg_core sffo (map snd tagged) target change_target maxw with
  | BnbSome sel s w c t =>
    match pick_at 0 tagged sel with
    | Some ps => (BnbSome sel s w c t, map fst ps)
    | None => (BnbErr, [])
    end
  | o => (o, [])
  end.

(* ascending sort of positions, for printing *)
Definition sort_nat (l : list nat) : list nat := sort_by Nat.ltb l.

(* the result record the implementation would report for a selection given as positions *)
Definition result_of (P : sparams) (pool : list group) (sel : list nat) (done : bool) : option sresult :=
  match pick_at 0 pool sel with
  | None => None
  | Some s => Some (mkResult sel (sum_by g_value s) (sum_by g_eff s) (sel_weight s) (waste_of P s) done)
  end.
