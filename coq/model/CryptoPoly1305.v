(* C49 — Poly1305.
   Specification from RFC 8439 section 2.5 (clamp, accumulate 16-byte blocks with a 0x01 byte appended,
   multiply by r modulo 2^130 - 5, add s, low 128 bits little endian).
   Model of poly1305_donna::{poly1305_init, poly1305_update, poly1305_finish} (src/crypto/poly1305.cpp)
   at the level of the incremental interface: the `leftover` count, the 16-byte `buffer`, the `final`
   flag, which bytes are handed to poly1305_blocks and when.  The 26-bit limb arithmetic inside
   poly1305_blocks / poly1305_finish is modelled a second time at limb level in CryptoPoly1305Limbs.v;
   here a call poly1305_blocks(st, m, 16k) is   h := (h + block + hibit) * r  mod 2^130 - 5   per block.
   Executable definitions only. *)
From Coq Require Import NArith.
From BV Require Import lib.Ints model.CryptoBase.
Local Open Scope Z_scope.

(* ---------------- RFC 8439 2.5.1 ---------------- *)
Definition P1305 : Z := 2 ^ 130 - 5.
(* "r &= 0x0ffffffc0ffffffc0ffffffc0fffffff" *)
Definition poly_clamp (r : Z) : Z := Z.land r 0x0ffffffc0ffffffc0ffffffc0fffffff.

(* for i = 1 .. ceil(len/16):  n = le_bytes_to_num(msg[(i-1)*16 .. i*16] | [0x01]); a += n; a = (r * a) % p
   fuel = |msg| *)
Fixpoint poly_accumulate (fuel : nat) (r a : Z) (msg : list N) : Z :=
  match fuel with
  | O => a
  | S f =>
    match msg with
    | [] => a
    | _ => poly_accumulate f r ((r * (a + le_value (firstn 16 msg ++ [1%N]))) mod P1305) (skipn 16 msg)
    end
  end.

(* poly1305_mac(msg, key): r = le_bytes_to_num(key[0..15]) clamped; s = le_bytes_to_num(key[16..31]);
   a = accumulate; a += s; return num_to_16_le_bytes(a) *)
Definition poly1305_spec (key msg : list N) : list N :=
  let r := poly_clamp (le_value (firstn 16 key)) in
  let s := le_value (firstn 16 (skipn 16 key)) in
  le_bytes 16 (poly_accumulate (length msg) r 0 msg + s).

(* ---------------- poly1305_donna ---------------- *)
(* typedef struct { uint32_t r[5]; uint32_t h[5]; uint32_t pad[4]; size_t leftover;
                    unsigned char buffer[16]; unsigned char final; } poly1305_context;
   r, h, pad are kept here as the numbers the limbs represent *)
Record poly1305_ctx : Type :=
  { p_r : Z; p_h : Z; p_pad : Z; p_leftover : nat; p_buffer : list N; p_final : bool }.

(* poly1305_init: r = key[0..15] & 0xffffffc0ffffffc0ffffffc0fffffff (by limb masks); h = 0;
   pad = key[16..31]; leftover = 0; final = 0.  The buffer is not initialised. *)
Definition poly1305_init (uninitialised_buffer : list N) (key : list N) : poly1305_ctx :=
  {| p_r := poly_clamp (le_value (firstn 16 key)); p_h := 0;
     p_pad := le_value (firstn 16 (skipn 16 key)); p_leftover := 0;
     p_buffer := uninitialised_buffer; p_final := false |}.

(* static void poly1305_blocks(st, m, bytes):
     const uint32_t hibit = (st->final) ? 0 : (1UL << 24);   // 1 << 128
     while (bytes >= 16) { h += m[i] (with hibit); h *= r; (partial) h %= p; m += 16; bytes -= 16; } *)
Definition poly_block_step (r : Z) (final : bool) (h : Z) (block : list N) : Z :=
  let hibit := if final then 0 else 2 ^ 128 in
  ((h + le_value block + hibit) * r) mod P1305.
Fixpoint poly_blocks_h (n : nat) (r : Z) (final : bool) (h : Z) (m : list N) : Z :=
  match n with
  | O => h
  | S k => poly_blocks_h k r final (poly_block_step r final h (firstn 16 m)) (skipn 16 m)
  end.
Definition poly1305_blocks (st : poly1305_ctx) (m : list N) (bytes : nat) : poly1305_ctx :=
  {| p_r := p_r st; p_h := poly_blocks_h (bytes / 16) (p_r st) (p_final st) (p_h st) m;
     p_pad := p_pad st; p_leftover := p_leftover st; p_buffer := p_buffer st; p_final := p_final st |}.

Definition set_leftover (st : poly1305_ctx) (buf : list N) (lo : nat) : poly1305_ctx :=
  {| p_r := p_r st; p_h := p_h st; p_pad := p_pad st; p_leftover := lo; p_buffer := buf; p_final := p_final st |}.

(* void poly1305_update(poly1305_context *st, const unsigned char *m, size_t bytes)
   {
       if (st->leftover) {
           size_t want = (16 - st->leftover);
           if (want > bytes) want = bytes;
           for (i = 0; i < want; i++) st->buffer[st->leftover + i] = m[i];
           bytes -= want; m += want; st->leftover += want;
           if (st->leftover < 16) return;
           poly1305_blocks(st, st->buffer, 16);
           st->leftover = 0;
       }
       if (bytes >= 16) {
           size_t want = (bytes & ~(16 - 1));
           poly1305_blocks(st, m, want);
           m += want; bytes -= want;
       }
       if (bytes) {
           for (i = 0; i < bytes; i++) st->buffer[st->leftover + i] = m[i];
           st->leftover += bytes;
       }
   } *)
Definition poly1305_update_tail (st : poly1305_ctx) (m : list N) : poly1305_ctx :=
  let bytes := length m in
  let '(st2, m2) :=
    if (16 <=? bytes)%nat then
      let want := (bytes / 16 * 16)%nat in            (* bytes & ~15 *)
      (poly1305_blocks st m want, skipn want m)
    else (st, m) in
  if (0 <? length m2)%nat then
    set_leftover st2 (memcpy (p_buffer st2) (p_leftover st2) m2) (p_leftover st2 + length m2)
  else st2.

Definition poly1305_update (st : poly1305_ctx) (m : list N) : poly1305_ctx :=
  let bytes := length m in
  if negb (p_leftover st =? 0)%nat then
    let want := Nat.min (16 - p_leftover st) bytes in
    let buf' := memcpy (p_buffer st) (p_leftover st) (firstn want m) in
    let lo' := (p_leftover st + want)%nat in
    if (lo' <? 16)%nat then set_leftover st buf' lo'
    else
      let st1 := poly1305_blocks (set_leftover st buf' lo') buf' 16 in
      poly1305_update_tail (set_leftover st1 buf' 0) (skipn want m)
  else poly1305_update_tail st m.

(* void poly1305_finish(st, mac):
     if (st->leftover) { i = leftover; buffer[i++] = 1; for (; i < 16; i++) buffer[i] = 0; st->final = 1;
                         poly1305_blocks(st, st->buffer, 16); }
     fully carry h; compute h + -p; select h if h < p, or h + -p if h >= p;  (h is now the residue)
     mac = (h + pad) % 2^128, little endian *)
Definition poly1305_finish (st : poly1305_ctx) : list N :=
  let h :=
    if negb (p_leftover st =? 0)%nat then
      let buf' := firstn (p_leftover st) (p_buffer st) ++ [1%N] ++ zeros (16 - p_leftover st - 1) in
      poly_block_step (p_r st) true (p_h st) buf'
    else p_h st in
  le_bytes 16 ((h mod P1305 + p_pad st) mod 2 ^ 128).

(* Poly1305(key).Update(c1)....Update(cn).Finalize() *)
Definition poly1305_stream (ubuf key : list N) (chunks : list (list N)) : list N :=
  poly1305_finish (fold_left poly1305_update chunks (poly1305_init ubuf key)).
