(* C62 (family walletdb): the descriptor keypool counters of a wallet, its database record and the
   operations that hand out addresses.  Executable transcription of
     src/wallet/scriptpubkeyman.cpp  DescriptorScriptPubKeyMan::{TopUp, TopUpWithDB, GetNewDestination,
                                     GetReservedDestination, ReturnDestination, MarkUnusedAddresses, Load}
     src/wallet/wallet.cpp           CWallet::{GetNewDestination, GetNewChangeDestination, LoadExisting (TopUpKeyPool)},
                                     ReserveDestination::{GetReservedDestination, KeepDestination, ReturnDestination, ~}
   No proofs here.

   One descriptor = one `kp`: the in-memory counters and what the database record
   (DBKeys::WALLETDESCRIPTOR: descriptor string, creation_time, next_index, range_start, range_end) holds.
   Every mutating database call (TxnBegin, WriteKey, TxnCommit) takes its outcome from an oracle (a list of
   booleans consumed in call order; exhausted = success), so a theorem can quantify over failing writes. *)
From Coq Require Import ZArith List Bool Lia.
From BV Require Import lib.Ints.
Import ListNotations.
Open Scope Z_scope.

Record kp := mkKp {
  k_next : Z;    (* m_wallet_descriptor.next_index  (int32_t) *)
  k_rend : Z;    (* m_wallet_descriptor.range_end   (int32_t), range_start = 0 *)
  k_maxc : Z;    (* m_max_cached_index              (int32_t), -1 initially *)
  k_pnext : Z;   (* next_index in the database record *)
  k_prend : Z    (* range_end in the database record *)
}.

(* the oracle and the number of mutating database calls made so far *)
Definition oracle := (list bool * nat)%type.
Definition pop (o : oracle) : bool * oracle :=
  match fst o with
  | [] => (true, ([], S (snd o)))
  | b :: r => (b, (r, S (snd o)))
  end.

Inductive tu_res := TU_true | TU_false | TU_throw | TU_assert | TU_ub.

(* bool DescriptorScriptPubKeyMan::TopUp(unsigned int size)
   {
       WalletBatch batch(m_storage.GetDatabase());
       if (!batch.TxnBegin()) return false;
       bool res = TopUpWithDB(batch, size);
       if (!batch.TxnCommit()) throw std::runtime_error(...);      // ~WalletBatch rolls the open transaction back
       return res;
   }
   bool DescriptorScriptPubKeyMan::TopUpWithDB(WalletBatch& batch, unsigned int size)
   {
       unsigned int target_size = size > 0 ? size : m_keypool_size;
       int32_t new_range_end = std::max(m_wallet_descriptor.next_index + (int32_t)target_size, m_wallet_descriptor.range_end);
       ...
       for (int32_t i = m_max_cached_index + 1; i < new_range_end; ++i) {
           ... ExpandFromCache(i, ...) [succeeds: the parent xpub is cached]; new scripts into m_map_script_pub_keys
           ... WriteDescriptorCacheItems(id, new_items) [nothing new for a cached descriptor: no database call]
           m_max_cached_index++;
       }
       m_wallet_descriptor.range_end = new_range_end;
       batch.WriteDescriptor(GetID(), m_wallet_descriptor);        // RESULT NOT CHECKED
       assert(m_wallet_descriptor.range_end - 1 == m_max_cached_index);
       ...
       return true;
   }
   The int32 sum is computed in Z; where the C++ would overflow (undefined behaviour) the model answers TU_ub and
   changes nothing. *)
Definition topup (kpsize size : Z) (k : kp) (o : oracle) : kp * tu_res * oracle :=
  let (b, o1) := pop o in
  if negb b then (k, TU_false, o1) else
  let target := if 0 <? size then size else kpsize in
  if (target <? 0) || (INT32_MAX <? target) || (INT32_MAX <? k_next k + target) then (k, TU_ub, o1) else
  let new_rend := Z.max (k_next k + target) (k_rend k) in
  let maxc' := if k_maxc k + 1 <? new_rend then new_rend - 1 else k_maxc k in
  let (t, o2) := pop o1 in
  if negb (new_rend - 1 =? maxc') then (mkKp (k_next k) new_rend maxc' (k_pnext k) (k_prend k), TU_assert, o2) else
  let (c, o3) := pop o2 in
  if c then (mkKp (k_next k) new_rend maxc' (if t then k_next k else k_pnext k) (if t then new_rend else k_prend k), TU_true, o3)
  else (mkKp (k_next k) new_rend maxc' (k_pnext k) (k_prend k), TU_throw, o3).

Inductive gn_res :=
| GN_addr (i : Z) (m : bool)   (* the address of index i is returned; m = its script is in m_map_script_pub_keys (i <= m_max_cached_index) *)
| GN_out                       (* "Error: Keypool ran out, please call keypoolrefill first" *)
| GN_werr                      (* "Error: Failed to write the descriptor's next index to the wallet database" *)
| GN_throw | GN_assert | GN_ub.

Definition gn_of_tu (r : tu_res) : option gn_res :=
  match r with
  | TU_true | TU_false => None
  | TU_throw => Some GN_throw
  | TU_assert => Some GN_assert
  | TU_ub => Some GN_ub
  end.

(* util::Result<CTxDestination> DescriptorScriptPubKeyMan::GetNewDestination(const OutputType type)
   {
       if (!CanGetAddresses()) return util::Error{...};            // true: the descriptors have private keys
       ...
       TopUp();
       if (m_wallet_descriptor.range_end <= m_max_cached_index && !TopUp(1)) return util::Error{"Keypool ran out"};
       if (!m_wallet_descriptor.descriptor->ExpandFromCache(m_wallet_descriptor.next_index, ...)) return util::Error{"Keypool ran out"};
                                                                   // succeeds for every index: parent xpub cached
       ...
       m_wallet_descriptor.next_index++;
       if (!WalletBatch(m_storage.GetDatabase()).WriteDescriptor(GetID(), m_wallet_descriptor)) {
           // Do not hand out an address whose index was not persisted: after a restart it would be handed out again
           m_wallet_descriptor.next_index--;
           return util::Error{Untranslated("Error: Failed to write the descriptor's next index to the wallet database")};
       }
       return dest;
   }
   `checked` = true is this code.  `checked` = false is the code before the fix (the write's result ignored), kept so
   that the theorem showing why the check is needed stays stated about a transcription. *)
Definition get_new_gen (checked : bool) (kpsize : Z) (k : kp) (o : oracle) : kp * gn_res * oracle :=
  let '(k1, r1, o1) := topup kpsize 0 k o in
  match gn_of_tu r1 with
  | Some e => (k1, e, o1)
  | None =>
    let '(k2, stop, o2) :=
      if k_rend k1 <=? k_maxc k1 then
        let '(k2, r2, o2) := topup kpsize 1 k1 o1 in
        match r2 with
        | TU_true => (k2, None, o2)
        | TU_false => (k2, Some GN_out, o2)
        | TU_throw => (k2, Some GN_throw, o2)
        | TU_assert => (k2, Some GN_assert, o2)
        | TU_ub => (k2, Some GN_ub, o2)
        end
      else (k1, None, o1) in
    match stop with
    | Some e => (k2, e, o2)
    | None =>
      if INT32_MAX <=? k_next k2 then (k2, GN_ub, o2) else
      let (w, o3) := pop o2 in
      let n' := k_next k2 + 1 in
      if w then (mkKp n' (k_rend k2) (k_maxc k2) n' (k_rend k2), GN_addr (k_next k2) (k_next k2 <=? k_maxc k2), o3)
      else if checked then (k2, GN_werr, o3)
      else (mkKp n' (k_rend k2) (k_maxc k2) (k_pnext k2) (k_prend k2), GN_addr (k_next k2) (k_next k2 <=? k_maxc k2), o3)
    end
  end.
Definition get_new := get_new_gen true.

(* void DescriptorScriptPubKeyMan::ReturnDestination(int64_t index, bool internal, const CTxDestination& addr)
   {
       // Only return when the index was the most recent
       if (m_wallet_descriptor.next_index - 1 == index) m_wallet_descriptor.next_index--;
       WalletBatch(m_storage.GetDatabase()).WriteDescriptor(GetID(), m_wallet_descriptor);     // result not checked
       ...
   } *)
Definition return_dest (k : kp) (idx : Z) (o : oracle) : kp * oracle :=
  let n' := if k_next k - 1 =? idx then k_next k - 1 else k_next k in
  let (w, o1) := pop o in
  (mkKp n' (k_rend k) (k_maxc k) (if w then n' else k_pnext k) (if w then k_rend k else k_prend k), o1).

(* std::vector<WalletDestination> DescriptorScriptPubKeyMan::MarkUnusedAddresses(const CScript& script)
   {
       if (IsMine(script)) {                                  // script of index idx is in m_map_script_pub_keys: 0 <= idx <= m_max_cached_index
           int32_t index = m_map_script_pub_keys[script];
           if (index >= m_wallet_descriptor.next_index) {
               while (index >= m_wallet_descriptor.next_index) { ... result.push_back(...); m_wallet_descriptor.next_index++; }
           }
           if (!TopUp()) { log }
       }
       return result;
   } *)
Definition mark_used (kpsize : Z) (k : kp) (idx : Z) (o : oracle) : kp * (Z * tu_res) * oracle :=
  if (0 <=? idx) && (idx <=? k_maxc k) then
    let '(k1, cnt) := if k_next k <=? idx
                      then (mkKp (idx + 1) (k_rend k) (k_maxc k) (k_pnext k) (k_prend k), idx - k_next k + 1)
                      else (k, 0) in
    let '(k2, r, o1) := topup kpsize 0 k1 o in
    (k2, (cnt, r), o1)
  else (k, (0, TU_true), o).

(* loading: the constructor sets the counters from the record, Load() expands range_start..range_end from the cache
   (m_max_cached_index++ each), then CWallet::LoadExisting calls TopUpKeyPool() (no faults injected while loading). *)
Definition load_slot (kpsize : Z) (k : kp) : kp :=
  let k0 := mkKp (k_pnext k) (k_prend k) (if 0 <? k_prend k then k_prend k - 1 else -1) (k_pnext k) (k_prend k) in
  let '(k1, r, _) := topup kpsize 0 k0 ([], 0%nat) in
  match r with TU_true => k1 | _ => k0 end.

(* ------------------------------------------------------------------------------------------------ *)
(* the wallet: descriptors by slot (slot = 4 * internal + output type), outstanding ReserveDestination objects
   (id -> (slot, index), most recent first) *)
Record wst := mkW { w_kp : nat -> kp; w_res : list (nat * (nat * Z)); w_size : Z }.

Definition upd (f : nat -> kp) (s : nat) (k : kp) : nat -> kp := fun s' => if Nat.eqb s' s then k else f s'.

Fixpoint find_res (id : nat) (l : list (nat * (nat * Z))) : option (nat * Z) :=
  match l with
  | [] => None
  | (i, v) :: r => if Nat.eqb i id then Some v else find_res id r
  end.
Fixpoint remove_res (id : nat) (l : list (nat * (nat * Z))) : list (nat * (nat * Z)) :=
  match l with
  | [] => []
  | (i, v) :: r => if Nat.eqb i id then r else (i, v) :: remove_res id r
  end.

Inductive op :=
| OpNew (s : nat) (bits : list bool)              (* CWallet::GetNewDestination *)
| OpChg (s : nat) (bits : list bool)              (* CWallet::GetNewChangeDestination: reserve, keep *)
| OpRes (id s : nat) (bits : list bool)           (* ReserveDestination::GetReservedDestination *)
| OpKeep (id : nat)
| OpRet (id : nat) (bits : list bool)
| OpTop (s : nat) (n : Z) (bits : list bool)
| OpUsed (s : nat) (idx : Z) (bits : list bool)
| OpReload | OpCrash.

Inductive out :=
| OAddr (s : nat) (i : Z) (m : bool) (n : nat)    (* address of (s, i) handed out; m = the wallet watches it; n = database calls made *)
| ORes (s : nat) (i : Z) (m : bool) (n : nat)
| OKept (s : nat) (i : Z)
| ORet (n : nat) | ONoRes | ODupRes
| OTop (b : bool) (n : nat)
| OUsed (c : Z) (n : nat)
| OLoad
| OErrOut (n : nat) | OErrWrite (n : nat) | OExc (n : nat) | OAssert | OUb.

Definition gn_out (mk : nat -> Z -> bool -> nat -> out) (s : nat) (r : gn_res) (n : nat) : out :=
  match r with
  | GN_addr i w => mk s i w n
  | GN_out => OErrOut n
  | GN_werr => OErrWrite n
  | GN_throw => OExc n
  | GN_assert => OAssert
  | GN_ub => OUb
  end.

Definition tu_out (r : tu_res) (ok : nat -> out) (n : nat) : out :=
  match r with
  | TU_true | TU_false => ok n
  | TU_throw => OExc n
  | TU_assert => OAssert
  | TU_ub => OUb
  end.

(* ~ReserveDestination() { ReturnDestination(); } for every outstanding object, most recent first *)
Fixpoint return_all (f : nat -> kp) (l : list (nat * (nat * Z))) : nat -> kp :=
  match l with
  | [] => f
  | (_, (s, i)) :: r => return_all (upd f s (fst (return_dest (f s) i ([], 0%nat)))) r
  end.

Definition load (f : nat -> kp) (size : Z) : wst :=
  mkW (fun s => load_slot size (f s)) [] size.

Definition step (st : wst) (o : op) : wst * out :=
  match o with
  | OpNew s bits | OpChg s bits =>
    let '(k, r, orc) := get_new (w_size st) (w_kp st s) (bits, 0%nat) in
    (mkW (upd (w_kp st) s k) (w_res st) (w_size st), gn_out OAddr s r (snd orc))
  | OpRes id s bits =>
    match find_res id (w_res st) with
    | Some _ => (st, ODupRes)
    | None =>
      let '(k, r, orc) := get_new (w_size st) (w_kp st s) (bits, 0%nat) in
      (mkW (upd (w_kp st) s k)
           (match r with GN_addr i _ => (id, (s, i)) :: w_res st | _ => w_res st end) (w_size st),
       gn_out ORes s r (snd orc))
    end
  | OpKeep id =>
    match find_res id (w_res st) with
    | None => (st, ONoRes)
    | Some (s, i) => (mkW (w_kp st) (remove_res id (w_res st)) (w_size st), OKept s i)
    end
  | OpRet id bits =>
    match find_res id (w_res st) with
    | None => (st, ONoRes)
    | Some (s, i) =>
      let '(k, orc) := return_dest (w_kp st s) i (bits, 0%nat) in
      (mkW (upd (w_kp st) s k) (remove_res id (w_res st)) (w_size st), ORet (snd orc))
    end
  | OpTop s n bits =>
    let '(k, r, orc) := topup (w_size st) n (w_kp st s) (bits, 0%nat) in
    (mkW (upd (w_kp st) s k) (w_res st) (w_size st),
     tu_out r (OTop (match r with TU_true => true | _ => false end)) (snd orc))
  | OpUsed s idx bits =>
    let '(k, (c, r), orc) := mark_used (w_size st) (w_kp st s) idx (bits, 0%nat) in
    (mkW (upd (w_kp st) s k) (w_res st) (w_size st), tu_out r (OUsed c) (snd orc))
  | OpReload => (load (return_all (w_kp st) (w_res st)) (w_size st), OLoad)
  | OpCrash => (load (w_kp st) (w_size st), OLoad)
  end.

Fixpoint run (st : wst) (ops : list op) : list out * wst :=
  match ops with
  | [] => ([], st)
  | o :: r => let '(st1, x) := step st o in let '(xs, st2) := run st1 r in (x :: xs, st2)
  end.

(* a freshly created wallet (SetupDescriptorGeneration: next_index 0, TopUpWithDB inside the creation transaction,
   then TopUpKeyPool): every descriptor has range [0, keypool size) cached and recorded *)
Definition init_kp (size : Z) : kp := mkKp 0 size (size - 1) 0 size.
Definition init (size : Z) : wst := mkW (fun _ => init_kp size) [] size.

(* what the property talks about: the (descriptor, index) pairs whose addresses were handed out for use *)
Definition handed_of (x : out) : list (nat * Z) :=
  match x with
  | OAddr s i _ _ => [(s, i)]
  | OKept s i => [(s, i)]
  | _ => []
  end.
Definition handed (xs : list out) : list (nat * Z) := flat_map handed_of xs.

(* executable predicate of the property on a list of handed-out (slot, index) pairs: no repeat *)
Definition pair_eqb (a b : nat * Z) : bool := Nat.eqb (fst a) (fst b) && (snd a =? snd b).
Fixpoint memb (a : nat * Z) (l : list (nat * Z)) : bool :=
  match l with [] => false | b :: r => pair_eqb a b || memb a r end.
Fixpoint holds_distinct (l : list (nat * Z)) : bool :=
  match l with [] => true | a :: r => negb (memb a r) && holds_distinct r end.
