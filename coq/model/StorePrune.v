(* Block-file pruning.  Transcribed from
     src/validation.cpp            Chainstate::FlushStateToDisk (last_prune from the prune locks),
                                   Chainstate::GetPruneRange, Chainstate::DisconnectTip (locks move back)
     src/node/blockstorage.cpp     BlockManager::FindFilesToPrune, FindFilesToPruneManual, CalculateCurrentUsage
   Executable definitions only. *)
From BV Require Import lib.Ints gen.Params_gen.
Local Open Scope Z_scope.

(* CBlockFileInfo fields used by pruning (unsigned ints in C++) *)
Record file_info := { f_size : Z; f_undo : Z; f_hfirst : Z; f_hlast : Z }.

(* static constexpr int PRUNE_LOCK_BUFFER{10};   (file-local in validation.cpp: not generated;
   tied by the correspondence at the lock boundaries) *)
Definition PRUNE_LOCK_BUFFER : Z := 10.

(* int last_prune{m_chain.Height()};
   for (const auto& prune_lock : m_blockman.m_prune_locks) {
       if (prune_lock.second.height_first == std::numeric_limits<int>::max()) continue;
       const int lock_height{prune_lock.second.height_first - PRUNE_LOCK_BUFFER - 1};
       last_prune = std::max(1, std::min(last_prune, lock_height)); } *)
Fixpoint last_prune_of (lp : Z) (locks : list Z) : Z :=
  match locks with
  | [] => lp
  | l :: r =>
    if l =? INT32_MAX then last_prune_of lp r
    else last_prune_of (Z.max 1 (Z.min lp (wrap32 (l - PRUNE_LOCK_BUFFER - 1)))) r
  end.

(* std::pair<int,int> Chainstate::GetPruneRange(int last_height_can_prune) const
   { if (m_chain.Height() <= 0) return {0, 0};
     int prune_start{0};
     if (m_from_snapshot_blockhash && m_assumeutxo != Assumeutxo::VALIDATED) prune_start = SnapshotBase()->nHeight + 1;
     int max_prune = std::max<int>(0, m_chain.Height() - static_cast<int>(MIN_BLOCKS_TO_KEEP));
     int prune_end = std::min(last_height_can_prune, max_prune);
     return {prune_start, prune_end}; } *)
Definition get_prune_range (tip : Z) (unvalidated_snapshot_base : option Z) (last_can_prune : Z) : Z * Z :=
  if tip <=? 0 then (0, 0)
  else
    let prune_start := match unvalidated_snapshot_base with Some b => wrap32 (b + 1) | None => 0 end in
    let max_prune := Z.max 0 (wrap32 (tip - MIN_BLOCKS_TO_KEEP)) in
    (prune_start, Z.min last_can_prune max_prune).

(* uint64_t CalculateCurrentUsage(): sum of nSize + nUndoSize *)
(* nSize and nUndoSize are `unsigned int`: `file.nSize + file.nUndoSize` is a 32-bit unsigned addition
   both in CalculateCurrentUsage and in `nBytesToPrune = fileinfo.nSize + fileinfo.nUndoSize` *)
Definition file_bytes (f : file_info) : Z := wrapu32 (f_size f + f_undo f).
Definition current_usage (files : list file_info) : Z := wrapu64 (zsum (map file_bytes files)).

(* fileinfo.nHeightLast > (unsigned)last_block_can_prune || fileinfo.nHeightFirst < (unsigned)min_block_to_prune *)
Definition out_of_range (f : file_info) (rng : Z * Z) : bool :=
  (f_hlast f >? wrapu32 (snd rng)) || (f_hfirst f <? wrapu32 (fst rng)).

(* the loop of FindFilesToPrune: returns the pruned file numbers in order *)
Fixpoint prune_loop (files : list file_info) (n : Z) (usage buffer target : Z) (rng : Z * Z) : list Z :=
  match files with
  | [] => []
  | f :: r =>
    if f_size f =? 0 then prune_loop r (n + 1) usage buffer target rng
    else if wrapu64 (usage + buffer) <? target then []                                  (* break *)
    else if out_of_range f rng then prune_loop r (n + 1) usage buffer target rng      (* continue *)
    else n :: prune_loop r (n + 1) (wrapu64 (usage - file_bytes f)) buffer target rng
  end.

Record prune_env := {
  pe_tip : Z;                      (* chain.m_chain.Height() *)
  pe_prune_target : Z;             (* GetPruneTarget() *)
  pe_num_chainstates : Z;          (* 2 if a historical chainstate exists, else 1 *)
  pe_prune_after_height : Z;       (* chainparams.PruneAfterHeight() *)
  pe_ibd : bool;                   (* chainman.IsInitialBlockDownload() *)
  pe_best_header_height : Z;       (* chainman.m_best_header->nHeight *)
  pe_snapshot_base : option Z;     (* Some h: snapshot chainstate not yet validated, base height h *)
  pe_locks : list Z                (* height_first of every prune lock *)
}.

Definition prune_target_of (e : prune_env) : Z :=
  Z.max MIN_DISK_SPACE_FOR_BLOCK_FILES (pe_prune_target e / pe_num_chainstates e).

(* void BlockManager::FindFilesToPrune(setFilesToPrune, last_prune, chain, chainman) *)
Definition find_files_to_prune (e : prune_env) (files : list file_info) (last_prune : Z) : list Z :=
  let target := prune_target_of e in
  if (pe_tip e <? 0) || (target =? 0) then []
  else if pe_tip e <=? pe_prune_after_height e then []
  else
    let rng := get_prune_range (pe_tip e) (pe_snapshot_base e) last_prune in
    let usage := current_usage files in
    let buffer := BLOCKFILE_CHUNK_SIZE + UNDOFILE_CHUNK_SIZE in
    if wrapu64 (usage + buffer) >=? target then
      let buffer' :=
        if pe_ibd e && (pe_best_header_height e >? pe_tip e)
        then wrapu64 (buffer + 1000000 * (pe_best_header_height e - pe_tip e)) else buffer in
      prune_loop files 0 usage buffer' target rng
    else [].

(* void BlockManager::FindFilesToPruneManual(setFilesToPrune, nManualPruneHeight, chain) *)
Fixpoint manual_loop (files : list file_info) (n : Z) (rng : Z * Z) : list Z :=
  match files with
  | [] => []
  | f :: r =>
    if (f_size f =? 0) || out_of_range f rng then manual_loop r (n + 1) rng
    else n :: manual_loop r (n + 1) rng
  end.
Definition find_files_to_prune_manual (e : prune_env) (files : list file_info) (height : Z) : list Z :=
  if pe_tip e <? 0 then []
  else manual_loop files 0 (get_prune_range (pe_tip e) (pe_snapshot_base e) height).

(* the pruning part of FlushStateToDisk: manual > 0 selects the manual variant *)
Definition flush_prune (e : prune_env) (files : list file_info) (manual : Z) : list Z :=
  let last_prune := last_prune_of (pe_tip e) (pe_locks e) in
  if manual >? 0 then find_files_to_prune_manual e files (Z.min last_prune manual)
  else find_files_to_prune e files last_prune.

(* DisconnectTip of the block at height h:
   const int max_height_first{pindexDelete->nHeight - 1};
   for (auto& prune_lock : m_prune_locks) { if (height_first <= max_height_first) continue; height_first = max_height_first; } *)
Definition locks_after_disconnect (h : Z) (locks : list Z) : list Z :=
  map (fun l => if l <=? h - 1 then l else h - 1) locks.

(* ---- what the property needs to talk about ---- *)
Definition nth_file (files : list file_info) (n : Z) : option file_info :=
  if n <? 0 then None else nth_error files (Z.to_nat n).

(* Executable predicate for the violation search, evaluated on the set of files the implementation
   pruned.  A pruned file violates the property when its highest block is within 288 of the tip,
   at or above a prune lock, or its lowest block is at or below an unvalidated snapshot base.
   Two corner classes are told apart because the unchanged code really has them (DESIGN.md 9.5):
     verdict 1: the only violated clause is the 288-window and the file's highest block is height 0
                (GetPruneRange clamps max_prune at 0: with tip < 288 a file holding only genesis is prunable)
     verdict 2: (else) the only violated clauses are locks at height 0 or 1 and the file's highest
                block is <= 1 (last_prune is clamped at 1)
     verdict 3: any other violation.   verdict 0: fine. *)
Definition window_bad (e : prune_env) (f : file_info) : bool := f_hlast f >? pe_tip e - 288.
Definition lock_bad (f : file_info) (l : Z) : bool := negb (l =? INT32_MAX) && (l <=? f_hlast f).
Definition snapshot_bad (e : prune_env) (f : file_info) : bool :=
  match pe_snapshot_base e with Some b => f_hfirst f <=? b | None => false end.
Definition file_verdict (e : prune_env) (f : file_info) : Z :=
  let wb := window_bad e f in
  let lb := existsb (lock_bad f) (pe_locks e) in
  let sb := snapshot_bad e f in
  if negb wb && negb lb && negb sb then 0
  else if sb then 3
  else if lb && negb (f_hlast f <=? 1) then 3
  else if wb && negb (f_hlast f <=? 0) then 3
  else if wb then 1 else 2.
Definition pruned_verdict (e : prune_env) (files : list file_info) (pruned : list Z) : Z :=
  fold_left (fun acc n => match nth_file files n with Some f => Z.max acc (file_verdict e f) | None => 3 end) pruned 0.
