(* C25 -- TxGraph (src/txgraph.h, src/txgraph.cpp): the interface-level model.

   What is modelled is the behaviour that txgraph.h DOCUMENTS for the public interface, including the
   two places where the documented behaviour differs from an eager "naive graph":

   (1) txgraph.h, RemoveTransaction:
         "TxGraph may internally reorder transaction removals with dependency additions for
          performance reasons. If together with any transaction removal all its descendants, or all
          its ancestors, are removed as well (which is what always happens in realistic scenarios),
          this reordering will not affect the behavior of TxGraph.
          As an example, imagine 3 transactions A,B,C where B depends on A. If a dependency of C on B
          is added, and then B is deleted, C will still depend on A. If the deletion of B is reordered
          before the C->B dependency is added, the dependency adding has no effect."
       In txgraph.cpp this is ClusterSet::m_deps_to_add (queued by AddDependency, applied by
       ApplyDependencies only when an inspector needs it and only if the level is not oversized) versus
       ClusterSet::m_to_remove (always applied first: GroupClusters -> SplitAll -> ApplyRemovals; "Skip
       dependencies for which the parent or child transaction is removed").
       A level is therefore:  applied ancestry A (transitively closed; DepGraph::RemoveTransactions keeps
       the ancestry that went through a removed transaction) + the queue P of pending dependencies.
   (2) txgraph.h, IsOversized: "Removing a transaction by destroying its Ref while staging exists will
       not clear main's oversizedness until staging is aborted or committed."  (UnlinkRef: "Do not wipe
       the oversized state of main if staging exists".)  -> s_sticky.

   The eager naive graph of the fuzz harness (SimTxGraph: DepGraph with AddDependencies /
   RemoveTransactions) is the component l_H restricted to the live transactions: l_H is the transitive
   closure of every dependency ever accepted at the level, never shrunk by removals ("ancestry through
   removed transactions"). proofs/TxGraphInv.v proves that the two agree on every run in which each
   removal takes a transaction without ancestors or without descendants (the header's condition).

   Nothing here predicts the ORDERING answers (linearizations are produced by a randomised optimiser);
   those are validated: see order_checks / walk_checks / diagram_checks / trim_checks below, whose
   soundness is proved in proofs/TxGraphValid.v. *)
From Coq Require Import List ZArith Bool Arith Lia.
From BV Require Import lib.Ints model.Fee model.Lin.
Import ListNotations.
Local Open Scope Z_scope.

(* ------------------------------------------------------------------------------------------- *)
(* finite relations on transaction ids; a pair (a, d) reads "a is a strict ancestor of d" *)
Definition rel := list (nat * nat).
Definition pair_eqb (e f : nat * nat) : bool := Nat.eqb (fst e) (fst f) && Nat.eqb (snd e) (snd f).
Definition rmem (e : nat * nat) (R : rel) : bool := existsb (pair_eqb e) R.
Definition radd (e : nat * nat) (R : rel) : rel := if rmem e R then R else e :: R.
Definition ancs_strict (R : rel) (x : nat) : list nat := map fst (filter (fun e => Nat.eqb (snd e) x) R).
Definition descs_strict (R : rel) (x : nat) : list nat := map snd (filter (fun e => Nat.eqb (fst e) x) R).

(* cluster_linearize.h, DepGraph::AddDependencies(parents, child):
     // Compute the ancestors of parents that are not already ancestors of child.
     ...
     // To each such ancestor, add as descendants the descendants of the child.
     const auto& chl_des = entries[child].descendants;
     for (auto anc_of_par : par_anc) entries[anc_of_par].descendants |= chl_des;
     // To each descendant of the child, add those ancestors.
     for (auto dec_of_chl : Descendants(child)) entries[dec_of_chl].ancestors |= par_anc;
   i.e. every (ancestor-or-self of parent, descendant-or-self of child) becomes related. *)
Definition add_closed (R : rel) (p c : nat) : rel :=
  fold_right radd R (list_prod (p :: ancs_strict R p) (c :: descs_strict R c)).

(* GenericClusterImpl::ApplyDependencies: all queued (parent, child) pairs of the group *)
Definition apply_deps (A P : rel) : rel := fold_left (fun R e => add_closed R (fst e) (snd e)) P A.

(* DepGraph::RemoveTransactions(del): "Remove the deleted transactions from ancestors/descendants of
   other transactions. Note that the deleted positions will retain old feerate and dependency
   information" -- the remaining transactions keep every relation between themselves. *)
Definition rm_rel (x : nat) (R : rel) : rel :=
  filter (fun e => negb (Nat.eqb (fst e) x) && negb (Nat.eqb (snd e) x)) R.

(* ------------------------------------------------------------------------------------------- *)
(* one graph (main or staging) *)
Record level := mkLevel {
  l_txs : list (nat * FF);   (* live transactions with FeePerWeight (fee, size), in insertion order *)
  l_A : rel;                 (* applied ancestry between live transactions (Cluster DepGraphs) *)
  l_P : rel;                 (* ClusterSet::m_deps_to_add restricted to live endpoints *)
  l_H : rel                  (* closure of every dependency accepted at this level, never shrunk *)
}.
Definition empty_level : level := mkLevel [] [] [] [].
Definition ids (lv : level) : list nat := map fst (l_txs lv).
Definition live (lv : level) (i : nat) : bool := memn i (ids lv).
Fixpoint lookup (i : nat) (l : list (nat * FF)) : option FF :=
  match l with
  | [] => None
  | t :: r => if Nat.eqb (fst t) i then Some (snd t) else lookup i r
  end.
(* the would-be ancestry once everything pending is applied (what GroupClusters anticipates) *)
Definition would (lv : level) : rel := apply_deps (l_A lv) (l_P lv).

(* ------------------------------------------------------------------------------------------- *)
(* clusters = connected components: every transaction carries a label, an edge merges two labels
   (the union-find of TxGraphImpl::GroupClusters, without the ranks) *)
Definition relabel (la ld : nat) (L : list (nat * nat)) : list (nat * nat) :=
  map (fun t => (fst t, if Nat.eqb (snd t) ld then la else snd t)) L.
Fixpoint lab (L : list (nat * nat)) (x : nat) : option nat :=
  match L with
  | [] => None
  | t :: r => if Nat.eqb (fst t) x then Some (snd t) else lab r x
  end.
Definition merge_edge (L : list (nat * nat)) (e : nat * nat) : list (nat * nat) :=
  match lab L (fst e), lab L (snd e) with
  | Some la, Some ld => relabel la ld L
  | _, _ => L
  end.
Definition labels (idl : list nat) (R : rel) : list (nat * nat) :=
  fold_left merge_edge R (map (fun i => (i, i)) idl).
Definition same_cluster (L : list (nat * nat)) (x y : nat) : bool :=
  match lab L x, lab L y with
  | Some a, Some b => Nat.eqb a b
  | _, _ => false
  end.
Definition cluster_in (idl : list nat) (L : list (nat * nat)) (x : nat) : list nat :=
  filter (fun y => same_cluster L x y) idl.
Definition cluster_txs (txs : list (nat * FF)) (L : list (nat * nat)) (x : nat) : list (nat * FF) :=
  filter (fun t => same_cluster L x (fst t)) txs.
Definition total_size (c : list (nat * FF)) : Z := fold_right (fun t a => snd (snd t) + a) 0 c.

(* TxGraphImpl::GroupClusters:
     // Detect oversizedness.
     if (total_count > m_max_cluster_count || total_size > m_max_cluster_size) {
         clusterset.m_oversized = true;
   and AddTransaction: bool oversized = uint64_t(feerate.size) > m_max_cluster_size (a singleton
   cluster over the size limit). Sizes are positive int32, at most 64*... transactions: no wrap. *)
Definition over_limits (mc ms : Z) (c : list (nat * FF)) : bool :=
  (mc <? Z.of_nat (length c)) || (ms <? total_size c).
Definition oversized_rel (mc ms : Z) (txs : list (nat * FF)) (R : rel) : bool :=
  let L := labels (map fst txs) R in
  existsb (fun t => over_limits mc ms (cluster_txs txs L (fst t))) txs.
Definition oversized_calc (mc ms : Z) (lv : level) : bool := oversized_rel mc ms (l_txs lv) (would lv).

(* ------------------------------------------------------------------------------------------- *)
(* mutators on one level *)
Definition lv_add (i : nat) (f : FF) (lv : level) : level :=
  mkLevel (l_txs lv ++ [(i, f)]) (l_A lv) (l_P lv) (l_H lv).
(* RemoveTransaction queues in m_to_remove; ApplyRemovals always runs before anything that could
   observe or use the removed transaction, and pending dependencies with a removed end are skipped *)
Definition lv_rm (i : nat) (lv : level) : level :=
  mkLevel (filter (fun t => negb (Nat.eqb (fst t) i)) (l_txs lv)) (rm_rel i (l_A lv)) (rm_rel i (l_P lv)) (l_H lv).
(* AddDependency: "If either transaction is already removed, this is a no-op."  The test
   p = c || (c, p) in H is the DRIVERS' guard for the interface precondition "Parent may not be a
   descendant of child already" (both drivers skip the call), H being a superset of the real relation. *)
Definition lv_dep (p c : nat) (lv : level) : level :=
  if Nat.eqb p c || rmem (c, p) (l_H lv) then lv
  else if live lv p && live lv c
       then mkLevel (l_txs lv) (l_A lv) (l_P lv ++ [(p, c)]) (add_closed (l_H lv) p c)
       else lv.
Definition lv_fee (i : nat) (fee : Z) (lv : level) : level :=
  mkLevel (map (fun t => if Nat.eqb (fst t) i then (fst t, (fee, snd (snd t))) else t) (l_txs lv))
          (l_A lv) (l_P lv) (l_H lv).
(* ApplyDependencies(level):
     if (clusterset.m_oversized == true) return;
     GroupClusters(level); ...
     if (clusterset.m_oversized == true) return;
     ... Merge ... ApplyDependencies ...; clusterset.m_deps_to_add.clear(); *)
Definition lv_apply (ov : bool) (lv : level) : level :=
  if ov then lv else mkLevel (l_txs lv) (would lv) [] (l_H lv).

(* ------------------------------------------------------------------------------------------- *)
Record state := mkState {
  s_mc : Z;                  (* max_cluster_count *)
  s_ms : Z;                  (* max_cluster_size *)
  s_main : level;
  s_stag : option level;
  s_sticky : bool;           (* main's m_oversized while staging exists *)
  s_used : list nat          (* ids whose Ref was handed to AddTransaction *)
}.
Definition init_state (mc ms : Z) : state := mkState mc ms empty_level None false [].
Definition top (s : state) : level := match s_stag s with Some l => l | None => s_main s end.
Definition with_top (s : state) (l : level) : state :=
  match s_stag s with
  | Some _ => mkState (s_mc s) (s_ms s) (s_main s) (Some l) (s_sticky s) (s_used s)
  | None => mkState (s_mc s) (s_ms s) l None (s_sticky s) (s_used s)
  end.
Definition main_oversized (s : state) : bool :=
  match s_stag s with
  | Some _ => s_sticky s
  | None => oversized_calc (s_mc s) (s_ms s) (s_main s)
  end.
Definition stag_oversized (s : state) : bool :=
  match s_stag s with
  | Some l => oversized_calc (s_mc s) (s_ms s) l
  | None => false
  end.
(* every inspector that needs ancestry starts with ApplyDependencies(level) *)
Definition normalize (s : state) : state :=
  mkState (s_mc s) (s_ms s)
          (lv_apply (main_oversized s) (s_main s))
          (option_map (fun l => lv_apply (oversized_calc (s_mc s) (s_ms s) l) l) (s_stag s))
          (s_sticky s) (s_used s).

Inductive op :=
| OAdd (i : nat) (fee size : Z)
| ORm (i : nat)
| ODep (p c : nat)
| OFee (i : nat) (fee : Z)
| ODestroy (i : nat)
| OStart | OCommit | OAbort
| OTrim (removed : list nat)      (* what the implementation's Trim() returned *)
| OWork                            (* DoWork: begins with ApplyDependencies(top) *)
| OQuery.                          (* the drivers' dump: inspectors on every level *)

Definition step (s : state) (o : op) : state :=
  match o with
  | OAdd i fee size =>
      if memn i (s_used s) || (size <=? 0) then s
      else let s1 := with_top s (lv_add i (fee, size) (top s)) in
           mkState (s_mc s1) (s_ms s1) (s_main s1) (s_stag s1) (s_sticky s1) (i :: s_used s1)
  | ORm i => with_top s (lv_rm i (top s))
  | ODep p c => with_top s (lv_dep p c (top s))
  | OFee i fee =>
      (* SetTransactionFee: "in both the main graph and the staging graph if it exists" *)
      mkState (s_mc s) (s_ms s) (lv_fee i fee (s_main s)) (option_map (lv_fee i fee) (s_stag s)) (s_sticky s) (s_used s)
  | ODestroy i =>
      (* ~Ref -> UnlinkRef: "Mark the transaction as to be removed in all levels where it explicitly or
         implicitly exists"; main's cached oversizedness is left alone while staging exists *)
      mkState (s_mc s) (s_ms s) (lv_rm i (s_main s)) (option_map (lv_rm i) (s_stag s)) (s_sticky s) (s_used s)
  | OStart =>
      (* StartStaging: SplitAll(0); ApplyDependencies(0); then copy (m_deps_to_add and m_oversized too) *)
      match s_stag s with
      | Some _ => s
      | None =>
          let ov := oversized_calc (s_mc s) (s_ms s) (s_main s) in
          let m := lv_apply ov (s_main s) in
          mkState (s_mc s) (s_ms s) m (Some m) ov (s_used s)
      end
  | OCommit =>
      match s_stag s with
      | Some l => mkState (s_mc s) (s_ms s) l None false (s_used s)
      | None => s
      end
  | OAbort =>
      match s_stag s with
      | Some _ => mkState (s_mc s) (s_ms s) (s_main s) None false (s_used s)
      | None => s
      end
  | OTrim removed => with_top s (fold_left (fun l i => lv_rm i l) removed (top s))
  | OWork => normalize s
  | OQuery => normalize s
  end.
Definition run (s : state) (l : list op) : state := fold_left step l s.

(* ------------------------------------------------------------------------------------------- *)
(* structural answers *)
Definition q_ancestors (lv : level) (x : nat) : list nat :=
  if live lv x then x :: ancs_strict (would lv) x else [].
Definition q_descendants (lv : level) (x : nat) : list nat :=
  if live lv x then x :: descs_strict (would lv) x else [].
Definition lv_labels (lv : level) : list (nat * nat) := labels (ids lv) (would lv).
Definition q_cluster (lv : level) (x : nat) : list nat := cluster_in (ids lv) (lv_labels lv) x.
Definition q_count_distinct (lv : level) (refs : list nat) : Z :=
  let L := lv_labels lv in
  Z.of_nat (length (nodup Nat.eq_dec (flat_map (fun r => match lab L r with Some l => [l] | None => [] end) refs))).
Definition q_anc_union (lv : level) (refs : list nat) : list nat := flat_map (q_ancestors lv) refs.
Definition q_desc_union (lv : level) (refs : list nat) : list nat := flat_map (q_descendants lv) refs.
(* GetIndividualFeerate: the main graph is looked at first, then staging *)
Definition q_feerate (s : state) (i : nat) : option FF :=
  match lookup i (l_txs (s_main s)) with
  | Some f => Some f
  | None => match s_stag s with Some l => lookup i (l_txs l) | None => None end
  end.

(* the naive (eager) graph: H restricted to live transactions *)
Definition naive_rel (lv : level) : rel := filter (fun e => live lv (fst e) && live lv (snd e)) (l_H lv).

(* ------------------------------------------------------------------------------------------- *)
(* small executable helpers for the checks *)
Fixpoint nodupb (l : list nat) : bool :=
  match l with [] => true | x :: r => negb (memn x r) && nodupb r end.
Definition subsetb (a b : list nat) : bool := forallb (fun x => memn x b) a.
Definition set_eqb (a b : list nat) : bool := subsetb a b && subsetb b a.
(* a duplicate-free list with exactly the elements of the expected set *)
Definition is_set_of (answer expected : list nat) : bool := nodupb answer && set_eqb answer expected.
Fixpoint list_eqb (a b : list nat) : bool :=
  match a, b with
  | [], [] => true
  | x :: r, y :: q => Nat.eqb x y && list_eqb r q
  | _, _ => false
  end.
Definition ff_eqb (a b : FF) : bool := (fst a =? fst b) && (snd a =? snd b).
Fixpoint ffs_eqb (a b : list FF) : bool :=
  match a, b with
  | [], [] => true
  | x :: r, y :: q => ff_eqb x y && ffs_eqb r q
  | _, _ => false
  end.
Fixpoint assoc {A : Type} (i : nat) (l : list (nat * A)) : option A :=
  match l with
  | [] => None
  | t :: r => if Nat.eqb (fst t) i then Some (snd t) else assoc i r
  end.
Fixpoint index_of (x : nat) (l : list nat) : option nat :=
  match l with
  | [] => None
  | y :: r => if Nat.eqb x y then Some O else option_map S (index_of x r)
  end.
Definition cmp_eqb (a b : comparison) : bool :=
  match a, b with Eq, Eq => true | Lt, Lt => true | Gt, Gt => true | _, _ => false end.
Fixpoint with_fees (txs : list (nat * FF)) (l : list nat) : option (list (nat * FF)) :=
  match l with
  | [] => Some []
  | i :: r => match lookup i txs, with_fees txs r with
              | Some f, Some q => Some ((i, f) :: q)
              | _, _ => None
              end
  end.
Definition is_nil {A : Type} (l : list A) : bool := match l with [] => true | _ => false end.

(* ------------------------------------------------------------------------------------------- *)
(* what the C++ driver prints for one level *)
Record lobs := mkLobs {
  o_n : Z;                              (* GetTransactionCount *)
  o_ov : bool;                          (* IsOversized *)
  o_ex : list nat;                      (* ids for which Exists() *)
  o_detail : bool;                      (* the inspectors below were called (level not oversized) *)
  o_anc : list (nat * list nat);        (* GetAncestors per existing id *)
  o_desc : list (nat * list nat);       (* GetDescendants *)
  o_clu : list (nat * list nat);        (* GetCluster, in the returned (linearization) order *)
  o_ne : list nat;                      (* non-existing ids with a non-empty answer *)
  o_cdc : list Z;                       (* CountDistinctClusters per subset *)
  o_au : list (list nat);               (* GetAncestorsUnion per subset *)
  o_du : list (list nat)                (* GetDescendantsUnion per subset *)
}.

Definition per_id_ok (idl : list nat) (answers : list (nat * list nat)) (expected : nat -> list nat) : bool :=
  Nat.eqb (length answers) (length idl) &&
  forallb (fun i => match assoc i answers with Some l => is_set_of l (expected i) | None => false end) idl.
Fixpoint zs_eqb (a b : list Z) : bool :=
  match a, b with
  | [], [] => true
  | x :: r, y :: q => (x =? y) && zs_eqb r q
  | _, _ => false
  end.
Fixpoint sets_ok (answers expected : list (list nat)) : bool :=
  match answers, expected with
  | [], [] => true
  | a :: r, e :: q => is_set_of a e && sets_ok r q
  | _, _ => false
  end.

(* numbered clauses: (code, holds) -- the OCaml driver only maps codes to names *)
Definition struct_checks (lv : level) (ov : bool) (subsets : list (list nat)) (o : lobs) : list (nat * bool) :=
  [ (1%nat, o_n o =? Z.of_nat (length (l_txs lv)));
    (2%nat, eqb (o_ov o) ov);
    (3%nat, is_set_of (o_ex o) (ids lv));
    (4%nat, eqb (o_detail o) (negb ov)) ] ++
  (if ov then [] else
  [ (5%nat, per_id_ok (ids lv) (o_anc o) (q_ancestors lv));
    (6%nat, per_id_ok (ids lv) (o_desc o) (q_descendants lv));
    (7%nat, per_id_ok (ids lv) (o_clu o) (q_cluster lv));
    (8%nat, is_nil (o_ne o));
    (9%nat, zs_eqb (o_cdc o) (map (q_count_distinct lv) subsets));
    (10%nat, sets_ok (o_au o) (map (q_anc_union lv) subsets));
    (11%nat, sets_ok (o_du o) (map (q_desc_union lv) subsets)) ]).

(* ------------------------------------------------------------------------------------------- *)
(* ordering answers of the main graph (only asked when main is not oversized) *)
Definition chunk := (list nat * FF)%type.
Record oobs := mkOobs {
  b_cf : list (nat * FF);               (* GetMainChunkFeerate per existing id *)
  b_cmp : list (list comparison);       (* CompareMainOrder(i, j), rows and columns in o_ex order *)
  b_bb : list chunk;                    (* BlockBuilder: GetCurrentChunk / Include until exhausted *)
  b_has_walk : bool;
  b_walk : list (bool * chunk);         (* a second builder with Skip() on the flagged chunks *)
  b_wc : chunk                          (* GetWorstMainChunk *)
}.

Definition chunk_eqb (a b : chunk) : bool := list_eqb (fst a) (fst b) && ff_eqb (snd a) (snd b).
Fixpoint chunks_eqb (a b : list chunk) : bool :=
  match a, b with
  | [], [] => true
  | x :: r, y :: q => chunk_eqb x y && chunks_eqb r q
  | _, _ => false
  end.
(* the chunks of a linearization as cluster_linearize.h ChunkLinearizationInfo computes them *)
Definition lin_chunks (txs : list (nat * FF)) (lin : list nat) : option (list chunk) :=
  match with_fees txs lin with
  | Some lf =>
      (* sums of fees / sizes that FeeFrac's int64 / int32 fields hold without wrapping *)
      if feerates_in_range (map snd lf)
      then Some (map (fun c => (map fst (fst c), snd c)) (chunking_info (fun t : nat * FF => snd t) lf))
      else None
  | None => None
  end.

(* the linearization GetCluster reports for x's cluster: a duplicate-free enumeration of exactly the
   cluster, parents before children, and every member reports the same list *)
Definition lin_ok (lv : level) (clu : list (nat * list nat)) (x : nat) : bool :=
  match assoc x clu with
  | None => false
  | Some lin =>
      is_set_of lin (q_cluster lv x) && topo_walk (would lv) [] lin &&
      forallb (fun y => match assoc y clu with Some l2 => list_eqb l2 lin | None => false end) lin
  end.
(* its chunks are connected and every member's reported chunk feerate is its chunk's feerate *)
Definition cluster_chunks_ok (lv : level) (clu : list (nat * list nat)) (cf : list (nat * FF)) (x : nat) : bool :=
  match assoc x clu with
  | None => false
  | Some lin =>
      match lin_chunks (l_txs lv) lin with
      | None => false
      | Some cs =>
          forallb (fun c => is_connected (would lv) (fst c) &&
                            forallb (fun y => match assoc y cf with Some f => ff_eqb f (snd c) | None => false end) (fst c)) cs
      end
  end.
Fixpoint cmp_row_ok (ord : list nat) (x : nat) (exl : list nat) (row : list comparison) : bool :=
  match exl, row with
  | [], [] => true
  | y :: ys, c :: cs =>
      match index_of x ord, index_of y ord with
      | Some a, Some b => cmp_eqb c (Nat.compare a b) && cmp_row_ok ord x ys cs
      | _, _ => false
      end
  | _, _ => false
  end.
Fixpoint cmp_rows_ok (ord : list nat) (xs exl : list nat) (rows : list (list comparison)) : bool :=
  match xs, rows with
  | [], [] => true
  | x :: r, row :: q => cmp_row_ok ord x exl row && cmp_rows_ok ord r exl q
  | _, _ => false
  end.

Definition order_of (b : oobs) : list nat := concat (map fst (b_bb b)).

Definition order_checks (lv : level) (exl : list nat) (clu : list (nat * list nat)) (b : oobs) : list (nat * bool) :=
  let ord := order_of b in
  let L := lv_labels lv in
  [ (20%nat, feerates_in_range (map snd (l_txs lv)));
    (21%nat, forallb (lin_ok lv clu) (ids lv));
    (22%nat, Nat.eqb (length (b_cf b)) (length (ids lv)) && forallb (cluster_chunks_ok lv clu (b_cf b)) (ids lv));
    (23%nat, is_set_of ord (ids lv));
    (24%nat, topo_walk (would lv) [] ord);
    (25%nat, cmp_rows_ok ord exl exl (b_cmp b));
    (* the total order, restricted to a cluster, is that cluster's reported linearization *)
    (26%nat, forallb (fun x => match assoc x clu with
                               | Some lin => list_eqb (filter (fun y => same_cluster L x y) ord) lin
                               | None => false end) (ids lv));
    (* the builder's chunks are the chunks of the total order, and chunks of their cluster's linearization *)
    (27%nat, match lin_chunks (l_txs lv) ord with Some cs => chunks_eqb cs (b_bb b) | None => false end);
    (28%nat, forallb (fun c => match fst c with
                               | [] => false
                               | x :: _ => match assoc x clu with
                                           | Some lin => match lin_chunks (l_txs lv) lin with
                                                         | Some cs => existsb (chunk_eqb c) cs
                                                         | None => false end
                                           | None => false end
                               end) (b_bb b));
    (29%nat, feerates_nonincreasing (map snd (b_bb b)));
    (30%nat, match rev (b_bb b) with
             | [] => is_nil (fst (b_wc b)) && ff_eqb (snd (b_wc b)) (0, 0)
             | c :: _ => chunk_eqb (b_wc b) (rev (fst c), snd c)
             end) ].

(* the builder walk with skips: state = (included, done, excluded labels, last feerate) *)
Definition ancestors_in (W : rel) (x : nat) (placed : list nat) : bool :=
  forallb (fun a => memn a placed) (ancs_strict W x).
Fixpoint place_all (W : rel) (placed : list nat) (l : list nat) : bool :=
  match l with
  | [] => true
  | x :: r => ancestors_in W x placed && place_all W (placed ++ [x]) r
  end.
Fixpoint walk_ok (lv : level) (L : list (nat * nat)) (cf : list (nat * FF))
                 (included done excl : list nat) (last : option FF) (w : list (bool * chunk)) : bool :=
  match w with
  | [] => true
  | (skip, c) :: r =>
      match fst c with
      | [] => false
      | x :: _ =>
          match lab L x with
          | None => false
          | Some lx =>
              nodupb (fst c) && forallb (fun y => live lv y && negb (memn y done) && same_cluster L x y) (fst c) &&
              negb (memn lx excl) &&
              forallb (fun y => match assoc y cf with Some f => ff_eqb f (snd c) | None => false end) (fst c) &&
              match last with Some f => negb (byratio_gt (snd c) f) | None => true end &&
              (skip || place_all (would lv) included (fst c)) &&
              walk_ok lv L cf (if skip then included else included ++ fst c) (done ++ fst c)
                      (if skip then lx :: excl else excl) (Some (snd c)) r
          end
      end
  end.
Definition walk_included (w : list (bool * chunk)) : list nat :=
  concat (map (fun sc : bool * chunk => if fst sc then [] else fst (snd sc)) w).
Definition walk_checks (lv : level) (b : oobs) : list (nat * bool) :=
  if b_has_walk b then
    [ (31%nat, walk_ok lv (lv_labels lv) (b_cf b) [] [] [] None (b_walk b));
      (32%nat, existsb fst (b_walk b) || is_set_of (walk_included (b_walk b)) (ids lv)) ]
  else [].

(* ------------------------------------------------------------------------------------------- *)
(* GetMainStagingDiagrams: "the combined respective feerate diagrams, including chunks from all
   clusters, but excluding clusters that appear identically in both" *)
Fixpoint remove_ff (f : FF) (l : list FF) : option (list FF) :=
  match l with
  | [] => None
  | g :: r => if ff_eqb f g then Some r else option_map (cons g) (remove_ff f r)
  end.
Fixpoint msub (full part : list FF) : option (list FF) :=
  match part with
  | [] => Some full
  | f :: r => match remove_ff f full with Some full' => msub full' r | None => None end
  end.
(* one representative per cluster: the first id carrying each label *)
Fixpoint reps (L : list (nat * nat)) (seen : list nat) (idl : list nat) : list nat :=
  match idl with
  | [] => []
  | x :: r => match lab L x with
              | Some l => if memn l seen then reps L seen r else x :: reps L (l :: seen) r
              | None => reps L seen r
              end
  end.
Fixpoint all_chunk_feerates (txs : list (nat * FF)) (clu : list (nat * list nat)) (rs : list nat) : option (list FF) :=
  match rs with
  | [] => Some []
  | x :: r => match assoc x clu with
              | Some lin => match lin_chunks txs lin, all_chunk_feerates txs clu r with
                            | Some cs, Some q => Some (map snd cs ++ q)
                            | _, _ => None
                            end
              | None => None
              end
  end.
Definition level_chunk_feerates (lv : level) (clu : list (nat * list nat)) : option (list FF) :=
  all_chunk_feerates (l_txs lv) clu (reps (lv_labels lv) [] (ids lv)).
Definition diagram_checks (m st : level) (clu_m clu_s : list (nat * list nat)) (dg : list FF * list FF) : list (nat * bool) :=
  [ (40%nat, forallb (lin_ok st clu_s) (ids st) && feerates_in_range (map snd (l_txs st)));
    (41%nat, feerates_nonincreasing (fst dg) && feerates_nonincreasing (snd dg));
    (42%nat, match level_chunk_feerates m clu_m, level_chunk_feerates st clu_s with
             | Some fm, Some fs =>
                 match msub fm (fst dg), msub fs (snd dg) with
                 | Some rm, Some rs => match msub rm rs with Some [] => true | _ => false end
                 | _, _ => false
                 end
             | _, _ => false
             end) ].

(* ------------------------------------------------------------------------------------------- *)
(* Trim(): "Remove transactions (including their own descendants) ... such that the TxGraph's cluster
   and size limits are respected. ... This has no effect unless the relevant graph is oversized." *)
Definition trim_checks (mc ms : Z) (lv : level) (removed : list nat) : list (nat * bool) :=
  let W := would lv in
  let L := labels (ids lv) W in
  [ (50%nat, eqb (oversized_calc mc ms lv) (negb (is_nil removed)));
    (51%nat, nodupb removed && forallb (live lv) removed);
    (* closed under descendants: a kept child never has a removed parent *)
    (52%nat, forallb (fun x => subsetb (descs_strict W x) removed) removed);
    (* something is taken from every oversized cluster and nothing from the others *)
    (53%nat, forallb (fun t => let c := cluster_txs (l_txs lv) L (fst t) in
                               eqb (over_limits mc ms c) (existsb (fun u => memn (fst u) removed) c)) (l_txs lv));
    (54%nat, negb (oversized_calc mc ms (fold_left (fun l i => lv_rm i l) removed lv))) ].

(* ------------------------------------------------------------------------------------------- *)
(* the whole dump of one `q` step *)
Record qobs := mkQobs {
  q_st : bool;                          (* HaveStaging *)
  q_fr : list (nat * FF);               (* GetIndividualFeerate for every id with a non-empty answer *)
  q_main : lobs;
  q_stag : option lobs;
  q_order : option oobs;
  q_diag : option (list FF * list FF)
}.
Definition fr_ok (s : state) (fr : list (nat * FF)) : bool :=
  let all := ids (s_main s) ++ match s_stag s with Some l => ids l | None => [] end in
  is_set_of (map fst fr) (nodup Nat.eq_dec all) &&
  forallb (fun t => match q_feerate s (fst t) with Some f => ff_eqb f (snd t) | None => false end) fr.

(* s is the state AFTER step _ OQuery *)
Definition query_checks (s : state) (subsets : list (list nat)) (o : qobs) : list (nat * bool) :=
  let mov := main_oversized s in
  let sov := stag_oversized s in
  [ (60%nat, eqb (q_st o) (match s_stag s with Some _ => true | None => false end));
    (61%nat, fr_ok s (q_fr o)) ] ++
  struct_checks (s_main s) mov subsets (q_main o) ++
  match s_stag s, q_stag o with
  | Some l, Some ol => map (fun cb : nat * bool => ((100 + fst cb)%nat, snd cb)) (struct_checks l sov subsets ol)
  | None, None => []
  | _, _ => [(62%nat, false)]
  end ++
  match q_order o with
  | Some b => (63%nat, negb mov) :: (if mov then [] else order_checks (s_main s) (o_ex (q_main o)) (o_clu (q_main o)) b ++ walk_checks (s_main s) b)
  | None => [(63%nat, mov)]
  end ++
  match q_diag o, s_stag s, q_stag o with
  | Some dg, Some l, Some ol => (64%nat, negb mov && negb sov) :: (if mov || sov then [] else diagram_checks (s_main s) l (o_clu (q_main o)) (o_clu ol) dg)
  | None, Some _, _ => [(64%nat, mov || sov)]
  | None, None, _ => []
  | Some _, _, _ => [(64%nat, false)]
  end.

Definition first_failure (l : list (nat * bool)) : option nat :=
  match filter (fun cb : nat * bool => negb (snd cb)) l with
  | [] => None
  | cb :: _ => Some (fst cb)
  end.
Definition holds_query (s : state) (subsets : list (list nat)) (o : qobs) : bool :=
  forallb snd (query_checks s subsets o).
Definition holds_trim (s : state) (removed : list nat) : bool :=
  forallb snd (trim_checks (s_mc s) (s_ms s) (top s) removed).
