(* C21 (part A): MuHash3072 — src/crypto/muhash.{h,cpp}.

   A Num3072 is modelled by its value, an integer in [0, 2^3072) (the C++ keeps 48 little-endian
   64-bit limbs; the limb schedule of Multiply and the safegcd limbs of GetInverse are NOT modelled:
   the model computes, in Z, the unique canonical representative that the C++ produces, and the
   correspondence (tie/drivers/muhash_drv.cpp) checks this on boundary values installed through
   Unserialize).  A MuHash3072 is the pair (m_numerator, m_denominator).
   Executable definitions only; proofs are in proofs/MuHash*.v. *)
From Coq Require Import NArith.
From BV Require Import lib.Ints model.CryptoBase model.CryptoSHA256 model.CryptoChaCha.
Local Open Scope Z_scope.

(* ---------------- constants ---------------- *)
(* static constexpr size_t BYTE_SIZE = 384;  LIMB_SIZE * LIMBS == 3072 *)
Definition MH_BYTE_SIZE : nat := 384.
Definition MH_BITS : Z := 3072.
(* constexpr limb_t MAX_PRIME_DIFF = 1103717;
   "2^3072 - 1103717, the largest 3072-bit safe prime number, is used as the modulus." *)
Definition MAX_PRIME_DIFF : Z := 1103717.
Definition B3072 : Z := 2 ^ 3072.
Definition MASK3072 : Z := Z.ones 3072.
Definition P3072 : Z := B3072 - MAX_PRIME_DIFF.

(* ---------------- Num3072 ---------------- *)
(* bool Num3072::IsOverflow() const   "Indicates whether d is larger than the modulus."
     if (limbs[0] <= max - MAX_PRIME_DIFF) return false;
     for i in 1..LIMBS-1: if (limbs[i] != max) return false;
     return true;
   i.e. limbs[0] >= 2^64 - MAX_PRIME_DIFF and every other limb all-ones: value >= 2^3072 - MAX_PRIME_DIFF. *)
Definition num_is_overflow (x : Z) : bool := P3072 <=? x.

(* void Num3072::FullReduce(): c0 = MAX_PRIME_DIFF; for each limb: addnextract2(c0, c1, limbs[i], limbs[i]);
   adds MAX_PRIME_DIFF and drops the carry out of the top limb. *)
Definition num_full_reduce (x : Z) : Z := Z.land (x + MAX_PRIME_DIFF) MASK3072.

Definition lo3072 (t : Z) : Z := Z.land t MASK3072.
Definition hi3072 (t : Z) : Z := Z.shiftr t 3072.

(* void Num3072::Multiply(const Num3072& a)
     "Compute limbs 0..N-2 of this*a into tmp, including one reduction."   (2^3072 = MAX_PRIME_DIFF mod p)
     "Compute limb N-1 of a*b into tmp."
     "Perform a second reduction."  muln2(c0, c1, MAX_PRIME_DIFF); addnextract2 over the limbs
     assert(c1 == 0); assert(c0 == 0 || c0 == 1);
     if (this->IsOverflow()) this->FullReduce();
     if (c0) this->FullReduce();
   In Z: fold the part above bit 3072 back twice, then the two conditional final reductions. *)
Definition num_multiply (x a : Z) : Z :=
  let t := x * a in
  let t1 := lo3072 t + MAX_PRIME_DIFF * hi3072 t in
  let t2 := lo3072 t1 + MAX_PRIME_DIFF * hi3072 t1 in
  let c0 := hi3072 t2 in
  let r := lo3072 t2 in
  let r := if num_is_overflow r then num_full_reduce r else r in
  if c0 =? 0 then r else num_full_reduce r.

(* Num3072 Num3072::GetInverse() const — the C++ is a safegcd (divsteps on 62-bit signed limbs with
   d, e tracked modulo the modulus).  Here: the binary extended gcd for an odd modulus, one halving
   per step; x1, x2 stay in [0, p) with  u = x1 * a,  v = x2 * a  (mod p).  For a = 0 both return 0
   (C++: g = 0 ends the loop at once with d = 0; the `Assume(f == +-1)` is not enforced in non-debug
   builds). *)
Definition half_mod (x : Z) : Z := if Z.even x then Z.div2 x else Z.div2 (x + P3072).
Definition sub_mod (a b : Z) : Z := if b <=? a then a - b else a - b + P3072.
Fixpoint inv_loop (fuel : nat) (u v x1 x2 : Z) : option Z :=
  match fuel with
  | O => None
  | S k =>
    if u =? 0 then Some x2
    else if Z.even u then inv_loop k (Z.div2 u) v (half_mod x1) x2
    else if Z.even v then inv_loop k u (Z.div2 v) x1 (half_mod x2)
    else if v <=? u then inv_loop k (Z.div2 (u - v)) v (half_mod (sub_mod x1 x2)) x2
    else inv_loop k u (Z.div2 (v - u)) x1 (half_mod (sub_mod x2 x1))
  end.
Definition INV_FUEL : nat := Z.to_nat 6200.
(* the default is never taken: proofs/MuHashLemmas.v inv_loop_total *)
(* the inverse of 1 is 1 (the loop returns the same value; the shortcut only saves model run time for
   the common denominator 1) *)
Definition num_get_inverse (a : Z) : Z :=
  if a =? 1 then 1
  else match inv_loop INV_FUEL a P3072 1 0 with Some r => r | None => 0 end.

(* void Num3072::Divide(const Num3072& a)
     if (this->IsOverflow()) this->FullReduce();
     Num3072 inv{};
     if (a.IsOverflow()) { Num3072 b = a; b.FullReduce(); inv = b.GetInverse(); } else { inv = a.GetInverse(); }
     this->Multiply(inv);
     if (this->IsOverflow()) this->FullReduce(); *)
Definition num_divide (x a : Z) : Z :=
  let x := if num_is_overflow x then num_full_reduce x else x in
  let b := if num_is_overflow a then num_full_reduce a else a in
  let inv := num_get_inverse b in
  let r := num_multiply x inv in
  if num_is_overflow r then num_full_reduce r else r.

(* Num3072::Num3072(const unsigned char (&data)[BYTE_SIZE]): limbs[i] = ReadLE64(data + 8 * i)
   void Num3072::ToBytes(out): WriteLE64(out + i * 8, limbs[i])
   SERIALIZE_METHODS(Num3072): every limb as a little-endian uint64 — the same 384 bytes. *)
(* the argument is an array of exactly BYTE_SIZE unsigned chars, so the value is below 2^3072: the
   mask is the identity on every such array (proofs/MuHashLemmas.v num_of_bytes_id) and keeps the
   model's Num3072 values in range without a side condition on the byte list *)
Definition num_of_bytes (data : list N) : Z := lo3072 (le_value data).
Definition num_to_bytes (x : Z) : list N := le_bytes MH_BYTE_SIZE x.

(* ---------------- MuHash3072 ---------------- *)
Record muhash : Type := { mh_num : Z; mh_den : Z }.
(* MuHash3072() noexcept = default;   Num3072() { this->SetToOne(); } *)
Definition mh_empty : muhash := {| mh_num := 1; mh_den := 1 |}.

(* Num3072 MuHash3072::ToNum3072(std::span<const unsigned char> in)
     uint256 hashed_in{(HashWriter{} << in).GetSHA256()};
     ChaCha20Aligned{MakeByteSpan(hashed_in)}.Keystream(MakeWritableByteSpan(tmp));   // 384 bytes = 6 blocks
     Num3072 out{tmp};
   (the result is NOT reduced: it may be >= the modulus; it is only ever used as a multiplicand) *)
Definition mh_to_num3072 (data : list N) : Z :=
  num_of_bytes (fst (aligned_keystream 6 (aligned_setkey (sha256_spec data)))).

(* explicit MuHash3072(span in): m_numerator = ToNum3072(in); *)
Definition mh_singleton (data : list N) : muhash := {| mh_num := mh_to_num3072 data; mh_den := 1 |}.
(* Insert: m_numerator.Multiply(ToNum3072(in));   Remove: m_denominator.Multiply(ToNum3072(in)); *)
Definition mh_insert (s : muhash) (data : list N) : muhash :=
  {| mh_num := num_multiply (mh_num s) (mh_to_num3072 data); mh_den := mh_den s |}.
Definition mh_remove (s : muhash) (data : list N) : muhash :=
  {| mh_num := mh_num s; mh_den := num_multiply (mh_den s) (mh_to_num3072 data) |}.
(* operator*=: m_numerator.Multiply(mul.m_numerator); m_denominator.Multiply(mul.m_denominator); *)
Definition mh_mul (s t : muhash) : muhash :=
  {| mh_num := num_multiply (mh_num s) (mh_num t); mh_den := num_multiply (mh_den s) (mh_den t) |}.
(* operator/=: m_numerator.Multiply(div.m_denominator); m_denominator.Multiply(div.m_numerator); *)
Definition mh_div (s t : muhash) : muhash :=
  {| mh_num := num_multiply (mh_num s) (mh_den t); mh_den := num_multiply (mh_den s) (mh_num t) |}.
(* void MuHash3072::Finalize(uint256& out)
     m_numerator.Divide(m_denominator);
     m_denominator.SetToOne();  // Needed to keep the MuHash object valid
     m_numerator.ToBytes(data);
     out = (HashWriter{} << data).GetSHA256();
   "Does not change this object's value" — but it does normalise the representation. *)
Definition mh_finalize_num (s : muhash) : Z := num_divide (mh_num s) (mh_den s).
Definition mh_finalize_state (s : muhash) : muhash := {| mh_num := mh_finalize_num s; mh_den := 1 |}.
Definition mh_finalize (s : muhash) : list N := sha256_spec (num_to_bytes (mh_finalize_num s)).

(* SERIALIZE_METHODS(MuHash3072): READWRITE(obj.m_numerator); READWRITE(obj.m_denominator); *)
Definition mh_serialize (s : muhash) : list N := num_to_bytes (mh_num s) ++ num_to_bytes (mh_den s).
Definition mh_unserialize (b : list N) : option muhash :=
  if Nat.eqb (length b) (2 * MH_BYTE_SIZE)
  then Some {| mh_num := num_of_bytes (firstn MH_BYTE_SIZE b); mh_den := num_of_bytes (skipn MH_BYTE_SIZE b) |}
  else None.

(* ---------------- operation sequences (the correspondence cases and the theorems) ---------------- *)
Inductive mh_op : Type := MhInsert (data : list N) | MhRemove (data : list N).
Definition mh_apply (s : muhash) (o : mh_op) : muhash :=
  match o with MhInsert d => mh_insert s d | MhRemove d => mh_remove s d end.
Definition mh_run (ops : list mh_op) (s : muhash) : muhash := fold_left mh_apply ops s.
Definition mh_insert_all (l : list (list N)) (s : muhash) : muhash := fold_left mh_insert l s.

(* register machine used by the drivers: four MuHash3072 objects *)
Inductive mh_cmd : Type :=
| CIns (k : nat) (d : list N) | CRem (k : nat) (d : list N)
| CMul (k j : nat) | CDiv (k j : nat)
| CFin (k : nat) | CSer (k : nat) | CUnser (k : nat) (b : list N)
| CNew (k : nat) (d : list N) | CClear (k : nat).
Definition regs : Type := list muhash.
Fixpoint set_reg (k : nat) (v : muhash) (r : regs) : regs :=
  match r, k with
  | [], _ => []
  | _ :: t, O => v :: t
  | h :: t, S j => h :: set_reg j v t
  end.
Definition get_reg (k : nat) (r : regs) : option muhash := nth_error r k.
Inductive mh_out : Type := OHash (h : list N) | OBytes (b : list N) | OErr.
Definition mh_cmd_step (r : regs) (c : mh_cmd) : regs * list mh_out :=
  match c with
  | CIns k d => match get_reg k r with Some s => (set_reg k (mh_insert s d) r, []) | None => (r, [OErr]) end
  | CRem k d => match get_reg k r with Some s => (set_reg k (mh_remove s d) r, []) | None => (r, [OErr]) end
  | CMul k j => match get_reg k r, get_reg j r with
                | Some s, Some t => (set_reg k (mh_mul s t) r, []) | _, _ => (r, [OErr]) end
  | CDiv k j => match get_reg k r, get_reg j r with
                | Some s, Some t => (set_reg k (mh_div s t) r, []) | _, _ => (r, [OErr]) end
  | CFin k => match get_reg k r with
              | Some s => (set_reg k (mh_finalize_state s) r, [OHash (mh_finalize s)]) | None => (r, [OErr]) end
  | CSer k => match get_reg k r with Some s => (r, [OBytes (mh_serialize s)]) | None => (r, [OErr]) end
  | CUnser k b => match mh_unserialize b with Some s => (set_reg k s r, []) | None => (r, [OErr]) end
  | CNew k d => (set_reg k (mh_singleton d) r, [])
  | CClear k => (set_reg k mh_empty r, [])
  end.
Fixpoint mh_cmd_run (r : regs) (cs : list mh_cmd) : list mh_out :=
  match cs with
  | [] => []
  | c :: t => let '(r', o) := mh_cmd_step r c in o ++ mh_cmd_run r' t
  end.
Definition mh_regs0 : regs := [mh_empty; mh_empty; mh_empty; mh_empty].
