(* PSBT (C47): the key-value map codec, Merge on maps and optional fields, and the BIP370 locktime
   determination.  Transcribed from
     src/serialize.h   WriteCompactSize / ReadCompactSize (range_check = true), vector<unsigned char> (de)serialization
     src/psbt.h        the read loop shared by PartiallySignedTransaction / PSBTInput / PSBTOutput::Unserialize
                       (key, separator, duplicate-key rejection, unknown records), the write of unknown records
     src/psbt.cpp      PartiallySignedTransaction::Merge, PSBTInput::Merge, PSBTOutput::Merge, ComputeTimeLock
   Executable definitions only (proofs are in proofs/PsbtLemmas.v).  A byte is an N below 256. *)
From Coq Require Import NArith.
From BV Require Import lib.Ints.
Local Open Scope N_scope.

Definition bytes := list N.

(* ------------------------------------------------------------------------------------------- *)
(* CompactSize *)
Definition MAX_SIZE : N := 33554432.      (* inline constexpr uint64_t MAX_SIZE = 0x02000000; *)

(* little-endian fixed width *)
Fixpoint le_enc (k : nat) (n : N) : bytes :=
  match k with O => [] | S k' => (n mod 256) :: le_enc k' (n / 256) end.
Fixpoint le_dec (b : bytes) : N :=
  match b with [] => 0 | x :: r => x + 256 * le_dec r end.

(* void WriteCompactSize(Stream& os, uint64_t nSize)
   {   if (nSize < 253) ser_writedata8(os, nSize);
       else if (nSize <= 0xFFFF) { ser_writedata8(os, 253); ser_writedata16(os, nSize); }
       else if (nSize <= 0xFFFFFFFF) { ser_writedata8(os, 254); ser_writedata32(os, nSize); }
       else { ser_writedata8(os, 255); ser_writedata64(os, nSize); } } *)
Definition write_cs (n : N) : bytes :=
  if n <? 253 then [n]
  else if n <=? 65535 then 253 :: le_enc 2 n
  else if n <=? 4294967295 then 254 :: le_enc 4 n
  else 255 :: le_enc 8 n.

Definition take_bytes (k : nat) (b : bytes) : option (bytes * bytes) :=
  if Nat.leb k (length b) then Some (firstn k b, skipn k b) else None.

(* uint64_t ReadCompactSize(Stream& is, bool range_check = true): see the C++ quoted in the header comment
   of the check; non-canonical encodings and sizes above MAX_SIZE throw, a short stream throws *)
Definition read_cs (b : bytes) : option (N * bytes) :=
  match b with
  | [] => None
  | x :: r =>
    if x <? 253 then Some (x, r)
    else
      let k := if x =? 253 then 2%nat else if x =? 254 then 4%nat else 8%nat in
      let minv := if x =? 253 then 253 else if x =? 254 then 65536 else 4294967296 in
      match take_bytes k r with
      | None => None
      | Some (d, r') =>
        let n := le_dec d in
        if n <? minv then None            (* "non-canonical ReadCompactSize()" *)
        else if MAX_SIZE <? n then None   (* "ReadCompactSize(): size too large" *)
        else Some (n, r')
      end
  end.

(* s << std::vector<unsigned char>: WriteCompactSize(size) then the bytes *)
Definition enc_vec (v : bytes) : bytes := write_cs (N.of_nat (length v)) ++ v.
(* s >> std::vector<unsigned char> *)
Definition read_vec (b : bytes) : option (bytes * bytes) :=
  match read_cs b with
  | None => None
  | Some (n, r) => take_bytes (N.to_nat n) r
  end.

(* ------------------------------------------------------------------------------------------- *)
(* One key-value map: records <keylen><key><valuelen><value>, terminated by the separator 0x00 *)
Definition kv := (bytes * bytes)%type.

Definition kv_enc_rec (r : kv) : bytes := enc_vec (fst r) ++ enc_vec (snd r).
(* for (auto& entry : unknown) { s << entry.first; s << entry.second; }  ...  s << PSBT_SEPARATOR; *)
Definition kv_encode (m : list kv) : bytes := flat_map kv_enc_rec m ++ [0].

Fixpoint bytes_eqb (a b : bytes) : bool :=
  match a, b with
  | [], [] => true
  | x :: a', y :: b' => (x =? y) && bytes_eqb a' b'
  | _, _ => false
  end.
Definition mem_key (k : bytes) (keys : list bytes) : bool := existsb (bytes_eqb k) keys.

Inductive kv_result :=
| KvOk (m : list kv) (rest : bytes)
| KvNoSeparator           (* "Separator is missing at the end of the ... map" *)
| KvDuplicate             (* "Duplicate Key, ... key ... already provided" *)
| KvBadStream.            (* short read, non-canonical or oversized compact size *)

(* while(!s.empty()) {
       std::vector<unsigned char> key;  s >> key;
       if (key.empty()) { found_sep = true; break; }
       if (!key_lookup.emplace(key).second) throw "Duplicate Key ...";
       ... default: { std::vector<unsigned char> val_bytes; s >> val_bytes; unknown.emplace(key, val_bytes); } }
   if (!found_sep) throw "Separator is missing ...";
   The value of every record is framed the same way for every key type (<valuelen><valuedata>); the typed
   interpretation of known key types is outside this generic layer. *)
Fixpoint kv_decode_f (fuel : nat) (b : bytes) (seen : list bytes) (acc : list kv) : kv_result :=
  match fuel with
  | O => KvBadStream
  | S f =>
    match b with
    | [] => KvNoSeparator
    | _ =>
      match read_vec b with
      | None => KvBadStream
      | Some (key, r) =>
        match key with
        | [] => KvOk (rev acc) r
        | _ =>
          if mem_key key seen then KvDuplicate
          else match read_vec r with
               | None => KvBadStream
               | Some (v, r') => kv_decode_f f r' (key :: seen) ((key, v) :: acc)
               end
        end
      end
    end
  end.
Definition kv_decode (b : bytes) : kv_result := kv_decode_f (S (length b)) b [] [].

(* a well-formed map: what kv_decode can return (non-empty keys, sizes within MAX_SIZE, no key twice) *)
Definition rec_ok (r : kv) : bool :=
  negb (match fst r with [] => true | _ => false end) &&
  (N.of_nat (length (fst r)) <=? MAX_SIZE) && (N.of_nat (length (snd r)) <=? MAX_SIZE).
Fixpoint keys_fresh (seen : list bytes) (m : list kv) : bool :=
  match m with
  | [] => true
  | r :: m' => negb (mem_key (fst r) seen) && keys_fresh (fst r :: seen) m'
  end.
Definition kv_wf (m : list kv) : bool := forallb rec_ok m && keys_fresh [] m.

(* several maps in a row (global, inputs, outputs) *)
Fixpoint kv_decode_many (n : nat) (b : bytes) : option (list (list kv) * bytes) :=
  match n with
  | O => Some ([], b)
  | S n' =>
    match kv_decode b with
    | KvOk m r => match kv_decode_many n' r with Some (ms, r') => Some (m :: ms, r') | None => None end
    | _ => None
    end
  end.

(* ------------------------------------------------------------------------------------------- *)
(* Merge.  Every std::map / std::set field is merged with insert(begin, end): an element of the argument is
   added unless an element with an equal key is already present (the present one is kept); every single-valued
   field is taken from the argument only when absent here. *)
Fixpoint lookup (k : bytes) (m : list kv) : option bytes :=
  match m with
  | [] => None
  | (k', v) :: r => if bytes_eqb k k' then Some v else lookup k r
  end.
Definition has_key (k : bytes) (m : list kv) : bool := match lookup k m with Some _ => true | None => false end.

(* m.insert(other.begin(), other.end()) *)
Definition union_keep (a b : list kv) : list kv := a ++ filter (fun r => negb (has_key (fst r) a)) b.

(* if (x == std::nullopt && other.x != std::nullopt) x = other.x;   (also: empty script / null key / null utxo) *)
Definition keep_first {A} (a b : option A) : option A := match a with Some x => Some x | None => b end.

(* Set m_tx_modifiable only if either PSBT had it set:
       final = this.value_or(0) & other.value_or(0);  final.set(2, this[2] || other[2]); *)
Definition merge_modifiable (a b : option N) : option N :=
  match a, b with
  | None, None => None
  | _, _ =>
    let x := match a with Some v => v | None => 0 end in
    let y := match b with Some v => v | None => 0 end in
    Some (N.lor (N.land (N.land x y) 251) (N.land (N.lor x y) 4))
  end.

(* whether two maps agree wherever both have the key (no conflicting values) *)
Definition compatible (a b : list kv) : bool :=
  forallb (fun r => match lookup (fst r) b with Some v => bytes_eqb (snd r) v | None => true end) a.

(* The merge specification evaluated on an implementation result: `out` must hold exactly the keys of a or b,
   with a's value where a has the key and b's value otherwise. *)
Definition merge_spec_holds (a b out : list kv) : bool :=
  forallb (fun r => match lookup (fst r) out with Some v => bytes_eqb v (snd r) | None => false end) a &&
  forallb (fun r => has_key (fst r) a || match lookup (fst r) out with Some v => bytes_eqb v (snd r) | None => false end) b &&
  forallb (fun r => has_key (fst r) a || has_key (fst r) b) out.

(* ------------------------------------------------------------------------------------------- *)
(* BIP370 locktime determination *)
Local Open Scope Z_scope.
Record pin := mkPin { in_time : option Z; in_height : option Z }.   (* time_locktime, height_locktime *)

Definition is_none {A} (o : option A) : bool := match o with None => true | Some _ => false end.

(* for (const PSBTInput& input : inputs) {
       if (input.time_locktime.has_value() && !input.height_locktime.has_value()) {
           height_lock.reset();
           if (!time_lock.has_value()) return std::nullopt;
       } else if (!input.time_locktime.has_value() && input.height_locktime.has_value()) {
           time_lock.reset();
           if (!height_lock.has_value()) return std::nullopt;
       }
       if (input.time_locktime && time_lock.has_value()) time_lock = std::max(time_lock, input.time_locktime);
       if (input.height_locktime && height_lock.has_value()) height_lock = std::max(height_lock, input.height_locktime);
   }
   result: None for the early `return std::nullopt`, else the final (time_lock, height_lock) *)
Fixpoint ctl_loop (ins : list pin) (tl hl : option Z) : option (option Z * option Z) :=
  match ins with
  | [] => Some (tl, hl)
  | i :: r =>
    let '(tl1, hl1, abort) :=
      match in_time i, in_height i with
      | Some _, None => (tl, None, is_none tl)
      | None, Some _ => (None, hl, is_none hl)
      | _, _ => (tl, hl, false)
      end in
    if abort then None
    else
      let tl2 := match in_time i, tl1 with Some t, Some c => Some (Z.max c t) | _, _ => tl1 end in
      let hl2 := match in_height i, hl1 with Some h, Some c => Some (Z.max c h) | _, _ => hl1 end in
      ctl_loop r tl2 hl2
  end.

(* std::optional<uint32_t> PartiallySignedTransaction::ComputeTimeLock() const
   {   if (GetVersion() >= 2) {
           std::optional<uint32_t> time_lock{0}; std::optional<uint32_t> height_lock{0};
           <loop>
           if (height_lock.has_value() && *height_lock > 0) return *height_lock;
           if (time_lock.has_value() && *time_lock > 0) return *time_lock; }
       return fallback_locktime.value_or(0); } *)
Definition compute_timelock (version : Z) (ins : list pin) (fallback : option Z) : option Z :=
  let fb := Some (match fallback with Some f => f | None => 0 end) in
  if 2 <=? version then
    match ctl_loop ins (Some 0) (Some 0) with
    | None => None
    | Some (tl, hl) =>
      match hl with
      | Some h => if 0 <? h then Some h
                  else match tl with Some t => if 0 <? t then Some t else fb | None => fb end
      | None => match tl with Some t => if 0 <? t then Some t else fb | None => fb end
      end
    end
  else fb.

(* the BIP370 rule as a decision table *)
Definition no_req (i : pin) : bool := is_none (in_time i) && is_none (in_height i).
(* the input does not rule out a height lock: it has a height requirement or none at all *)
Definition height_ok (i : pin) : bool := negb (is_none (in_height i)) || is_none (in_time i).
Definition time_ok (i : pin) : bool := negb (is_none (in_time i)) || is_none (in_height i).
Fixpoint max_height (ins : list pin) : Z :=
  match ins with [] => 0 | i :: r => match in_height i with Some h => Z.max h (max_height r) | None => max_height r end end.
Fixpoint max_time (ins : list pin) : Z :=
  match ins with [] => 0 | i :: r => match in_time i with Some t => Z.max t (max_time r) | None => max_time r end end.

Definition timelock_spec (ins : list pin) (fallback : option Z) : option Z :=
  if forallb no_req ins then Some (match fallback with Some f => f | None => 0 end)   (* no requirement: fallback *)
  else if forallb height_ok ins then Some (max_height ins)                            (* height preferred *)
  else if forallb time_ok ins then Some (max_time ins)
  else None.                                                                          (* conflicting requirements *)
