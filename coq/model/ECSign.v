(* C50 — deterministic ECDSA signing as CKey::Sign drives libsecp256k1:
     nonce_function_rfc6979_impl (secp256k1.c) over secp256k1_rfc6979_hmac_sha256_{initialize,generate} (hash_impl.h),
     secp256k1_ecdsa_sign_inner, secp256k1_ecdsa_sig_sign (ecdsa_impl.h), and the low-R grinding loop of CKey::Sign (key.cpp).
   HMAC-SHA256 is the crypto family's executable model. Executable definitions only. *)
From Coq Require Import NArith ZArith.
From BV Require Import lib.Ints model.CryptoHMACInst model.EC.
Local Open Scope Z_scope.

(* secp256k1_ecdsa_sig_sign over an arbitrary group (proofs/ECGroup.v reasons from the group laws):
     R = k*G; r = x(R) reduced by secp256k1_scalar_set_b32; s = k^-1 (r d + m); negate s when it is high;
     fails iff r = 0 or s = 0 *)
Section SignGen.
  Variable pt : Type.
  Variable g_mulG : Z -> pt.
  Variable g_x : pt -> option Z.
  Variable s_inv : Z -> Z.
  Definition ecdsa_sig_sign_gen (d m k : Z) : option (Z * Z) :=
    match g_x (g_mulG k) with
    | None => None
    | Some x =>
      let r := fst (scalar_set_b32 (be_bytes_z 32 x)) in
      let s := sc_mul (s_inv k) (sc_add (sc_mul r d) m) in
      let s := if scalar_is_high s then sc_neg s else s in
      if (r =? 0) || (s =? 0) then None else Some (r, s)
    end.
End SignGen.

Section Sign.
  Variable hmac : list N -> list N -> list N.     (* HMAC-SHA256: key -> message -> 32 bytes *)

  (* secp256k1_rfc6979_hmac_sha256_initialize: V = 01..01, K = 00..00;
       K = HMAC(K, V || 00 || keydata); V = HMAC(K, V); K = HMAC(K, V || 01 || keydata); V = HMAC(K, V) *)
  Definition rfc6979_init (keydata : list N) : list N * list N :=
    let v0 := repeat 1%N 32 in
    let k0 := repeat 0%N 32 in
    let k1 := hmac k0 (v0 ++ 0%N :: keydata) in
    let v1 := hmac k1 v0 in
    let k2 := hmac k1 (v1 ++ 1%N :: keydata) in
    let v2 := hmac k2 v1 in
    (k2, v2).
  (* secp256k1_rfc6979_hmac_sha256_generate(out, 32): if (retry) { K = HMAC(K, V || 00); V = HMAC(K, V); } V = HMAC(K, V); out = V *)
  Definition rfc6979_generate (st : list N * list N) (retry : bool) : (list N * list N) * list N :=
    let '(k, v) := st in
    let '(k', v') := if retry then (let k1 := hmac k (v ++ [0%N]) in (k1, hmac k1 v)) else (k, v) in
    let v'' := hmac k' v' in
    ((k', v''), v'').
  Fixpoint rfc6979_nth (st : list N * list N) (retry : bool) (counter : nat) : list N :=
    let '(st', out) := rfc6979_generate st retry in
    match counter with O => out | S c => rfc6979_nth st' true c end.
  (* nonce_function_rfc6979_impl(msg32, key32, algo16 = NULL, data, counter):
       keydata = key32 || (msg32 mod n as 32 bytes) || [data32] *)
  Definition nonce_rfc6979 (msg32 key32 : list N) (data : option (list N)) (counter : nat) : list N :=
    let msgmod := scalar_bytes (fst (scalar_set_b32 msg32)) in
    let keydata := key32 ++ msgmod ++ match data with Some d => d | None => [] end in
    rfc6979_nth (rfc6979_init keydata) false counter.

  (* secp256k1_ecdsa_sig_sign: R = k*G; r = x(R) mod n; s = k^-1 (r d + m); if s is high negate it;
     ok iff r != 0 and s != 0 *)
  Definition ecdsa_sig_sign (d m k : Z) : option (Z * Z) := ecdsa_sig_sign_gen point mul_G pt_x sc_inv d m k.

  (* secp256k1_ecdsa_sign_inner: count = 0, 1, ... until the nonce is a valid scalar and the signature is non-zero *)
  Fixpoint ecdsa_sign_loop (fuel : nat) (count : nat) (msg32 key32 : list N) (data : option (list N)) (d m : Z) : option (Z * Z) :=
    match fuel with
    | O => None
    | S f =>
      let '(k, valid) := scalar_set_b32_seckey (nonce_rfc6979 msg32 key32 data count) in
      match (if valid then ecdsa_sig_sign d m k else None) with
      | Some sig => Some sig
      | None => ecdsa_sign_loop f (S count) msg32 key32 data d m
      end
    end.
  Definition ecdsa_sign (msg32 key32 : list N) (data : option (list N)) : option (Z * Z) :=
    let '(d, valid) := scalar_set_b32_seckey key32 in
    if valid then ecdsa_sign_loop 8 0 msg32 key32 data d (fst (scalar_set_b32 msg32)) else None.

  (* bool SigHasLowR: compact_sig[0] < 0x80  <=>  r < 2^255 *)
  Definition sig_has_low_r (sig : Z * Z) : bool := fst sig <? 2 ^ 255.
  (* CKey::Sign(hash, grind = true, test_case = 0): sign without extra data; while the R value is not low,
     extra_entropy = LE32(++counter) || 28 zero bytes and sign again *)
  Fixpoint ckey_sign_grind (fuel : nat) (counter : Z) (msg32 key32 : list N) : option (Z * Z) :=
    match fuel with
    | O => None
    | S f =>
      let extra := rev (be_bytes_z 4 counter) ++ repeat 0%N 28 in
      match ecdsa_sign msg32 key32 (Some extra) with
      | Some sig => if sig_has_low_r sig then Some sig else ckey_sign_grind f (counter + 1) msg32 key32
      | None => None
      end
    end.
  Definition ckey_sign (msg32 key32 : list N) : option (Z * Z) :=
    match ecdsa_sign msg32 key32 None with
    | Some sig => if sig_has_low_r sig then Some sig else ckey_sign_grind 64 1 msg32 key32
    | None => None
    end.
End Sign.

Definition ckey_sign_exec : list N -> list N -> option (Z * Z) := ckey_sign hmac_sha256_spec.
