(* C42 (family walletdb): wallet encryption.  Executable transcription of
     src/wallet/crypter.cpp       CCrypter::{BytesToKeySHA512AES, SetKeyFromPassphrase, SetKey, Encrypt, Decrypt},
                                  EncryptSecret, DecryptSecret, DecryptKey
     src/wallet/wallet.cpp        EncryptMasterKey, DecryptMasterKey, CWallet::{EncryptWallet, Unlock(passphrase),
                                  Unlock(master key), Lock, ChangeWalletPassphrase}, LoadExisting
     src/wallet/scriptpubkeyman.cpp  DescriptorScriptPubKeyMan::{Encrypt, CheckDecryptionKey, GetKeys, AddDescriptorKeyWithDB}
     src/wallet/walletdb.cpp      WriteMasterKey, WriteCryptedDescriptorKey, WriteDescriptorKey, the loader's key records
   No proofs here.

   Part 1: the crypter on bytes, over the Crypto family's SHA-512 and AES-256-CBC models.
   Part 2: the wallet as a state machine over an abstract cipher (a record of functions), its database records, and an
           oracle for the outcome of every mutating database call. *)
From Coq Require Import ZArith NArith List Bool Lia.
From BV Require Import lib.Ints model.CryptoBase model.CryptoSHA512 model.CryptoAES.
Import ListNotations.

(* ================================================================================================ *)
(* Part 1 *)

(* int CCrypter::BytesToKeySHA512AES(salt, key_data, count, key, iv)
   {
       if(!count || !key || !iv) return 0;
       di.Write(key_data).Write(salt).Finalize(buf);
       for (unsigned int i = 0; i != count - 1; ++i) di.Reset().Write(buf, sizeof(buf)).Finalize(buf);
       memcpy(key, buf, WALLET_CRYPTO_KEY_SIZE /*32*/); memcpy(iv, buf + 32, WALLET_CRYPTO_IV_SIZE /*16*/);
       return WALLET_CRYPTO_KEY_SIZE;
   } *)
Fixpoint sha512_iter (n : nat) (buf : list N) : list N :=
  match n with O => buf | S k => sha512_iter k (sha512_spec buf) end.

(* bool CCrypter::SetKeyFromPassphrase(key_data, salt, rounds, derivation_method)
   { if (!rounds || salt.size() != WALLET_CRYPTO_SALT_SIZE /*8*/) return false; ... method 0 only ... } *)
Definition set_key_from_passphrase (pass salt : list N) (rounds : nat) : option (list N * list N) :=
  if (Nat.eqb rounds 0) || negb (Nat.eqb (length salt) 8) then None else
  let buf := sha512_iter (rounds - 1) (sha512_spec (pass ++ salt)) in
  Some (firstn 32 buf, firstn 16 (skipn 32 buf)).

(* bool CCrypter::SetKey(new_key, new_iv) { if (new_key.size() != 32 || new_iv.size() != 16) return false; ... }
   bool CCrypter::Encrypt(plaintext, ciphertext)
   { ... AES256CBCEncrypt enc(key, iv, true); nLen = enc.Encrypt(...); if (nLen < plaintext.size()) return false; ... }
   bool CCrypter::Decrypt(ciphertext, plaintext)
   { ... AES256CBCDecrypt dec(key, iv, true); int len = dec.Decrypt(...); if (len == 0) return false; plaintext.resize(len); } *)
Definition crypter_encrypt (key iv pt : list N) : option (list N) :=
  if negb (Nat.eqb (length key) 32) || negb (Nat.eqb (length iv) 16) then None else
  let ct := cbc_encrypt key iv pt true in
  if Nat.ltb (length ct) (length pt) then None else Some ct.
Definition crypter_decrypt (key iv ct : list N) : option (list N) :=
  if negb (Nat.eqb (length key) 32) || negb (Nat.eqb (length iv) 16) then None else
  let pt := cbc_decrypt key iv ct true in
  if Nat.eqb (length pt) 0 then None else Some pt.

(* EncryptSecret(vMasterKey, vchPlaintext, nIV /*uint256*/, ...): IV = the first 16 bytes of nIV *)
Definition encrypt_secret (mk secret iv32 : list N) : option (list N) := crypter_encrypt mk (firstn 16 iv32) secret.
Definition decrypt_secret (mk ct iv32 : list N) : option (list N) := crypter_decrypt mk (firstn 16 iv32) ct.

(* ================================================================================================ *)
(* Part 2 *)

Definition bytes := list N.
Fixpoint bytes_eqb (a b : bytes) : bool :=
  match a, b with
  | [], [] => true
  | x :: r, y :: s => N.eqb x y && bytes_eqb r s
  | _, _ => false
  end.

(* the cryptographic functions the wallet logic uses *)
Record cipher := mkCipher {
  c_kdf : bytes -> bytes -> bytes * bytes;          (* passphrase, salt -> key, iv   (SetKeyFromPassphrase) *)
  c_enc : bytes -> bytes -> bytes -> bytes;         (* key, iv, plaintext -> ciphertext   (CCrypter::Encrypt) *)
  c_dec : bytes -> bytes -> bytes -> option bytes;  (* key, iv, ciphertext -> plaintext   (CCrypter::Decrypt) *)
  c_pub : bytes -> bytes;                           (* secret -> public key   (CKey::GetPubKey) *)
  c_iv : bytes -> bytes                             (* public key -> IV: the first 16 bytes of pubkey.GetHash() *)
}.

(* database records *)
Inductive rkey := KDescRec (d : nat) | KPlain (d : nat) | KCrypt (d : nat) | KMaster (i : nat).
Definition rkey_eqb (x y : rkey) : bool :=
  match x, y with
  | KDescRec a, KDescRec b | KPlain a, KPlain b | KCrypt a, KCrypt b | KMaster a, KMaster b => Nat.eqb a b
  | _, _ => false
  end.
Inductive rval :=
| VDescRec (pub : bytes)
| VPlain (secret : bytes)
| VCrypt (ct : bytes)
| VMaster (salt cmk : bytes).
Definition db := rkey -> option rval.
Definition db_set (d : db) (k : rkey) (v : option rval) : db := fun k' => if rkey_eqb k' k then v else d k'.
Record dbst := mkDb { committed : db; pending : option db }.
Definition db_write (s : dbst) (k : rkey) (v : option rval) : dbst :=
  match pending s with
  | Some p => mkDb (committed s) (Some (db_set p k v))
  | None => mkDb (db_set (committed s) k v) None
  end.
Definition db_begin (s : dbst) : dbst := mkDb (committed s) (Some (committed s)).
Definition db_commit (s : dbst) : dbst := match pending s with Some p => mkDb p None | None => s end.
Definition db_abort (s : dbst) : dbst := mkDb (committed s) None.

(* the oracle: outcome of each mutating database call, in call order; exhausted = success *)
Definition pop (o : list bool) : bool * list bool := match o with [] => (true, []) | b :: r => (b, r) end.

(* one DescriptorScriptPubKeyMan: one private key, held in plaintext (m_map_keys) and/or encrypted (m_map_crypted_keys) *)
Record spkm := mkS { s_id : nat; s_pub : bytes; s_plain : option bytes; s_crypt : option bytes }.

Record wst := mkW {
  w_spk : list spkm;                       (* m_spk_managers *)
  w_mk : list (nat * (bytes * bytes));     (* mapMasterKeys: id -> (salt, crypted master key) *)
  w_maxid : nat;                           (* nMasterKeyMaxID *)
  w_vm : option bytes;                     (* vMasterKey (None = empty) *)
  w_db : dbst;
  w_dirty : bool;                          (* plaintext key bytes may remain in free pages of the file *)
  w_dead : bool                            (* the process died (assert) or the wallet did not load *)
}.

Definition has_enc (st : wst) : bool := match w_mk st with [] => false | _ => true end.   (* HasEncryptionKeys() *)
Definition is_locked (st : wst) : bool := has_enc st && match w_vm st with None => true | Some _ => false end.

(* bool DecryptKey(master_key, crypted_secret, pub_key, key)
   { if (!DecryptSecret(master_key, crypted_secret, pub_key.GetHash(), secret)) return false;
     if (secret.size() != 32) return false;
     key.Set(...); return key.VerifyPubKey(pub_key); } *)
Definition decrypt_key (c : cipher) (mk ct pub : bytes) : option bytes :=
  match c_dec c mk (c_iv c pub) ct with
  | Some s => if Nat.eqb (length s) 32 && bytes_eqb (c_pub c s) pub then Some s else None
  | None => None
  end.

(* bool DescriptorScriptPubKeyMan::CheckDecryptionKey(master_key)  (one key per manager)
   { if (!m_map_keys.empty()) return false;
     keyPass = m_map_crypted_keys.empty(); for each crypted key: if (!DecryptKey(...)) { keyFail = true; break; } keyPass = true; ...
     if (keyFail || !keyPass) return false; return true; } *)
Definition check_decryption_key (c : cipher) (mk : bytes) (s : spkm) : bool :=
  match s_plain s with
  | Some _ => false
  | None => match s_crypt s with
            | None => true
            | Some ct => match decrypt_key c mk ct (s_pub s) with Some _ => true | None => false end
            end
  end.

(* bool CWallet::Unlock(const CKeyingMaterial& vMasterKeyIn): every manager must accept the key *)
Definition unlock_mk (c : cipher) (st : wst) (mk : bytes) : option wst :=
  if forallb (check_decryption_key c mk) (w_spk st)
  then Some (mkW (w_spk st) (w_mk st) (w_maxid st) (Some mk) (w_db st) (w_dirty st) (w_dead st))
  else None.

(* DecryptMasterKey(passphrase, master_key, plain): SetKeyFromPassphrase(pass, salt, iterations, method); Decrypt(cmk) *)
Definition decrypt_master (c : cipher) (pass : bytes) (rec : bytes * bytes) : option bytes :=
  let (k, iv) := c_kdf c pass (fst rec) in c_dec c k iv (snd rec).
Definition encrypt_master (c : cipher) (pass salt mk : bytes) : bytes * bytes :=
  let (k, iv) := c_kdf c pass salt in (salt, c_enc c k iv mk).

(* bool CWallet::Unlock(const SecureString& strWalletPassphrase)
   { for (const auto& [_, master_key] : mapMasterKeys) {
         if (!DecryptMasterKey(pass, master_key, plain)) continue;
         if (Unlock(plain)) return true; }
     return false; } *)
Fixpoint unlock_pass_loop (c : cipher) (st : wst) (pass : bytes) (l : list (nat * (bytes * bytes))) : option wst :=
  match l with
  | [] => None
  | (_, rec) :: r =>
    match decrypt_master c pass rec with
    | None => unlock_pass_loop c st pass r
    | Some mk => match unlock_mk c st mk with Some st' => Some st' | None => unlock_pass_loop c st pass r end
    end
  end.
Definition unlock_pass (c : cipher) (st : wst) (pass : bytes) : wst * bool :=
  match unlock_pass_loop c st pass (w_mk st) with Some st' => (st', true) | None => (st, false) end.

(* bool CWallet::Lock() { if (!HasEncryptionKeys()) return false; vMasterKey.clear(); return true; } *)
Definition lock (st : wst) : wst * bool :=
  if has_enc st then (mkW (w_spk st) (w_mk st) (w_maxid st) None (w_db st) (w_dirty st) (w_dead st), true) else (st, false).

(* KeyMap DescriptorScriptPubKeyMan::GetKeys()
   { if (m_storage.HasEncryptionKeys() && !m_storage.IsLocked()) { decrypt every crypted key with the master key } return m_map_keys; }
   the private key a manager can sign with *)
Definition get_key (c : cipher) (st : wst) (s : spkm) : option bytes :=
  if has_enc st && negb (is_locked st)
  then match w_vm st, s_crypt s with
       | Some mk, Some ct => decrypt_key c mk ct (s_pub s)
       | _, _ => None
       end
  else s_plain s.

(* bool DescriptorScriptPubKeyMan::Encrypt(master_key, batch)   (one key)
   { if (!m_map_crypted_keys.empty()) return false;
     for each key: EncryptSecret(master_key, secret, pubkey.GetHash(), crypted); m_map_crypted_keys[...] = crypted;
                   if (!batch->WriteCryptedDescriptorKey(GetID(), pubkey, crypted)) return false;
     m_map_keys.clear(); return true; }
   bool WalletBatch::WriteCryptedDescriptorKey(desc_id, pubkey, secret)
   { if (!WriteIC(walletdescriptorckey ..., secret, false)) return false;
     return EraseIC(walletdescriptorkey ...); }
   `chk` = true is this code: a failed write or erase makes Encrypt return false (the caller aborts the transaction and dies).
   `chk` = false is the code before /repo 767b57b and 8268070 (both results ignored), kept so that the theorems showing
   why the checks are needed stay stated about a transcription. *)
Definition spkm_encrypt (chk : bool) (c : cipher) (mk : bytes) (s : spkm) (d : dbst) (o : list bool) : option (spkm * dbst * list bool) :=
  match s_crypt s with
  | Some _ => None
  | None =>
    match s_plain s with
    | None => Some (s, d, o)
    | Some sec =>
      let ct := c_enc c mk (c_iv c (s_pub s)) sec in
      let (w, o1) := pop o in
      if w then
        let d1 := db_write d (KCrypt (s_id s)) (Some (VCrypt ct)) in
        let (e, o2) := pop o1 in
        if e then Some (mkS (s_id s) (s_pub s) None (Some ct), db_write d1 (KPlain (s_id s)) None, o2)
        else if chk then None else Some (mkS (s_id s) (s_pub s) None (Some ct), d1, o2)
      else if chk then None else Some (mkS (s_id s) (s_pub s) None (Some ct), d, o1)
    end
  end.

Fixpoint encrypt_all (chk : bool) (c : cipher) (mk : bytes) (l : list spkm) (d : dbst) (o : list bool) : option (list spkm * dbst * list bool) :=
  match l with
  | [] => Some ([], d, o)
  | s :: r =>
    match spkm_encrypt chk c mk s d o with
    | None => None
    | Some (s', d1, o1) =>
      match encrypt_all chk c mk r d1 o1 with
      | None => None
      | Some (r', d2, o2) => Some (s' :: r', d2, o2)
      end
    end
  end.

(* SetupWalletGeneration on the now encrypted, unlocked wallet: each new descriptor's key is encrypted at once
   (AddDescriptorKeyWithDB: WriteCryptedDescriptorKey), inside one transaction; fault free *)
Fixpoint setup_new (c : cipher) (mk : bytes) (news : list (nat * bytes)) (d : dbst) : list spkm * dbst :=
  match news with
  | [] => ([], d)
  | (id, sec) :: r =>
    let pub := c_pub c sec in
    let ct := c_enc c mk (c_iv c pub) sec in
    let d1 := db_write (db_write (db_write d (KCrypt id) (Some (VCrypt ct))) (KPlain id) None) (KDescRec id) (Some (VDescRec pub)) in
    let '(l, d2) := setup_new c mk r d1 in
    (mkS id pub None (Some ct) :: l, d2)
  end.

Inductive res := RTrue | RFalse | RDied.

Definition die (st : wst) : wst := mkW (w_spk st) (w_mk st) (w_maxid st) (w_vm st) (db_abort (w_db st)) (w_dirty st) true.

(* bool CWallet::EncryptWallet(const SecureString& strWalletPassphrase)
   { if (HasEncryptionKeys()) return false;
     plain_master_key = random; master_key.vchSalt = random; EncryptMasterKey(pass, plain_master_key, master_key)
     mapMasterKeys[++nMasterKeyMaxID] = master_key;
     encrypted_batch = new WalletBatch(GetDatabase());
     if (!encrypted_batch->TxnBegin()) { ...; mapMasterKeys.erase(nMasterKeyMaxID--); return false; }   // `chk` (before /repo eec7c54: the new master key stayed in mapMasterKeys)
     if (!encrypted_batch->WriteMasterKey(nMasterKeyMaxID, master_key)) {              // `chk` (before /repo 21144c2: result ignored)
         encrypted_batch->TxnAbort(); ...; mapMasterKeys.erase(nMasterKeyMaxID--); return false; }
     for (spk_man : m_spk_managers) if (!spk_man->Encrypt(plain_master_key, encrypted_batch)) { TxnAbort(); assert(false); }
     if (!encrypted_batch->TxnCommit()) { assert(false); }
     Lock(); if (!Unlock(strWalletPassphrase)) return false;
     SetupWalletGeneration(); Lock();
     GetDatabase().Rewrite();
     return true; }
   `mk`, `salt`, `news` are the random inputs (master key, salt, the keys of the new descriptors). *)
(* phase 1: up to and including the commit of the encryption transaction; inl = finished early with that result,
   inr = the state right after the commit (keys encrypted in memory and on disk, wallet not yet locked/unlocked again) *)
Definition encrypt_phase1 (chk : bool) (c : cipher) (st : wst) (pass mk salt : bytes) (o : list bool) : (wst * res) + wst :=
  if has_enc st then inl (st, RFalse) else
  let rec := encrypt_master c pass salt mk in
  let id := S (w_maxid st) in
  let mks := (id, rec) :: w_mk st in
  let (b, o1) := pop o in
  if negb b then inl ((if chk then st else mkW (w_spk st) mks id (w_vm st) (w_db st) (w_dirty st) (w_dead st)), RFalse) else
  let d0 := db_begin (w_db st) in
  let (wm, o2) := pop o1 in
  if negb wm && chk then
    (* checked: abort, forget the master key again, fail *)
    inl (mkW (w_spk st) (w_mk st) (w_maxid st) (w_vm st) (db_abort d0) (w_dirty st) (w_dead st), RFalse)
  else
  let d1 := if wm then db_write d0 (KMaster id) (Some (VMaster (fst rec) (snd rec))) else d0 in
  match encrypt_all chk c mk (w_spk st) d1 o2 with
  | None => inl (die (mkW (w_spk st) mks id (w_vm st) d1 (w_dirty st) false), RDied)
  | Some (spk', d2, o3) =>
    let (cm, _) := pop o3 in
    if negb cm then inl (die (mkW spk' mks id (w_vm st) d2 (w_dirty st) false), RDied) else
    inr (mkW spk' mks id None (db_commit d2) true (w_dead st))
  end.

(* phase 2: Lock(); Unlock(pass); SetupWalletGeneration(); Lock(); Rewrite() *)
Definition encrypt_phase2 (c : cipher) (st2 : wst) (pass mk : bytes) (news : list (nat * bytes)) : wst * res :=
  match unlock_pass c st2 pass with
  | (_, false) => (st2, RFalse)
  | (st3, true) =>
    let '(newl, d3) := setup_new c mk news (db_begin (w_db st3)) in
    (mkW (w_spk st3 ++ newl) (w_mk st3) (w_maxid st3) None (db_commit d3) false (w_dead st3), RTrue)
  end.

Definition encrypt_wallet (chk : bool) (c : cipher) (st : wst) (pass mk salt : bytes) (news : list (nat * bytes)) (o : list bool) : wst * res :=
  match encrypt_phase1 chk c st pass mk salt o with
  | inl r => r
  | inr st2 => encrypt_phase2 c st2 pass mk news
  end.

(* bool CWallet::ChangeWalletPassphrase(old, new)
   { bool fWasLocked = IsLocked(); Lock();
     for (auto& [id, master_key] : mapMasterKeys) {
         if (!DecryptMasterKey(old, master_key, plain)) return false;
         if (Unlock(plain)) {
             CMasterKey new_master_key{master_key};                          // same salt
             if (!EncryptMasterKey(new, plain, new_master_key)) return false;
             // Only switch to the new passphrase in memory once it is in the database
             if (!WalletBatch(GetDatabase()).WriteMasterKey(id, new_master_key)) { if (fWasLocked) Lock(); return false; }   // `chk`
             master_key = new_master_key;
             if (fWasLocked) Lock();
             return true; } }
     return false; }
   `chk` = false: the code before /repo e225567 (in-memory record replaced first, result of the write ignored). *)
Fixpoint set_mk (l : list (nat * (bytes * bytes))) (id : nat) (rec : bytes * bytes) : list (nat * (bytes * bytes)) :=
  match l with
  | [] => []
  | (i, r) :: t => if Nat.eqb i id then (i, rec) :: t else (i, r) :: set_mk t id rec
  end.

Fixpoint chpass_loop (chk : bool) (c : cipher) (st : wst) (was_locked : bool) (old new : bytes) (l : list (nat * (bytes * bytes))) (o : list bool) : wst * bool :=
  match l with
  | [] => (st, false)
  | (id, rec) :: r =>
    match decrypt_master c old rec with
    | None => (st, false)
    | Some mk =>
      match unlock_mk c st mk with
      | None => chpass_loop chk c st was_locked old new r o
      | Some st1 =>
        let rec' := encrypt_master c new (fst rec) mk in
        let (w, _) := pop o in
        if negb w && chk then ((if was_locked then fst (lock st1) else st1), false) else
        let d := if w then db_write (w_db st1) (KMaster id) (Some (VMaster (fst rec') (snd rec'))) else w_db st1 in
        let st2 := mkW (w_spk st1) (set_mk (w_mk st1) id rec') (w_maxid st1) (if was_locked then None else w_vm st1) d (w_dirty st1) (w_dead st1) in
        (st2, true)
      end
    end
  end.
Definition change_passphrase (chk : bool) (c : cipher) (st : wst) (old new : bytes) (o : list bool) : wst * bool :=
  let was_locked := is_locked st in
  let st0 := fst (lock st) in
  chpass_loop chk c st0 was_locked old new (w_mk st0) o.

(* loading: one manager per descriptor record with its key records; both kinds of key record for one descriptor make the
   constructor throw ("Wallet contains both unencrypted and encrypted keys"): the wallet does not load *)
Definition load_spkm (d : db) (id : nat) : option (option spkm) :=
  match d (KDescRec id) with
  | Some (VDescRec pub) =>
    let p := match d (KPlain id) with Some (VPlain s) => Some s | _ => None end in
    let cr := match d (KCrypt id) with Some (VCrypt ct) => Some ct | _ => None end in
    match p, cr with
    | Some _, Some _ => None
    | _, _ => Some (Some (mkS id pub p cr))
    end
  | _ => Some None
  end.
Fixpoint load_spkms (d : db) (ids : list nat) : option (list spkm) :=
  match ids with
  | [] => Some []
  | id :: r =>
    match load_spkm d id, load_spkms d r with
    | Some (Some s), Some l => Some (s :: l)
    | Some None, Some l => Some l
    | _, _ => None
    end
  end.
Fixpoint load_mks (d : db) (ids : list nat) : list (nat * (bytes * bytes)) :=
  match ids with
  | [] => []
  | i :: r => match d (KMaster i) with Some (VMaster s cmk) => (i, (s, cmk)) :: load_mks d r | _ => load_mks d r end
  end.

(* `ids`, `mids`: the finite sets of descriptor / master key ids to look at (every id ever used) *)
Definition reload (st : wst) (ids mids : list nat) : wst :=
  let d := committed (w_db st) in
  match load_spkms d ids with
  | None => mkW [] [] 0 None (mkDb d None) (w_dirty st) true
  | Some l =>
    let mks := load_mks d mids in
    mkW l mks (fold_right Nat.max 0%nat (map fst mks)) None (mkDb d None) (w_dirty st) false
  end.

Inductive op :=
| OEnc (pass mk salt : bytes) (news : list (nat * bytes)) (bits : list bool)
| OLock
| OUnlock (pass : bytes)
| OChPass (old new : bytes) (bits : list bool)
| OReload (ids mids : list nat).

Inductive out := OutB (b : bool) | OutDied | OutLoad | OutDead.

Definition step (chk : bool) (c : cipher) (st : wst) (o : op) : wst * out :=
  if w_dead st then (st, OutDead) else
  match o with
  | OEnc pass mk salt news bits =>
    match encrypt_wallet chk c st pass mk salt news bits with
    | (st', RTrue) => (st', OutB true)
    | (st', RFalse) => (st', OutB false)
    | (st', RDied) => (st', OutDied)
    end
  | OLock => let (st', b) := lock st in (st', OutB b)
  | OUnlock pass => let (st', b) := unlock_pass c st pass in (st', OutB b)
  | OChPass old new bits => let (st', b) := change_passphrase chk c st old new bits in (st', OutB b)
  | OReload ids mids => (reload st ids mids, OutLoad)
  end.

Fixpoint run (chk : bool) (c : cipher) (st : wst) (ops : list op) : list out * wst :=
  match ops with
  | [] => ([], st)
  | o :: r => let '(st1, x) := step chk c st o in let '(xs, st2) := run chk c st1 r in (x :: xs, st2)
  end.

(* a fresh unencrypted wallet with the given descriptors (id, secret) *)
Definition init_spkm (c : cipher) (x : nat * bytes) : spkm := mkS (fst x) (c_pub c (snd x)) (Some (snd x)) None.
Fixpoint init_db (c : cipher) (l : list (nat * bytes)) (d : db) : db :=
  match l with
  | [] => d
  | (id, sec) :: r => init_db c r (db_set (db_set d (KDescRec id) (Some (VDescRec (c_pub c sec)))) (KPlain id) (Some (VPlain sec)))
  end.
Definition init (c : cipher) (l : list (nat * bytes)) : wst :=
  mkW (map (init_spkm c) l) [] 0 None (mkDb (init_db c l (fun _ => None)) None) true false.

(* observations *)
Definition count_recs (d : db) (ids : list nat) (mk : nat -> rkey) : nat :=
  length (filter (fun i => match d (mk i) with Some _ => true | None => false end) ids).
Definition can_sign (c : cipher) (st : wst) : nat :=
  length (filter (fun s => match get_key c st s with Some _ => true | None => false end) (w_spk st)).

(* this tree *)
Definition code_chk : bool := true.

(* the ideal cipher used to run the state machine next to the real wallet: ciphertext = key, iv and plaintext side by
   side (decryption with another key or iv fails); kdf = passphrase and salt side by side; pubkey = the secret reversed *)
Definition ideal_cipher : cipher :=
  mkCipher (fun pass salt => (1%N :: pass ++ 256%N :: salt, [2%N]))
           (fun k iv pt => N.of_nat (length k) :: k ++ N.of_nat (length iv) :: iv ++ pt)
           (fun k iv ct =>
              match ct with
              | lk :: r =>
                let k' := firstn (N.to_nat lk) r in
                match skipn (N.to_nat lk) r with
                | li :: r2 =>
                  let iv' := firstn (N.to_nat li) r2 in
                  if bytes_eqb k k' && bytes_eqb iv iv' && N.eqb lk (N.of_nat (length k)) && N.eqb li (N.of_nat (length iv))
                  then Some (skipn (N.to_nat li) r2) else None
                | [] => None
                end
              | [] => None
              end)
           (fun s => rev s)
           (fun p => firstn 16 p).
