(* The addrman model's constants, taken from the compiled tree (gen/Params_gen.v). *)
From BV Require Import lib.Ints gen.Params_gen model.AddrMan.
Local Open Scope Z_scope.
Definition real_cfg : cfg :=
  mkCfg ADDRMAN_NEW_BUCKET_COUNT_P ADDRMAN_TRIED_BUCKET_COUNT_P ADDRMAN_BUCKET_SIZE_P ADDRMAN_NEW_BUCKETS_PER_ADDRESS_P
        ADDRMAN_SET_TRIED_COLLISION_SIZE_P ADDRMAN_HORIZON_S ADDRMAN_RETRIES_P ADDRMAN_MAX_FAILURES_P ADDRMAN_MIN_FAIL_S
        ADDRMAN_REPLACEMENT_S ADDRMAN_TEST_WINDOW_S.
