(* C41 / C56 (family walletspend): executable validators of what the wallet's transaction creation
   (wallet::CreateTransaction, src/wallet/spend.cpp) and fee bumping (feebumper::CreateRateBumpTransaction,
   src/wallet/feebumper.cpp) PRODUCE.  Translation validation: nothing here is a model of coin selection;
   the checkers below are run on every transaction the real wallet creates in the correspondence, and
   proofs/WalletSpendLemmas.v proves that whatever they accept satisfies the Prop-level statement of the property.

   The small pieces of arithmetic the property depends on ARE transcribed from the C++ (quoted): CFeeRate::GetFee,
   GetDustThreshold, GetSerializeSize(CTxOut), GetMinimumFeeRate / GetRequiredFeeRate, the subtract-fee-from-amount
   distribution loop of CreateTransactionInternal, SelectionResult::GetChange's threshold (min_viable_change). *)
From BV Require Import lib.Ints.
From Coq Require Import NArith.
Local Open Scope Z_scope.

(* ---------------------------------------------------------------------------------------------- *)
(* Fee arithmetic *)

(* policy/feerate.cpp, for a rate constructed as CFeeRate(sat_per_kvB) (m_feerate = FeePerVSize(rate, 1000)):
     CAmount CFeeRate::GetFee(int32_t virtual_bytes) const {
         if (m_feerate.IsEmpty()) { return CAmount(0);}
         CAmount nFee = CAmount(m_feerate.EvaluateFeeUp(virtual_bytes));      // ceil(fee * bytes / size)
         if (nFee == 0 && virtual_bytes != 0 && m_feerate.fee < 0) return CAmount(-1);
         return nFee; }
   Only rates >= 0 occur (the checkers require it), where this is ceil(rate * bytes / 1000). *)
Definition get_fee (rate bytes : Z) : Z := (rate * bytes + 999) / 1000.

(* serialize.h GetSizeOfCompactSize *)
Definition compact_size (n : Z) : Z :=
  if n <? 253 then 1 else if n <=? 65535 then 3 else if n <=? 4294967295 then 5 else 9.

Definition script := list N.
Definition slen (s : script) : Z := Z.of_nat (length s).

(* GetSerializeSize(CTxOut): 8 bytes nValue + compact size + script *)
Definition txout_ser_size (s : script) : Z := 8 + compact_size (slen s) + slen s.

(* script.cpp CScript::IsWitnessProgram:
     if (this->size() < 4 || this->size() > 42) return false;
     if (( *this)[0] != OP_0 && (( *this)[0] < OP_1 || ( *this)[0] > OP_16)) return false;
     if ((size_t)(( *this)[1] + 2) == this->size()) { ... return true; }  return false; *)
Definition is_witness_program (s : script) : bool :=
  match s with
  | b0 :: b1 :: _ =>
      (4 <=? slen s) && (slen s <=? 42) &&
      ((b0 =? 0)%N || ((81 <=? b0)%N && (b0 <=? 96)%N)) &&
      (Z.of_N b1 + 2 =? slen s)
  | _ => false
  end.

(* script.h: bool IsUnspendable() const { return (size() > 0 && *begin() == OP_RETURN) || (size() > MAX_SCRIPT_SIZE); } *)
Definition MAX_SCRIPT_SIZE : Z := 10000.
Definition is_unspendable (s : script) : bool :=
  match s with
  | b0 :: _ => (b0 =? 106)%N || (MAX_SCRIPT_SIZE <? slen s)
  | [] => false
  end.

(* policy/policy.cpp GetDustThreshold:
     if (txout.scriptPubKey.IsUnspendable()) return 0;
     uint64_t nSize{GetSerializeSize(txout)};
     if (txout.scriptPubKey.IsWitnessProgram(witnessversion, witnessprogram)) {
         nSize += (32 + 4 + 1 + (107 / WITNESS_SCALE_FACTOR) + 4);
     } else { nSize += (32 + 4 + 1 + 107 + 4); }
     return dustRelayFeeIn.GetFee(nSize); *)
Definition dust_threshold (dust_rate : Z) (s : script) : Z :=
  if is_unspendable s then 0
  else get_fee dust_rate (txout_ser_size s + (if is_witness_program s then 32 + 4 + 1 + 26 + 4 else 32 + 4 + 1 + 107 + 4)).

(* ---------------------------------------------------------------------------------------------- *)
(* What the driver reports *)

(* An output the wallet tracks (CWallet::GetTXOs), with the facts AvailableCoins consults, each read through the
   wallet's own primitive accessor: GetTxDepthInMainChain, IsTxImmatureCoinBase, IsLockedCoin, IsSpent,
   CachedTxIsTrusted, CWalletTx::InMempool, m_replaces_txid / m_replaced_by_txid. *)
Record wcoin := mkWCoin {
  wc_id : Z; wc_value : Z; wc_depth : Z;
  wc_immature : bool; wc_locked : bool; wc_spent : bool; wc_trusted : bool; wc_inmempool : bool; wc_replace : bool }.

Record recipient := mkRcp { rc_spk : script; rc_amount : Z; rc_sffo : bool }.

Record request := mkReq {
  rq_rcps : list recipient;
  rq_preset : list Z;              (* CCoinControl::Select *)
  rq_allow_other : bool;           (* m_allow_other_inputs *)
  rq_include_unsafe : bool;        (* m_include_unsafe_inputs *)
  rq_min_depth : Z; rq_max_depth : Z;
  rq_feerate : option Z;           (* m_feerate, sat/kvB *)
  rq_override : bool;              (* fOverrideFeeRate *)
  rq_dest_change : option script   (* destChange: caller-chosen change script *)
}.

Record env := mkEnv {
  e_relay_min : Z;      (* chain().relayMinFee() *)
  e_dust_rate : Z;      (* chain().relayDustFee() *)
  e_mempool_min : Z;    (* chain().mempoolMinFee() *)
  e_min_fee : Z;        (* wallet.m_min_fee *)
  e_fallback : Z;       (* wallet.m_fallback_fee *)
  e_discard : Z;        (* GetDiscardRate(wallet) *)
  e_max_fee : Z;        (* wallet.m_default_max_tx_fee *)
  e_spend_zc : bool;    (* wallet.m_spend_zero_conf_change *)
  e_chg_spk : script;   (* a script of the type the change output has / would have *)
  e_chg_spend : Z       (* CalculateMaximumSignedInputSize of that script (DUMMY_NESTED_P2WPKH_INPUT_SIZE when unknown) *)
}.

Record txin := mkIn { ti_id : Z; ti_value : Z; ti_size : Z }.   (* spent coin, its value, its maximum signed vsize *)
Record txout := mkOut { to_value : Z; to_spk : script; to_mine : bool }.   (* to_mine: CWallet::IsMine(scriptPubKey) *)

Record result := mkRes {
  r_ins : list txin; r_outs : list txout;
  r_fee : Z;                 (* CreatedTransactionResult::fee *)
  r_change_pos : option nat; (* CreatedTransactionResult::change_pos *)
  r_vsize : Z;               (* GetVirtualTransactionSize of the returned (signed) transaction *)
  r_max_vsize : Z;           (* CalculateMaximumSignedTxSize of it *)
  r_bump : Z;                (* ancestor bump fees at the effective feerate as the code accounts for them: individual bump fee of
                                every preset input + min(sum of individual, combined) over the automatically selected ones *)
  r_signed : bool            (* the caller asked for a signed transaction *)
}.

(* ---------------------------------------------------------------------------------------------- *)
(* Effective feerate. wallet/fees.cpp, with the fee estimator returning no estimate (a test chain has none):
     CFeeRate GetRequiredFeeRate(const CWallet& wallet) { return std::max(wallet.m_min_fee, wallet.chain().relayMinFee()); }
     MinimumFeeRateResult GetMinimumFeeRate(wallet, coin_control) {
       if (coin_control.m_feerate) {
           CFeeRate fee_rate{*coin_control.m_feerate};
           if (coin_control.fOverrideFeeRate) return {fee_rate, USER_SPECIFIED};
           CFeeRate required_feerate = GetRequiredFeeRate(wallet);
           if (required_feerate > fee_rate) return {required_feerate, REQUIRED};
           return {fee_rate, USER_SPECIFIED}; }
       ... fee_rate = estimate (0) ...
       if (fee_rate == CFeeRate(0)) { fee_rate = wallet.m_fallback_fee; ...
           if (wallet.m_fallback_fee == CFeeRate(0)) return {fee_rate, FALLBACK}; }
       if (fee_rate < min_mempool_feerate) fee_rate = min_mempool_feerate;
       if (required_feerate > fee_rate) return {required_feerate, REQUIRED};
       return {fee_rate, fee_reason}; } *)
Definition required_rate (e : env) : Z := Z.max (e_min_fee e) (e_relay_min e).
Definition effective_rate (e : env) (rq : request) : Z :=
  match rq_feerate rq with
  | Some r => if rq_override rq then r else Z.max r (required_rate e)
  | None => if e_fallback e =? 0 then 0
            else Z.max (Z.max (e_fallback e) (e_mempool_min e)) (required_rate e)
  end.
(* spend.cpp: a request whose explicit feerate is below the effective one is refused
     if (coin_control.m_feerate && coin_selection_params.m_effective_feerate > *coin_control.m_feerate) return util::Error{...} *)
Definition rate_acceptable (e : env) (rq : request) : bool :=
  match rq_feerate rq with Some r => effective_rate e rq <=? r | None => true end.

(* ---------------------------------------------------------------------------------------------- *)
(* Which wallet coins may be chosen automatically.  spend.cpp AvailableCoins (the `continue`s, in order):
     if (wallet.IsTxImmatureCoinBase(wtx) && !params.include_immature_coinbase) continue;
     if (nDepth < 0) continue;
     if (nDepth == 0 && !wtx.InMempool()) continue;
     bool safeTx = CachedTxIsTrusted(wallet, wtx, trusted_parents);
     if (nDepth == 0 && wtx.m_replaces_txid) safeTx = false;
     if (nDepth == 0 && wtx.m_replaced_by_txid) safeTx = false;
     if (only_safe && !safeTx) continue;
     if (nDepth < min_depth || nDepth > max_depth) continue;
     if (coinControl && coinControl->HasSelected() && coinControl->IsSelected(outpoint)) continue;
     if (wallet.IsLockedCoin(outpoint) && params.skip_locked) continue;
     if (wallet.IsSpent(outpoint)) continue;
   and AutomaticCoinSelection's eligibility filters, all of which have conf_mine >= 1 unless
   wallet.m_spend_zero_conf_change. *)
Definition coin_safe (c : wcoin) : bool := wc_trusted c && negb ((wc_depth c =? 0) && wc_replace c).
Definition spendable (e : env) (rq : request) (c : wcoin) : bool :=
  negb (wc_immature c) && (0 <=? wc_depth c) && (negb (wc_depth c =? 0) || wc_inmempool c) &&
  (rq_include_unsafe rq || coin_safe c) &&
  (rq_min_depth rq <=? wc_depth c) && (wc_depth c <=? rq_max_depth rq) &&
  negb (wc_locked c) && negb (wc_spent c) &&
  (e_spend_zc e || (1 <=? wc_depth c)).

Fixpoint find_coin (w : list wcoin) (id : Z) : option wcoin :=
  match w with
  | [] => None
  | c :: t => if wc_id c =? id then Some c else find_coin t id
  end.

Definition mem_z (x : Z) (l : list Z) : bool := existsb (Z.eqb x) l.
Fixpoint distinct_z (l : list Z) : bool :=
  match l with [] => true | x :: t => negb (mem_z x t) && distinct_z t end.

Definition in_ids (res : result) : list Z := map ti_id (r_ins res).
Definition sum_in (res : result) : Z := zsum (map ti_value (r_ins res)).
Definition sum_out (res : result) : Z := zsum (map to_value (r_outs res)).

(* an input is explicitly supplied by the caller, or a spendable wallet coin; a supplied wallet coin carries its value *)
Definition input_allowed (w : list wcoin) (e : env) (rq : request) (i : txin) : bool :=
  match find_coin w (ti_id i) with
  | Some c => (wc_value c =? ti_value i) &&
              (mem_z (ti_id i) (rq_preset rq) || (rq_allow_other rq && spendable e rq c))
  | None => mem_z (ti_id i) (rq_preset rq)
  end.

(* ---------------------------------------------------------------------------------------------- *)
(* Subtract-fee-from-amount.  spend.cpp CreateTransactionInternal:
     CAmount to_reduce = fee_needed - current_fee;
     bool fFirst = true;
     for (const auto& recipient : vecSend) { ...
         if (recipient.fSubtractFeeFromAmount) {
             txout.nValue -= to_reduce / outputs_to_subtract_fee_from; // Subtract fee equally from each selected recipient
             if (fFirst) { // first receiver pays the remainder not divisible by output count
                 fFirst = false;
                 txout.nValue -= to_reduce % outputs_to_subtract_fee_from; } ... } }
   (C++ / and % truncate toward zero: cdiv / cmod; to_reduce can be negative, see below.) *)
Definition n_sffo (rcps : list recipient) : Z := Z.of_nat (length (filter rc_sffo rcps)).
Fixpoint shares (q r : Z) (first : bool) (rcps : list recipient) : list Z :=
  match rcps with
  | [] => []
  | rc :: t => if rc_sffo rc then (if first then q + r else q) :: shares q r false t
               else 0 :: shares q r first t
  end.
Definition sffo_shares (to_reduce : Z) (rcps : list recipient) : list Z :=
  shares (cdiv to_reduce (n_sffo rcps)) (cmod to_reduce (n_sffo rcps)) true rcps.

Definition any_sffo (rcps : list recipient) : bool := existsb rc_sffo rcps.
Definition sum_requested (rcps : list recipient) : Z := zsum (map rc_amount rcps).

Definition remove_nth {A} (n : nat) (l : list A) : list A := firstn n l ++ skipn (S n) l.
Definition payouts (res : result) : list txout :=
  match r_change_pos res with None => r_outs res | Some p => remove_nth p (r_outs res) end.
Definition change_out (res : result) : option txout :=
  match r_change_pos res with None => None | Some p => nth_error (r_outs res) p end.
Definition change_value (res : result) : Z :=
  match change_out res with Some o => to_value o | None => 0 end.

(* the amount the subtract-fee recipients are collectively short of what was requested *)
Definition total_reduction (rcps : list recipient) (pays : list txout) : Z :=
  sum_requested rcps - zsum (map to_value pays).

Definition script_eqb (a b : script) : bool :=
  (length a =? length b)%nat && forallb (fun p => (fst p =? snd p)%N) (combine a b).

(* recipient k is paid to its script the requested amount minus its share *)
Fixpoint paid_ok (rcps : list recipient) (sh : list Z) (pays : list txout) : bool :=
  match rcps, sh, pays with
  | [], [], [] => true
  | rc :: rt, s :: st, o :: ot =>
      script_eqb (rc_spk rc) (to_spk o) && (to_value o =? rc_amount rc - s) && paid_ok rt st ot
  | _, _, _ => false
  end.

(* ---------------------------------------------------------------------------------------------- *)
(* Thresholds of change creation.  spend.cpp:
     coin_selection_params.m_change_fee = m_effective_feerate.GetFee(change_output_size);
     const auto dust = GetDustThreshold(change_prototype_txout, m_discard_feerate);
     const auto change_spend_fee = m_discard_feerate.GetFee(change_spend_size);
     min_viable_change = std::max(change_spend_fee + 1, dust);
     tx_noinputs_size = 10 + GetSizeOfCompactSize(vecSend.size()) + sum GetSerializeSizeForRecipient
     not_input_fees = m_effective_feerate.GetFee(m_subtract_fee_outputs ? 0 : tx_noinputs_size);
   coinselection.cpp SelectionResult::GetChange:
     change = m_use_effective ? GetSelectedEffectiveValue() - m_target - change_fee : GetSelectedValue() - m_target;
     if (change < min_viable_change) return 0; *)
Definition change_fee (e : env) (rate : Z) : Z := get_fee rate (txout_ser_size (e_chg_spk e)).
Definition min_viable_change (e : env) : Z :=
  Z.max (get_fee (e_discard e) (e_chg_spend e) + 1) (dust_threshold (e_discard e) (e_chg_spk e)).
Definition noinputs_size (rcps : list recipient) : Z :=
  10 + compact_size (Z.of_nat (length rcps)) + zsum (map (fun rc => txout_ser_size (rc_spk rc)) rcps).
Definition input_fees (rate : Z) (res : result) : Z := zsum (map (fun i => get_fee rate (ti_size i)) (r_ins res)).

(* the largest fee a change-less, non-subtracting transaction can pay: every per-piece fee the selection accounted for,
   plus what GetChange drops (strictly less than change_fee + min_viable_change) *)
Definition max_fee_without_change (e : env) (rq : request) (res : result) : Z :=
  let rate := effective_rate e rq in
  input_fees rate res + get_fee rate (noinputs_size (rq_rcps rq)) + r_bump res
  + change_fee e rate + min_viable_change e - 1.

(* ---------------------------------------------------------------------------------------------- *)
(* The clauses of the C41 checker (each one separately extractable so that a failure can be named) *)

Definition ck_inputs_distinct (res : result) : bool :=
  distinct_z (in_ids res) && negb (match r_ins res with [] => true | _ => false end).

Definition ck_inputs_allowed (w : list wcoin) (e : env) (rq : request) (res : result) : bool :=
  forallb (input_allowed w e rq) (r_ins res).

(* "requires all selected inputs be used" (coincontrol.h) *)
Definition ck_presets_used (rq : request) (res : result) : bool :=
  forallb (fun id => mem_z id (in_ids res)) (rq_preset rq).

Definition ck_conservation (res : result) : bool :=
  (sum_in res =? sum_out res + r_fee res) &&
  forallb (fun i => 0 <=? ti_value i) (r_ins res) && forallb (fun o => 0 <=? to_value o) (r_outs res).

Definition ck_change_pos (res : result) : bool :=
  match r_change_pos res with None => true | Some p => (p <? length (r_outs res))%nat end.

(* every output other than the change is a recipient's, in order, paid the requested amount minus its share *)
Definition ck_recipients (rq : request) (res : result) : bool :=
  let pays := payouts res in
  if any_sffo (rq_rcps rq)
  then paid_ok (rq_rcps rq) (sffo_shares (total_reduction (rq_rcps rq) pays) (rq_rcps rq)) pays
  else paid_ok (rq_rcps rq) (map (fun _ => 0) (rq_rcps rq)) pays.

(* how much the subtract-fee recipients pay: with a change output exactly the fee; without one the fee minus the
   surplus that was too small to become change (0 <= surplus < min_viable_change), which the code hands to them *)
Definition ck_sffo_amount (e : env) (rq : request) (res : result) : bool :=
  if any_sffo (rq_rcps rq) then
    let red := total_reduction (rq_rcps rq) (payouts res) in
    match r_change_pos res with
    | Some _ => red =? r_fee res
    | None => (red <=? r_fee res) && (r_fee res - red <? min_viable_change e)
    end
  else true.

Definition ck_no_dust (e : env) (res : result) : bool :=
  forallb (fun o => dust_threshold (e_dust_rate e) (to_spk o) <=? to_value o) (r_outs res).

(* change goes to the wallet (or where the caller said), and is worth creating *)
Definition ck_change (e : env) (rq : request) (res : result) : bool :=
  match r_change_pos res with
  | None => true
  | Some p =>
      match nth_error (r_outs res) p with
      | None => false
      | Some o =>
          (match rq_dest_change rq with Some s => script_eqb s (to_spk o) | None => to_mine o end) &&
          (min_viable_change e <=? to_value o) &&
          (dust_threshold (e_dust_rate e) (to_spk o) <=? to_value o)
      end
  end.

(* the maximum signed size (71-byte low-R ECDSA signatures, 64-byte Schnorr) bounds the real one, and a signed
   transaction is at most SIG_SLACK bytes per input smaller (DER integers with leading zero bytes) *)
Definition SIG_SLACK : Z := 3.
Definition ck_sizes (res : result) : bool :=
  (0 <? r_vsize res) && (r_vsize res <=? r_max_vsize res) &&
  (negb (r_signed res) || (r_max_vsize res <=? r_vsize res + SIG_SLACK * Z.of_nat (length (r_ins res)))) &&
  (0 <=? r_bump res) && forallb (fun i => 0 <=? ti_size i) (r_ins res).

Definition ck_rate (e : env) (rq : request) : bool :=
  (0 <=? effective_rate e rq) && rate_acceptable e rq &&
  (0 <=? e_discard e) && (0 <=? e_dust_rate e).

(* fee: at least the effective feerate on the maximum signed size; exactly that when there is change or the
   recipients pay; otherwise bounded by what GetChange can drop.  Never above the maximum transaction fee. *)
Definition ck_fee (e : env) (rq : request) (res : result) : bool :=
  let rate := effective_rate e rq in
  let needed := get_fee rate (r_max_vsize res) + r_bump res in
  (needed <=? r_fee res) && (r_fee res <=? e_max_fee e) &&
  (match r_change_pos res with
   | Some _ => r_fee res =? needed
   | None => if any_sffo (rq_rcps rq) then r_fee res =? needed
             else r_fee res <=? max_fee_without_change e rq res
   end).

Definition valid_funding (w : list wcoin) (e : env) (rq : request) (res : result) : bool :=
  ck_inputs_distinct res && ck_inputs_allowed w e rq res && ck_presets_used rq res &&
  ck_conservation res && ck_change_pos res && ck_recipients rq res && ck_sffo_amount e rq res &&
  ck_no_dust e res && ck_change e rq res && ck_sizes res && ck_rate e rq && ck_fee e rq res.
