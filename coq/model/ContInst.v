(* Instances of the container models that are extracted for the correspondence with the C++ drivers
   (elements are Z; T{} = 0; uninitialised memory = -1, which must never become observable), with a
   neutral script encoding (opcode, arguments) so that the OCaml glue only handles lists of numbers.
   Also the executable predicates `holds_*` (the plain-list semantics of the std counterpart evaluated
   on what the implementation printed).  Executable definitions only. *)
From Coq Require Import List Arith Bool ZArith.
From BV Require Import model.ContBuf model.ContPrevector model.ContVecDeque model.ContBitdeque model.ContPool.
Import ListNotations.
Local Open Scope Z_scope.

Definition raw_op : Type := Z * list Z.
Definition zn (z : Z) : nat := Z.to_nat z.
Definition nz (n : nat) : Z := Z.of_nat n.
Definition JUNK : Z := -1.

Fixpoint decode_all {A : Type} (dec : raw_op -> option A) (l : list raw_op) : option (list A) :=
  match l with
  | [] => Some []
  | r :: t => match dec r, decode_all dec t with Some o, Some os => Some (o :: os) | _, _ => None end
  end.

Definition list_Z_eqb (a b : list Z) : bool :=
  (length a =? length b)%nat && forallb (fun p => Z.eqb (fst p) (snd p)) (combine a b).

(* ------------------------------------------------------------------------------------------------
   prevector<N, T> *)
Definition pv_decode (r : raw_op) : option (pvop Z) :=
  match r with
  | (0, [v]) => Some (ContPrevector.PushBack Z v)
  | (1, []) => Some (ContPrevector.PopBack Z)
  | (2, [p; v]) => Some (ContPrevector.Insert Z (zn p) v)
  | (3, [p; n; v]) => Some (ContPrevector.InsertN Z (zn p) (zn n) v)
  | (4, p :: l) => Some (ContPrevector.InsertRange Z (zn p) l)
  | (5, [p]) => Some (ContPrevector.Erase Z (zn p))
  | (6, [a; b]) => Some (ContPrevector.EraseRange Z (zn a) (zn b))
  | (7, [n]) => Some (ContPrevector.Resize Z (zn n))
  | (8, [n]) => Some (ContPrevector.Reserve Z (zn n))
  | (9, []) => Some (ContPrevector.ShrinkToFit Z)
  | (10, []) => Some (ContPrevector.Clear Z)
  | (11, [n; v]) => Some (ContPrevector.Assign Z (zn n) v)
  | (12, l) => Some (ContPrevector.AssignRange Z l)
  | (13, [p; v]) => Some (ContPrevector.Update Z (zn p) v)
  | (14, n :: l) => Some (ContPrevector.ResizeUninit Z (zn n) l)
  | (15, []) => Some (ContPrevector.Swap Z)
  | (16, []) => Some (ContPrevector.MoveAssign Z)
  | (17, []) => Some (ContPrevector.CopyAssign Z)
  | (18, []) => Some (ContPrevector.CopyCtor Z)
  | (19, []) => Some (ContPrevector.MoveCtor Z)
  | (20, [n; v]) => Some (ContPrevector.CtorFill Z (zn n) v)
  | (21, l) => Some (ContPrevector.CtorRange Z l)
  | (22, [n]) => Some (ContPrevector.CtorN Z (zn n))
  | _ => None
  end.

(* what is observable of one prevector: capacity(), then the elements [begin(), end()) *)
Definition pv_obs (N : nat) (s : pv Z) : Z * list Z :=
  (nz (ContPrevector.capacity Z N s), ContPrevector.pv_abs Z N s).

Definition pv_trace_raw (N : Z) (ops : list raw_op) : option (list (option ((Z * list Z) * (Z * list Z)))) :=
  match decode_all pv_decode ops with
  | None => None
  | Some os =>
      let n := zn N in
      let e := ContPrevector.pv_empty Z 0 n in
      Some (map (fun o => match o with
                          | Some (a, b) => Some (pv_obs n a, pv_obs n b)
                          | None => None end)
                (ContPrevector.pv_trace Z 0 JUNK n (e, e) os))
  end.

(* the std::vector semantics of the same script *)
Definition pv_spec_raw (ops : list raw_op) : option (list (option (list Z * list Z))) :=
  match decode_all pv_decode ops with
  | None => None
  | Some os => Some (ContPrevector.vec_trace Z 0 ([], []) os)
  end.

Definition obs_eqb (x y : option (list Z * list Z)) : bool :=
  match x, y with
  | None, None => true
  | Some (a, b), Some (c, d) => list_Z_eqb a c && list_Z_eqb b d
  | _, _ => false
  end.
Fixpoint trace_eqb (x y : list (option (list Z * list Z))) : bool :=
  match x, y with
  | [], [] => true
  | a :: r, b :: t => obs_eqb a b && trace_eqb r t
  | _, _ => false
  end.

(* C61 predicate for prevector: the contents the implementation showed after every operation are the
   std::vector contents *)
Definition holds_pv (ops : list raw_op) (observed : list (option (list Z * list Z))) : bool :=
  match pv_spec_raw ops with
  | Some spec => trace_eqb spec observed
  | None => false
  end.

(* ------------------------------------------------------------------------------------------------
   VecDeque<T> *)
Definition vd_decode (r : raw_op) : option (vdop Z) :=
  match r with
  | (0, [v]) => Some (ContVecDeque.PushBack Z v)
  | (1, [v]) => Some (ContVecDeque.PushFront Z v)
  | (2, []) => Some (ContVecDeque.PopBack Z)
  | (3, []) => Some (ContVecDeque.PopFront Z)
  | (4, [n]) => Some (ContVecDeque.Resize Z (zn n))
  | (5, []) => Some (ContVecDeque.Clear Z)
  | (6, [n]) => Some (ContVecDeque.Reserve Z (zn n))
  | (7, []) => Some (ContVecDeque.ShrinkToFit Z)
  | (8, [i; v]) => Some (ContVecDeque.SetAt Z (zn i) v)
  | (9, []) => Some (ContVecDeque.Swap Z)
  | (10, []) => Some (ContVecDeque.MoveAssign Z)
  | (11, []) => Some (ContVecDeque.CopyAssign Z)
  | (12, []) => Some (ContVecDeque.CopyCtor Z)
  | (13, []) => Some (ContVecDeque.MoveCtor Z)
  | _ => None
  end.

(* observable of one VecDeque: capacity(), m_offset, then every element read through operator[]
   (a failed read would show as the junk value) *)
Definition vd_obs (s : vd Z) : (Z * Z) * list Z :=
  ((nz (v_cap Z s), nz (v_off Z s)),
   map (fun o => match o with Some v => v | None => JUNK end) (ContVecDeque.read_all Z s)).

Definition vd_trace_raw (ops : list raw_op) : option (list (option (((Z * Z) * list Z) * ((Z * Z) * list Z)))) :=
  match decode_all vd_decode ops with
  | None => None
  | Some os =>
      let e := ContVecDeque.vd_empty Z in
      Some (map (fun o => match o with
                          | Some (a, b) => Some (vd_obs a, vd_obs b)
                          | None => None end)
                (ContVecDeque.vd_trace Z 0 JUNK (e, e) os))
  end.

Definition vd_spec_raw (ops : list raw_op) : option (list (option (list Z * list Z))) :=
  match decode_all vd_decode ops with
  | None => None
  | Some os => Some (ContVecDeque.deq_trace Z 0 ([], []) os)
  end.

Definition holds_vd (ops : list raw_op) (observed : list (option (list Z * list Z))) : bool :=
  match vd_spec_raw ops with
  | Some spec => trace_eqb spec observed
  | None => false
  end.

(* ------------------------------------------------------------------------------------------------
   bitdeque<B>   (bits are 0/1) *)
Definition zb (z : Z) : bool := negb (z =? 0).
Definition bz (b : bool) : Z := if b then 1 else 0.

Definition bd_decode (r : raw_op) : option bdop :=
  match r with
  | (0, [v]) => Some (ContBitdeque.PushBack (zb v))
  | (1, [v]) => Some (ContBitdeque.PushFront (zb v))
  | (2, []) => Some ContBitdeque.PopBack
  | (3, []) => Some ContBitdeque.PopFront
  | (4, [n]) => Some (ContBitdeque.Resize (zn n))
  | (5, []) => Some ContBitdeque.Clear
  | (6, [n; v]) => Some (ContBitdeque.Assign (zn n) (zb v))
  | (7, l) => Some (ContBitdeque.AssignRange (map zb l))
  | (8, [p; v]) => Some (ContBitdeque.Insert (zn p) (zb v))
  | (9, [p; n; v]) => Some (ContBitdeque.InsertN (zn p) (zn n) (zb v))
  | (10, p :: l) => Some (ContBitdeque.InsertRange (zn p) (map zb l))
  | (11, [p]) => Some (ContBitdeque.Erase (zn p))
  | (12, [a; b]) => Some (ContBitdeque.EraseRange (zn a) (zn b))
  | (13, [i; v]) => Some (ContBitdeque.SetAt (zn i) (zb v))
  | (14, []) => Some ContBitdeque.Swap
  | (15, []) => Some ContBitdeque.CopyAssign
  | _ => None
  end.

(* observable of one bitdeque: m_deque.size(), m_pad_begin, m_pad_end, then every bit read through operator[] *)
Definition bd_obs (B : nat) (s : bd) : ((Z * Z) * Z) * list Z :=
  (((nz (d_nb s), nz (d_pb s)), nz (d_pe s)),
   map (fun i => match ContBitdeque.get B s i with Some v => bz v | None => JUNK end) (seq 0 (ContBitdeque.size B s))).

Definition bd_trace_raw (B : Z) (ops : list raw_op)
  : option (list (option ((((Z * Z) * Z) * list Z) * (((Z * Z) * Z) * list Z)))) :=
  match decode_all bd_decode ops with
  | None => None
  | Some os =>
      let b := zn B in
      Some (map (fun o => match o with
                          | Some (x, y) => Some (bd_obs b x, bd_obs b y)
                          | None => None end)
                (ContBitdeque.bd_trace b (bd_empty, bd_empty) os))
  end.

Definition bd_spec_raw (ops : list raw_op) : option (list (option (list Z * list Z))) :=
  match decode_all bd_decode ops with
  | None => None
  | Some os => Some (map (option_map (fun p => (map bz (fst p), map bz (snd p))))
                         (ContBitdeque.bdq_trace ([], []) os))
  end.

Definition holds_bd (ops : list raw_op) (observed : list (option (list Z * list Z))) : bool :=
  match bd_spec_raw ops with
  | Some spec => trace_eqb spec observed
  | None => false
  end.

(* ------------------------------------------------------------------------------------------------
   PoolResource<MAXB, ALIGN>(chunk_bytes); addresses are printed relative to the chunks:
   chunk k occupies [k * chunk_size, (k + 1) * chunk_size) *)
Definition pool_decode (r : raw_op) : option pop :=
  match r with
  | (0, [bytes; alignment]) => Some (PAlloc bytes alignment)
  | (1, [i]) => Some (PFree (zn i))
  | _ => None
  end.

Definition pool_cs (ALIGN chunk_bytes : Z) : Z := ContPool.num_elem_align_bytes ALIGN chunk_bytes * ContPool.EA ALIGN.
Definition pool_base (cs : Z) (k : nat) : Z := Z.of_nat k * cs.

(* one step as printed: result of the call (address, -1 = from ::operator new, -2 = a Deallocate step),
   NumAllocatedChunks, bytes left in the last chunk, every free list (head first) *)
Definition pool_obs_t : Type := ((Z * Z) * Z) * list (list Z).
Definition pool_obs (o : pop) (st : pool * list live_entry) : pool_obs_t :=
  let (s, live) := st in
  let res := match o with
             | PFree _ => -2
             | PAlloc _ _ => match last live (External, 0, 0) with
                             | (Pooled a, _, _) => a
                             | (External, _, _) => -1
                             end
             end in
  (((res, nz (length (p_chunks s))), p_end s - p_it s), p_free s).

Fixpoint pool_obs_trace (MAXB ALIGN : Z) (base : nat -> Z) (st : pool * list live_entry) (ops : list pop)
  : list (option pool_obs_t) :=
  match ops with
  | [] => []
  | o :: r => match ContPool.pool_step MAXB ALIGN base st o with
              | Some st' => Some (pool_obs o st') :: pool_obs_trace MAXB ALIGN base st' r
              | None => [None]
              end
  end.

Definition pool_trace_raw (MAXB ALIGN chunk_bytes : Z) (ops : list raw_op) : option (list (option pool_obs_t)) :=
  match decode_all pool_decode ops with
  | None => None
  | Some os =>
      let base := pool_base (pool_cs ALIGN chunk_bytes) in
      match ContPool.pool_new MAXB ALIGN base chunk_bytes with
      | None => None
      | Some s0 => Some (pool_obs_trace MAXB ALIGN base (s0, []) os)
      end
  end.

(* C61 predicate for the pool, evaluated on what the implementation returned: every pooled result is
   aligned, lies inside one chunk, overlaps no live allocation (blocks of the rounded size), and
   live + free-listed + unused bytes add up to NumAllocatedChunks * chunk size after every call. *)
Definition pool_holds_state : Type := list (Z * Z * Z).      (* live: (address or -1, bytes, alignment) *)
Definition blk (ALIGN : Z) (e : Z * Z * Z) : Z * Z :=
  let '(a, bytes, _) := e in (a, ContPool.num_elem_align_bytes ALIGN bytes * ContPool.EA ALIGN).
Definition pooled_entries (MAXB ALIGN : Z) (live : pool_holds_state) : list (Z * Z * Z) :=
  filter (fun e => let '(a, bytes, al) := e in ContPool.is_free_list_usable MAXB ALIGN bytes al) live.
Fixpoint free_bytes (ALIGN : Z) (k : Z) (fl : list (list Z)) : Z :=
  match fl with
  | [] => 0
  | l :: r => Z.of_nat (length l) * (k * ContPool.EA ALIGN) + free_bytes ALIGN (k + 1) r
  end.
Definition zsum' (l : list Z) : Z := fold_right Z.add 0 l.

Definition accounting_ok (MAXB ALIGN cs : Z) (live : pool_holds_state) (o : pool_obs_t) : bool :=
  let '(((_, nchunks), avail), fl) := o in
  zsum' (map (fun e => snd (blk ALIGN e)) (pooled_entries MAXB ALIGN live)) + free_bytes ALIGN 0 fl + avail
    =? nchunks * cs.

Definition alloc_ok (MAXB ALIGN cs : Z) (live : pool_holds_state) (bytes alignment : Z) (o : pool_obs_t) : bool :=
  let '(((res, nchunks), _), _) := o in
  if ContPool.is_free_list_usable MAXB ALIGN bytes alignment then
    let b := blk ALIGN (res, bytes, alignment) in
    (0 <=? res) && (res mod alignment =? 0) && (res mod ContPool.EA ALIGN =? 0) &&
    (let c := res / cs in (c <? nchunks) && (fst b + snd b <=? (c + 1) * cs)) &&
    forallb (fun e => ContPool.idisjb b (blk ALIGN e)) (pooled_entries MAXB ALIGN live)
  else res =? -1.

Fixpoint pool_holds_go (MAXB ALIGN cs : Z) (live : pool_holds_state) (ops : list pop)
  (obs : list (option pool_obs_t)) : bool :=
  match ops, obs with
  | [], [] => true
  | PAlloc bytes alignment :: r, Some o :: t =>
      let '(((res, _), _), _) := o in
      let live' := live ++ [(res, bytes, alignment)] in
      alloc_ok MAXB ALIGN cs live bytes alignment o && accounting_ok MAXB ALIGN cs live' o &&
      pool_holds_go MAXB ALIGN cs live' r t
  | PFree i :: r, Some o :: t =>
      (Nat.ltb i (length live)) &&
      (let live' := firstn i live ++ skipn (S i) live in
       accounting_ok MAXB ALIGN cs live' o && pool_holds_go MAXB ALIGN cs live' r t)
  | _ :: _, [None] => true      (* the script ended in a client error: nothing to judge after it *)
  | _, _ => false
  end.

Definition holds_pool (MAXB ALIGN chunk_bytes : Z) (ops : list raw_op) (obs : list (option pool_obs_t)) : bool :=
  match decode_all pool_decode ops with
  | Some os => pool_holds_go MAXB ALIGN (pool_cs ALIGN chunk_bytes) [] os obs
  | None => false
  end.
