(* C63 -- a small chain selector for the driver's op scripts (regtest, every block has the same proof of
   work, every block is submitted with its data as soon as it is built, so "most work" = "greatest height" and
   nSequenceId = order of submission).  It only chooses WHICH steps ActivateBestChain / InvalidateBlock take;
   the notifications are then produced by Notify.exec_ops from those steps, so the prediction goes through the
   very functions the theorems are about.  No theorem depends on this file.

   Transcribed from src/validation.cpp: ProcessNewBlock (AcceptBlockHeader's bad-prevblk / prev-blk-not-found),
   FindMostWorkChain, ActivateBestChainStep, ActivateBestChain's two loops, InvalidBlockFound / InvalidChainFound
   (SetBlockFailureFlags), InvalidateBlock, ResetBlockFailureFlags, and the two RPC bodies in rpc/blockchain.cpp. *)
From BV Require Import lib.Ints model.Notify.
Local Open Scope Z_scope.

Record sblk := { sb_id : block; sb_parent : block; sb_height : Z; sb_seq : Z; sb_failed : bool; sb_bad : bool; sb_txs : list txid }.
Record simst := { sm_index : list sblk; sm_chain : list block; sm_next : Z }.

Fixpoint get_blk (l : list sblk) (b : block) : option sblk :=
  match l with [] => None | x :: r => if sb_id x =? b then Some x else get_blk r b end.

Definition sim_tree (st : simst) : tree :=
  fun b => match get_blk (sm_index st) b with Some x => Some {| bi_prev := sb_parent x; bi_txs := sb_txs x |} | None => None end.

Definition set_failed (v : bool) (x : sblk) : sblk :=
  {| sb_id := sb_id x; sb_parent := sb_parent x; sb_height := sb_height x; sb_seq := sb_seq x; sb_failed := v; sb_bad := sb_bad x; sb_txs := sb_txs x |}.

(* b's ancestors (b first) as far as the index knows them *)
Fixpoint ancestors (idx : list sblk) (b : block) (fuel : nat) : list block :=
  match fuel with
  | O => []
  | S f => match get_blk idx b with Some x => b :: ancestors idx (sb_parent x) f | None => [] end
  end.
Definition anc (st : simst) (b : block) : list block := ancestors (sm_index st) b (S (length (sm_index st))).
Definition is_desc (st : simst) (x a : block) : bool := memb a (anc st x).

(* CBlockIndexWorkComparator()(a, b): a has less work, or the same work and was received later *)
Definition worse (a b : sblk) : bool := (sb_height a <? sb_height b) || ((sb_height a =? sb_height b) && (sb_seq a >? sb_seq b)).

(* FindMostWorkChain: the best entry of setBlockIndexCandidates whose path to the active chain has no failed block.
   Failure flags are propagated to descendants when they are set (SetBlockFailureFlags) and nothing can be added
   below a failed block (bad-prevblk), so the flag of the block itself decides. *)
Fixpoint best_of (acc : option sblk) (l : list sblk) : option sblk :=
  match l with
  | [] => acc
  | x :: r =>
      if sb_failed x then best_of acc r
      else match acc with
           | None => best_of (Some x) r
           | Some a => best_of (if worse a x then Some x else Some a) r
           end
  end.
Definition find_most_work (st : simst) : option block :=
  match best_of None (sm_index st) with Some x => Some (sb_id x) | None => None end.

Definition tip (st : simst) : block := match sm_chain st with b :: _ => b | [] => 0 end.

(* SetBlockFailureFlags(b) + b itself *)
Definition fail_from (st : simst) (b : block) : simst :=
  {| sm_index := map (fun x => if is_desc st (sb_id x) b then set_failed true x else x) (sm_index st);
     sm_chain := sm_chain st; sm_next := sm_next st |}.

(* ResetBlockFailureFlags(b): b, its descendants and its ancestors *)
Definition reset_from (st : simst) (b : block) : simst :=
  {| sm_index := map (fun x => if is_desc st (sb_id x) b || is_desc st b (sb_id x) then set_failed false x else x) (sm_index st);
     sm_chain := sm_chain st; sm_next := sm_next st |}.

Definition height_of (st : simst) (b : block) : Z := match get_blk (sm_index st) b with Some x => sb_height x | None => 0 end.

(* the part of the active chain above the fork with `target`, and the blocks to connect (lowest first) *)
Definition to_disconnect (st : simst) (target : block) : list block :=
  let a := anc st target in filter (fun b => negb (memb b a)) (sm_chain st).
Definition to_connect (st : simst) (target : block) : list block :=
  rev (filter (fun b => negb (memb b (sm_chain st))) (anc st target)).

(* the connect loop of ActivateBestChainStep *)
Fixpoint connect_loop (st : simst) (old_height : Z) (l : list block) (acc : list conn) : simst * list conn * bool :=
  match l with
  | [] => (st, acc, false)
  | b :: r =>
      match get_blk (sm_index st) b with
      | None => (st, acc, false)
      | Some x =>
          if sb_bad x then (fail_from st b, acc, true)                 (* ConnectTip fails: InvalidBlockFound, fInvalidFound *)
          else
            let st' := {| sm_index := sm_index st; sm_chain := b :: sm_chain st; sm_next := sm_next st |} in
            let acc' := acc ++ [{| c_blk := b; c_rem := []; c_recent := false |}] in
            if sb_height x >? old_height then (st', acc', false)        (* more work than pindexOldTip: return *)
            else connect_loop st' old_height r acc'
      end
  end.

Definition sim_step (st : simst) (target : block) : simst * step * bool :=
  let old_height := height_of st (tip st) in
  let d := to_disconnect st target in
  let c := to_connect st target in
  let st1 := {| sm_index := sm_index st; sm_chain := skipn (length d) (sm_chain st); sm_next := sm_next st |} in
  let '(st2, conns, invalid) := connect_loop st1 old_height c [] in
  (st2, {| st_disc := map (fun _ => ([], false)) d; st_conn := conns; st_fix := [] |}, invalid).

Definition worse_id (st : simst) (a b : block) : bool :=
  match get_blk (sm_index st) a, get_blk (sm_index st) b with Some x, Some y => worse x y | _, _ => false end.

(* the inner do-while of ActivateBestChain *)
Fixpoint sim_inner (st : simst) (start : block) (mw : option block) (acc : list step) (fuel : nat)
  : simst * list step * option block :=
  match fuel with
  | O => (st, acc, mw)
  | S f =>
      let mw1 := match mw with Some m => Some m | None => find_most_work st end in
      match mw1 with
      | None => (st, acc, mw1)
      | Some m =>
          if m =? tip st then (st, acc, mw1)
          else
            let '(st', stp, invalid) := sim_step st m in
            let mw2 := if invalid then None else mw1 in
            if worse_id st' (tip st') start then sim_inner st' start mw2 (acc ++ [stp]) f
            else (st', acc ++ [stp], mw2)
      end
  end.

(* the outer do-while *)
Fixpoint sim_abc (st : simst) (mw : option block) (fuel : nat) : simst * list (list step) :=
  match fuel with
  | O => (st, [])
  | S f =>
      let '(st', steps, mw') := sim_inner st (tip st) mw [] (S (S (length (sm_index st)))) in
      match steps with
      | [] => (st', [])
      | _ =>
          if match mw' with Some m => m =? tip st' | None => false end then (st', [steps])
          else let '(st'', its) := sim_abc st' mw' f in (st'', steps :: its)
      end
  end.

Definition sim_activate (st : simst) : simst * list op :=
  let '(st', its) := sim_abc st None (4 * S (length (sm_index st)) * S (length (sm_index st))) in
  (st', match its with [] => [] | _ => [OActivate its] end).

Inductive sop :=
| SMine (b parent : block) (bad : bool) (txs : list txid)
| SInvalidate (b : block)
| SReconsider (b : block).

Definition sim_op (st : simst) (o : sop) : simst * list op :=
  match o with
  | SMine b parent bad txs =>
      match get_blk (sm_index st) b, get_blk (sm_index st) parent with
      | None, Some p =>
          if sb_failed p then (st, [])                                   (* bad-prevblk *)
          else
            let x := {| sb_id := b; sb_parent := parent; sb_height := sb_height p + 1; sb_seq := sm_next st;
                        sb_failed := false; sb_bad := bad; sb_txs := txs |} in
            sim_activate {| sm_index := sm_index st ++ [x]; sm_chain := sm_chain st; sm_next := sm_next st + 1 |}
      | _, _ => (st, [])                                                 (* duplicate / prev-blk-not-found *)
      end
  | SInvalidate b =>
      match get_blk (sm_index st) b with
      | None => (st, [])
      | Some _ =>
          let d := if memb b (sm_chain st) then S (length (to_disconnect st b)) else O in
          let st1 := fail_from {| sm_index := sm_index st; sm_chain := skipn d (sm_chain st); sm_next := sm_next st |} b in
          let '(st2, ops) := sim_activate st1 in
          (st2, (match d with O => [] | _ => [OInvalidate (map (fun _ => ([], false, [])) (seq 0 d))] end) ++ ops)
      end
  | SReconsider b =>
      match get_blk (sm_index st) b with
      | None => (st, [])
      | Some _ => sim_activate (reset_from st b)
      end
  end.

Fixpoint sim_ops (st : simst) (l : list sop) : simst * list op :=
  match l with
  | [] => (st, [])
  | o :: r => let '(st1, o1) := sim_op st o in let '(st2, o2) := sim_ops st1 r in (st2, o1 ++ o2)
  end.

(* base block 0 (the fixture tip), below it a pseudo block -1 so that the chain has a parent for it *)
Definition sim_init : simst :=
  {| sm_index := [ {| sb_id := -1; sb_parent := -2; sb_height := -1; sb_seq := -1; sb_failed := false; sb_bad := false; sb_txs := [] |};
                   {| sb_id := 0; sb_parent := -1; sb_height := 0; sb_seq := 0; sb_failed := false; sb_bad := false; sb_txs := [] |} ];
     sm_chain := [0; -1]; sm_next := 1 |}.

(* Predicted notifications of a script: the selector picks the steps, Notify.exec_ops emits.  The tree is the
   final index (blocks are only ever added). *)
Definition sim_events (l : list sop) : option (list block * list event) :=
  let '(st, ops) := sim_ops sim_init l in
  match exec_ops (sim_tree st) {| ns_chain := [0; -1]; ns_pool := []; ns_ibd := false |} ops with
  | Some (s, ev) => Some (ns_chain s, ev)
  | None => None
  end.
