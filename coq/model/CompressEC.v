(* Executable instance of the two secp256k1 operations model/Compress.v is parameterised by:
     CPubKey::IsFullyValid  -> secp256k1_ec_pubkey_parse of 0x04 || X || Y :
                               X < p, Y < p (secp256k1_fe_set_b32_limit), Y^2 = X^3 + 7 (secp256k1_ge_is_valid_var)
     CPubKey::Decompress    -> secp256k1_ec_pubkey_parse of (0x02|0x03) || X : X < p,
                               secp256k1_ge_set_xo_var (y = sqrt(x^3+7) = (x^3+7)^((p+1)/4), fail when
                               y^2 <> x^3+7, negate y when its parity differs from the tag), then
                               secp256k1_ec_pubkey_serialize uncompressed.
   Definitions only.  Field arithmetic is plain Z arithmetic modulo p. *)
From Coq Require Import NArith.
From BV Require Import lib.Ints model.SerBase.
Local Open Scope Z_scope.

Definition secp_p : Z := 2 ^ 256 - 2 ^ 32 - 977.

Fixpoint be_value_acc (acc : Z) (l : list N) : Z :=
  match l with [] => acc | b :: r => be_value_acc (acc * 256 + Z.of_N b) r end.
Definition be_value (l : list N) : Z := be_value_acc 0 l.
Definition be_bytes (k : nat) (v : Z) : list N := rev (le_bytes k v).

(* x mod p for x >= 0, using p = 2^256 - c with c = 2^32 + 977: 2^256 = c (mod p), so the part
   above bit 256 is folded down twice, then p is subtracted at most once for x < 2^512 (the last
   `mod` is only reached for larger x).  fe_red_spec (proofs/CompressECLemmas.v): fe_red x = x mod p. *)
Definition secp_c : Z := 2 ^ 32 + 977.
Definition fold256 (x : Z) : Z := Z.shiftr x 256 * secp_c + Z.land x (Z.ones 256).
Definition fe_red (x : Z) : Z :=
  let t := fold256 (fold256 x) in
  if t <? secp_p then t
  else let u := t - secp_p in if u <? secp_p then u else u mod secp_p.

(* a^e mod p by square and multiply over the binary digits of e *)
Fixpoint fe_pow (a : Z) (e : positive) : Z :=
  match e with
  | xH => fe_red a
  | xO e' => let z := fe_pow a e' in fe_red (z * z)
  | xI e' => let z := fe_pow a e' in fe_red (fe_red (z * z) * a)
  end.

Definition secp_sqrt_exp : positive := Z.to_pos ((secp_p + 1) / 4).
Definition secp_curve_rhs (x : Z) : Z := fe_red (fe_red (x * x) * x + 7).

Definition secp_fully_valid (pk : list N) : bool :=
  match pk with
  | h :: r =>
    (h =? 4)%N && (length r =? 64)%nat &&
    (let x := be_value (firstn 32 r) in
     let y := be_value (skipn 32 r) in
     (x <? secp_p) && (y <? secp_p) && (fe_red (y * y) =? secp_curve_rhs x))
  | [] => false
  end.

Definition secp_decompress (c : list N) : option (list N) :=
  match c with
  | h :: xs =>
    if ((h =? 2)%N || (h =? 3)%N) && (length xs =? 32)%nat then
      let x := be_value xs in
      if x <? secp_p then
        let c3 := secp_curve_rhs x in
        let r := fe_pow c3 secp_sqrt_exp in
        if fe_red (r * r) =? c3 then
          let y := if Bool.eqb (Z.odd r) (h =? 3)%N then r else fe_red (secp_p - r) in
          Some (4%N :: be_bytes 32 x ++ be_bytes 32 y)
        else None
      else None
    else None
  | [] => None
  end.
