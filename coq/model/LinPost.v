(* PostLinearize.  Transcribed from src/cluster_linearize.h  PostLinearize (the group list with
   merge / swap), at the level of the algorithm its comments describe: the singly-linked lists of
   the implementation are replaced by Coq lists of groups; each group carries what TxEntry's tail
   fields carry (its transactions in pass order, the union of their dependencies, the summed feerate).
   Compared output-for-output with the real function on every linearization a case produces. *)
From BV Require Import lib.Ints model.Fee model.Lin.
Local Open Scope Z_scope.

(* DepGraph::Ancestors(i) / Descendants(i): closure of the direct dependencies, including i *)
Definition parents_of (deps : list (nat * nat)) (i : nat) : list nat :=
  map fst (filter (fun d => Nat.eqb (snd d) i) deps).
Definition children_of (deps : list (nat * nat)) (i : nat) : list nat :=
  map snd (filter (fun d => Nat.eqb (fst d) i) deps).
Fixpoint closure (fuel : nat) (next : nat -> list nat) (acc : list nat) : list nat :=
  match fuel with
  | O => acc
  | S k =>
      let acc' := fold_left (fun a x => if memn x a then a else a ++ [x]) (flat_map next acc) acc in
      if Nat.eqb (length acc') (length acc) then acc else closure k next acc'
  end.
Definition ancestors (n : nat) (deps : list (nat * nat)) (i : nat) : list nat := closure n (parents_of deps) [i].
Definition descendants (n : nat) (deps : list (nat * nat)) (i : nat) : list nat := closure n (children_of deps) [i].

Record pgroup := mk_pgroup {
  pg_txs : list nat;     (* the group's transactions, in pass order (prev_tx chain, first_tx .. tail) *)
  pg_deps : list nat;    (* TxEntry::deps *)
  pg_fee : FF            (* TxEntry::feerate (fee negated in even passes) *)
}.

Definition overlaps (a b : list nat) : bool := existsb (fun x => memn x b) a.

(* the merge/swap cycle for the newly appended group `cur`:
     while (ByRatio{entries[cur_group].feerate} > ByRatio{entries[prev_group].feerate}) {
         if (entries[cur_group].deps.Overlaps(entries[prev_group].group)) { merge prev_group into cur_group }
         else { swap: [PP, P, C, N] becomes [PP, C, P, N] }
     }
   `before`: the groups before cur, nearest first (the sentinel is the end of this list: its empty
   feerate is never lower, so the loop stops there); `after`: the groups cur has been swapped in front
   of, nearest first.  Result: all groups, LAST group first. *)
Fixpoint pl_settle (cur : pgroup) (before after : list pgroup) : list pgroup :=
  match before with
  | [] => rev after ++ [cur]
  | p :: rest =>
      if byratio_gt (pg_fee cur) (pg_fee p) then
        if overlaps (pg_deps cur) (pg_txs p)
        then pl_settle (mk_pgroup (pg_txs p ++ pg_txs cur) (pg_deps cur ++ pg_deps p) (ff_add (pg_fee cur) (pg_fee p))) rest after
        else pl_settle cur rest (p :: after)
      else rev after ++ cur :: before
  end.

(* one pass; rev_ = !(pass & 1): even passes run back to front with descendants as dependencies and
   negated fees, and their output is written reversed *)
Definition pl_pass (n : nat) (deps : list (nat * nat)) (fr : list FF) (rev_ : bool) (lin : list nat) : list nat :=
  let seq := if rev_ then rev lin else lin in
  let groups :=
    fold_left (fun L idx =>
      let f := nth idx fr (0, 0) in
      pl_settle (mk_pgroup [idx]
                           (if rev_ then descendants n deps idx else ancestors n deps idx)
                           (if rev_ then (wrap64 (- fst f), snd f) else f))
                L []) seq [] in
  let out := concat (map pg_txs (rev groups)) in
  if rev_ then rev out else out.

(* for (int pass = 0; pass < 2; ++pass) { int rev = !(pass & 1); ... } *)
Definition post_linearize (n : nat) (deps : list (nat * nat)) (fr : list FF) (lin : list nat) : list nat :=
  pl_pass n deps fr false (pl_pass n deps fr true lin).
