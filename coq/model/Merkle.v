(* Bitcoin merkle tree: root with mutation flag, merkle path, path folding.  Transcribed from
     src/consensus/merkle.cpp    ComputeMerkleRoot, MerkleComputation (ComputeMerklePath)
     src/test/merkle_tests.cpp   ComputeMerkleRootFromBranch (the verifier of a path)
   Executable definitions only (proofs are in proofs/MerkleLemmas.v).

   The inner-node hash  H a b = SHA256d(a || b)  is a Section variable: every function below takes it
   as an argument after the Section closes (the OCaml driver passes a real double-SHA256). *)
From BV Require Import lib.Ints.
Local Open Scope Z_scope.

Section Merkle.
Variable D : Type.                 (* uint256 *)
Variable deq : D -> D -> bool.     (* operator== on uint256 *)
Variable H : D -> D -> D.          (* Hash(a, b) = SHA256D64 on one 64-byte pair *)
Variable zero : D.                 (* uint256() *)

(* ---------------------------------------------------------------------------------------------
   uint256 ComputeMerkleRoot(std::vector<uint256> hashes, bool* mutated) {
       bool mutation = false;
       while (hashes.size() > 1) {
           if (mutated) {
               for (size_t pos = 0; pos + 1 < hashes.size(); pos += 2) {
                   if (hashes[pos] == hashes[pos + 1]) mutation = true;
               }
           }
           if (hashes.size() & 1) {
               hashes.push_back(hashes.back());
           }
           SHA256D64(hashes[0].begin(), hashes[0].begin(), hashes.size() / 2);
           hashes.resize(hashes.size() / 2);
       }
       if (mutated) *mutated = mutation;
       if (hashes.size() == 0) return uint256();
       return hashes[0];
   } *)

(* for (pos = 0; pos + 1 < size; pos += 2) if (hashes[pos] == hashes[pos+1]) mutation = true;
   (an unpaired last element is not compared with anything) *)
Fixpoint scan_pairs (l : list D) : bool :=
  match l with
  | a :: b :: r => orb (deq a b) (scan_pairs r)
  | _ => false
  end.

(* if (hashes.size() & 1) hashes.push_back(hashes.back()); *)
Fixpoint dup_odd (l : list D) : list D :=
  match l with
  | [] => []
  | [a] => [a; a]
  | a :: b :: r => a :: b :: dup_odd r
  end.

(* SHA256D64(out = hashes, in = hashes, blocks = size/2); resize(size/2):
   element i becomes Hash(hashes[2i], hashes[2i+1]); a trailing unpaired element is dropped by the
   integer division (cannot happen after dup_odd). *)
Fixpoint hash_pairs (l : list D) : list D :=
  match l with
  | a :: b :: r => H a b :: hash_pairs r
  | _ => []
  end.

Definition level_up (l : list D) : list D := hash_pairs (dup_odd l).

(* the while loop; fuel = number of iterations allowed (length l is always enough: the list at
   least halves, see MerkleLemmas.merkle_loop_total) *)
Fixpoint merkle_loop (fuel : nat) (l : list D) (mutation : bool) : option (list D * bool) :=
  match l with
  | [] | [_] => Some (l, mutation)
  | _ =>
    match fuel with
    | O => None
    | S f => merkle_loop f (level_up l) (orb mutation (scan_pairs l))
    end
  end.

(* ComputeMerkleRoot(hashes, &mutated) -> (root, mutated) *)
Definition compute_merkle_root (l : list D) : option (D * bool) :=
  match merkle_loop (length l) l false with
  | Some ([], m) => Some (zero, m)
  | Some (h :: _, m) => Some (h, m)
  | None => None
  end.

(* ComputeMerkleRoot(hashes) with mutated == nullptr: the scan is skipped, the hashes are the same *)
Definition compute_merkle_root_noflag (l : list D) : option D :=
  match compute_merkle_root l with Some (r, _) => Some r | None => None end.

(* ---------------------------------------------------------------------------------------------
   static uint256 ComputeMerkleRootFromBranch(const uint256& leaf, const std::vector<uint256>& vMerkleBranch, uint32_t nIndex) {
       uint256 hash = leaf;
       for (it = vMerkleBranch.begin(); it != vMerkleBranch.end(); ++it) {
           if (nIndex & 1) hash = Hash( *it, hash); else hash = Hash(hash, *it);
           nIndex >>= 1;
       }
       return hash;
   } *)
Fixpoint fold_path (hash : D) (index : Z) (branch : list D) : D :=
  match branch with
  | [] => hash
  | s :: r => fold_path (if Z.odd index then H s hash else H hash s) (Z.shiftr index 1) r
  end.

(* ---------------------------------------------------------------------------------------------
   static void MerkleComputation(const std::vector<uint256>& leaves, uint32_t leaf_pos, std::vector<uint256>& path)

   uint256 inner[32]  is a partial map level -> hash; reading a level that was never written makes
   the model return None (MerkleLemmas proves that never happens).  matchlevel == -1 is None. *)
Definition inner_t := nat -> option D.
Definition inner_empty : inner_t := fun _ => None.
Definition inner_set (inner : inner_t) (level : nat) (h : D) : inner_t :=
  fun j => if Nat.eqb j level then Some h else inner j.

Definition level_is (matchlevel : option nat) (level : nat) : bool :=
  match matchlevel with Some m => Nat.eqb m level | None => false end.

(* The two loops of the shape
       for (...; !(count & ((uint32_t{1}) << level)); level++) {
           if (matchh) { path.push_back(inner[level]); }
           else if (matchlevel == level) { path.push_back(h); matchh = true; }
           h = Hash(inner[level], h);
       }
   `c` is count >> level as a binary numeral: bit `level` of count is clear iff c = xO _, and
   level++ moves to the next digit.  `(uint32_t{1}) << level` needs level < 32 (else undefined
   behaviour: None).  Result: (level, h, matchh, path) at loop exit. *)
Fixpoint carry (c : positive) (level : nat) (inner : inner_t) (matchlevel : option nat)
               (h : D) (matchh : bool) (path : list D) : option (nat * D * bool * list D) :=
  if negb (Nat.ltb level 32) then None else
  match c with
  | xO c' =>
    match inner level with
    | None => None
    | Some il =>
      let pm := if matchh then (path ++ [il], true)
                else if level_is matchlevel level then (path ++ [h], true)
                else (path, false) in
      carry c' (S level) inner matchlevel (H il h) (snd pm) (fst pm)
    end
  | _ => Some (level, h, matchh, path)
  end.

(* count >> level as a numeral; 0 means no bit at or above `level` is set, in which case the C++
   loop `while (!(count & (1 << level))) level++` runs level up to 32 (undefined shift): None *)
Definition shifted (count : Z) (level : nat) : option positive :=
  match Z.shiftr count (Z.of_nat level) with Zpos p => Some p | _ => None end.

(*  while (count < leaves.size()) {
        uint256 h = leaves[count];
        bool matchh = count == leaf_pos;
        count++;
        int level;
        for (level = 0; !(count & ((uint32_t{1}) << level)); level++) { ...carry... }
        inner[level] = h;
        if (matchh) matchlevel = level;
    }
   `rest` = leaves[count..]; count is uint32_t (count++ wraps: explicit wrapu32). *)
Fixpoint path_phase1 (rest : list D) (count leaf_pos : Z) (inner : inner_t) (matchlevel : option nat)
                     (path : list D) : option (Z * inner_t * option nat * list D) :=
  match rest with
  | [] => Some (count, inner, matchlevel, path)
  | h :: rest' =>
    let matchh := count =? leaf_pos in
    let count' := wrapu32 (count + 1) in
    match shifted count' 0 with
    | None => None
    | Some c =>
      match carry c 0 inner matchlevel h matchh path with
      | None => None
      | Some (level, h', matchh', path') =>
        path_phase1 rest' count' leaf_pos (inner_set inner level h')
                    (if matchh' then Some level else matchlevel) path'
      end
    end
  end.

(*  while (count != ((uint32_t{1}) << level)) {
        if (matchh) path.push_back(h);
        h = Hash(h, h);
        count += ((uint32_t{1}) << level);
        level++;
        while (!(count & ((uint32_t{1}) << level))) { ...carry... level++; }
    }
   fuel: each round increases level, which stays below 32. *)
Fixpoint path_sweep (fuel : nat) (count : Z) (level : nat) (inner : inner_t) (matchlevel : option nat)
                    (h : D) (matchh : bool) (path : list D) : option (D * list D) :=
  if negb (Nat.ltb level 32) then None else
  if count =? 2 ^ Z.of_nat level then Some (h, path) else
  match fuel with
  | O => None
  | S f =>
    let path1 := if matchh then path ++ [h] else path in
    let h1 := H h h in
    let count1 := wrapu32 (count + 2 ^ Z.of_nat level) in
    let level1 := S level in
    match shifted count1 level1 with
    | None => None
    | Some c =>
      match carry c level1 inner matchlevel h1 matchh path1 with
      | None => None
      | Some (level2, h2, matchh2, path2) => path_sweep f count1 level2 inner matchlevel h2 matchh2 path2
      end
    end
  end.

(* number of trailing zero bits: `int level = 0; while (!(count & (1 << level))) level++;` *)
Fixpoint trailing_zeros (c : positive) : nat :=
  match c with xO c' => S (trailing_zeros c') | _ => O end.

(* whole MerkleComputation; also returns the top hash h the sweep ends with (not observable in
   C++, used by the lemmas).  leaves.size() == 0: path stays empty.
   leaf_pos is uint32_t; positions >= leaves.size() simply never match (empty path). *)
Definition merkle_computation (leaves : list D) (leaf_pos : Z) : option (option D * list D) :=
  match leaves with
  | [] => Some (None, [])
  | _ =>
    match path_phase1 leaves 0 leaf_pos inner_empty None [] with
    | None => None
    | Some (count, inner, matchlevel, path) =>
      match shifted count 0 with
      | None => None
      | Some c =>
        let level := trailing_zeros c in
        if negb (Nat.ltb level 32) then None else
        match inner level with
        | None => None
        | Some h =>
          match path_sweep 32 count level inner matchlevel h (level_is matchlevel level) path with
          | None => None
          | Some (top, path') => Some (Some top, path')
          end
        end
      end
    end
  end.

Definition compute_merkle_path (leaves : list D) (position : Z) : option (list D) :=
  match merkle_computation leaves position with Some (_, p) => Some p | None => None end.

(* ---------------------------------------------------------------------------------------------
   Specification side (what the property says), used by the theorems and the violation search. *)

(* the property's predicate on an implementation answer (root, mutated, path for position i):
   folding the returned path from the leaf gives the returned root *)
Definition holds_path (leaf : D) (i : Z) (path : list D) (root : D) : bool :=
  deq (fold_path leaf i path) root.

(* an aligned pair of equal neighbours exists at some level of the reduction (the reference reading
   of "mutated": independent of the loop's accumulation order) *)
Fixpoint any_level_has_equal_pair (fuel : nat) (l : list D) : bool :=
  match l with
  | [] | [_] => false
  | _ => match fuel with
         | O => false
         | S f => orb (scan_pairs l) (any_level_has_equal_pair f (level_up l))
         end
  end.

(* ---------------------------------------------------------------------------------------------
   Block level: src/validation.cpp CheckMerkleRoot, CheckWitnessMalleation, IsBlockMutated and
   src/consensus/merkle.cpp BlockMerkleRoot, BlockWitnessMerkleRoot.
   A block is seen through the values these functions read. *)
Record tx_view := {
  tv_txid : D;              (* vtx[s]->GetHash() *)
  tv_wtxid : D;             (* vtx[s]->GetWitnessHash() *)
  tv_nowit_size : Z;        (* GetSerializeSize(TX_NO_WITNESS(tx)) *)
  tv_has_witness : bool     (* tx->HasWitness() *)
}.
Record block_view := {
  bv_header_root : D;                    (* block.hashMerkleRoot *)
  bv_txs : list tx_view;                 (* block.vtx *)
  bv_first_is_coinbase : bool;           (* !vtx.empty() && vtx[0]->IsCoinBase() *)
  bv_commitment : option D;              (* GetWitnessCommitmentIndex(block) != NO_WITNESS_COMMITMENT:
                                            bytes [6,38) of vtx[0]->vout[commitpos].scriptPubKey *)
  bv_cb_witness_stack : list (Z * D);    (* vtx[0]->vin[0].scriptWitness.stack: (size of the item,
                                            the item as a uint256 when its size is 32) *)
  bv_checked_merkle_root : bool;         (* mutable cache flags of CBlock (false on a fresh block) *)
  bv_checked_witness_commitment : bool
}.

Inductive mut_reason :=
  BadTxnMrklRoot | BadTxnsDuplicate | BadWitnessNonceSize | BadWitnessMerkleMatch | UnexpectedWitness.
(* V_ok: the function returned true; V_mutated r: state.Invalid(BLOCK_MUTATED, r);
   V_model_error: the model ran out of fuel (proved impossible) *)
Inductive verdict := V_ok | V_mutated (r : mut_reason) | V_model_error.

(* uint256 BlockMerkleRoot(const CBlock& block, bool* mutated): leaves = txids *)
Definition block_merkle_root (b : block_view) : option (D * bool) :=
  compute_merkle_root (map tv_txid (bv_txs b)).

(* uint256 BlockWitnessMerkleRoot(const CBlock& block):
       leaves.emplace_back();                       // The witness hash of the coinbase is 0.
       for (size_t s = 1; s < block.vtx.size(); s++) leaves.push_back(vtx[s]->GetWitnessHash());
       return ComputeMerkleRoot(std::move(leaves));
   (for an empty vtx this is the one-leaf list [0]) *)
Definition block_witness_merkle_root (b : block_view) : option D :=
  compute_merkle_root_noflag (zero :: map tv_wtxid (tl (bv_txs b))).

(* static bool CheckMerkleRoot(const CBlock& block, BlockValidationState& state)
   {
       if (block.m_checked_merkle_root) return true;
       bool mutated;
       uint256 merkle_root = BlockMerkleRoot(block, &mutated);
       if (block.hashMerkleRoot != merkle_root) return state.Invalid(BLOCK_MUTATED, "bad-txnmrklroot", ...);
       if (mutated) return state.Invalid(BLOCK_MUTATED, "bad-txns-duplicate", ...);
       block.m_checked_merkle_root = true;
       return true;
   } *)
Definition check_merkle_root (b : block_view) : verdict :=
  if bv_checked_merkle_root b then V_ok else
  match block_merkle_root b with
  | None => V_model_error
  | Some (root, mutated) =>
    if negb (deq (bv_header_root b) root) then V_mutated BadTxnMrklRoot
    else if mutated then V_mutated BadTxnsDuplicate
    else V_ok
  end.

(* static bool CheckWitnessMalleation(const CBlock& block, bool expect_witness_commitment, BlockValidationState& state)
   {
       if (expect_witness_commitment) {
           if (block.m_checked_witness_commitment) return true;
           int commitpos = GetWitnessCommitmentIndex(block);
           if (commitpos != NO_WITNESS_COMMITMENT) {
               const auto& witness_stack{block.vtx[0]->vin[0].scriptWitness.stack};
               if (witness_stack.size() != 1 || witness_stack[0].size() != 32)
                   return state.Invalid(BLOCK_MUTATED, "bad-witness-nonce-size", ...);
               uint256 hash_witness = BlockWitnessMerkleRoot(block);
               CHash256().Write(hash_witness).Write(witness_stack[0]).Finalize(hash_witness);
               if (memcmp(hash_witness.begin(), &block.vtx[0]->vout[commitpos].scriptPubKey[6], 32))
                   return state.Invalid(BLOCK_MUTATED, "bad-witness-merkle-match", ...);
               block.m_checked_witness_commitment = true;
               return true;
           }
       }
       for (const auto& tx : block.vtx)
           if (tx->HasWitness()) return state.Invalid(BLOCK_MUTATED, "unexpected-witness", ...);
       return true;
   }
   SHA256d(hash_witness || 32-byte nonce) is the inner-node hash H applied to (hash_witness, nonce). *)
Definition check_witness_malleation (b : block_view) (expect_witness_commitment : bool) : verdict :=
  let no_witness_allowed :=
    if existsb tv_has_witness (bv_txs b) then V_mutated UnexpectedWitness else V_ok in
  if expect_witness_commitment then
    if bv_checked_witness_commitment b then V_ok else
    match bv_commitment b with
    | Some c =>
      match bv_cb_witness_stack b with
      | [(sz, nonce)] =>
        if negb (sz =? 32) then V_mutated BadWitnessNonceSize else
        match block_witness_merkle_root b with
        | None => V_model_error
        | Some wroot => if deq (H wroot nonce) c then V_ok else V_mutated BadWitnessMerkleMatch
        end
      | _ => V_mutated BadWitnessNonceSize
      end
    | None => no_witness_allowed
    end
  else no_witness_allowed.

(* bool IsBlockMutated(const CBlock& block, bool check_witness_root)
   {
       BlockValidationState state;
       if (!CheckMerkleRoot(block, state)) return true;
       if (block.vtx.empty() || !block.vtx[0]->IsCoinBase()) {
           return std::any_of(vtx.begin(), vtx.end(), [](auto& tx) { return GetSerializeSize(TX_NO_WITNESS(tx)) == 64; });
       }
       if (!CheckWitnessMalleation(block, check_witness_root, state)) return true;
       return false;
   } *)
Definition is_block_mutated (b : block_view) (check_witness_root : bool) : option bool :=
  match check_merkle_root b with
  | V_model_error => None
  | V_mutated _ => Some true
  | V_ok =>
    if negb (bv_first_is_coinbase b) then Some (existsb (fun t => tv_nowit_size t =? 64) (bv_txs b))
    else match check_witness_malleation b check_witness_root with
         | V_model_error => None
         | V_mutated _ => Some true
         | V_ok => Some false
         end
  end.

End Merkle.

(* A free hash: the symbolic instance used for the non-vacuity examples (node is injective and no
   leaf is a node, so every hash premise of the theorems is satisfied by it). *)
Inductive mtree := MLeaf (n : nat) | MNode (a b : mtree).
Fixpoint mtree_eqb (a b : mtree) : bool :=
  match a, b with
  | MLeaf n, MLeaf m => Nat.eqb n m
  | MNode a1 a2, MNode b1 b2 => andb (mtree_eqb a1 b1) (mtree_eqb a2 b2)
  | _, _ => false
  end.
