(* VecDeque<T>  (src/util/vecdeque.h): model of the REPRESENTATION (ring buffer).
   C++ fields            model
     T* m_buffer           v_buf   the allocation: m_capacity slots (junk where nothing is constructed)
     size_t m_offset       v_off   m_buffer + m_offset is the first element
     size_t m_size         v_size
     size_t m_capacity     v_cap
   T is trivially copyable / trivially destructible in the instantiation that is tied (int), so the
   memcpy branches of Reallocate / operator= and the `m_size = size` branch of ResizeDown are the ones
   transcribed.  size_t arithmetic is modelled in nat (no wrap below 2^64 elements).
   Executable definitions only; proofs are in proofs/ContVecDequeLemmas.v. *)
From Coq Require Import List Arith Bool.
From BV Require Import model.ContBuf.
Import ListNotations.

Section VecDeque.
  Variable T : Type.
  Variable T0 : T.        (* T{} *)
  Variable junk : T.      (* uninitialised memory *)

  Record vd := mkvd { v_buf : list T; v_off : nat; v_size : nat; v_cap : nat }.

  (* VecDeque() noexcept = default;  m_buffer{nullptr}, m_offset{0}, m_size{0}, m_capacity{0} *)
  Definition vd_empty : vd := mkvd [] 0 0 0.

  (* size_t FirstPart() const noexcept { return std::min(m_capacity - m_offset, m_size); } *)
  Definition first_part (s : vd) : nat := Nat.min (v_cap s - v_off s) (v_size s).

  (* the fragment shared by Reallocate and operator=(const VecDeque&):
         size_t first_part = src.FirstPart();
         if (first_part != 0) std::memcpy(dst, src.m_buffer + src.m_offset, first_part * sizeof(T));
         if (first_part != src.m_size) std::memcpy(dst + first_part, src.m_buffer, (src.m_size - first_part) * sizeof(T)); *)
  Definition unwrap_into (src : vd) (dst : list T) : option (list T) :=
    let fp := first_part src in
    d1 <- (if negb (fp =? 0) then
             data <- buf_read (v_buf src) (v_off src) fp ;; buf_write dst 0 data
           else Some dst) ;;
    if negb (fp =? v_size src) then
      data <- buf_read (v_buf src) 0 (v_size src - fp) ;; buf_write d1 fp data
    else Some d1.

  (* void Reallocate(size_t capacity) {
         Assume(capacity >= m_size);
         Assume((m_offset == 0 && m_capacity == 0) || m_offset < m_capacity);
         T* new_buffer = capacity ? std::allocator<T>().allocate(capacity) : nullptr;
         if (capacity) { ...unwrap_into... }
         std::allocator<T>().deallocate(m_buffer, m_capacity);
         m_buffer = new_buffer; m_offset = 0; m_capacity = capacity; }
     capacity < m_size would overflow the new allocation: refused (None). *)
  Definition reallocate (s : vd) (capacity : nat) : option vd :=
    if v_size s <=? capacity then
      let new_buffer := repeat junk capacity in
      nb <- (if negb (capacity =? 0) then unwrap_into s new_buffer else Some new_buffer) ;;
      Some (mkvd nb 0 (v_size s) capacity)
    else None.

  (* size_t BufferIndex(size_t pos) const noexcept {
         Assume(pos < m_capacity);
         if (pos >= m_capacity - m_offset) return (m_offset + pos) - m_capacity; else return m_offset + pos; } *)
  Definition buffer_index (s : vd) (pos : nat) : nat :=
    if v_cap s - v_off s <=? pos then (v_off s + pos) - v_cap s else v_off s + pos.

  (* while (m_size < size) { std::construct_at(m_buffer + BufferIndex(m_size)); ++m_size; }   (count iterations) *)
  Fixpoint construct_loop (s : vd) (count : nat) : option vd :=
    match count with
    | O => Some s
    | S c =>
        b <- buf_set (v_buf s) (buffer_index s (v_size s)) T0 ;;
        construct_loop (mkvd b (v_off s) (v_size s + 1) (v_cap s)) c
    end.

  (* void resize(size_t size) {
         if (size < m_size) { ResizeDown(size); }          // trivially destructible: m_size = size
         else if (size > m_size) {
             if (size > m_capacity) Reallocate(size);
             while (m_size < size) { construct_at(m_buffer + BufferIndex(m_size)); ++m_size; } } } *)
  Definition resize (s : vd) (size : nat) : option vd :=
    if size <? v_size s then Some (mkvd (v_buf s) (v_off s) size (v_cap s))
    else if v_size s <? size then
      s1 <- (if v_cap s <? size then reallocate s size else Some s) ;;
      construct_loop s1 (size - v_size s1)
    else Some s.

  (* void clear() noexcept { ResizeDown(0); } *)
  Definition clear (s : vd) : vd := mkvd (v_buf s) (v_off s) 0 (v_cap s).

  (* VecDeque& operator=(const VecDeque& other) {
         if (&other == this) return *this;
         clear();
         Reallocate(other.m_size);
         ...unwrap_into (other -> m_buffer)...
         m_size = other.m_size;
         return *this; } *)
  Definition copy_assign (s other : vd) : option vd :=
    s1 <- reallocate (clear s) (v_size other) ;;
    nb <- unwrap_into other (v_buf s1) ;;
    Some (mkvd nb (v_off s1) (v_size other) (v_cap s1)).

  (* void swap(VecDeque& other) noexcept { swap all four fields }
     VecDeque& operator=(VecDeque&& other) noexcept { swap(other); return *this; } *)
  Definition swap (s other : vd) : vd * vd := (other, s).
  (* VecDeque(const VecDeque& other) { *this = other; }     VecDeque(VecDeque&& other) noexcept { swap(other); } *)
  Definition ctor_copy (other : vd) : option vd := copy_assign vd_empty other.
  Definition ctor_move (other : vd) : vd * vd := swap vd_empty other.  (* (new object, other afterwards) *)

  (* void reserve(size_t capacity) { if (capacity > m_capacity) Reallocate(capacity); } *)
  Definition reserve (s : vd) (capacity : nat) : option vd :=
    if v_cap s <? capacity then reallocate s capacity else Some s.
  (* void shrink_to_fit() { if (m_capacity > m_size) Reallocate(m_size); } *)
  Definition shrink_to_fit (s : vd) : option vd :=
    if v_size s <? v_cap s then reallocate s (v_size s) else Some s.

  (* void emplace_back(Args&&... args) {
         if (m_size == m_capacity) Reallocate((m_size + 1) * 2);
         std::construct_at(m_buffer + BufferIndex(m_size), args...);
         ++m_size; } *)
  Definition push_back (s : vd) (v : T) : option vd :=
    s1 <- (if v_size s =? v_cap s then reallocate s ((v_size s + 1) * 2) else Some s) ;;
    b <- buf_set (v_buf s1) (buffer_index s1 (v_size s1)) v ;;
    Some (mkvd b (v_off s1) (v_size s1 + 1) (v_cap s1)).

  (* void emplace_front(Args&&... args) {
         if (m_size == m_capacity) Reallocate((m_size + 1) * 2);
         std::construct_at(m_buffer + BufferIndex(m_capacity - 1), args...);
         if (m_offset == 0) m_offset = m_capacity;
         --m_offset;
         ++m_size; } *)
  Definition push_front (s : vd) (v : T) : option vd :=
    s1 <- (if v_size s =? v_cap s then reallocate s ((v_size s + 1) * 2) else Some s) ;;
    b <- buf_set (v_buf s1) (buffer_index s1 (v_cap s1 - 1)) v ;;
    let off := if v_off s1 =? 0 then v_cap s1 else v_off s1 in
    if 1 <=? off then Some (mkvd b (off - 1) (v_size s1 + 1) (v_cap s1)) else None.

  (* void pop_front() { Assume(m_size); std::destroy_at(m_buffer + m_offset); --m_size; ++m_offset;
                        if (m_offset == m_capacity) m_offset = 0; }       (m_size == 0: size_t underflow -> refused) *)
  Definition pop_front (s : vd) : option vd :=
    if 1 <=? v_size s then
      let off := v_off s + 1 in
      Some (mkvd (v_buf s) (if off =? v_cap s then 0 else off) (v_size s - 1) (v_cap s))
    else None.

  (* void pop_back() { Assume(m_size); std::destroy_at(m_buffer + BufferIndex(m_size - 1)); --m_size; } *)
  Definition pop_back (s : vd) : option vd :=
    if 1 <=? v_size s then Some (mkvd (v_buf s) (v_off s) (v_size s - 1) (v_cap s)) else None.

  (* T& operator[](size_t idx) noexcept { Assume(idx < m_size); return m_buffer[BufferIndex(idx)]; } *)
  Definition get (s : vd) (idx : nat) : option T :=
    if idx <? v_size s then buf_get (v_buf s) (buffer_index s idx) else None.
  Definition set (s : vd) (idx : nat) (v : T) : option vd :=
    if idx <? v_size s then
      b <- buf_set (v_buf s) (buffer_index s idx) v ;; Some (mkvd b (v_off s) (v_size s) (v_cap s))
    else None.
  (* T& front() noexcept { Assume(m_size); return m_buffer[m_offset]; } *)
  Definition front (s : vd) : option T := if 1 <=? v_size s then buf_get (v_buf s) (v_off s) else None.
  (* T& back() noexcept { Assume(m_size); return m_buffer[BufferIndex(m_size - 1)]; } *)
  Definition back (s : vd) : option T :=
    if 1 <=? v_size s then buf_get (v_buf s) (buffer_index s (v_size s - 1)) else None.

  (* all elements read through operator[] : what the driver prints *)
  Definition read_all (s : vd) : list (option T) := map (get s) (seq 0 (v_size s)).

  (* ---------------------------------------------------------------------------------------------
     Representation invariant and abstraction function *)
  Definition vd_inv (s : vd) : Prop :=
    length (v_buf s) = v_cap s /\ v_size s <= v_cap s /\
    (v_off s < v_cap s \/ (v_off s = 0 /\ v_cap s = 0)).
  Definition vd_invb (s : vd) : bool :=
    (length (v_buf s) =? v_cap s) && (v_size s <=? v_cap s) &&
    ((v_off s <? v_cap s) || ((v_off s =? 0) && (v_cap s =? 0))).
  (* the ring unrolled from the offset *)
  Definition rot (off : nat) (b : list T) : list T := skipn off b ++ firstn off b.
  Definition vd_abs (s : vd) : list T := firstn (v_size s) (rot (v_off s) (v_buf s)).

  (* ---------------------------------------------------------------------------------------------
     Operation scripts on a pair of deques (a, b) *)
  Inductive vdop :=
  | PushBack (v : T) | PushFront (v : T) | PopBack | PopFront
  | Resize (n : nat) | Clear | Reserve (n : nat) | ShrinkToFit | SetAt (i : nat) (v : T)
  | Swap          (* a.swap(b) *)
  | MoveAssign    (* a = std::move(b)   (implemented as swap) *)
  | CopyAssign    (* a = b *)
  | CopyCtor      (* b destroyed, then constructed as VecDeque(a) *)
  | MoveCtor.     (* b destroyed, then constructed as VecDeque(std::move(a)) *)

  Definition on_a (f : vd -> option vd) (st : vd * vd) : option (vd * vd) :=
    a <- f (fst st) ;; Some (a, snd st).

  Definition vd_step (st : vd * vd) (o : vdop) : option (vd * vd) :=
    match o with
    | PushBack v => on_a (fun a => push_back a v) st
    | PushFront v => on_a (fun a => push_front a v) st
    | PopBack => on_a pop_back st
    | PopFront => on_a pop_front st
    | Resize n => on_a (fun a => resize a n) st
    | Clear => Some (clear (fst st), snd st)
    | Reserve n => on_a (fun a => reserve a n) st
    | ShrinkToFit => on_a shrink_to_fit st
    | SetAt i v => on_a (fun a => set a i v) st
    | Swap => Some (swap (fst st) (snd st))
    | MoveAssign => Some (swap (fst st) (snd st))
    | CopyAssign => on_a (fun a => copy_assign a (snd st)) st
    | CopyCtor => b <- ctor_copy (fst st) ;; Some (fst st, b)
    | MoveCtor => let (b, a) := ctor_move (fst st) in Some (a, b)
    end.

  Fixpoint vd_run (st : vd * vd) (ops : list vdop) : option (vd * vd) :=
    match ops with [] => Some st | o :: r => st' <- vd_step st o ;; vd_run st' r end.

  Fixpoint vd_trace (st : vd * vd) (ops : list vdop) : list (option (vd * vd)) :=
    match ops with
    | [] => []
    | o :: r => match vd_step st o with
                | Some st' => Some st' :: vd_trace st' r
                | None => [None]
                end
    end.

  (* ---------------------------------------------------------------------------------------------
     The standard counterpart: std::deque<T> as a plain list *)
  Definition deq_step (st : list T * list T) (o : vdop) : option (list T * list T) :=
    let (a, b) := st in
    match o with
    | PushBack v => Some (a ++ [v], b)
    | PushFront v => Some (v :: a, b)
    | PopBack => if 1 <=? length a then Some (removelast a, b) else None
    | PopFront => if 1 <=? length a then Some (tl a, b) else None
    | Resize n => Some (firstn n a ++ repeat T0 (n - length a), b)
    | Clear => Some ([], b)
    | Reserve _ => Some (a, b)
    | ShrinkToFit => Some (a, b)
    | SetAt i v => if i <? length a then Some (firstn i a ++ v :: skipn (S i) a, b) else None
    | Swap => Some (b, a)
    | MoveAssign => Some (b, a)     (* moved-from value is unspecified for std::deque; VecDeque documents swap *)
    | CopyAssign => Some (b, b)
    | CopyCtor => Some (a, a)
    | MoveCtor => Some ([], a)
    end.

  Fixpoint deq_run (st : list T * list T) (ops : list vdop) : option (list T * list T) :=
    match ops with [] => Some st | o :: r => st' <- deq_step st o ;; deq_run st' r end.

  Fixpoint deq_trace (st : list T * list T) (ops : list vdop) : list (option (list T * list T)) :=
    match ops with
    | [] => []
    | o :: r => match deq_step st o with
                | Some st' => Some st' :: deq_trace st' r
                | None => [None]
                end
    end.
End VecDeque.
