(* C65 -- BlockTemplate::waitNext = node::WaitAndCreateNewBlock (src/node/miner.cpp), with InterruptWait and the
   KernelNotifications::blockTip hand-off, as a small-step machine: one waiting thread against an environment that can,
   between any two of its steps, connect blocks (change the active tip), deliver tip notifications (in order, never
   ahead of the active chain), change what a new template would collect in fees, let time pass, request an interrupt.

   Times are integers (milliseconds); MillisecondsDouble rounding is not modelled.  A tip is its activation sequence
   number together with its hash (the same hash can become the tip again after a reorg). *)
From BV Require Import lib.Ints gen.Params_gen.
Local Open Scope Z_scope.

Record tip := { tp_seq : Z; tp_hash : Z; tp_time : Z (* block time, ms *) }.
Record template := { tm_prev : Z;      (* block.hashPrevBlock *)
                     tm_seq : Z;       (* activation number of the tip it was built on (ghost) *)
                     tm_fees : Z }.    (* sum of vTxFees *)

Inductive phase :=
| PhWait                      (* inside m_tip_block_cv.wait_until(lock, min(now + tick, deadline), pred) *)
| PhAfterWait (tip_changed : bool)    (* m_tip_block_mutex released, before "if (chainman.m_interrupt) return nullptr" *)
| PhLocked (tip_changed : bool)       (* holds cs_main *)
| PhDone (r : option template).       (* returned *)

Record sys := {
  (* environment *)
  e_clock : Z;                (* NodeClock::now() *)
  e_active : tip;             (* chainman.ActiveChain().Tip() *)
  e_notified : tip;           (* kernel_notifications.TipBlock(): the last blockTip delivered *)
  e_pending : list tip;       (* tips activated but not yet notified, oldest first (blockTip is sent after the chain moved) *)
  e_fees : Z;                 (* what a template built now would collect *)
  e_int_wait : bool;          (* m_interrupt_wait (guarded by m_tip_block_mutex) *)
  e_int_node : bool;          (* chainman.m_interrupt *)
  (* the waiting thread *)
  w_phase : phase;
  w_now : Z;                  (* the local `now` *)
  w_current_fees : Z;         (* current_fees, -1 = not computed yet *)
  (* ghost *)
  w_trigger : option tip;     (* the notified tip that made the predicate true, if any *)
  w_build : option (tip * Z); (* the active tip and the local `now` when the returned template was built *)
  w_cause : Z                 (* why nullptr was returned: 1 = interrupt_wait, 2 = chainman.m_interrupt, 3 = deadline reached; 0 = not (yet) *)
}.

Record params := {
  p_old : template;           (* block_template *)
  p_deadline : option Z;      (* now0 + timeout; None = MillisecondsDouble::max() (wait forever) *)
  p_threshold : Z;            (* wait_options.fee_threshold *)
  p_allow_min_difficulty : bool   (* consensus.fPowAllowMinDifficultyBlocks *)
}.

Definition TICK : Z := 1000.
Definition TWENTY_MIN : Z := 20 * 60 * 1000.

Definition before_deadline (P : params) (t : Z) : bool := match p_deadline P with None => true | Some d => t <? d end.
(* std::min(now + tick, deadline) *)
Definition wait_limit (P : params) (now : Z) : Z := match p_deadline P with None => now + TICK | Some d => Z.min (now + TICK) d end.

Inductive action :=
| EActivate (hash time : Z)   (* a block is connected / the chain is reorganised: new active tip *)
| ENotify                     (* the oldest pending blockTip is delivered *)
| EFees (f : Z)               (* the mempool changes *)
| ETime (dt : Z)              (* time passes (dt >= 0) *)
| EInterrupt                  (* InterruptWait(): interrupt_wait = true; notify_all *)
| ENodeInterrupt              (* shutdown *)
| WStep.                      (* the waiting thread takes its next step, if it can *)

Definition set_env (s : sys) clock active notified pending fees iw inode : sys :=
  {| e_clock := clock; e_active := active; e_notified := notified; e_pending := pending; e_fees := fees;
     e_int_wait := iw; e_int_node := inode;
     w_phase := w_phase s; w_now := w_now s; w_current_fees := w_current_fees s; w_trigger := w_trigger s; w_build := w_build s; w_cause := w_cause s |}.

Definition set_w (s : sys) ph now cf trig iw cause : sys :=
  {| e_clock := e_clock s; e_active := e_active s; e_notified := e_notified s; e_pending := e_pending s; e_fees := e_fees s;
     e_int_wait := iw; e_int_node := e_int_node s;
     w_phase := ph; w_now := now; w_current_fees := cf; w_trigger := trig;
     w_build := (match ph with PhDone (Some _) => Some (e_active s, w_now s) | _ => w_build s end); w_cause := cause |}.

(* the wait predicate:  tip_changed = tip_block != block_template->block.hashPrevBlock;
                        return tip_changed || chainman.m_interrupt || interrupt_wait; *)
Definition tip_differs (P : params) (s : sys) : bool := negb (tp_hash (e_notified s) =? tm_prev (p_old P)).
Definition wait_pred (P : params) (s : sys) : bool := tip_differs P s || e_int_node s || e_int_wait s.

Definition step (P : params) (s : sys) (a : action) : option sys :=
  match a with
  | EActivate h t =>
      let nt := {| tp_seq := tp_seq (e_active s) + 1; tp_hash := h; tp_time := t |} in
      (* cs_main is held by the waiter in PhLocked: the chain cannot move then *)
      match w_phase s with
      | PhLocked _ => None
      | _ => Some (set_env s (e_clock s) nt (e_notified s) (e_pending s ++ [nt]) (e_fees s) (e_int_wait s) (e_int_node s))
      end
  | ENotify =>
      match e_pending s with
      | nt :: r => Some (set_env s (e_clock s) (e_active s) nt r (e_fees s) (e_int_wait s) (e_int_node s))
      | [] => None
      end
  | EFees f =>
      match w_phase s with
      | PhLocked _ => None        (* CreateNewBlock runs under cs_main and the mempool lock *)
      | _ => if f <? 0 then None else Some (set_env s (e_clock s) (e_active s) (e_notified s) (e_pending s) f (e_int_wait s) (e_int_node s))
      end
  | ETime dt => if dt <? 0 then None else Some (set_env s (e_clock s + dt) (e_active s) (e_notified s) (e_pending s) (e_fees s) (e_int_wait s) (e_int_node s))
  | EInterrupt => Some (set_env s (e_clock s) (e_active s) (e_notified s) (e_pending s) (e_fees s) true (e_int_node s))
  | ENodeInterrupt => Some (set_env s (e_clock s) (e_active s) (e_notified s) (e_pending s) (e_fees s) (e_int_wait s) true)
  | WStep =>
      match w_phase s with
      | PhWait =>
          (* wait_until returns when the predicate holds (checked first, and after every notification) or when the
             clock has reached min(now + tick, deadline) *)
          if wait_pred P s || (wait_limit P (w_now s) <=? e_clock s) then
            let tc := tip_differs P s in
            if e_int_wait s then
              (* if (interrupt_wait) { interrupt_wait = false; return nullptr; } *)
              Some (set_w s (PhDone None) (w_now s) (w_current_fees s) (w_trigger s) false 1)
            else Some (set_w s (PhAfterWait tc) (w_now s) (w_current_fees s) (if tc then Some (e_notified s) else None) (e_int_wait s) 0)
          else None
      | PhAfterWait tc =>
          (* if (chainman.m_interrupt) return nullptr;   LOCK(::cs_main); *)
          if e_int_node s then Some (set_w s (PhDone None) (w_now s) (w_current_fees s) (w_trigger s) (e_int_wait s) 2)
          else Some (set_w s (PhLocked tc) (w_now s) (w_current_fees s) (w_trigger s) (e_int_wait s) 0)
      | PhLocked tc =>
          (* if (!tip_changed && allow_min_difficulty) { if (now > tip_time + 20min) tip_changed = true; } *)
          let tc' := tc || (p_allow_min_difficulty P && (tp_time (e_active s) + TWENTY_MIN <? w_now s)) in
          let new_tmpl := {| tm_prev := tp_hash (e_active s); tm_seq := tp_seq (e_active s); tm_fees := e_fees s |} in
          let again cf :=
            (* now = NodeClock::now(); } while (now < deadline); return nullptr; *)
            if before_deadline P (e_clock s)
            then Some (set_w s PhWait (e_clock s) cf None (e_int_wait s) 0)
            else Some (set_w s (PhDone None) (e_clock s) cf (w_trigger s) (e_int_wait s) 3) in
          if (p_threshold P <? MAX_MONEY) || tc' then
            if tc' then Some (set_w s (PhDone (Some new_tmpl)) (w_now s) (w_current_fees s) (w_trigger s) (e_int_wait s) 0)
            else
              let cf := if w_current_fees s =? -1 then tm_fees (p_old P) else w_current_fees s in
              (* if (new_fees >= current_fees + wait_options.fee_threshold) return new_tmpl;   (int64 addition) *)
              if wrap64 (cf + p_threshold P) <=? tm_fees new_tmpl
              then Some (set_w s (PhDone (Some new_tmpl)) (w_now s) cf (w_trigger s) (e_int_wait s) 0)
              else again cf
          else again (w_current_fees s)
      | PhDone _ => None
      end
  end.

Fixpoint run (P : params) (s : sys) (l : list action) : option sys :=
  match l with
  | [] => Some s
  | a :: r => match step P s a with Some s' => run P s' r | None => None end
  end.

(* the state when waitNext is called on a template that was built on the then-active tip *)
Definition start (P : params) (clock : Z) (active : tip) (pending : list tip) (notified : tip) (fees : Z) (iw inode : bool) : sys :=
  {| e_clock := clock; e_active := active; e_notified := notified; e_pending := pending; e_fees := fees;
     e_int_wait := iw; e_int_node := inode;
     w_phase := PhWait; w_now := clock; w_current_fees := -1; w_trigger := None; w_build := None; w_cause := 0 |}.

(* ---- the property's predicate on one observed call (used by the driver's `holds`):
   result of waitNext given what the test did; see ocaml/waitnext_driver.ml ---- *)
Definition returned_ok (old_prev old_fees threshold : Z) (allow_min20 : bool) (r : option (Z * Z)) (tip_now : Z)
                       (interrupted timed_out tip_was_changed : bool) : bool :=
  match r with
  | Some (prev, fees) =>
      (* built on the current tip; a same-tip template needs the fee increase (or the 20-minute rule) *)
      (prev =? tip_now) && ((negb (prev =? old_prev)) || (old_fees + threshold <=? fees) || allow_min20 || tip_was_changed)
  | None => interrupted || timed_out
  end.
