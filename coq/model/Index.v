(* C21 (part C): BaseIndex — src/index/base.cpp — over an abstract custom index
   (CustomAppend / CustomRemove / CustomCommit / CustomInit), and the data shared by the index models.

   The node is seen through a block tree (all blocks known so far, with their undo data), the
   active tip and the last flushed block.  Notifications are delivered in order, one at a time
   (the hand-off between the validation thread, the scheduler thread and the sync thread is not
   modelled).  Executable definitions only. *)
From Coq Require Import NArith.
From BV Require Import lib.Ints.
Local Open Scope Z_scope.

(* ---------------- data ---------------- *)
Definition bytes := list N.
Fixpoint bytes_eqb (a b : bytes) : bool :=
  match a, b with
  | [], [] => true
  | x :: a', y :: b' => N.eqb x y && bytes_eqb a' b'
  | _, _ => false
  end.

Record outpoint : Type := { op_txid : bytes; op_n : Z }.
(* class Coin { CTxOut out; bool fCoinBase : 1; uint32_t nHeight : 31; } *)
Record coin : Type := { c_value : Z; c_script : bytes; c_height : Z; c_coinbase : bool }.
Record txout : Type := { o_value : Z; o_script : bytes }.
Record txin : Type := { i_prevout : outpoint; i_coin : coin }.
Record tx : Type := { t_txid : bytes; t_coinbase : bool; t_ins : list txin; t_outs : list txout }.
(* b_filter_hash: the hash of the BIP158 basic filter of the block, BlockFilter(BASIC, block, undo).GetHash(),
   as computed by the reference filter code (the GCS construction itself is property C51) *)
Record block : Type := { b_hash : bytes; b_prev : bytes; b_height : Z; b_txs : list tx; b_filter_hash : bytes }.

Definition utxo_entry : Type := (outpoint * coin)%type.


Inductive idx_err : Type :=
| EPrevMismatch        (* CustomAppend: "previous block header belongs to unexpected block": return false *)
| EAssertUnclaimed     (* assert(unclaimed_rewards <= INT64_MAX) *)
| ENoHeightEntry       (* CopyHeightIndexToHashIndex: "unexpected key" *)
| ENoPrevEntry         (* RevertBlock: height-1 entry unreadable / "previous block header not found" *)
| EAssertMuhash        (* Assert(read_out.second.muhash == out) *)
| EInitCorrupt         (* CustomInit: "Cannot read current state; index may be corrupted" *)
| EFilterPrev.         (* BlockFilterIndex: previous filter header missing / belongs to an unexpected block *)
Inductive res (A : Type) : Type := Ok (a : A) | Err (e : idx_err).
Arguments Ok {A} a. Arguments Err {A} e.


(* ---------------- the block tree ---------------- *)
Record node_view : Type := {
  nv_blocks : list block;          (* every block known to the node (block + undo data on disk) *)
  nv_tip : option bytes;           (* m_chainstate->m_chain.Tip() *)
  nv_last_flushed : option bytes   (* m_chainstate->GetLastFlushedBlock() *)
}.
Fixpoint find_block (bs : list block) (hash : bytes) : option block :=
  match bs with
  | [] => None
  | b :: r => if bytes_eqb (b_hash b) hash then Some b else find_block r hash
  end.
(* CBlockIndex::GetAncestor(height): nullptr when height > nHeight or height < 0 *)
Fixpoint ancestor_fuel (fuel : nat) (bs : list block) (b : block) (height : Z) : option block :=
  if (height <? 0) || (b_height b <? height) then None
  else if b_height b =? height then Some b
  else match fuel with
       | O => None
       | S k => match find_block bs (b_prev b) with Some p => ancestor_fuel k bs p height | None => None end
       end.
Definition ancestor (bs : list block) (b : block) (height : Z) : option block :=
  ancestor_fuel (length bs) bs b height.
Definition same_block (a b : option block) : bool :=
  match a, b with
  | Some x, Some y => bytes_eqb (b_hash x) (b_hash y)
  | None, None => true
  | _, _ => false
  end.
(* CChain: the active chain is the ancestry of the tip; chain[h], Contains, Next, FindFork *)
Definition chain_at (nv : node_view) (tip : block) (h : Z) : option block := ancestor (nv_blocks nv) tip h.
Definition chain_contains (nv : node_view) (tip : block) (b : block) : bool :=
  same_block (chain_at nv tip (b_height b)) (Some b).
Definition chain_next (nv : node_view) (tip : block) (b : block) : option block :=
  if chain_contains nv tip b then chain_at nv tip (b_height b + 1) else None.
Fixpoint find_fork_fuel (fuel : nat) (nv : node_view) (tip : block) (b : block) : option block :=
  if chain_contains nv tip b then Some b
  else match fuel with
       | O => None
       | S k => match find_block (nv_blocks nv) (b_prev b) with Some p => find_fork_fuel k nv tip p | None => None end
       end.
(* const CBlockIndex* CChain::FindFork(const CBlockIndex& index) const
     if (pindex->nHeight > Height()) pindex = pindex->GetAncestor(Height());
     while (pindex && !Contains( *pindex)) pindex = pindex->pprev; *)
Definition find_fork (nv : node_view) (tip : block) (b : block) : option block :=
  let start := if b_height tip <? b_height b then ancestor (nv_blocks nv) b (b_height tip) else Some b in
  match start with Some s => find_fork_fuel (length (nv_blocks nv)) nv tip s | None => None end.

(* static const CBlockIndex* NextSyncBlock(const CBlockIndex* const pindex_prev, CChain& chain)
     if (!pindex_prev) return chain.Genesis();
     if (const auto* pindex{chain.Next( *pindex_prev)}) return pindex;
     if (pindex_prev == chain.Tip()) return nullptr;
     const auto* fork{chain.FindFork( *pindex_prev)};  return chain.Next( *Assert(fork)); *)
Definition next_sync_block (nv : node_view) (prev : option block) : option block :=
  match nv_tip nv with
  | None => None
  | Some th =>
    match find_block (nv_blocks nv) th with
    | None => None
    | Some tip =>
      match prev with
      | None => chain_at nv tip 0
      | Some p =>
        match chain_next nv tip p with
        | Some n => Some n
        | None =>
          if bytes_eqb (b_hash p) (b_hash tip) then None
          else match find_fork nv tip p with Some f => chain_next nv tip f | None => None end
        end
      end
    end
  end.

(* ---------------- BaseIndex over an abstract custom index ---------------- *)
Section Base.
Variable St : Type.
Variable c_append : St -> block -> res St.     (* CustomAppend *)
Variable c_remove : St -> block -> res St.     (* CustomRemove *)
Variable c_commit : St -> St.                  (* CustomCommit (into the batch written with DB_BEST_BLOCK) *)
Variable c_init : St -> option (bytes * Z) -> res St.   (* CustomInit of a fresh object over the persisted database *)

Record base_index : Type := {
  bi_best : option block;        (* std::atomic<const CBlockIndex*> m_best_block_index *)
  bi_synced : bool;              (* m_synced *)
  bi_custom : St;
  bi_db_best : option bytes;     (* DB_BEST_BLOCK: locator.vHave.at(0) *)
  bi_fatal : bool;               (* FatalErrorf was called (AbortNode) *)
  bi_initfail : bool             (* Init() returned false *)
}.
Definition bi_set_best (x : base_index) (b : option block) : base_index :=
  {| bi_best := b; bi_synced := bi_synced x; bi_custom := bi_custom x; bi_db_best := bi_db_best x; bi_fatal := bi_fatal x; bi_initfail := bi_initfail x |}.
Definition bi_set_custom (x : base_index) (c : St) : base_index :=
  {| bi_best := bi_best x; bi_synced := bi_synced x; bi_custom := c; bi_db_best := bi_db_best x; bi_fatal := bi_fatal x; bi_initfail := bi_initfail x |}.
Definition bi_set_fatal (x : base_index) : base_index :=
  {| bi_best := bi_best x; bi_synced := bi_synced x; bi_custom := bi_custom x; bi_db_best := bi_db_best x; bi_fatal := true; bi_initfail := bi_initfail x |}.
Definition bi_set_synced (x : base_index) : base_index :=
  {| bi_best := bi_best x; bi_synced := true; bi_custom := bi_custom x; bi_db_best := bi_db_best x; bi_fatal := bi_fatal x; bi_initfail := bi_initfail x |}.

(* void BaseIndex::Commit()
     bool ok = m_best_block_index != nullptr;
     if (ok) { index_tip = best; last_flushed = GetLastFlushedBlock();
               if (!last_flushed || last_flushed->GetAncestor(index_tip->nHeight) != index_tip) return;   // "Skipping commit"
               ok = CustomCommit(batch); if (ok) { WriteBestBlock(batch, GetLocator(best)); WriteBatch(batch); } } *)
Definition base_commit (nv : node_view) (x : base_index) : base_index :=
  match bi_best x with
  | None => x
  | Some best =>
    match nv_last_flushed nv with
    | None => x
    | Some lf =>
      match find_block (nv_blocks nv) lf with
      | None => x
      | Some lfb =>
        if same_block (ancestor (nv_blocks nv) lfb (b_height best)) (Some best)
        then {| bi_best := bi_best x; bi_synced := bi_synced x; bi_custom := c_commit (bi_custom x);
                bi_db_best := Some (b_hash best); bi_fatal := bi_fatal x; bi_initfail := bi_initfail x |}
        else x
      end
    end
  end.

(* bool BaseIndex::Rewind(const CBlockIndex* current_tip, const CBlockIndex* new_tip)
     assert(current_tip->GetAncestor(new_tip->nHeight) == new_tip);
     for (iter_tip = current_tip; iter_tip != new_tip; iter_tip = iter_tip->pprev) { ... if (!CustomRemove(block_info)) return false; }
     SetBestBlockIndex(new_tip); return true;
   None = returned false (or the assert) *)
Fixpoint rewind_fuel (fuel : nat) (nv : node_view) (c : St) (cur new_tip : block) : option St :=
  if bytes_eqb (b_hash cur) (b_hash new_tip) then Some c
  else match fuel with
       | O => None
       | S k =>
         match c_remove c cur with
         | Err _ => None
         | Ok c' => match find_block (nv_blocks nv) (b_prev cur) with
                    | Some p => rewind_fuel k nv c' p new_tip
                    | None => None
                    end
         end
       end.
Definition base_rewind (nv : node_view) (x : base_index) (cur new_tip : block) : option base_index :=
  if negb (same_block (ancestor (nv_blocks nv) cur (b_height new_tip)) (Some new_tip)) then None
  else match rewind_fuel (length (nv_blocks nv)) nv (bi_custom x) cur new_tip with
       | Some c => Some (bi_set_best (bi_set_custom x c) (Some new_tip))
       | None => None
       end.

(* void BaseIndex::BlockConnected(role, block, pindex) *)
Definition base_block_connected (nv : node_view) (x : base_index) (b : block) : base_index :=
  if negb (bi_synced x) then x            (* "Ignore BlockConnected signals until we have fully indexed the chain." *)
  else
    let rewound : option base_index :=    (* None = return without indexing *)
      match bi_best x with
      | None => if b_height b =? 0 then Some x else Some (bi_set_fatal x)    (* "First block connected is not the genesis block" *)
      | Some best =>
        match find_block (nv_blocks nv) (b_prev b) with
        | None => None
        | Some parent =>
          (* if (best_block_index->GetAncestor(pindex->nHeight - 1) != pindex->pprev) { LogWarning(...); return; } *)
          if negb (same_block (ancestor (nv_blocks nv) best (b_height b - 1)) (Some parent)) then None
          else if bytes_eqb (b_hash best) (b_hash parent) then Some x
          else match base_rewind nv x best parent with
               | Some x' => Some x'
               | None => Some (bi_set_fatal x)      (* "Failed to rewind %s to a previous chain tip" *)
               end
        end
      end in
    match rewound with
    | None => x
    | Some x1 =>
      if bi_fatal x1 then x1
      else match c_append (bi_custom x1) b with
           | Ok c => bi_set_best (bi_set_custom x1 c) (Some b)
           | Err _ => bi_set_fatal x1       (* "Failed to write block %s to index database" *)
           end
    end.

(* void BaseIndex::ChainStateFlushed(role, locator) *)
Definition base_chain_state_flushed (nv : node_view) (x : base_index) (locator_tip : bytes) : base_index :=
  if negb (bi_synced x) then x
  else match find_block (nv_blocks nv) locator_tip with
       | None => bi_set_fatal x
       | Some lt =>
         match bi_best x with
         | None => bi_set_fatal x          (* best_block_index->GetAncestor on a null pointer: not reachable once a block is indexed *)
         | Some best =>
           if negb (same_block (ancestor (nv_blocks nv) best (b_height lt)) (Some lt)) then x
           else base_commit nv x
         end
       end.

(* void BaseIndex::Sync() — the loop, one block per iteration; the 30 s periodic commit is not modelled *)
Fixpoint sync_loop (fuel : nat) (nv : node_view) (x : base_index) (pindex : option block) : base_index :=
  match fuel with
  | O => bi_set_fatal x
  | S k =>
    match next_sync_block nv pindex with
    | None =>
      (* SetBestBlockIndex(pindex); Commit(); still the tip: m_synced = true *)
      bi_set_synced (base_commit nv (bi_set_best x pindex))
    | Some next =>
      let rewound : option base_index :=
        match pindex with
        | None => Some x
        | Some p =>
          if bytes_eqb (b_prev next) (b_hash p) then Some x
          else match find_block (nv_blocks nv) (b_prev next) with
               | Some np => base_rewind nv x p np
               | None => None
               end
        end in
      match rewound with
      | None => bi_set_fatal x              (* "Failed to rewind %s to a previous chain tip" *)
      | Some x1 =>
        match c_append (bi_custom x1) next with
        | Err _ => bi_set_fatal x1
        | Ok c => sync_loop k nv (bi_set_custom x1 c) (Some next)
        end
      end
    end
  end.
Definition base_sync (nv : node_view) (x : base_index) : base_index :=
  if bi_synced x || bi_initfail x then x else sync_loop (2 * length (nv_blocks nv) + 2) nv x (bi_best x).

(* bool BaseIndex::Init() on a fresh object; `old` supplies the persisted database *)
Definition base_init (nv : node_view) (old : base_index) : base_index :=
  let best : res (option block) :=
    match bi_db_best old with
    | None => Ok None
    | Some h => match find_block (nv_blocks nv) h with
                | Some b => Ok (Some b)
                | None => Err EInitCorrupt     (* "best block of %s not found. Please rebuild the index." *)
                end
    end in
  match best with
  | Err _ => {| bi_best := None; bi_synced := false; bi_custom := bi_custom old; bi_db_best := bi_db_best old; bi_fatal := false; bi_initfail := true |}
  | Ok bo =>
    match c_init (bi_custom old) (match bo with Some b => Some (b_hash b, b_height b) | None => None end) with
    | Err _ => {| bi_best := bo; bi_synced := false; bi_custom := bi_custom old; bi_db_best := bi_db_best old; bi_fatal := false; bi_initfail := true |}
    | Ok c =>
      (* m_synced = start_block == index_chain.Tip(); *)
      let tip := match nv_tip nv with Some th => find_block (nv_blocks nv) th | None => None end in
      {| bi_best := bo; bi_synced := same_block bo tip; bi_custom := c; bi_db_best := bi_db_best old; bi_fatal := false; bi_initfail := false |}
    end
  end.
(* a fresh database *)
Definition base_new (c0 : St) : base_index :=
  {| bi_best := None; bi_synced := false; bi_custom := c0; bi_db_best := None; bi_fatal := false; bi_initfail := false |}.
End Base.
