(* C49 — SHA-256.
   Specification written from FIPS 180-4 (sections 4.1.2, 4.2.2, 5.1.1, 5.3.3, 6.2), independent
   of the C++ text; then the instance of the streaming-object model (CryptoMD.v) for CSHA256, and
   the 64-byte double-hash batch function SHA256D64.

   The compression function of the C++ (`sha256::Transform`, and the SSE4 / AVX2 / SHA-NI variants
   selected by SHA256AutoDetect) is NOT modelled at instruction level: the model of CSHA256 uses the
   FIPS compression function below where the C++ calls Transform(s, chunk, blocks); that every
   compiled backend computes it is what the correspondence run checks. *)
From Coq Require Import NArith.
From BV Require Import lib.Ints model.CryptoBase model.CryptoMD.
Local Open Scope Z_scope.

(* FIPS 180-4, 4.1.2: functions on 32-bit words *)
Definition Ch (x y z : Z) : Z := Z.lxor (Z.land x y) (Z.land (not32 x) z).
Definition Maj (x y z : Z) : Z := Z.lxor (Z.lxor (Z.land x y) (Z.land x z)) (Z.land y z).
Definition BSig0 (x : Z) : Z := Z.lxor (Z.lxor (rotr32 2 x) (rotr32 13 x)) (rotr32 22 x).
Definition BSig1 (x : Z) : Z := Z.lxor (Z.lxor (rotr32 6 x) (rotr32 11 x)) (rotr32 25 x).
Definition SSig0 (x : Z) : Z := Z.lxor (Z.lxor (rotr32 7 x) (rotr32 18 x)) (Z.shiftr x 3).
Definition SSig1 (x : Z) : Z := Z.lxor (Z.lxor (rotr32 17 x) (rotr32 19 x)) (Z.shiftr x 10).

(* 4.2.2: the first 32 bits of the fractional parts of the cube roots of the first 64 primes *)
Definition K256 : list Z := [
  0x428a2f98; 0x71374491; 0xb5c0fbcf; 0xe9b5dba5; 0x3956c25b; 0x59f111f1; 0x923f82a4; 0xab1c5ed5;
  0xd807aa98; 0x12835b01; 0x243185be; 0x550c7dc3; 0x72be5d74; 0x80deb1fe; 0x9bdc06a7; 0xc19bf174;
  0xe49b69c1; 0xefbe4786; 0x0fc19dc6; 0x240ca1cc; 0x2de92c6f; 0x4a7484aa; 0x5cb0a9dc; 0x76f988da;
  0x983e5152; 0xa831c66d; 0xb00327c8; 0xbf597fc7; 0xc6e00bf3; 0xd5a79147; 0x06ca6351; 0x14292967;
  0x27b70a85; 0x2e1b2138; 0x4d2c6dfc; 0x53380d13; 0x650a7354; 0x766a0abb; 0x81c2c92e; 0x92722c85;
  0xa2bfe8a1; 0xa81a664b; 0xc24b8b70; 0xc76c51a3; 0xd192e819; 0xd6990624; 0xf40e3585; 0x106aa070;
  0x19a4c116; 0x1e376c08; 0x2748774c; 0x34b0bcb5; 0x391c0cb3; 0x4ed8aa4a; 0x5b9cca4f; 0x682e6ff3;
  0x748f82ee; 0x78a5636f; 0x84c87814; 0x8cc70208; 0x90befffa; 0xa4506ceb; 0xbef9a3f7; 0xc67178f2 ].

(* 5.3.3: initial hash value *)
Definition sha256_state : Type := (Z * Z * Z * Z * Z * Z * Z * Z)%type.
Definition sha256_iv : sha256_state :=
  (0x6a09e667, 0xbb67ae85, 0x3c6ef372, 0xa54ff53a, 0x510e527f, 0x9b05688c, 0x1f83d9ab, 0x5be0cd19).

(* 6.2.2 step 1: message schedule.  W_t = M_t (t < 16),
   W_t = ssig1(W_{t-2}) + W_{t-7} + ssig0(W_{t-15}) + W_{t-16} (16 <= t < 64), additions mod 2^32.
   The list is built newest-first, so W_{t-j} is element j-1. *)
Fixpoint sha256_sched_ext (n : nat) (rev_w : list Z) : list Z :=
  match n with
  | O => rev_w
  | S n' =>
    let wt := w32 (SSig1 (nth 1 rev_w 0) + nth 6 rev_w 0 + SSig0 (nth 14 rev_w 0) + nth 15 rev_w 0) in
    sha256_sched_ext n' (wt :: rev_w)
  end.
Definition sha256_schedule (block : list N) : list Z :=
  rev (sha256_sched_ext 48 (rev (be32_words block))).

(* 6.2.2 step 3: one round *)
Definition sha256_round (v : sha256_state) (kw : Z * Z) : sha256_state :=
  let '(a, b, c, d, e, f, g, h) := v in
  let '(k, w) := kw in
  let T1 := w32 (h + BSig1 e + Ch e f g + k + w) in
  let T2 := w32 (BSig0 a + Maj a b c) in
  (w32 (T1 + T2), a, b, c, w32 (d + T1), e, f, g).

(* 6.2.2: H(i) from H(i-1) and the block M(i) *)
Definition sha256_compress (H : sha256_state) (block : list N) : sha256_state :=
  let '(a, b, c, d, e, f, g, h) := fold_left sha256_round (combine K256 (sha256_schedule block)) H in
  let '(H0, H1, H2, H3, H4, H5, H6, H7) := H in
  (w32 (a + H0), w32 (b + H1), w32 (c + H2), w32 (d + H3),
   w32 (e + H4), w32 (f + H5), w32 (g + H6), w32 (h + H7)).

(* the digest: H0 || ... || H7, each big endian *)
Definition sha256_out (H : sha256_state) : list N :=
  let '(H0, H1, H2, H3, H4, H5, H6, H7) := H in
  be_bytes 4 H0 ++ be_bytes 4 H1 ++ be_bytes 4 H2 ++ be_bytes 4 H3 ++
  be_bytes 4 H4 ++ be_bytes 4 H5 ++ be_bytes 4 H6 ++ be_bytes 4 H7.

(* 5.1.1 padding (length field: 64-bit big endian bit length) + 6.2 iteration *)
Definition sha256_spec (msg : list N) : list N :=
  md_spec sha256_state 64 sha256_compress sha256_iv sha256_out 8 (be_bytes 8) msg.

(* ---- the C++ object CSHA256: Write per chunk, then Finalize ---- *)
Definition csha256 := hasher sha256_state.
Definition csha256_init (ubuf : list N) : csha256 := h_init sha256_state sha256_iv ubuf.
Definition csha256_write : csha256 -> list N -> csha256 := h_write sha256_state 64 sha256_compress.
Definition csha256_finalize : csha256 -> list N :=
  h_finalize sha256_state 64 sha256_compress sha256_out 119 (be_bytes 8).
Definition csha256_stream (chunks : list (list N)) : list N :=
  csha256_finalize (fold_left csha256_write chunks (csha256_init (zeros 64))).

(* ---- SHA256D64(out, in, blocks): for each 64-byte block of `in`, SHA256(SHA256(block)) ---- *)
Definition sha256d (msg : list N) : list N := sha256_spec (sha256_spec msg).
Fixpoint sha256d64_spec (blocks : nat) (input : list N) : list N :=
  match blocks with
  | O => []
  | S k => sha256d (firstn 64 input) ++ sha256d64_spec k (skipn 64 input)
  end.
