(* C21: the three indexes on one node, driven by the notifications and requests recorded by
   tie/drivers/index_drv.cpp.  Executable definitions only. *)
From Coq Require Import NArith.
From BV Require Import lib.Ints model.MuHash model.Index model.IndexCoinStats model.IndexTx model.IndexFilter.
Local Open Scope Z_scope.

Definition cs_base := base_index cs_index.
Definition tx_base := base_index tx_index.
Definition bf_base := base_index bf_index.

Record sim : Type := {
  sm_interval : Z;                   (* consensus.nSubsidyHalvingInterval *)
  sm_nv : node_view;
  sm_cs : cs_base; sm_cs_on : bool;  (* the database survives stop; the object exists when _on *)
  sm_tx : tx_base; sm_tx_on : bool;
  sm_bf : bf_base; sm_bf_on : bool;
  sm_fatal : bool                    (* node.exit_status != EXIT_SUCCESS *)
}.
Definition sim0 : sim :=
  {| sm_interval := 150; sm_nv := {| nv_blocks := []; nv_tip := None; nv_last_flushed := None |};
     sm_cs := base_new cs_index cs_init; sm_cs_on := false;
     sm_tx := base_new tx_index tx_index0; sm_tx_on := false;
     sm_bf := base_new bf_index bf_index0; sm_bf_on := false; sm_fatal := false |}.

Inductive sim_ev : Type :=
| SvInterval (i : Z) | SvBlock (b : block) | SvTip (h : option bytes) | SvLastFlushed (h : option bytes)
| SvConnected (h : bytes) | SvFlushed (h : bytes)
| SvStart (c t f : bool) | SvStop
| SvQuery (h : bytes) | SvTxQuery (txids : list bytes) | SvScratch (with_hash : bool).

Inductive sim_out : Type :=
| OInitFail (which : Z)
| OQuery (height : Z) (fatal : bool) (cs : option (bool * option dbval)) (bf : option (bool * option bf_val))
| OTx (synced : bool) (results : list (option bytes))
| OScratch (s : option utxo_stats) (fh : bytes) (header : bytes)
| OBad.

Definition with_nv (s : sim) (nv : node_view) : sim :=
  {| sm_interval := sm_interval s; sm_nv := nv; sm_cs := sm_cs s; sm_cs_on := sm_cs_on s; sm_tx := sm_tx s; sm_tx_on := sm_tx_on s;
     sm_bf := sm_bf s; sm_bf_on := sm_bf_on s; sm_fatal := sm_fatal s |}.
Definition with_idx (s : sim) (c : cs_base) (con : bool) (t : tx_base) (ton : bool) (f : bf_base) (fon : bool) : sim :=
  {| sm_interval := sm_interval s; sm_nv := sm_nv s; sm_cs := c; sm_cs_on := con; sm_tx := t; sm_tx_on := ton;
     sm_bf := f; sm_bf_on := fon;
     sm_fatal := sm_fatal s || (con && bi_fatal _ c) || (ton && bi_fatal _ t) || (fon && bi_fatal _ f) |}.

Definition cs_connected (s : sim) := base_block_connected cs_index (cs_append (sm_interval s)) cs_remove.
Definition tx_connected := base_block_connected tx_index tx_append tx_remove.
Definition bf_connected := base_block_connected bf_index bf_append bf_remove.

(* the active chain, genesis first *)
Fixpoint chain_to_fuel (fuel : nat) (bs : list block) (b : block) (acc : list block) : list block :=
  match fuel with
  | O => b :: acc
  | S k => if b_height b <=? 0 then b :: acc
           else match find_block bs (b_prev b) with Some p => chain_to_fuel k bs p (b :: acc) | None => b :: acc end
  end.
Definition active_chain (nv : node_view) : list block :=
  match nv_tip nv with
  | None => []
  | Some th => match find_block (nv_blocks nv) th with
               | Some t => chain_to_fuel (length (nv_blocks nv)) (nv_blocks nv) t []
               | None => []
               end
  end.

Definition sim_step (s : sim) (e : sim_ev) : sim * list sim_out :=
  let nv := sm_nv s in
  match e with
  | SvInterval i =>
    ({| sm_interval := i; sm_nv := nv; sm_cs := sm_cs s; sm_cs_on := sm_cs_on s; sm_tx := sm_tx s; sm_tx_on := sm_tx_on s;
        sm_bf := sm_bf s; sm_bf_on := sm_bf_on s; sm_fatal := sm_fatal s |}, [])
  | SvBlock b => (with_nv s {| nv_blocks := b :: nv_blocks nv; nv_tip := nv_tip nv; nv_last_flushed := nv_last_flushed nv |}, [])
  | SvTip h => (with_nv s {| nv_blocks := nv_blocks nv; nv_tip := h; nv_last_flushed := nv_last_flushed nv |}, [])
  | SvLastFlushed h => (with_nv s {| nv_blocks := nv_blocks nv; nv_tip := nv_tip nv; nv_last_flushed := h |}, [])
  | SvConnected h =>
    match find_block (nv_blocks nv) h with
    | None => (s, [OBad])
    | Some b =>
      let nv' := nv in
      let s1 := s in
      (with_idx s1 (if sm_cs_on s then cs_connected s nv' (sm_cs s) b else sm_cs s) (sm_cs_on s)
                   (if sm_tx_on s then tx_connected nv' (sm_tx s) b else sm_tx s) (sm_tx_on s)
                   (if sm_bf_on s then bf_connected nv' (sm_bf s) b else sm_bf s) (sm_bf_on s), [])
    end
  | SvFlushed h =>
    let nv' := {| nv_blocks := nv_blocks nv; nv_tip := nv_tip nv; nv_last_flushed := Some h |} in
    let s1 := with_nv s nv' in
    (with_idx s1 (if sm_cs_on s then base_chain_state_flushed cs_index cs_commit nv' (sm_cs s) h else sm_cs s) (sm_cs_on s)
                 (if sm_tx_on s then base_chain_state_flushed tx_index tx_commit nv' (sm_tx s) h else sm_tx s) (sm_tx_on s)
                 (if sm_bf_on s then base_chain_state_flushed bf_index bf_commit nv' (sm_bf s) h else sm_bf s) (sm_bf_on s), [])
  | SvStart c t f =>
    let start_cs := c && negb (sm_cs_on s) in
    let start_tx := t && negb (sm_tx_on s) in
    let start_bf := f && negb (sm_bf_on s) in
    let c1 := if start_cs
              then base_sync cs_index (cs_append (sm_interval s)) cs_remove cs_commit nv (base_init cs_index cs_custom_init nv (sm_cs s))
              else sm_cs s in
    let t1 := if start_tx
              then base_sync tx_index tx_append tx_remove tx_commit nv (base_init tx_index tx_custom_init nv (sm_tx s))
              else sm_tx s in
    let f1 := if start_bf
              then base_sync bf_index bf_append bf_remove bf_commit nv (base_init bf_index bf_custom_init nv (sm_bf s))
              else sm_bf s in
    (with_idx s c1 (sm_cs_on s || c) t1 (sm_tx_on s || t) f1 (sm_bf_on s || f),
     (if start_cs && bi_initfail _ c1 then [OInitFail 0] else []) ++
     (if start_tx && bi_initfail _ t1 then [OInitFail 1] else []) ++
     (if start_bf && bi_initfail _ f1 then [OInitFail 2] else []))
  | SvStop => (with_idx s (sm_cs s) false (sm_tx s) false (sm_bf s) false, [])
  | SvQuery h =>
    match find_block (nv_blocks nv) h with
    | None => (s, [OBad])
    | Some b =>
      (s, [OQuery (b_height b) (sm_fatal s)
             (if sm_cs_on s then Some (bi_synced _ (sm_cs s), cs_lookup (bi_custom _ (sm_cs s)) (b_hash b) (b_height b)) else None)
             (if sm_bf_on s then Some (bi_synced _ (sm_bf s), bf_lookup (bi_custom _ (sm_bf s)) (b_hash b) (b_height b)) else None)])
    end
  | SvTxQuery txids =>
    if sm_tx_on s
    then (s, [OTx (bi_synced _ (sm_tx s)) (map (tx_find nv (bi_custom _ (sm_tx s))) txids)])
    else (s, [])
  | SvScratch with_hash =>
    let chain := active_chain nv in
    (s, [OScratch (match utxo_of_chain chain with
                   | Some u => Some (if with_hash then compute_utxo_stats u else compute_utxo_stats_nohash u)
                   | None => None end)
                  (match rev chain with b :: _ => b_filter_hash b | [] => ZERO32 end)
                  (chain_filter_header chain)])
  end.

Fixpoint sim_run (s : sim) (evs : list sim_ev) : list sim_out :=
  match evs with
  | [] => []
  | e :: r => let '(s', o) := sim_step s e in o ++ sim_run s' r
  end.
