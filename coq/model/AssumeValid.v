(* C57 -- when does Chainstate::ConnectBlock skip script verification (src/validation.cpp, the script_check_reason
   computation) and GetBlockProofEquivalentTime / GetBitsProof (src/chain.cpp).

   arith_uint256 values are naturals below 2^256 with explicit wrap256 where the C++ can leave the range. *)
From BV Require Import lib.Ints model.Pow.
Local Open Scope Z_scope.

(* arith_uint256 GetBitsProof(uint32_t bits)
   {
       arith_uint256 bnTarget; bool fNegative; bool fOverflow;
       bnTarget.SetCompact(bits, &fNegative, &fOverflow);
       if (fNegative || fOverflow || bnTarget == 0) return 0;
       // We need to compute 2**256 / (bnTarget+1), but we can't represent 2**256 ...
       return (~bnTarget / (bnTarget + 1)) + 1;
   } *)
Definition bits_proof (nbits : Z) : Z :=
  let d := set_compact nbits in
  if cd_negative d || cd_overflow d || (cd_value d =? 0) then 0
  else wrap256 ((2 ^ 256 - 1 - cd_value d) / wrap256 (cd_value d + 1) + 1).

(* int64_t GetBlockProofEquivalentTime(const CBlockIndex& to, const CBlockIndex& from, const CBlockIndex& tip, const Consensus::Params& params)
   {
       arith_uint256 r;
       int sign = 1;
       if (to.nChainWork > from.nChainWork) { r = to.nChainWork - from.nChainWork; }
       else { r = from.nChainWork - to.nChainWork; sign = -1; }
       r = r * arith_uint256(params.nPowTargetSpacing) / GetBlockProof(tip);
       if (r.bits() > 63) { return sign * std::numeric_limits<int64_t>::max(); }
       return sign * int64_t(r.GetLow64());
   }
   base_uint::operator/= throws uint_error("Division by zero") when the divisor is 0: EptDivZero.
   arith_uint256(int64 spacing): the spacing of every chain is positive (the uint64 conversion is the identity). *)
Inductive ept_result := EptOk (v : Z) | EptDivZero.

Definition equiv_time (to_work from_work tip_proof spacing : Z) : ept_result :=
  let r := if to_work >? from_work then to_work - from_work else from_work - to_work in
  let sign := if to_work >? from_work then 1 else -1 in
  if tip_proof =? 0 then EptDivZero else
  let r2 := wrap256 (r * wrapu64 spacing) / tip_proof in
  if bits256 r2 >? 63 then EptOk (sign * INT64_MAX)
  else EptOk (sign * wrap64 (r2 mod 2 ^ 64)).

(* ---- the block index as far as the decision reads it ---- *)

Record bentry := { be_parent : option Z; be_height : Z; be_work : Z; be_bits : Z }.
Definition index := Z -> option bentry.

(* CBlockIndex::GetAncestor(height): nullptr if height > nHeight || height < 0, otherwise the block at that height on
   the path to the genesis block (the skip-list walk returns exactly that block: C54) *)
Fixpoint ancestor_walk (I : index) (fuel : nat) (b : Z) (h : Z) : option Z :=
  match I b with
  | None => None
  | Some e =>
      if be_height e =? h then Some b
      else match fuel, be_parent e with
           | S f, Some p => ancestor_walk I f p h
           | _, _ => None
           end
  end.

Definition get_ancestor (I : index) (b : Z) (h : Z) : option Z :=
  match I b with
  | None => None
  | Some e => if (h >? be_height e) || (h <? 0) then None else ancestor_walk I (Z.to_nat (be_height e - h)) b h
  end.

Definition opt_is (o : option Z) (b : Z) : bool := match o with Some x => x =? b | None => false end.

Definition TWO_WEEKS_IN_SECONDS : Z := 60 * 60 * 24 * 7 * 2.

Record av_cfg := { av_hash : option Z;      (* m_options.assumed_valid_block: None = null hash (assumevalid=0) *)
                   av_min_work : Z;         (* MinimumChainWork() *)
                   av_best_header : Z;      (* m_chainman.m_best_header *)
                   av_spacing : Z }.        (* params.GetConsensus().nPowTargetSpacing *)

(*  const char* script_check_reason;
    if (m_chainman.AssumedValidBlock().IsNull()) { script_check_reason = "assumevalid=0 (always verify)"; }
    else {
        BlockMap::const_iterator it{m_blockman.m_block_index.find(m_chainman.AssumedValidBlock())};
        if (it == m_blockman.m_block_index.end()) { "assumevalid hash not in headers" }
        else if (it->second.GetAncestor(pindex->nHeight) != pindex) { "block height above assumevalid height" / "block not in assumevalid chain" }
        else if (m_chainman.m_best_header->GetAncestor(pindex->nHeight) != pindex) { "block not in best header chain" }
        else if (m_chainman.m_best_header->nChainWork < m_chainman.MinimumChainWork()) { "best header chainwork below minimumchainwork" }
        else if (GetBlockProofEquivalentTime( *m_best_header, *pindex, *m_best_header, consensus) <= TWO_WEEKS_IN_SECONDS) { "block too recent relative to best header" }
        else { script_check_reason = nullptr; }
    }
    const bool fScriptChecks{!!script_check_reason}; *)
Inductive verdict :=
| VNotConfigured | VNotInIndex | VNotAncestor | VNotBestChain | VBelowMinWork | VTooRecent   (* scripts are verified *)
| VSkip                                                                                       (* scripts are skipped *)
| VErr.                                                                                       (* not a run of the code: pindex / best header missing, or uint_error *)

Definition script_check (I : index) (cfg : av_cfg) (pindex : Z) : verdict :=
  match I pindex, I (av_best_header cfg) with
  | Some pe, Some he =>
      match av_hash cfg with
      | None => VNotConfigured
      | Some av =>
          match I av with
          | None => VNotInIndex
          | Some _ =>
              if negb (opt_is (get_ancestor I av (be_height pe)) pindex) then VNotAncestor
              else if negb (opt_is (get_ancestor I (av_best_header cfg) (be_height pe)) pindex) then VNotBestChain
              else if be_work he <? av_min_work cfg then VBelowMinWork
              else match equiv_time (be_work he) (be_work pe) (bits_proof (be_bits he)) (av_spacing cfg) with
                   | EptDivZero => VErr
                   | EptOk t => if t <=? TWO_WEEKS_IN_SECONDS then VTooRecent else VSkip
                   end
          end
      end
  | _, _ => VErr
  end.

Definition scripts_verified (v : verdict) : bool := match v with VSkip | VErr => false | _ => true end.

(* ---- executable statement of the property, used by the driver's `holds`:
   an invalid-script block may be ACCEPTED only when all five conditions hold ---- *)
Definition skip_allowed (I : index) (cfg : av_cfg) (pindex : Z) : bool :=
  match I pindex, I (av_best_header cfg), av_hash cfg with
  | Some pe, Some he, Some av =>
      match I av with
      | Some _ =>
          opt_is (get_ancestor I av (be_height pe)) pindex &&
          opt_is (get_ancestor I (av_best_header cfg) (be_height pe)) pindex &&
          (av_min_work cfg <=? be_work he) &&
          negb (bits_proof (be_bits he) =? 0) &&
          (TWO_WEEKS_IN_SECONDS * bits_proof (be_bits he) + bits_proof (be_bits he) <=? (be_work he - be_work pe) * av_spacing cfg)
      | None => false
      end
  | _, _, _ => false
  end.
