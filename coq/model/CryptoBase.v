(* C49 — common vocabulary of the Crypto family.
   A byte is an N below 256 (as everywhere in /verif); a word is a Z with every reduction mod 2^32 /
   2^64 written explicitly.  Big / little endian packing as in src/crypto/common.h
   (ReadBE32/WriteBE32/ReadLE32/...), rotations, and list helpers used by the streaming models.
   Executable definitions only. *)
From Coq Require Import NArith.
From BV Require Import lib.Ints.
Local Open Scope Z_scope.

Definition bytes_ok (l : list N) : Prop := Forall (fun b => (b < 256)%N) l.

Definition M32 : Z := 4294967296.             (* 2^32 *)
Definition M64 : Z := 18446744073709551616.   (* 2^64 *)
(* reduction mod 2^32 / 2^64, computed as a bit mask because Z.modulo is very slow in the extracted
   model; w32_is_mod / w64_is_mod (proofs/CryptoBaseLemmas.v): w32 x = x mod 2^32 for every x *)
Definition MASK32 : Z := 4294967295.             (* 2^32 - 1 *)
Definition MASK64 : Z := 18446744073709551615.   (* 2^64 - 1 *)
Definition w32 (x : Z) : Z := Z.land x MASK32.
Definition w64 (x : Z) : Z := Z.land x MASK64.

(* ReadBE32 / ReadBE64: most significant byte first *)
Definition be_value (l : list N) : Z := fold_left (fun acc b => acc * 256 + Z.of_N b) l 0.
(* ReadLE32 / ReadLE64 *)
Fixpoint le_value (l : list N) : Z :=
  match l with [] => 0 | b :: r => Z.of_N b + 256 * le_value r end.
(* WriteLE32 (k = 4) / WriteLE64 (k = 8): the k low bytes of v, least significant first *)
Fixpoint le_bytes (k : nat) (v : Z) : list N :=
  match k with O => [] | S j => Z.to_N (v mod 256) :: le_bytes j (v / 256) end.
(* WriteBE32 / WriteBE64 *)
Definition be_bytes (k : nat) (v : Z) : list N := rev (le_bytes k v).

(* a byte string as a sequence of 32 / 64 bit words (incomplete trailing groups are dropped; all
   callers pass whole blocks) *)
Fixpoint be32_words (l : list N) : list Z :=
  match l with a :: b :: c :: d :: r => be_value [a; b; c; d] :: be32_words r | _ => [] end.
Fixpoint le32_words (l : list N) : list Z :=
  match l with a :: b :: c :: d :: r => le_value [a; b; c; d] :: le32_words r | _ => [] end.
Fixpoint be64_words (l : list N) : list Z :=
  match l with
  | a :: b :: c :: d :: e :: f :: g :: h :: r => be_value [a; b; c; d; e; f; g; h] :: be64_words r
  | _ => [] end.
Fixpoint le64_words (l : list N) : list Z :=
  match l with
  | a :: b :: c :: d :: e :: f :: g :: h :: r => le_value [a; b; c; d; e; f; g; h] :: le64_words r
  | _ => [] end.

(* rotations of w-bit words *)
Definition rotr32 (n : Z) (x : Z) : Z := Z.lor (Z.shiftr x n) (w32 (Z.shiftl x (32 - n))).
Definition rotl32 (n : Z) (x : Z) : Z := Z.lor (w32 (Z.shiftl x n)) (Z.shiftr x (32 - n)).
Definition rotr64 (n : Z) (x : Z) : Z := Z.lor (Z.shiftr x n) (w64 (Z.shiftl x (64 - n))).
Definition rotl64 (n : Z) (x : Z) : Z := Z.lor (w64 (Z.shiftl x n)) (Z.shiftr x (64 - n)).
Definition not32 (x : Z) : Z := MASK32 - x.
Definition not64 (x : Z) : Z := MASK64 - x.

(* memcpy(buf + off, src, |src|) on a buffer represented by the list of its bytes *)
Definition memcpy (buf : list N) (off : nat) (src : list N) : list N :=
  firstn off buf ++ src ++ skipn (off + length src) buf.

(* byte-wise XOR of two strings (length of the shorter one) *)
Fixpoint xor_bytes (a b : list N) : list N :=
  match a, b with x :: a', y :: b' => N.lxor x y :: xor_bytes a' b' | _, _ => [] end.

Definition zeros (n : nat) : list N := repeat 0%N n.

(* the message cut in pieces of size n (last piece possibly shorter); fuel = number of bytes *)
Fixpoint chunks_of (fuel n : nat) (l : list N) : list (list N) :=
  match fuel with
  | O => []
  | S f => match l with [] => [] | _ => firstn n l :: chunks_of f n (skipn n l) end
  end.
