(* The compressed on-disk encoding of coins (UTXO database and undo files).  Transcribed from
     src/compressor.cpp   CompressAmount, DecompressAmount, IsToKeyID, IsToScriptID, IsToPubKey,
                          CompressScript, GetSpecialScriptSize, DecompressScript
     src/compressor.h     ScriptCompression, AmountCompression, TxOutCompression
     src/coins.h          Coin::Serialize / Coin::Unserialize
     src/undo.h           TxInUndoFormatter
   Executable definitions only (proofs are in proofs/CompressLemmas.v).

   The two secp256k1 operations the script compressor uses (CPubKey::IsFullyValid on a 65-byte
   0x04 key, CPubKey::Decompress on a 33-byte 0x02/0x03 key) are parameters of the definitions
   (Section variables); model/CompressEC.v gives the executable instance that is extracted. *)
From Coq Require Import NArith.
From BV Require Import lib.Ints gen.Params_gen model.SerBase.
Local Open Scope Z_scope.

(* uint64_t arithmetic: every operation wraps *)
Definition add64 (a b : Z) : Z := wrapu64 (a + b).
Definition sub64 (a b : Z) : Z := wrapu64 (a - b).
Definition mul64 (a b : Z) : Z := wrapu64 (a * b).

(* ---- CompressAmount ----
   uint64_t CompressAmount(uint64_t n)
   {
       if (n == 0) return 0;
       int e = 0;
       while (((n % 10) == 0) && e < 9) { n /= 10; e++; }
       if (e < 9) {
           int d = (n % 10);
           assert(d >= 1 && d <= 9);
           n /= 10;
           return 1 + (n*9 + d - 1)*10 + e;
       } else {
           return 1 + (n - 1)*10 + 9;
       }
   }
   The loop runs at most 9 times because of its own `e < 9` test; the nat argument is that bound
   (9 - e), not an extra fuel: at O the test `e < 9` is false (strip_zeros_exit). *)
Fixpoint strip_zeros (k : nat) (n e : Z) : Z * Z :=
  match k with
  | O => (n, e)
  | S k' => if (n mod 10 =? 0) && (e <? 9) then strip_zeros k' (n / 10) (e + 1) else (n, e)
  end.

Definition compress_amount (n : Z) : Z :=
  if n =? 0 then 0
  else
    let '(n1, e) := strip_zeros 9 n 0 in
    if e <? 9 then
      let d := n1 mod 10 in
      let n2 := n1 / 10 in
      add64 (add64 1 (mul64 (sub64 (add64 (mul64 n2 9) d) 1) 10)) e
    else
      add64 (add64 1 (mul64 (sub64 n1 1) 10)) 9.

(* the assert inside CompressAmount, as a predicate on its input *)
Definition compress_amount_assert (n : Z) : bool :=
  if n =? 0 then true
  else let '(n1, e) := strip_zeros 9 n 0 in
       if e <? 9 then (1 <=? n1 mod 10) && (n1 mod 10 <=? 9) else true.

(* The value CompressAmount would return in unbounded arithmetic (no uint64 wrap): the round trip
   holds exactly where this is below 2^64 (C18_amount_roundtrip_nowrap / _wrap_example). *)
Definition compress_amount_unbounded (n : Z) : Z :=
  if n =? 0 then 0
  else
    let '(n1, e) := strip_zeros 9 n 0 in
    if e <? 9 then 1 + ((n1 / 10) * 9 + n1 mod 10 - 1) * 10 + e
    else 1 + (n1 - 1) * 10 + 9.

(* ---- DecompressAmount ----
   uint64_t DecompressAmount(uint64_t x)
   {
       if (x == 0) return 0;
       x--;
       int e = x % 10;
       x /= 10;
       uint64_t n = 0;
       if (e < 9) {
           int d = (x % 9) + 1;
           x /= 9;
           n = x*10 + d;
       } else {
           n = x+1;
       }
       while (e) { n *= 10; e--; }
       return n;
   } *)
Fixpoint mul_pow10 (e : nat) (n : Z) : Z :=
  match e with O => n | S e' => mul_pow10 e' (mul64 n 10) end.

Definition decompress_amount (x : Z) : Z :=
  if x =? 0 then 0
  else
    let x1 := sub64 x 1 in
    let e := x1 mod 10 in
    let x2 := x1 / 10 in
    let n := if e <? 9 then
               let d := x2 mod 9 + 1 in
               let x3 := x2 / 9 in
               add64 (mul64 x3 10) d
             else add64 x2 1 in
    mul_pow10 (Z.to_nat e) n.

(* ---- scripts ---- *)
Definition op_dup : N := Z.to_N SER_OP_DUP.
Definition op_hash160 : N := Z.to_N SER_OP_HASH160.
Definition op_equalverify : N := Z.to_N SER_OP_EQUALVERIFY.
Definition op_checksig : N := Z.to_N SER_OP_CHECKSIG.
Definition op_equal : N := Z.to_N SER_OP_EQUAL.
Definition op_return : N := Z.to_N SER_OP_RETURN.

Fixpoint bytes_eqb (a b : list N) : bool :=
  match a, b with
  | [], [] => true
  | x :: a', y :: b' => (x =? y)%N && bytes_eqb a' b'
  | _, _ => false
  end.

(* static bool IsToKeyID(const CScript& script, CKeyID &hash)
   {
       if (script.size() == 25 && script[0] == OP_DUP && script[1] == OP_HASH160
                               && script[2] == 20 && script[23] == OP_EQUALVERIFY
                               && script[24] == OP_CHECKSIG) {
           memcpy(&hash, &script[3], 20);
           return true;
       }
       return false;
   }
   (the byte tests are written as tests on the prefix script[0..2] and the suffix script[23..24]) *)
Definition is_to_key_id (s : list N) : option (list N) :=
  if (length s =? 25)%nat && bytes_eqb (firstn 3 s) [op_dup; op_hash160; 20%N]
     && bytes_eqb (skipn 23 s) [op_equalverify; op_checksig]
  then Some (firstn 20 (skipn 3 s)) else None.

(* static bool IsToScriptID(const CScript& script, CScriptID &hash)
   {
       if (script.size() == 23 && script[0] == OP_HASH160 && script[1] == 20
                               && script[22] == OP_EQUAL) {
           memcpy(&hash, &script[2], 20);
           return true;
       }
       return false;
   } *)
Definition is_to_script_id (s : list N) : option (list N) :=
  if (length s =? 23)%nat && bytes_eqb (firstn 2 s) [op_hash160; 20%N]
     && bytes_eqb (skipn 22 s) [op_equal]
  then Some (firstn 20 (skipn 2 s)) else None.

Definition special_script_size (nSize : Z) : nat :=
  (* unsigned int GetSpecialScriptSize(unsigned int nSize)
     { if (nSize == 0 || nSize == 1) return 20;
       if (nSize == 2 || nSize == 3 || nSize == 4 || nSize == 5) return 32;
       return 0; } *)
  if (nSize =? 0) || (nSize =? 1) then 20%nat
  else if (nSize =? 2) || (nSize =? 3) || (nSize =? 4) || (nSize =? 5) then 32%nat
  else 0%nat.

(* class Coin { CTxOut out; bool fCoinBase : 1; uint32_t nHeight : 31; ... } *)
Record coin : Type := mk_coin { c_height : Z; c_coinbase : bool; c_value : Z; c_script : list N }.

Definition coin_code (c : coin) : Z :=
  (* uint32_t code{(uint32_t{nHeight} << 1) | uint32_t{fCoinBase}}; *)
  Z.lor (wrapu32 (Z.shiftl (c_height c) 1)) (if c_coinbase c then 1 else 0).

Definition coin_eqb (a b : coin) : bool :=
  (c_height a =? c_height b) && Bool.eqb (c_coinbase a) (c_coinbase b)
  && (c_value a =? c_value b) && bytes_eqb (c_script a) (c_script b).

(* SEC1 compressed form of the 65-byte key 0x04 || X || Y : (0x02 | (Y odd)) || X.  Only used to
   state what the two secp256k1 parameters below have to satisfy. *)
Definition ec_compress_pub (pk : list N) : option (list N) :=
  match nth_error pk 64 with
  | Some y => Some (N.lor 2 (N.land y 1) :: firstn 32 (skipn 1 pk))
  | None => None
  end.

(* The secp256k1 premise of the script theorems: on a fully valid uncompressed key, decompressing
   the compressed form gives the key back. *)
Definition ec_premise (fully_valid : list N -> bool) (decompress : list N -> option (list N)) : Prop :=
  forall pk c, bytes_ok pk -> length pk = 65%nat -> nth_error pk 0 = Some 4%N -> fully_valid pk = true ->
    ec_compress_pub pk = Some c -> decompress c = Some pk.

Section WithEC.
  (* CPubKey::IsFullyValid of the 65 bytes 0x04 || X || Y *)
  Variable ec_fully_valid : list N -> bool.
  (* CPubKey::Decompress of the 33 bytes (0x02|0x03) || X : the 65 bytes 0x04 || X || Y, or failure *)
  Variable ec_decompress : list N -> option (list N).

  (* static bool IsToPubKey(const CScript& script, CPubKey &pubkey)
     {
         if (script.size() == 35 && script[0] == 33 && script[34] == OP_CHECKSIG
                                 && (script[1] == 0x02 || script[1] == 0x03)) {
             pubkey.Set(&script[1], &script[34]);
             return true;
         }
         if (script.size() == 67 && script[0] == 65 && script[66] == OP_CHECKSIG
                                 && script[1] == 0x04) {
             pubkey.Set(&script[1], &script[66]);
             return pubkey.IsFullyValid(); // if not fully valid, a case that would not be compressible
         }
         return false;
     }
     (CPubKey::Set keeps the bytes because GetLen(0x02|0x03) = 33 and GetLen(0x04) = 65.) *)
  Definition is_to_pubkey (s : list N) : option (list N) :=
    if (length s =? 35)%nat && bytes_eqb (firstn 1 s) [33%N] && bytes_eqb (skipn 34 s) [op_checksig]
       && (bytes_eqb (firstn 1 (skipn 1 s)) [2%N] || bytes_eqb (firstn 1 (skipn 1 s)) [3%N])
    then Some (firstn 33 (skipn 1 s))
    else if (length s =? 67)%nat && bytes_eqb (firstn 1 s) [65%N] && bytes_eqb (skipn 66 s) [op_checksig]
            && bytes_eqb (firstn 1 (skipn 1 s)) [4%N]
    then (let pk := firstn 65 (skipn 1 s) in if ec_fully_valid pk then Some pk else None)
    else None.

  (* bool CompressScript(const CScript& script, CompressedScript& out)
     {
         CKeyID keyID;
         if (IsToKeyID(script, keyID)) { out.resize(21); out[0] = 0x00; memcpy(&out[1], &keyID, 20); return true; }
         CScriptID scriptID;
         if (IsToScriptID(script, scriptID)) { out.resize(21); out[0] = 0x01; memcpy(&out[1], &scriptID, 20); return true; }
         CPubKey pubkey;
         if (IsToPubKey(script, pubkey)) {
             out.resize(33);
             memcpy(&out[1], &pubkey[1], 32);
             if (pubkey[0] == 0x02 || pubkey[0] == 0x03) { out[0] = pubkey[0]; return true; }
             else if (pubkey[0] == 0x04) { out[0] = 0x04 | (pubkey[64] & 0x01); return true; }
         }
         return false;
     } *)
  Definition compress_script (s : list N) : option (list N) :=
    match is_to_key_id s with
    | Some h => Some (0%N :: h)
    | None =>
      match is_to_script_id s with
      | Some h => Some (1%N :: h)
      | None =>
        match is_to_pubkey s with
        | Some pk =>
          let x := firstn 32 (skipn 1 pk) in
          match nth_error pk 0 with
          | Some h0 =>
            if (h0 =? 2)%N || (h0 =? 3)%N then Some (h0 :: x)
            else if (h0 =? 4)%N then
              match nth_error pk 64 with
              | Some y31 => Some (N.lor 4 (N.land y31 1) :: x)
              | None => None
              end
            else None
          | None => None
          end
        | None => None
        end
      end
    end.

  (* bool DecompressScript(CScript& script, unsigned int nSize, const CompressedScript& in)
     {
         switch(nSize) {
         case 0x00: script.resize(25); script[0] = OP_DUP; script[1] = OP_HASH160; script[2] = 20;
                    memcpy(&script[3], in.data(), 20); script[23] = OP_EQUALVERIFY; script[24] = OP_CHECKSIG; return true;
         case 0x01: script.resize(23); script[0] = OP_HASH160; script[1] = 20; memcpy(&script[2], in.data(), 20);
                    script[22] = OP_EQUAL; return true;
         case 0x02:
         case 0x03: script.resize(35); script[0] = 33; script[1] = nSize; memcpy(&script[2], in.data(), 32);
                    script[34] = OP_CHECKSIG; return true;
         case 0x04:
         case 0x05: unsigned char vch[33] = {}; vch[0] = nSize - 2; memcpy(&vch[1], in.data(), 32);
                    CPubKey pubkey{vch};
                    if (!pubkey.Decompress()) return false;
                    assert(pubkey.size() == 65);
                    script.resize(67); script[0] = 65; memcpy(&script[1], pubkey.begin(), 65); script[66] = OP_CHECKSIG;
                    return true;
         }
         return false;
     }
     `vch` (the parameter `in`) always has GetSpecialScriptSize(nSize) bytes at the only call site. *)
  Definition decompress_script (nSize : Z) (vch : list N) : option (list N) :=
    if nSize =? 0 then Some ([op_dup; op_hash160; 20%N] ++ firstn 20 vch ++ [op_equalverify; op_checksig])
    else if nSize =? 1 then Some ([op_hash160; 20%N] ++ firstn 20 vch ++ [op_equal])
    else if (nSize =? 2) || (nSize =? 3) then Some ([33%N; Z.to_N nSize] ++ firstn 32 vch ++ [op_checksig])
    else if (nSize =? 4) || (nSize =? 5) then
      match ec_decompress (Z.to_N (nSize - 2) :: firstn 32 vch) with
      | Some pk => Some ([65%N] ++ pk ++ [op_checksig])
      | None => None
      end
    else None.

  (* struct ScriptCompression {
       static constexpr unsigned int nSpecialScripts{6};
       void Ser(Stream &s, const CScript& script) {
           CompressedScript compr;
           if (CompressScript(script, compr)) { s << std::span{compr}; return; }
           unsigned int nSize = script.size() + nSpecialScripts;
           s << VARINT(nSize);
           s << std::span{script};
       } *)
  Definition ser_script (s : list N) : option (list N) :=
    match compress_script s with
    | Some c => Some c
    | None =>
      match write_varint 32 (wrapu32 (Z.of_nat (length s) + N_SPECIAL_SCRIPTS)) with
      | Some v => Some (v ++ s)
      | None => None
      end
    end.

  (*   void Unser(Stream &s, CScript& script) {
           unsigned int nSize = 0;
           s >> VARINT(nSize);
           if (nSize < nSpecialScripts) {
               CompressedScript vch(GetSpecialScriptSize(nSize), 0x00);
               s >> std::span{vch};
               DecompressScript(script, nSize, vch);      // result ignored: on failure `script` keeps its old value
               return;
           }
           nSize -= nSpecialScripts;
           if (nSize > MAX_SCRIPT_SIZE) {
               // Overly long script, replace with a short invalid one
               script << OP_RETURN;                        // appended to the old value
               s.ignore(nSize);
           } else {
               script.resize(nSize);
               s >> std::span{script};
           }
       } };
     `prev` is the value the CScript object had before (empty for a fresh Coin). *)
  Definition unser_script (prev : list N) (s : list N) : res (list N) :=
    bind (read_varint 32 s) (fun nSize s1 =>
      if nSize <? N_SPECIAL_SCRIPTS then
        bind (read_bytes (special_script_size nSize) s1) (fun vch s2 =>
          match decompress_script nSize vch with
          | Some sc => Ok sc s2
          | None => Ok prev s2
          end)
      else
        let n := wrapu32 (nSize - N_SPECIAL_SCRIPTS) in
        if n >? MAX_SCRIPT_SIZE then
          bind (read_bytes_z n s1) (fun _ s2 => Ok (prev ++ [op_return]) s2)
        else
          read_bytes_z n s1).

  (* struct AmountCompression {
       void Ser(Stream& s, I val)    { s << VARINT(CompressAmount(val)); }        // I = CAmount: converted to uint64_t
       void Unser(Stream& s, I& val) { uint64_t v; s >> VARINT(v); val = DecompressAmount(v); }   // back to int64_t
     };
     struct TxOutCompression { READWRITE(Using<AmountCompression>(obj.nValue), Using<ScriptCompression>(obj.scriptPubKey)); }; *)
  Definition ser_txout (value : Z) (script : list N) : option (list N) :=
    match write_varint 64 (compress_amount (wrapu64 value)), ser_script script with
    | Some a, Some b => Some (a ++ b)
    | _, _ => None
    end.

  Definition unser_txout (prev : list N) (s : list N) : res (Z * list N) :=
    bind (read_varint 64 s) (fun v s1 =>
      bind (unser_script prev s1) (fun sc s2 => Ok (wrap64 (decompress_amount v), sc) s2)).

  (* void Serialize(Stream &s) const {
         assert(!IsSpent());                                   // out.nValue != -1
         uint32_t code{(uint32_t{nHeight} << 1) | uint32_t{fCoinBase}};
         ::Serialize(s, VARINT(code));
         ::Serialize(s, Using<TxOutCompression>(out));
     }
     None = the assert fires (or a varint buffer would overflow, which varint_fuel_sufficient excludes). *)
  Definition ser_coin (c : coin) : option (list N) :=
    if c_value c =? -1 then None
    else match write_varint 32 (coin_code c), ser_txout (c_value c) (c_script c) with
         | Some a, Some b => Some (a ++ b)
         | _, _ => None
         end.

  (* void Unserialize(Stream &s) {
         uint32_t code = 0;
         ::Unserialize(s, VARINT(code));
         nHeight = code >> 1;
         fCoinBase = code & 1;
         ::Unserialize(s, Using<TxOutCompression>(out));
     } *)
  Definition unser_coin (prev : list N) (s : list N) : res coin :=
    bind (read_varint 32 s) (fun code s1 =>
      bind (unser_txout prev s1) (fun vo s2 =>
        Ok (mk_coin (Z.shiftr code 1) (negb (Z.land code 1 =? 0)) (fst vo) (snd vo)) s2)).

  (* struct TxInUndoFormatter {
       void Ser(Stream &s, const Coin& txout) {
           uint32_t nCode{(uint32_t{txout.nHeight} << 1) | uint32_t{txout.fCoinBase}};
           ::Serialize(s, VARINT(nCode));
           if (txout.nHeight > 0) { ::Serialize(s, (unsigned char)0); }   // old undo format: tx version dummy
           ::Serialize(s, Using<TxOutCompression>(txout.out));
       } *)
  Definition ser_undo (c : coin) : option (list N) :=
    match write_varint 32 (coin_code c), ser_txout (c_value c) (c_script c) with
    | Some a, Some b => Some (a ++ (if c_height c >? 0 then [0%N] else []) ++ b)
    | _, _ => None
    end.

  (*   void Unser(Stream &s, Coin& txout) {
           uint32_t nCode = 0;
           ::Unserialize(s, VARINT(nCode));
           txout.nHeight = nCode >> 1;
           txout.fCoinBase = nCode & 1;
           if (txout.nHeight > 0) { unsigned int nVersionDummy; ::Unserialize(s, VARINT(nVersionDummy)); }
           ::Unserialize(s, Using<TxOutCompression>(txout.out));
       } }; *)
  Definition unser_undo (prev : list N) (s : list N) : res coin :=
    bind (read_varint 32 s) (fun code s1 =>
      let h := Z.shiftr code 1 in
      bind (if h >? 0 then read_varint 32 s1 else Ok 0 s1) (fun _ s2 =>
        bind (unser_txout prev s2) (fun vo s3 =>
          Ok (mk_coin h (negb (Z.land code 1 =? 0)) (fst vo) (snd vo)) s3))).

  (* The property's own predicate for one coin, evaluated on the bytes an implementation wrote
     and the coin it read back from them: the reference decoder reads the same coin from those
     bytes and consumes all of them, and the coin read back is the one that was written. *)
  Definition holds_coin_roundtrip (undo : bool) (c : coin) (impl_bytes : list N) (impl_back : coin) : bool :=
    coin_eqb impl_back c &&
    match (if undo then unser_undo [] impl_bytes else unser_coin [] impl_bytes) with
    | Ok c' [] => coin_eqb c' c
    | _ => false
    end.
End WithEC.
