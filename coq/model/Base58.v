(* C45 — base58 / base58check as src/base58.cpp computes it.  Executable definitions only.
   A character / byte is an N; strings and byte vectors are lists.

   The two conversion loops work on a zero-initialised buffer of `size` digits of which the last
   `length` are in use.  The model keeps exactly the `length` digits in use (least significant first)
   and the number of still unused cells (`room`); cells outside the used part are never written by
   the C++ and therefore read as 0.  `assert(carry == 0)` failing (buffer too small) is the outcome
   B58Assert; proofs/Base58Lemmas.v shows the sizes 138/100 and 733/1000 always suffice. *)
From Coq Require Import NArith String Ascii.
From BV Require Import lib.Ints model.Bech32.
Local Open Scope N_scope.

(* static const char* pszBase58 = "123456789ABCDEFGHJKLMNPQRSTUVWXYZabcdefghijkmnopqrstuvwxyz"; *)
Definition pszBase58 : list N := str "123456789ABCDEFGHJKLMNPQRSTUVWXYZabcdefghijkmnopqrstuvwxyz".

(* static const int8_t mapBase58[256] *)
Definition mapBase58 : list Z := [
    -1;-1;-1;-1;-1;-1;-1;-1; -1;-1;-1;-1;-1;-1;-1;-1;
    -1;-1;-1;-1;-1;-1;-1;-1; -1;-1;-1;-1;-1;-1;-1;-1;
    -1;-1;-1;-1;-1;-1;-1;-1; -1;-1;-1;-1;-1;-1;-1;-1;
    -1; 0; 1; 2; 3; 4; 5; 6;  7; 8;-1;-1;-1;-1;-1;-1;
    -1; 9;10;11;12;13;14;15; 16;-1;17;18;19;20;21;-1;
    22;23;24;25;26;27;28;29; 30;31;32;-1;-1;-1;-1;-1;
    -1;33;34;35;36;37;38;39; 40;41;42;43;-1;44;45;46;
    47;48;49;50;51;52;53;54; 55;56;57;-1;-1;-1;-1;-1;
    -1;-1;-1;-1;-1;-1;-1;-1; -1;-1;-1;-1;-1;-1;-1;-1;
    -1;-1;-1;-1;-1;-1;-1;-1; -1;-1;-1;-1;-1;-1;-1;-1;
    -1;-1;-1;-1;-1;-1;-1;-1; -1;-1;-1;-1;-1;-1;-1;-1;
    -1;-1;-1;-1;-1;-1;-1;-1; -1;-1;-1;-1;-1;-1;-1;-1;
    -1;-1;-1;-1;-1;-1;-1;-1; -1;-1;-1;-1;-1;-1;-1;-1;
    -1;-1;-1;-1;-1;-1;-1;-1; -1;-1;-1;-1;-1;-1;-1;-1;
    -1;-1;-1;-1;-1;-1;-1;-1; -1;-1;-1;-1;-1;-1;-1;-1;
    -1;-1;-1;-1;-1;-1;-1;-1; -1;-1;-1;-1;-1;-1;-1;-1 ]%Z.

(* constexpr bool IsSpace(char c) : ' ', '\f', '\n', '\r', '\t', '\v' *)
Definition is_space (c : N) : bool :=
  (c =? 32) || (c =? 12) || (c =? 10) || (c =? 13) || (c =? 9) || (c =? 11).

(* the continuation of the inner for-loop once the `length` used digits are exhausted:
     (carry != 0 || i < length) && (it != rend)   with i >= length
   i.e. while carry != 0 and cells remain: carry += mult * 0; *it = carry % base; carry /= base.
   None = the loop stopped at rend with carry != 0, so assert(carry == 0) fails. *)
Fixpoint b_extend (base carry : N) (room : nat) : option (list N) :=
  match room with
  | O => if carry =? 0 then Some [] else None
  | S r => if carry =? 0 then Some []
           else match b_extend base (carry / base) r with
                | Some ds => Some (carry mod base :: ds)
                | None => None
                end
  end.

(* the inner for-loop over the used digits (least significant first):
     carry += mult * ( *it); *it = carry % base; carry /= base;    "b = b * mult + ch" *)
Fixpoint b_muladd (base mult : N) (digs : list N) (carry : N) (room : nat) : option (list N) :=
  match digs with
  | [] => b_extend base carry room
  | d :: r => let c := carry + mult * d in
              match b_muladd base mult r (c / base) room with
              | Some ds => Some (c mod base :: ds)
              | None => None
              end
  end.

(* std::string EncodeBase58(std::span<const unsigned char> input) *)
Fixpoint skip_zero_bytes (l : list N) : nat * list N :=
  match l with
  | 0 :: r => let '(z, t) := skip_zero_bytes r in (S z, t)
  | _ => (O, l)
  end.
Fixpoint strip_zero_digits (l : list N) : list N :=
  match l with 0 :: r => strip_zero_digits r | _ => l end.

(* the "Process the bytes" loop; size = capacity of b58 *)
Fixpoint enc_loop (size : nat) (input : list N) (digs : list N) : option (list N) :=
  match input with
  | [] => Some digs
  | b :: r => match b_muladd 58 256 digs b (size - length digs) with
              | Some digs' => enc_loop size r digs'
              | None => None
              end
  end.

Fixpoint b58_chars (l : list N) : option (list N) :=
  match l with
  | [] => Some []
  | i :: r => match nth_error pszBase58 (N.to_nat i), b58_chars r with
              | Some c, Some cs => Some (c :: cs)
              | _, _ => None
              end
  end.

Inductive b58enc_result := B58Str (s : list N) | B58EncAssert.

Definition encode_base58 (input : list N) : b58enc_result :=
  let '(zeroes, rest) := skip_zero_bytes input in
  (* int size = input.size() * 138 / 100 + 1; *)
  let size := (length rest * 138 / 100 + 1)%nat in
  match enc_loop size rest [] with
  | None => B58EncAssert
  | Some digs =>
    (* it = b58.begin() + (size - length); while (it != end && *it == 0) it++;  (most significant first) *)
    match b58_chars (strip_zero_digits (rev digs)) with
    | Some cs => B58Str (repeat 49 zeroes ++ cs)
    | None => B58EncAssert   (* a digit >= 58: impossible (every digit is a remainder mod 58) *)
    end
  end.

Inductive b58dec_result := B58Bytes (l : list N) | B58False | B58DecAssert.

Fixpoint skip_spaces (l : list N) : list N :=
  match l with c :: r => if is_space c then skip_spaces r else l | [] => [] end.

(* while ( *psz == '1') { zeroes++; if (zeroes > max_ret_len) return false; psz++; }   None = return false *)
Fixpoint count_ones (l : list N) (zeroes : nat) (max_ret_len : N) : option (nat * list N) :=
  match l with
  | 49 :: r => if max_ret_len <? N.of_nat (S zeroes) then None else count_ones r (S zeroes) max_ret_len
  | _ => Some (zeroes, l)
  end.

(* while ( *psz && !IsSpace( *psz)) {...}   returns the used digits and the unread rest of the string *)
Fixpoint dec_loop (size zeroes : nat) (max_ret_len : N) (s : list N) (digs : list N)
  : option (option (list N * list N)) :=      (* None = assert; Some None = return false *)
  match s with
  | [] => Some (Some (digs, []))
  | c :: r =>
    if is_space c then Some (Some (digs, s))
    else match nth_error mapBase58 (N.to_nat c) with
         | None => Some None                     (* uint8_t index: cannot happen for c < 256 *)
         | Some v =>
           if (v =? -1)%Z then Some None
           else match b_muladd 256 58 digs (Z.to_N v) (size - length digs) with
                | None => None
                | Some digs' =>
                  if max_ret_len <? N.of_nat (length digs' + zeroes) then Some None
                  else dec_loop size zeroes max_ret_len r digs'
                end
         end
  end.

(* bool DecodeBase58(const std::string& str, std::vector<unsigned char>& vchRet, int max_ret_len)
   (ContainsNoNUL, then the char* version; the string ends at its size since it has no NUL) *)
Definition decode_base58 (s : list N) (max_ret_len : N) : b58dec_result :=
  if existsb (fun c => c =? 0) s then B58False
  else
    let s1 := skip_spaces s in
    match count_ones s1 0 max_ret_len with
    | None => B58False
    | Some (zeroes, s2) =>
      (* int size = strlen(psz) * 733 /1000 + 1; *)
      let size := (length s2 * 733 / 1000 + 1)%nat in
      match dec_loop size zeroes max_ret_len s2 [] with
      | None => B58DecAssert
      | Some None => B58False
      | Some (Some (digs, rest)) =>
        match skip_spaces rest with
        | [] => B58Bytes (repeat 0 zeroes ++ rev digs)
        | _ => B58False
        end
      end
    end.

Section Check.
  (* uint256 Hash(span): double SHA-256 (32 bytes) *)
  Variable hash256 : list N -> list N.

  (* std::string EncodeBase58Check(input): vch = input ++ first 4 bytes of Hash(input) *)
  Definition encode_base58check (input : list N) : b58enc_result :=
    encode_base58 (input ++ firstn 4 (hash256 input)).

  (* DecodeBase58Check(psz, vchRet, max_ret_len):
       if (!DecodeBase58(psz, vchRet, max_ret_len > INT_MAX - 4 ? INT_MAX : max_ret_len + 4) || vchRet.size() < 4) false
       hash = Hash(vchRet[0 .. size-4)); if (memcmp(&hash, &vchRet[size-4], 4) != 0) false
       vchRet.resize(size - 4); true *)
  Definition decode_base58check (s : list N) (max_ret_len : N) : b58dec_result :=
    let m := if 2147483647 - 4 <? max_ret_len then 2147483647 else max_ret_len + 4 in
    match decode_base58 s m with
    | B58Bytes v =>
      if (length v <? 4)%nat then B58False
      else let body := firstn (length v - 4) v in
           if list_eq_dec N.eq_dec (firstn 4 (hash256 body)) (skipn (length v - 4) v)
           then B58Bytes body else B58False
    | r => r
    end.
End Check.
