(* C49 — SHA-1.  Specification from FIPS 180-4 (4.1.1, 4.2.1, 5.1.1, 5.3.1, 6.1); then the instance of
   the streaming-object model for CSHA1. *)
From Coq Require Import NArith.
From BV Require Import lib.Ints model.CryptoBase model.CryptoMD.
Local Open Scope Z_scope.

(* 4.1.1 f_t and 4.2.1 K_t *)
Definition sha1_f (t : nat) (x y z : Z) : Z :=
  if (t <? 20)%nat then Z.lxor (Z.land x y) (Z.land (not32 x) z)                           (* Ch *)
  else if (t <? 40)%nat then Z.lxor (Z.lxor x y) z                                         (* Parity *)
  else if (t <? 60)%nat then Z.lxor (Z.lxor (Z.land x y) (Z.land x z)) (Z.land y z)        (* Maj *)
  else Z.lxor (Z.lxor x y) z.                                                              (* Parity *)
Definition sha1_K (t : nat) : Z :=
  if (t <? 20)%nat then 0x5a827999 else if (t <? 40)%nat then 0x6ed9eba1
  else if (t <? 60)%nat then 0x8f1bbcdc else 0xca62c1d6.

Definition sha1_state : Type := (Z * Z * Z * Z * Z)%type.
Definition sha1_iv : sha1_state := (0x67452301, 0xefcdab89, 0x98badcfe, 0x10325476, 0xc3d2e1f0).

(* 6.1.2 step 1: W_t = M_t (t < 16), W_t = ROTL1(W_{t-3} xor W_{t-8} xor W_{t-14} xor W_{t-16}) *)
Fixpoint sha1_sched_ext (n : nat) (rev_w : list Z) : list Z :=
  match n with
  | O => rev_w
  | S n' =>
    let wt := rotl32 1 (Z.lxor (Z.lxor (Z.lxor (nth 2 rev_w 0) (nth 7 rev_w 0)) (nth 13 rev_w 0)) (nth 15 rev_w 0)) in
    sha1_sched_ext n' (wt :: rev_w)
  end.
Definition sha1_schedule (block : list N) : list Z :=
  rev (sha1_sched_ext 64 (rev (be32_words block))).

(* 6.1.2 step 3 *)
Definition sha1_round (v : sha1_state) (tw : nat * Z) : sha1_state :=
  let '(a, b, c, d, e) := v in
  let '(t, w) := tw in
  let T := w32 (rotl32 5 a + sha1_f t b c d + e + sha1_K t + w) in
  (T, a, rotl32 30 b, c, d).

Definition sha1_compress (H : sha1_state) (block : list N) : sha1_state :=
  let '(a, b, c, d, e) := fold_left sha1_round (combine (seq 0 80) (sha1_schedule block)) H in
  let '(H0, H1, H2, H3, H4) := H in
  (w32 (a + H0), w32 (b + H1), w32 (c + H2), w32 (d + H3), w32 (e + H4)).

Definition sha1_out (H : sha1_state) : list N :=
  let '(H0, H1, H2, H3, H4) := H in
  be_bytes 4 H0 ++ be_bytes 4 H1 ++ be_bytes 4 H2 ++ be_bytes 4 H3 ++ be_bytes 4 H4.

Definition sha1_spec (msg : list N) : list N :=
  md_spec sha1_state 64 sha1_compress sha1_iv sha1_out 8 (be_bytes 8) msg.

(* ---- CSHA1 ---- *)
Definition csha1 := hasher sha1_state.
Definition csha1_init (ubuf : list N) : csha1 := h_init sha1_state sha1_iv ubuf.
Definition csha1_write : csha1 -> list N -> csha1 := h_write sha1_state 64 sha1_compress.
Definition csha1_finalize : csha1 -> list N :=
  h_finalize sha1_state 64 sha1_compress sha1_out 119 (be_bytes 8).
Definition csha1_stream (chunks : list (list N)) : list N :=
  csha1_finalize (fold_left csha1_write chunks (csha1_init (zeros 64))).
