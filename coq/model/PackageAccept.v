(* Control flow of package acceptance (C29).  Transcribed from
     src/validation.cpp   MemPoolAccept::AcceptPackage, MemPoolAccept::AcceptSubPackage
   The evaluation of one transaction (AcceptSingleTransactionInternal), of a sub-package of two or
   more transactions (AcceptMultipleTransactionsInternal) and the size limiting of the mempool
   (LimitMempoolSize) are parameters of the model: each maps the mempool to a verdict and the
   mempool afterwards.  The theorems constrain them by named premises (proofs/PackageAcceptLemmas.v);
   the correspondence instantiates them with the fee / input-availability / TRUC evaluator below
   (toy_single, toy_multi), which is what decides acceptance in the scenarios the driver builds.
   The mempool is the list of its transactions; std::map<Wtxid, MempoolAcceptResult> is an
   association list with emplace (no overwrite), erase and find.
   Executable definitions only. *)
From BV Require Import lib.Ints gen.Params_gen model.Package.
Local Open Scope Z_scope.

Inductive tx_result :=
| R_valid                               (* ResultType::VALID *)
| R_invalid (retry : bool) (why : Z)    (* ResultType::INVALID; retry: m_state.GetResult() is TX_RECONSIDERABLE or TX_MISSING_INPUTS *)
| R_mempool_entry                       (* ResultType::MEMPOOL_ENTRY *)
| R_different_witness (other_wtxid : Z) (* ResultType::DIFFERENT_WITNESS *).

Inductive pkg_state :=
| PS_valid
| PS_policy (r : pkg_reason)            (* PCKG_POLICY with IsWellFormedPackage's reason *)
| PS_not_child_with_parents             (* PCKG_POLICY "package-not-child-with-parents" *)
| PS_tx_failed                          (* PCKG_TX "transaction failed" *)
| PS_other (code : Z).                  (* whatever else a sub-package evaluation reports *)

Definition WHY_MEMPOOL_FULL : Z := 0.   (* TX_MEMPOOL_POLICY "mempool full" *)

Definition pool := list ptx.
(* CTxMemPool::exists(const Wtxid&) / exists(const Txid&) / GetEntry(txid) *)
Definition has_wtxid (P : pool) (w : Z) : bool := existsb (fun t => p_wtxid t =? w) P.
Definition has_txid (P : pool) (x : Z) : bool := existsb (fun t => p_txid t =? x) P.
Definition entry_by_txid (P : pool) (x : Z) : option ptx := find (fun t => p_txid t =? x) P.

Definition rmap := list (Z * tx_result).
Fixpoint rm_find (w : Z) (m : rmap) : option tx_result :=
  match m with [] => None | (k, r) :: rest => if k =? w then Some r else rm_find w rest end.
(* std::map::emplace: no effect when the key is present *)
Definition rm_emplace (w : Z) (r : tx_result) (m : rmap) : rmap :=
  match rm_find w m with Some _ => m | None => m ++ [(w, r)] end.
Definition rm_erase (w : Z) (m : rmap) : rmap := filter (fun kr => negb (fst kr =? w)) m.

Definition is_valid (r : tx_result) : bool := match r with R_valid => true | _ => false end.
Definition is_retry (r : tx_result) : bool := match r with R_invalid true _ => true | _ => false end.

Record loop_state := {
  ls_pool : pool;
  ls_final : rmap;              (* results_final *)
  ls_nonfinal : rmap;           (* individual_results_nonfinal *)
  ls_quit : bool;               (* quit_early *)
  ls_eval : list ptx;           (* txns_package_eval *)
  ls_log : list (list ptx) }.   (* model-only: the sub-packages handed to an evaluation, in order *)

Section AcceptPackage.
  (* AcceptSubPackage({tx}) -> AcceptSingleTransactionInternal: verdict (VALID or INVALID) and mempool afterwards *)
  Variable single : pool -> ptx -> tx_result * pool.
  (* AcceptMultipleTransactionsInternal(subpackage of size > 1): package state, per-wtxid results, mempool afterwards *)
  Variable multi : pool -> list ptx -> (pkg_state * rmap) * pool.
  (* LimitMempoolSize *)
  Variable trim : pool -> pool.

  (* PackageMempoolAcceptResult AcceptSubPackage(const std::vector<CTransactionRef>& subpackage, ATMPArgs& args)
     {   if (subpackage.size() > 1) return AcceptMultipleTransactionsInternal(subpackage, args);
         const auto& tx = subpackage.front();
         const auto single_res = AcceptSingleTransactionInternal(tx, single_args);
         PackageValidationState package_state_wrapped;
         if (single_res.m_result_type != ResultType::VALID) package_state_wrapped.Invalid(PCKG_TX, "transaction failed");
         return PackageMempoolAcceptResult(package_state_wrapped, {{tx->GetWitnessHash(), single_res}}); } *)
  Definition sub_package (P : pool) (l : list ptx) : (pkg_state * rmap) * pool :=
    match l with
    | [tx] => let '(res, P') := single P tx in
              ((if is_valid res then PS_valid else PS_tx_failed, [(p_wtxid tx, res)]), P')
    | _ => multi P l
    end.

  (* body of the first loop of AcceptPackage:
       if (m_pool.exists(wtxid)) {
           results_final.emplace(wtxid, MempoolAcceptResult::MempoolTx(...));
       } else if (m_pool.exists(txid)) {
           const auto& entry{*Assert(m_pool.GetEntry(txid))};
           results_final.emplace(wtxid, MempoolAcceptResult::MempoolTxDifferentWitness(entry.GetTx().GetWitnessHash()));
       } else {
           const auto single_package_res = AcceptSubPackage({tx}, args);
           const auto& single_res = single_package_res.m_tx_results.at(wtxid);
           if (single_res.m_result_type == ResultType::VALID) {
               results_final.emplace(wtxid, single_res);
           } else if (package.size() == 1 ||
                      (single_res.m_state.GetResult() != TX_RECONSIDERABLE && single_res.m_state.GetResult() != TX_MISSING_INPUTS)) {
               quit_early = true;
               package_state_quit_early.Invalid(PCKG_TX, "transaction failed");
               individual_results_nonfinal.emplace(wtxid, single_res);
           } else {
               individual_results_nonfinal.emplace(wtxid, single_res);
               txns_package_eval.push_back(tx);
           }
       } *)
  Definition step (pkg_len : nat) (st : loop_state) (tx : ptx) : loop_state :=
    let P := ls_pool st in
    if has_wtxid P (p_wtxid tx) then
      {| ls_pool := P; ls_final := rm_emplace (p_wtxid tx) R_mempool_entry (ls_final st);
         ls_nonfinal := ls_nonfinal st; ls_quit := ls_quit st; ls_eval := ls_eval st; ls_log := ls_log st |}
    else match entry_by_txid P (p_txid tx) with
    | Some e =>
      {| ls_pool := P; ls_final := rm_emplace (p_wtxid tx) (R_different_witness (p_wtxid e)) (ls_final st);
         ls_nonfinal := ls_nonfinal st; ls_quit := ls_quit st; ls_eval := ls_eval st; ls_log := ls_log st |}
    | None =>
      let '(res, P') := single P tx in
      let log' := ls_log st ++ [[tx]] in
      if is_valid res then
        {| ls_pool := P'; ls_final := rm_emplace (p_wtxid tx) res (ls_final st);
           ls_nonfinal := ls_nonfinal st; ls_quit := ls_quit st; ls_eval := ls_eval st; ls_log := log' |}
      else if (pkg_len =? 1)%nat || negb (is_retry res) then
        {| ls_pool := P'; ls_final := ls_final st;
           ls_nonfinal := rm_emplace (p_wtxid tx) res (ls_nonfinal st); ls_quit := true; ls_eval := ls_eval st; ls_log := log' |}
      else
        {| ls_pool := P'; ls_final := ls_final st;
           ls_nonfinal := rm_emplace (p_wtxid tx) res (ls_nonfinal st); ls_quit := ls_quit st;
           ls_eval := ls_eval st ++ [tx]; ls_log := log' |}
    end.

  (* body of the second loop of AcceptPackage (after LimitMempoolSize), P is the mempool then:
       if (multi_submission_result.m_tx_results.contains(wtxid)) {
           const auto& txresult = multi_submission_result.m_tx_results.at(wtxid);
           if (txresult.m_result_type == VALID && !m_pool.exists(wtxid)) {
               package_state_final.Invalid(PCKG_TX, "transaction failed");
               results_final.emplace(wtxid, MempoolAcceptResult::Failure(mempool_full_state));
           } else { results_final.emplace(wtxid, txresult); }
       } else if (const auto it{results_final.find(wtxid)}; it != results_final.end()) {
           // Query by txid to include the same-txid-different-witness ones.
           if (!m_pool.exists(tx->GetHash())) {
               package_state_final.Invalid(PCKG_TX, "transaction failed");
               results_final.erase(wtxid);
               results_final.emplace(wtxid, MempoolAcceptResult::Failure(mempool_full_state));
           }
       } else if (const auto it{individual_results_nonfinal.find(wtxid)}; it != individual_results_nonfinal.end()) {
           results_final.emplace(wtxid, it->second);
       } *)
  Definition final_step (P : pool) (multi_res nonfinal : rmap) (acc : pkg_state * rmap) (tx : ptx) : pkg_state * rmap :=
    let '(st, fin) := acc in
    let w := p_wtxid tx in
    match rm_find w multi_res with
    | Some txres =>
        if is_valid txres && negb (has_wtxid P w) then (PS_tx_failed, rm_emplace w (R_invalid false WHY_MEMPOOL_FULL) fin)
        else (st, rm_emplace w txres fin)
    | None =>
        match rm_find w fin with
        | Some _ => if negb (has_txid P (p_txid tx))
                    then (PS_tx_failed, rm_emplace w (R_invalid false WHY_MEMPOOL_FULL) (rm_erase w fin))
                    else (st, fin)
        | None => match rm_find w nonfinal with
                  | Some r => (st, rm_emplace w r fin)
                  | None => (st, fin)
                  end
        end
    end.

  Definition init_state (P : pool) : loop_state :=
    {| ls_pool := P; ls_final := []; ls_nonfinal := []; ls_quit := false; ls_eval := []; ls_log := [] |}.

  Definition is_nil {A} (l : list A) : bool := match l with [] => true | _ => false end.

  (* PackageMempoolAcceptResult MemPoolAccept::AcceptPackage(const Package& package, ATMPArgs& args)
       if (!IsWellFormedPackage(package, package_state_quit_early)) return PackageMempoolAcceptResult(package_state_quit_early, {});
       if (package.size() > 1 && !IsChildWithParents(package)) {
           package_state_quit_early.Invalid(PCKG_POLICY, "package-not-child-with-parents");
           return PackageMempoolAcceptResult(package_state_quit_early, {}); }
       ... first loop ...
       auto multi_submission_result = quit_early || txns_package_eval.empty() ? PackageMempoolAcceptResult(package_state_quit_early, {}) :
           AcceptSubPackage(txns_package_eval, args);
       LimitMempoolSize(m_pool, m_active_chainstate.CoinsTip());
       ... second loop ...
       return PackageMempoolAcceptResult(package_state_final, std::move(results_final));
     result: (package state, per-wtxid results), evaluation log, mempool afterwards *)
  Definition accept_package (P0 : pool) (package : list ptx) : (pkg_state * rmap) * list (list ptx) * pool :=
    match is_well_formed package with
    | Some r => ((PS_policy r, []), [], P0)
    | None =>
      if (1 <? length package)%nat && negb (is_child_with_parents package) then ((PS_not_child_with_parents, []), [], P0) else
      let st := fold_left (step (length package)) package (init_state P0) in
      let quit_state := if ls_quit st then PS_tx_failed else PS_valid in
      let skip := ls_quit st || is_nil (ls_eval st) in
      let '((mst, mres), P1) := if skip then ((quit_state, []), ls_pool st) else sub_package (ls_pool st) (ls_eval st) in
      let log := if skip then ls_log st else ls_log st ++ [ls_eval st] in
      let P2 := trim P1 in
      (fold_left (final_step P2 mres (ls_nonfinal st)) package (mst, ls_final st), log, P2)
    end.
End AcceptPackage.

(* ---------- the property's executable predicate on an observed outcome ---------- *)
(* membership the reported result kind promises, in the mempool P after the call *)
Definition result_matches (P : pool) (t : ptx) (r : tx_result) : bool :=
  match r with
  | R_valid => has_wtxid P (p_wtxid t)
  | R_mempool_entry => has_wtxid P (p_wtxid t)
  | R_different_witness w => has_txid P (p_txid t) && has_wtxid P w && negb (w =? p_wtxid t)
  | R_invalid _ _ => negb (has_txid P (p_txid t))
  end.
(* t spends an output of the transaction with txid x *)
Definition spends (t : ptx) (x : Z) : bool := existsb (fun inp => fst inp =? x) (p_inputs t).

(* ---------- specification vocabulary for the premises on the evaluation parameters ---------- *)
Definition keys (m : rmap) : list Z := map fst m.
(* the mempool after removing the transactions whose txid is in R *)
Definition remove_set (R : list Z) (P : pool) : pool := filter (fun t => negb (zmem (p_txid t) R)) P.
(* a mempool never holds two transactions with one txid *)
Definition pool_wf (P : pool) : Prop := NoDup (map p_txid P).
(* R is closed under in-mempool descendants *)
Definition desc_closed (P : pool) (R : list Z) : Prop :=
  forall t x, In t P -> In x R -> spends t x = true -> In (p_txid t) R.
Section Avail.
  Variable utxo : outpoint -> bool.        (* unspent confirmed coins; fixed while cs_main is held *)
  (* every input of t is an output of a transaction of Q or a confirmed coin *)
  Definition avail (Q : pool) (t : ptx) : Prop :=
    forall inp, In inp (p_inputs t) -> has_txid Q (fst inp) = true \/ utxo inp = true.
  Definition closed (P : pool) : Prop := forall t, In t P -> avail P t.
End Avail.

(* ---------- the evaluator of the driver's scenarios ----------
   In the scenarios tie/drivers/package_drv.cpp builds (standard anyone-can-spend transactions, valid scripts,
   no double spends against the mempool, default limits far away, version 2) what decides a
   sub-evaluation is: are the inputs there (PreChecks: m_view.HaveCoin -> TX_MISSING_INPUTS
   "bad-txns-inputs-missingorspent") and is the fee rate enough (CheckFeeRate -> TX_RECONSIDERABLE
   "min relay fee not met"; per transaction when evaluated alone, on the totals for a sub-package whose
   PreChecks run with m_package_feerates, failure reported for the last transaction). *)
Definition MIN_RELAY_FEE : Z := MPP_DEFAULT_MIN_RELAY_TX_FEE.
(* GetVirtualTransactionSize with no sigops: (weight + 3) / 4 *)
Definition vsize_of (t : ptx) : Z := (p_weight t + WITNESS_SCALE_FACTOR - 1) / WITNESS_SCALE_FACTOR.
(* CFeeRate(MIN_RELAY_FEE per 1000 vB).GetFee(vsize): rounded up *)
Definition fee_for (vsize : Z) : Z := (MIN_RELAY_FEE * vsize + 999) / 1000.
Definition WHY_MISSING_INPUTS : Z := 1.
Definition WHY_MIN_RELAY_FEE : Z := 2.

Section Toy.
  Variable utxo : outpoint -> bool.
  Definition input_avail (Q : pool) (inp : outpoint) : bool :=
    utxo inp || existsb (fun e => (p_txid e =? fst inp) && (0 <=? snd inp) && (snd inp <? p_nout e)) Q.
  Definition inputs_avail (Q : pool) (t : ptx) : bool := forallb (input_avail Q) (p_inputs t).

  Definition toy_single (P : pool) (t : ptx) : tx_result * pool :=
    if negb (inputs_avail P t) then (R_invalid true WHY_MISSING_INPUTS, P)
    else if p_fee t <? fee_for (vsize_of t) then (R_invalid true WHY_MIN_RELAY_FEE, P)
    else (R_valid, P ++ [t]).

  (* PreChecks of each transaction in order; m_viewmempool.PackageAddTransaction makes the outputs of the
     earlier ones available *)
  Fixpoint toy_prechecks (Q : pool) (txns : list ptx) : option ptx :=
    match txns with
    | [] => None
    | t :: r => if inputs_avail Q t then toy_prechecks (Q ++ [t]) r else Some t
    end.

  Definition toy_multi (P : pool) (txns : list ptx) : (pkg_state * rmap) * pool :=
    match is_well_formed txns with
    | Some r => ((PS_policy r, []), P)
    | None =>
      match toy_prechecks P txns with
      | Some t => ((PS_tx_failed, [(p_wtxid t, R_invalid true WHY_MISSING_INPUTS)]), P)
      | None =>
        if zsum (map p_fee txns) <? fee_for (zsum (map vsize_of txns)) then
          match last_opt txns with
          | Some l => ((PS_tx_failed, [(p_wtxid l, R_invalid true WHY_MIN_RELAY_FEE)]), P)
          | None => ((PS_tx_failed, []), P)
          end
        else ((PS_valid, map (fun t => (p_wtxid t, R_valid)) txns), P ++ txns)
      end
    end.
  Definition toy_trim (P : pool) : pool := P.

  (* the mempool before the package: the pre-state transactions go through single acceptance in order *)
  Definition toy_prestate (pre : list ptx) : pool :=
    fold_left (fun P t => if has_txid P (p_txid t) then P else snd (toy_single P t)) pre [].
  Definition toy_accept (pre package : list ptx) : (pkg_state * rmap) * list (list ptx) * pool :=
    accept_package toy_single toy_multi toy_trim (toy_prestate pre) package.
End Toy.

(* the observed outcome judged by the property's clauses (used by the violation search):
   obs: per package transaction its reported result (None: no entry in the map); Pafter: mempool after *)
Definition holds_results (package : list ptx) (obs : list (option tx_result)) (nresults : Z) (Pafter : pool) : bool :=
  (nresults =? Z.of_nat (length package)) &&
  forallb (fun tr => match snd tr with Some r => result_matches Pafter (fst tr) r | None => false end) (combine package obs).
Definition holds_no_dangling (package : list ptx) (Pafter : pool) : bool :=
  forallb (fun t => negb (has_txid Pafter (p_txid t)) ||
                    forallb (fun p => negb (spends t (p_txid p)) || has_txid Pafter (p_txid p)) package) package.
