(* C50 / C45 — secp256k1 as libsecp256k1's public API computes it (src/secp256k1/src/secp256k1.c,
   eckey_impl.h, scalar_4x64_impl.h, field_5x52_impl.h, modules/extrakeys), over mathematical integers.
   The constants p, n, G come from the compiled library (gen/Params_gen.v: SECP256K1_P / _N / _GX / _GY).
   Field elements are Z in [0, p); scalars are Z in [0, n); a point is None (infinity) or Some (x, y).
   The limb-wise comparisons of the C code (scalar overflow, "is high", field-element range) are
   transcribed limb by limb and proved equal to the integer comparisons in proofs/ECLemmas.v.
   Executable definitions only. *)
From Coq Require Import NArith ZArith.
From BV Require Import lib.Ints gen.Params_gen.
Local Open Scope Z_scope.

Definition secp_p : Z := SECP256K1_P.
Definition secp_n : Z := SECP256K1_N.
Definition secp_b : Z := 7.     (* #define SECP256K1_B 7 *)
Definition secp_half_n : Z := secp_n / 2.

(* ---------------------------------------------------------------------------------------------- *)
(* bytes <-> integers (big endian, as secp256k1_read_be64 / write_be64 over 32 bytes) *)
Fixpoint be_val_acc (acc : Z) (l : list N) : Z :=
  match l with [] => acc | b :: r => be_val_acc (acc * 256 + Z.of_N b) r end.
Definition be_val (l : list N) : Z := be_val_acc 0 l.
Fixpoint le_bytes_z (k : nat) (v : Z) : list N :=
  match k with O => [] | S j => Z.to_N (v mod 256) :: le_bytes_z j (v / 256) end.
Definition be_bytes_z (k : nat) (v : Z) : list N := rev (le_bytes_z k v).

(* ---------------------------------------------------------------------------------------------- *)
(* field: x mod p for x >= 0 using p = 2^256 - c (the part above bit 256 is folded down twice, then at
   most one subtraction for x < 2^512; the final `mod` is a fallback never reached for products of
   reduced elements).  fred_spec: fred x = x mod p for all x >= 0. *)
Definition secp_c : Z := 2 ^ 256 - secp_p.
Definition fold256 (x : Z) : Z := Z.shiftr x 256 * secp_c + Z.land x (Z.ones 256).
Definition fred (x : Z) : Z :=
  let t := fold256 (fold256 x) in
  if t <? secp_p then t
  else let u := t - secp_p in if u <? secp_p then u else u mod secp_p.

Definition fadd (a b : Z) : Z := let s := a + b in if s <? secp_p then s else s - secp_p.
Definition fneg (a : Z) : Z := if a =? 0 then 0 else secp_p - a.
Definition fsub (a b : Z) : Z := fadd a (fneg b).
Definition fmul (a b : Z) : Z := fred (a * b).
Definition fsqr (a : Z) : Z := fred (a * a).

Fixpoint fpow (a : Z) (e : positive) : Z :=
  match e with
  | xH => a
  | xO e' => let z := fpow a e' in fsqr z
  | xI e' => let z := fpow a e' in fmul (fsqr z) a
  end.

(* secp256k1_fe_sqrt: r = a^((p+1)/4) by the library's addition chain
     "The binary representation of (p + 1)/4 has 3 blocks of 1s, with lengths in { 2, 22, 223 }.
      Use an addition chain to calculate 2^n - 1 for each block: 1, [2], 3, 6, 9, 11, [22], 44, 88, 176, 220, [223]"
   then returns whether r^2 == a.  fsqrt_chain_pow (proofs/ECLemmas.v): the chain computes fpow a ((p+1)/4). *)
Definition secp_sqrt_exp : positive := Z.to_pos ((secp_p + 1) / 4).
Fixpoint fsqr_n (j : nat) (x : Z) : Z := match j with O => x | S k => fsqr_n k (fsqr x) end.
Definition fsqrt_chain_t1 (a : Z) : Z :=
  let x2 := fmul (fsqr a) a in
  let x3 := fmul (fsqr x2) a in
  let x6 := fmul (fsqr_n 3 x3) x3 in
  let x9 := fmul (fsqr_n 3 x6) x3 in
  let x11 := fmul (fsqr_n 2 x9) x2 in
  let x22 := fmul (fsqr_n 11 x11) x11 in
  let x44 := fmul (fsqr_n 22 x22) x22 in
  let x88 := fmul (fsqr_n 44 x44) x44 in
  let x176 := fmul (fsqr_n 88 x88) x88 in
  let x220 := fmul (fsqr_n 44 x176) x44 in
  let x223 := fmul (fsqr_n 3 x220) x3 in
  let t1 := fmul (fsqr_n 23 x223) x22 in
  fmul (fsqr_n 6 t1) x2.
(* secp256k1_fe_sqr(&t1, &t1); secp256k1_fe_sqr(r, &t1); *)
Definition fsqrt_chain (a : Z) : Z := fsqr (fsqr (fsqrt_chain_t1 a)).
Definition fsqrt (a : Z) : Z * bool := let r := fsqrt_chain a in (r, fsqr r =? a).

(* modular inverse by the binary extended Euclidean algorithm (p odd); one iteration per fuel unit:
   invariant  x1 * a = u,  x2 * a = v  (mod p) *)
Definition half_mod (x : Z) : Z := if Z.even x then Z.div2 x else Z.div2 (x + secp_p).
Fixpoint finv_loop (fuel : nat) (u v x1 x2 : Z) : Z :=
  match fuel with
  | O => 0
  | S f =>
    if u =? 1 then x1
    else if v =? 1 then x2
    else if u =? 0 then 0
    else if Z.even u then finv_loop f (Z.div2 u) v (half_mod x1) x2
    else if Z.even v then finv_loop f u (Z.div2 v) x1 (half_mod x2)
    else if v <=? u then finv_loop f (u - v) v (fsub x1 x2) x2
    else finv_loop f u (v - u) x1 (fsub x2 x1)
  end.
Definition finv (a : Z) : Z := finv_loop 1100 a secp_p 1 0.

(* ---------------------------------------------------------------------------------------------- *)
(* the curve y^2 = x^3 + 7, affine chord-and-tangent law *)
Definition point := option (Z * Z).
Definition curve_rhs (x : Z) : Z := fadd (fmul (fsqr x) x) secp_b.
Definition on_curve (x y : Z) : bool := fsqr y =? curve_rhs x.
Definition secp_G : point := Some (SECP256K1_GX, SECP256K1_GY).

Definition pt_neg (P : point) : point :=
  match P with None => None | Some (x, y) => Some (x, fneg y) end.

Definition pt_double (P : point) : point :=
  match P with
  | None => None
  | Some (x, y) =>
    if y =? 0 then None
    else let l := fmul (fmul 3 (fsqr x)) (finv (fadd y y)) in
         let x3 := fsub (fsqr l) (fadd x x) in
         Some (x3, fsub (fmul l (fsub x x3)) y)
  end.

Definition pt_add (P Q : point) : point :=
  match P, Q with
  | None, _ => Q
  | _, None => P
  | Some (x1, y1), Some (x2, y2) =>
    if x1 =? x2 then (if y1 =? y2 then pt_double P else None)
    else let l := fmul (fsub y2 y1) (finv (fsub x2 x1)) in
         let x3 := fsub (fsub (fsqr l) x1) x2 in
         Some (x3, fsub (fmul l (fsub x1 x3)) y1)
  end.

(* k * P, k >= 1, least significant bit first *)
Fixpoint pt_mul_pos (k : positive) (P : point) : point :=
  match k with
  | xH => P
  | xO k' => pt_mul_pos k' (pt_double P)
  | xI k' => pt_add P (pt_mul_pos k' (pt_double P))
  end.
Definition pt_mul (k : Z) (P : point) : point :=
  match k with Zpos p => pt_mul_pos p P | _ => None end.

(* k * G with the table [G; 2G; 4G; ...; 2^255 G] *)
Fixpoint doublings (n : nat) (P : point) : list point :=
  match n with O => [] | S m => P :: doublings m (pt_double P) end.
Definition g_table : list point := doublings 256 secp_G.
Fixpoint pt_mul_tab (k : positive) (tab : list point) : point :=
  match tab with
  | [] => None
  | T :: tab' => match k with
                 | xH => T
                 | xO k' => pt_mul_tab k' tab'
                 | xI k' => pt_add T (pt_mul_tab k' tab')
                 end
  end.
Definition mul_G (k : Z) : point :=
  match k with Zpos p => pt_mul_tab p g_table | _ => None end.

(* ---------------------------------------------------------------------------------------------- *)
(* scalars: 4 x 64-bit limbs, least significant first *)
Definition limb64 (x : Z) (i : Z) : Z := Z.land (Z.shiftr x (64 * i)) (Z.ones 64).
Definition bool_or (a b : bool) := orb a b.

(* secp256k1_scalar_check_overflow:
     no |= (d[3] < N_3);  no |= (d[2] < N_2);  yes |= (d[2] > N_2) & ~no;  no |= (d[1] < N_1);
     yes |= (d[1] > N_1) & ~no;  yes |= (d[0] >= N_0) & ~no;  return yes;          (no > check for d[3]) *)
Definition scalar_check_overflow (a : Z) : bool :=
  let d i := limb64 a i in let n i := limb64 secp_n i in
  let no := d 3 <? n 3 in
  let no := no || (d 2 <? n 2) in
  let yes := (n 2 <? d 2) && negb no in
  let no := no || (d 1 <? n 1) in
  let yes := yes || ((n 1 <? d 1) && negb no) in
  let yes := yes || ((n 0 <=? d 0) && negb no) in
  yes.

(* secp256k1_scalar_is_high, with N_H_i the limbs of n/2:
     no |= (d[3] < N_H_3);  yes |= (d[3] > N_H_3) & ~no;  no |= (d[2] < N_H_2) & ~yes;  (no > check for d[2])
     no |= (d[1] < N_H_1) & ~yes;  yes |= (d[1] > N_H_1) & ~no;  yes |= (d[0] > N_H_0) & ~no;  return yes; *)
Definition scalar_is_high (a : Z) : bool :=
  let d i := limb64 a i in let h i := limb64 secp_half_n i in
  let no := d 3 <? h 3 in
  let yes := (h 3 <? d 3) && negb no in
  let no := no || ((d 2 <? h 2) && negb yes) in
  let no := no || ((d 1 <? h 1) && negb yes) in
  let yes := yes || ((h 1 <? d 1) && negb no) in
  let yes := yes || ((h 0 <? d 0) && negb no) in
  yes.

(* secp256k1_scalar_set_b32(r, b32, &overflow): r = value reduced (one subtraction of n), overflow flag *)
Definition scalar_set_b32 (b : list N) : Z * bool :=
  let v := be_val b in
  let over := scalar_check_overflow v in
  (if over then v - secp_n else v, over).
(* secp256k1_scalar_set_b32_seckey: ret = !overflow & !is_zero *)
Definition scalar_set_b32_seckey (b : list N) : Z * bool :=
  let '(v, over) := scalar_set_b32 b in (v, negb over && negb (v =? 0)).

Definition sc_add (a b : Z) : Z := let s := a + b in if s <? secp_n then s else s - secp_n.
Definition sc_neg (a : Z) : Z := if a =? 0 then 0 else secp_n - a.
Definition sc_mul (a b : Z) : Z := (a * b) mod secp_n.
Definition scalar_bytes (v : Z) : list N := be_bytes_z 32 v.

(* int secp256k1_ec_seckey_verify *)
Definition ec_seckey_verify (k : list N) : bool := snd (scalar_set_b32_seckey k).
(* int secp256k1_ec_seckey_negate: ret = set_b32_seckey; cmov(sec, zero, !ret); negate; write back *)
Definition ec_seckey_negate (k : list N) : bool * list N :=
  let '(v, ret) := scalar_set_b32_seckey k in
  (ret, scalar_bytes (sc_neg (if ret then v else 0))).
(* int secp256k1_ec_seckey_tweak_add: ret = set_b32_seckey(sec); ret &= !overflow(tweak) & (sec+tweak != 0);
   cmov(sec, zero, !ret); write back *)
Definition ec_seckey_tweak_add (k t : list N) : bool * list N :=
  let '(v, ret) := scalar_set_b32_seckey k in
  let '(tv, over) := scalar_set_b32 t in
  let s := sc_add v tv in
  let ret := ret && (negb over && negb (s =? 0)) in
  (ret, scalar_bytes (if ret then s else 0)).
(* int secp256k1_ec_seckey_tweak_mul: ret = set_b32_seckey(sec) & !overflow(factor) & (factor != 0) *)
Definition ec_seckey_tweak_mul (k t : list N) : bool * list N :=
  let '(tv, over) := scalar_set_b32 t in
  let '(v, ret) := scalar_set_b32_seckey k in
  let ret := ret && (negb over && negb (tv =? 0)) in
  (ret, scalar_bytes (if ret then sc_mul v tv else 0)).

(* ---------------------------------------------------------------------------------------------- *)
(* secp256k1_fe_impl_set_b32_limit (5 x 52-bit limbs n[0..4], n[4] has 48 bits):
     return !((n[4] == 0x0FFFFFFFFFFFF) & ((n[3] & n[2] & n[1]) == 0xFFFFFFFFFFFFF) & (n[0] >= 0xFFFFEFFFFFC2F));
   the three constants are the limbs of p (fe_limit_consts in proofs/ECLemmas.v). *)
Definition limb52 (x : Z) (i : Z) : Z := Z.land (Z.shiftr x (52 * i)) (Z.ones 52).
Definition fe_set_b32_limit (b : list N) : option Z :=
  let v := be_val b in
  let n i := limb52 v i in
  if (n 4 =? 0x0FFFFFFFFFFFF) && (Z.land (Z.land (n 3) (n 2)) (n 1) =? 0xFFFFFFFFFFFFF) && (0xFFFFEFFFFFC2F <=? n 0)
  then None else Some v.

(* secp256k1_ge_set_xo_var(r, x, odd): y = sqrt(x^3 + 7); negate y if its parity differs from odd; ret = sqrt ok *)
Definition ge_set_xo_with (sqrtf : Z -> Z * bool) (x : Z) (odd : bool) : option (Z * Z) :=
  let '(y, ok) := sqrtf (curve_rhs x) in
  if ok then Some (x, if Bool.eqb (Z.odd y) odd then y else fneg y) else None.
Definition ge_set_xo : Z -> bool -> option (Z * Z) := ge_set_xo_with fsqrt.

(* secp256k1_eckey_pubkey_parse + secp256k1_ec_pubkey_parse *)
Definition ec_pubkey_parse (pub : list N) : option (Z * Z) :=
  match pub with
  | tag :: rest =>
    if ((length pub =? 33)%nat && ((tag =? 2)%N || (tag =? 3)%N)) then
      match fe_set_b32_limit rest with
      | Some x => ge_set_xo x (tag =? 3)%N
      | None => None
      end
    else if ((length pub =? 65)%nat && ((tag =? 4)%N || (tag =? 6)%N || (tag =? 7)%N)) then
      match fe_set_b32_limit (firstn 32 rest), fe_set_b32_limit (skipn 32 rest) with
      | Some x, Some y =>
        if ((tag =? 6)%N || (tag =? 7)%N) && negb (Bool.eqb (Z.odd y) (tag =? 7)%N) then None
        else if on_curve x y then Some (x, y) else None
      | _, _ => None
      end
    else None
  | [] => None
  end.

(* secp256k1_eckey_pubkey_serialize33 / 65 *)
Definition ec_pubkey_serialize (compressed : bool) (P : Z * Z) : list N :=
  let '(x, y) := P in
  if compressed then (if Z.odd y then 3%N else 2%N) :: be_bytes_z 32 x
  else 4%N :: be_bytes_z 32 x ++ be_bytes_z 32 y.

(* secp256k1_ec_pubkey_create: ret = set_b32_seckey; P = k*G *)
Definition ec_pubkey_create (k : list N) : option (Z * Z) :=
  let '(v, ret) := scalar_set_b32_seckey k in
  if ret then mul_G v else None.

(* secp256k1_ec_pubkey_negate *)
Definition ec_pubkey_negate (P : Z * Z) : Z * Z := let '(x, y) := P in (x, fneg y).

(* secp256k1_ec_pubkey_tweak_add: !overflow(tweak) && (P + t*G is not infinity) *)
Definition ec_pubkey_tweak_add (P : Z * Z) (t : list N) : option (Z * Z) :=
  let '(tv, over) := scalar_set_b32 t in
  if over then None else pt_add (Some P) (mul_G tv).

(* secp256k1_xonly_pubkey_from_pubkey: negate if y odd; parity = old oddness *)
Definition xonly_from_pubkey (P : Z * Z) : (Z * Z) * bool :=
  let '(x, y) := P in if Z.odd y then ((x, fneg y), true) else ((x, y), false).
(* secp256k1_xonly_pubkey_parse: x < p, lift to the even-y point *)
Definition xonly_parse (b : list N) : option (Z * Z) :=
  if (length b =? 32)%nat then
    match fe_set_b32_limit b with Some x => ge_set_xo x false | None => None end
  else None.
Definition xonly_serialize (P : Z * Z) : list N := be_bytes_z 32 (fst P).
(* secp256k1_xonly_pubkey_tweak_add: the (full) public key internal + t*G *)
Definition xonly_tweak_add (P : Z * Z) (t : list N) : option (Z * Z) := ec_pubkey_tweak_add P t.
(* secp256k1_xonly_pubkey_tweak_add_check(tweaked32, parity, internal, tweak) *)
Definition xonly_tweak_add_check (tweaked32 : list N) (parity : bool) (P : Z * Z) (t : list N) : bool :=
  match ec_pubkey_tweak_add P t with
  | Some (x, y) => (if list_eq_dec N.eq_dec (be_bytes_z 32 x) tweaked32 then true else false) && Bool.eqb (Z.odd y) parity
  | None => false
  end.

(* ---------------------------------------------------------------------------------------------- *)
(* ECDSA.  secp256k1_ecdsa_signature_parse_compact: r, s must not overflow *)
Definition sig_parse_compact (b64 : list N) : option (Z * Z) :=
  let '(r, o1) := scalar_set_b32 (firstn 32 b64) in
  let '(s, o2) := scalar_set_b32 (skipn 32 b64) in
  if o1 || o2 then None else Some (r, s).
(* secp256k1_ecdsa_signature_normalize: ret = is_high(s); if ret then s = -s *)
Definition sig_normalize (rs : Z * Z) : bool * (Z * Z) :=
  let '(r, s) := rs in
  let high := scalar_is_high s in
  (high, (r, if high then sc_neg s else s)).

(* scalar inverse mod n by Fermat is too slow on binary integers; same binary Euclid, modulus n *)
Definition half_mod_n (x : Z) : Z := if Z.even x then Z.div2 x else Z.div2 (x + secp_n).
Fixpoint sinv_loop (fuel : nat) (u v x1 x2 : Z) : Z :=
  match fuel with
  | O => 0
  | S f =>
    if u =? 1 then x1
    else if v =? 1 then x2
    else if u =? 0 then 0
    else if Z.even u then sinv_loop f (Z.div2 u) v (half_mod_n x1) x2
    else if Z.even v then sinv_loop f u (Z.div2 v) x1 (half_mod_n x2)
    else if v <=? u then sinv_loop f (u - v) v (sc_add x1 (sc_neg x2)) x2
    else sinv_loop f u (v - u) x1 (sc_add x2 (sc_neg x1))
  end.
Definition sc_inv (a : Z) : Z := sinv_loop 1100 a secp_n 1 0.

(* secp256k1_ecdsa_sig_verify(r, s, Q, m): r, s != 0; R = (m/s) G + (r/s) Q != infinity; x(R) mod n == r
   (the C code compares without reducing: xr == x(R) or xr + n == x(R) with xr + n < p).
   Written over an arbitrary group so that proofs/ECGroup.v can reason from the group laws; the
   executable instance follows. *)
Section EcdsaGen.
  Variable pt : Type.
  Variable g_add : pt -> pt -> pt.
  Variable g_mulG : Z -> pt.
  Variable g_mul : Z -> pt -> pt.
  Variable g_x : pt -> option Z.       (* x coordinate; None for the point at infinity *)
  Variable s_inv : Z -> Z.             (* secp256k1_scalar_inverse_var *)
  Definition ecdsa_sig_verify_gen (r s : Z) (Q : pt) (m : Z) : bool :=
    if (r =? 0) || (s =? 0) then false
    else let sn := s_inv s in
         let u1 := sc_mul sn m in
         let u2 := sc_mul sn r in
         match g_x (g_add (g_mulG u1) (g_mul u2 Q)) with
         | None => false
         | Some x => (x =? r) || ((r + secp_n <? secp_p) && (x =? r + secp_n))
         end.
  (* secp256k1_ecdsa_verify: m = msg mod n (overflow ignored); !is_high(s) && sig_verify *)
  Definition ecdsa_verify_gen (rs : Z * Z) (m : Z) (Q : pt) : bool :=
    let '(r, s) := rs in negb (scalar_is_high s) && ecdsa_sig_verify_gen r s Q m.
  (* CPubKey::Verify after the (lax) DER parse: normalize, then verify *)
  Definition node_ecdsa_verify_gen (rs : Z * Z) (m : Z) (Q : pt) : bool :=
    ecdsa_verify_gen (snd (sig_normalize rs)) m Q.
End EcdsaGen.

Definition pt_x (P : point) : option Z := match P with Some (x, _) => Some x | None => None end.
Definition ecdsa_sig_verify (r s : Z) (Q : Z * Z) (m : Z) : bool :=
  ecdsa_sig_verify_gen point pt_add mul_G pt_mul pt_x sc_inv r s (Some Q) m.
Definition ecdsa_verify (rs : Z * Z) (msg32 : list N) (Q : Z * Z) : bool :=
  ecdsa_verify_gen point pt_add mul_G pt_mul pt_x sc_inv rs (fst (scalar_set_b32 msg32)) (Some Q).
Definition node_ecdsa_verify (rs : Z * Z) (msg32 : list N) (Q : Z * Z) : bool :=
  node_ecdsa_verify_gen point pt_add mul_G pt_mul pt_x sc_inv rs (fst (scalar_set_b32 msg32)) (Some Q).
