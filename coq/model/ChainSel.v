(* Chain selection: block index, candidate set, active chain, failure flags.  Transcribed from
     src/node/blockstorage.cpp  CBlockIndexWorkComparator, BlockManager::AddUnlinkedBlock
     src/validation.cpp         Chainstate::FindMostWorkChain, PruneBlockIndexCandidates, ActivateBestChainStep,
                                ActivateBestChain, InvalidBlockFound, InvalidChainFound, SetBlockFailureFlags,
                                InvalidateBlock, ResetBlockFailureFlags, TryAddBlockIndexCandidate,
                                ChainstateManager::ReceivedBlockTransactions, AcceptBlockHeader, AcceptBlock,
                                ProcessNewBlock, ProcessNewBlockHeaders
     src/rpc/blockchain.cpp     InvalidateBlock / ReconsiderBlock (the bodies of the two RPCs)
   Executable definitions only (proofs are in proofs/ChainSel*.v).

   What a block IS is fixed outside the node (a block id stands for its hash): its parent (hashPrevBlock),
   the work its nBits claims, and how it fares against the consensus checks (`kind`).  These three are
   Section variables, so every theorem holds for every block universe.

   Representation.
   - A CBlockIndex is a header record {id; path; work} plus its mutable fields, which live in the state as
     functions of the id (nStatus & BLOCK_HAVE_DATA, nStatus & BLOCK_FAILED_VALID, HaveNumChainTxs(),
     nSequenceId).  `h_path` is the list of ancestors (the block itself first, genesis last): it stands for
     the pprev/pskip pointers; GetAncestor(h), CChain::FindFork and the pprev walks are list operations on it.
   - m_chain is always the ancestry of its tip (CChain::SetTip), so the state keeps the tip only and
     m_chain.Contains(b) is membership in the tip's path.
   - Ids that are not in the index read as neutral values (work 0, empty path).  The invariant
     (proofs/ChainSelInv.v) shows every id the code dereferences is in the index (C++: a valid pointer).
   - BLOCK_VALID_TRANSACTIONS level <=> nTx != 0 <=> BLOCK_HAVE_DATA, since blocks are never pruned here.

   NOT modelled: pruning (so FindMostWorkChain's missing-data branch is transcribed but unreachable), assumeutxo
   snapshot chainstates / target blocks, PreciousBlock (no negative sequence ids), m_best_header and
   m_best_invalid bookkeeping, system errors (disk), block-index loading from disk, and the places where
   ActivateBestChainStep returns early only to release cs_main (single caller: the sequence of connects is
   the same; see activate_best_chain). *)
From BV Require Import lib.Ints gen.Params_gen.
Local Open Scope Z_scope.

Definition id := Z.
Definition GENESIS : id := 0.

(* how a block fares against the checks, in the order the code applies them *)
Inductive kind :=
| KValid        (* passes everything *)
| KBadConnect   (* CheckBlock and ContextualCheckBlock pass, ConnectBlock fails (e.g. bad-cb-amount) *)
| KBadCtx       (* CheckBlock passes, ContextualCheckBlock fails (bad-cb-height, bad-txns-nonfinal) *)
| KBadCheck.    (* CheckBlock fails (bad-txnmrklroot: BLOCK_MUTATED) *)

Definition kind_eqb (a b : kind) : bool :=
  match a, b with KValid, KValid | KBadConnect, KBadConnect | KBadCtx, KBadCtx | KBadCheck, KBadCheck => true | _, _ => false end.

Record hdr := { h_id : id; h_path : list id; h_work : Z }.

Record state := {
  st_index : list hdr;            (* m_blockman.m_block_index (newest first) *)
  st_data : id -> bool;           (* nStatus & BLOCK_HAVE_DATA *)
  st_failed : id -> bool;         (* nStatus & BLOCK_FAILED_VALID *)
  st_chaintx : id -> bool;        (* HaveNumChainTxs(): m_chain_tx_count != 0 *)
  st_seq : id -> Z;               (* nSequenceId *)
  st_cands : list id;             (* setBlockIndexCandidates *)
  st_tip : id;                    (* m_chain.Tip() *)
  st_unlinked : list (id * id);   (* m_blocks_unlinked: (pprev, block), insertion order *)
  st_next_seq : Z;                (* nBlockSequenceId *)
  st_min_work : Z                 (* MinimumChainWork() *)
}.

Definition set_index s v := {| st_index := v; st_data := st_data s; st_failed := st_failed s; st_chaintx := st_chaintx s;
  st_seq := st_seq s; st_cands := st_cands s; st_tip := st_tip s; st_unlinked := st_unlinked s;
  st_next_seq := st_next_seq s; st_min_work := st_min_work s |}.
Definition set_data s v := {| st_index := st_index s; st_data := v; st_failed := st_failed s; st_chaintx := st_chaintx s;
  st_seq := st_seq s; st_cands := st_cands s; st_tip := st_tip s; st_unlinked := st_unlinked s;
  st_next_seq := st_next_seq s; st_min_work := st_min_work s |}.
Definition set_failed s v := {| st_index := st_index s; st_data := st_data s; st_failed := v; st_chaintx := st_chaintx s;
  st_seq := st_seq s; st_cands := st_cands s; st_tip := st_tip s; st_unlinked := st_unlinked s;
  st_next_seq := st_next_seq s; st_min_work := st_min_work s |}.
Definition set_chaintx s v := {| st_index := st_index s; st_data := st_data s; st_failed := st_failed s; st_chaintx := v;
  st_seq := st_seq s; st_cands := st_cands s; st_tip := st_tip s; st_unlinked := st_unlinked s;
  st_next_seq := st_next_seq s; st_min_work := st_min_work s |}.
Definition set_seq s v := {| st_index := st_index s; st_data := st_data s; st_failed := st_failed s; st_chaintx := st_chaintx s;
  st_seq := v; st_cands := st_cands s; st_tip := st_tip s; st_unlinked := st_unlinked s;
  st_next_seq := st_next_seq s; st_min_work := st_min_work s |}.
Definition set_cands s v := {| st_index := st_index s; st_data := st_data s; st_failed := st_failed s; st_chaintx := st_chaintx s;
  st_seq := st_seq s; st_cands := v; st_tip := st_tip s; st_unlinked := st_unlinked s;
  st_next_seq := st_next_seq s; st_min_work := st_min_work s |}.
Definition set_tip s v := {| st_index := st_index s; st_data := st_data s; st_failed := st_failed s; st_chaintx := st_chaintx s;
  st_seq := st_seq s; st_cands := st_cands s; st_tip := v; st_unlinked := st_unlinked s;
  st_next_seq := st_next_seq s; st_min_work := st_min_work s |}.
Definition set_unlinked s v := {| st_index := st_index s; st_data := st_data s; st_failed := st_failed s; st_chaintx := st_chaintx s;
  st_seq := st_seq s; st_cands := st_cands s; st_tip := st_tip s; st_unlinked := v;
  st_next_seq := st_next_seq s; st_min_work := st_min_work s |}.
Definition set_next_seq s v := {| st_index := st_index s; st_data := st_data s; st_failed := st_failed s; st_chaintx := st_chaintx s;
  st_seq := st_seq s; st_cands := st_cands s; st_tip := st_tip s; st_unlinked := st_unlinked s;
  st_next_seq := v; st_min_work := st_min_work s |}.

(* f[b := v] *)
Definition upd {A} (f : id -> A) (b : id) (v : A) : id -> A := fun x => if x =? b then v else f x.

Definition mem (b : id) (l : list id) : bool := existsb (Z.eqb b) l.

(* ---------------------------------------------------------------------------------------------- *)
(* index lookups *)

Fixpoint get_hdr (idx : list hdr) (b : id) : option hdr :=
  match idx with
  | [] => None
  | h :: r => if h_id h =? b then Some h else get_hdr r b
  end.

Definition known (s : state) (b : id) : bool := match get_hdr (st_index s) b with Some _ => true | None => false end.
Definition path (s : state) (b : id) : list id := match get_hdr (st_index s) b with Some h => h_path h | None => [] end.
Definition work (s : state) (b : id) : Z := match get_hdr (st_index s) b with Some h => h_work h | None => 0 end.
(* nHeight *)
Definition height (s : state) (b : id) : Z := Z.of_nat (length (path s b)) - 1.
Definition ids (s : state) : list id := map h_id (st_index s).

(* m_chain.Contains(b) *)
Definition in_chain (s : state) (b : id) : bool := mem b (path s (st_tip s)).
(* x.GetAncestor(a.nHeight) == &a   (true for x == a) *)
Definition is_desc (s : state) (x a : id) : bool := mem a (path s x).

(* bool IsValid(BLOCK_VALID_TRANSACTIONS): not failed and validity level >= TRANSACTIONS (<=> data, no pruning) *)
Definition is_valid_tx (s : state) (b : id) : bool := negb (st_failed s b) && st_data s b.

(* bool CBlockIndexWorkComparator::operator()(const CBlockIndex* pa, const CBlockIndex* pb) const {
     if (pa->nChainWork > pb->nChainWork) return false;
     if (pa->nChainWork < pb->nChainWork) return true;
     if (pa->nSequenceId < pb->nSequenceId) return false;
     if (pa->nSequenceId > pb->nSequenceId) return true;
     if (pa < pb) return false;      // pointer order: modelled by the order of the ids; never decisive
     if (pa > pb) return true;       // between two blocks that both have a sequence id assigned
     return false; }
   worse a b  <=>  a sorts before b  <=>  b is the better block *)
Definition worse (s : state) (a b : id) : bool :=
  if work s a >? work s b then false
  else if work s a <? work s b then true
  else if st_seq s a <? st_seq s b then false
  else if st_seq s a >? st_seq s b then true
  else if a <? b then false
  else if a >? b then true
  else false.

(* std::set insert / erase *)
Definition cand_insert (c : id) (l : list id) : list id := if mem c l then l else c :: l.
Definition cand_erase (c : id) (l : list id) : list id := filter (fun x => negb (x =? c)) l.
Definition insert_cand (s : state) (c : id) : state := set_cands s (cand_insert c (st_cands s)).
Definition erase_cand (s : state) (c : id) : state := set_cands s (cand_erase c (st_cands s)).

(* *setBlockIndexCandidates.rbegin(): the greatest element in the comparator's order *)
Fixpoint best_of (s : state) (acc : id) (l : list id) : id :=
  match l with
  | [] => acc
  | c :: r => best_of s (if worse s acc c then c else acc) r
  end.
Definition best_cand (s : state) : option id :=
  match st_cands s with [] => None | c :: r => Some (best_of s c r) end.

(* void BlockManager::AddUnlinkedBlock(CBlockIndex* block) {
     auto range = m_blocks_unlinked.equal_range(block->pprev);
     for (it in range) if (it->second == block) return;  // don't insert duplicates
     m_blocks_unlinked.emplace(block->pprev, block); } *)
Definition pair_eqb (a b : id * id) : bool := (fst a =? fst b) && (snd a =? snd b).
Definition add_unlinked (s : state) (p b : id) : state :=
  if existsb (pair_eqb (p, b)) (st_unlinked s) then s else set_unlinked s (st_unlinked s ++ [(p, b)]).

(* C58: "at least as much work as the active tip, at most 288 blocks above it, reaches the minimum chain work" *)
Definition store_cond (work_b height_b work_tip height_tip min_work : Z) : bool :=
  (work_b >=? work_tip) && (height_b <=? height_tip + CHAINSEL_MIN_BLOCKS_TO_KEEP) && (work_b >=? min_work).

Section Universe.
Variable parent_of : id -> id.   (* hashPrevBlock *)
Variable proof_of : id -> Z.     (* GetBlockProof *)
Variable kind_of : id -> kind.

(* ---------------------------------------------------------------------------------------------- *)
(* void Chainstate::SetBlockFailureFlags(CBlockIndex* invalid_block) {
     for (auto& [_, block_index] : m_blockman.m_block_index)
       if (invalid_block != &block_index && block_index.GetAncestor(invalid_block->nHeight) == invalid_block)
         block_index.nStatus |= BLOCK_FAILED_VALID; } *)
Definition set_block_failure_flags (s : state) (b : id) : state :=
  set_failed s (fun x => if known s x && negb (x =? b) && is_desc s x b then true else st_failed s x).

(* void Chainstate::InvalidChainFound(CBlockIndex* pindexNew)  { [m_best_invalid] SetBlockFailureFlags(pindexNew); [m_best_header, logs] } *)
Definition invalid_chain_found (s : state) (b : id) : state := set_block_failure_flags s b.

(* void Chainstate::InvalidBlockFound(CBlockIndex* pindex, const BlockValidationState& state) {
     if (state.GetResult() != BlockValidationResult::BLOCK_MUTATED) {
       pindex->nStatus |= BLOCK_FAILED_VALID;
       setBlockIndexCandidates.erase(pindex);
       InvalidChainFound(pindex); } } *)
Definition invalid_block_found (s : state) (b : id) (mutated : bool) : state :=
  if mutated then s
  else invalid_chain_found (erase_cand (set_failed s (upd (st_failed s) b true)) b) b.

(* ---------------------------------------------------------------------------------------------- *)
(* CBlockIndex* Chainstate::FindMostWorkChain()
   The inner for-loop: for (pindexTest = pindexNew; pindexTest && !m_chain.Contains(pindexTest); pindexTest = pindexTest->pprev)
     fFailedChain = nStatus & BLOCK_FAILED_VALID;  fMissingData = !(nStatus & BLOCK_HAVE_DATA);
     if (fFailedChain || fMissingData) { ...; fInvalidAncestor = true; break; }
   Returns the first offending ancestor with its two flags. *)
Fixpoint fmwc_walk (s : state) (p : list id) : option (id * bool * bool) :=
  match p with
  | [] => None
  | t :: r =>
    if in_chain s t then None
    else let ff := st_failed s t in
         let fm := negb (st_data s t) in
         if ff || fm then Some (t, ff, fm) else fmwc_walk s r
  end.

(*   for (pindexFailed = pindexNew; pindexFailed != pindexTest; pindexFailed = pindexFailed->pprev) {
       if (fMissingData && !fFailedChain) m_blockman.AddUnlinkedBlock(pindexFailed);
       setBlockIndexCandidates.erase(pindexFailed); }
     setBlockIndexCandidates.erase(pindexTest); *)
Fixpoint fmwc_remove (s : state) (p : list id) (test : id) (readd : bool) : state :=
  match p with
  | [] => s
  | x :: r =>
    if x =? test then s
    else let s1 := if readd then add_unlinked s (parent_of x) x else s in
         fmwc_remove (erase_cand s1 x) r test readd
  end.

(*   do { pindexNew = *setBlockIndexCandidates.rbegin() (return nullptr if the set is empty);
          walk; if (!fInvalidAncestor) return pindexNew; } while (true);
   Every retry erases pindexNew from the set, so |set| + 1 iterations are enough (find_most_work_fuel_ok). *)
Fixpoint find_most_work (s : state) (fuel : nat) : state * option id :=
  match fuel with
  | O => (s, None)
  | S f =>
    match best_cand s with
    | None => (s, None)
    | Some w =>
      match fmwc_walk s (path s w) with
      | None => (s, Some w)
      | Some (t, ff, fm) =>
        find_most_work (erase_cand (fmwc_remove s (path s w) t (fm && negb ff)) t) f
      end
    end
  end.
Definition find_most_work_chain (s : state) : state * option id :=
  find_most_work s (S (length (st_cands s))).

(* void Chainstate::PruneBlockIndexCandidates() {
     it = begin(); while (it != end() && value_comp()( *it, m_chain.Tip())) erase(it++); }
   the set is sorted, so this removes exactly the entries that sort before the tip *)
Definition prune_candidates (s : state) : state :=
  set_cands s (filter (fun c => negb (worse s c (st_tip s))) (st_cands s)).

(* ConnectTip(pindexConnect): ConnectBlock on the stored block.
   - KValid: succeeds; m_chain.SetTip; back in ActivateBestChainStep: PruneBlockIndexCandidates().
   - KBadCtx: ConnectBlock does not repeat ContextualCheckBlock, it would succeed (never stored: AcceptBlock).
   - KBadConnect: state invalid -> InvalidBlockFound(pindexNew) [marks], then in ActivateBestChainStep
       InvalidChainFound(vpindexToConnect.front()) [a descendant-or-self of pindexNew: marks nothing new],
       fInvalidFound = true.
   - KBadCheck: ConnectBlock's CheckBlock fails with BLOCK_MUTATED: nothing is marked, fInvalidFound = true
       (never stored: ProcessNewBlock / AcceptBlock check first).
   The blocks are connected in ascending order up to index_most_work; the 32-block batching and the early
   return "we're in a better position than we were" only decide when the caller re-enters with the same
   cached pindexMostWork and are not modelled. *)
Fixpoint connect_path (s : state) (p : list id) (top : id) : state * bool :=
  match p with
  | [] => (s, false)
  | b :: r =>
    match kind_of b with
    | KValid | KBadCtx => connect_path (prune_candidates (set_tip s b)) r top
    | KBadConnect => (invalid_chain_found (invalid_block_found s b false) top, true)
    | KBadCheck => (s, true)
    end
  end.

(* const CBlockIndex* CChain::FindFork(const CBlockIndex& index): the first ancestor-or-self of index in the chain *)
Fixpoint find_fork (s : state) (p : list id) : option id :=
  match p with
  | [] => None
  | x :: r => if in_chain s x then Some x else find_fork s r
  end.
(* the part of a path strictly above the fork, in descending order *)
Fixpoint path_above (p : list id) (fork : id) : list id :=
  match p with
  | [] => []
  | x :: r => if x =? fork then [] else x :: path_above r fork
  end.

(* bool Chainstate::ActivateBestChain(...)  — the two nested do-while loops collapse to
     repeat { if (pindexMostWork == nullptr) pindexMostWork = FindMostWorkChain();
              if (pindexMostWork == nullptr || pindexMostWork == m_chain.Tip()) break;
              ActivateBestChainStep(...);   // repeated with the cached pindexMostWork until it is the tip
              if (fInvalidFound) pindexMostWork = nullptr; }           // or a block on the way is invalid
   ActivateBestChainStep: disconnect down to the fork (DisconnectTip only moves the tip), then connect.
   Fuel: every round that does not finish marks a block failed that was not failed (abc_fuel_ok). *)
Fixpoint activate_best_chain_loop (s : state) (fuel : nat) : state :=
  match fuel with
  | O => s
  | S f =>
    let '(s1, mw) := find_most_work_chain s in
    match mw with
    | None => s1
    | Some w =>
      if w =? st_tip s1 then s1
      else match find_fork s1 (path s1 w) with
           | None => s1
           | Some fork =>
             let s2 := set_tip s1 fork in
             let '(s3, inv) := connect_path s2 (rev (path_above (path s1 w) fork)) w in
             if inv then activate_best_chain_loop s3 f else s3
           end
    end
  end.
Definition activate_best_chain (s : state) : state :=
  activate_best_chain_loop s (S (length (st_index s))).

(* ---------------------------------------------------------------------------------------------- *)
(* void Chainstate::TryAddBlockIndexCandidate(CBlockIndex* pindex) {
     if (m_chain.Tip() != nullptr && setBlockIndexCandidates.value_comp()(pindex, m_chain.Tip())) return;
     [no target block] setBlockIndexCandidates.insert(pindex); } *)
Definition try_add_candidate (s : state) (b : id) : state :=
  if worse s b (st_tip s) then s else insert_cand s b.

(* ReceivedBlockTransactions, the queue loop:
     while (!queue.empty()) { pindex = queue.front(); queue.pop_front();
       pindex->m_chain_tx_count = ...; pindex->nSequenceId = nBlockSequenceId++;
       TryAddBlockIndexCandidate(pindex);
       range = m_blocks_unlinked.equal_range(pindex);
       while (range.first != range.second) { queue.push_back(it->second); m_blocks_unlinked.erase(it); } }
   Every pop after the first consumes an unlinked entry: 1 + |unlinked| iterations (rbt_fuel_ok). *)
Fixpoint rbt_queue (s : state) (queue : list id) (fuel : nat) : state :=
  match fuel with
  | O => s
  | S f =>
    match queue with
    | [] => s
    | x :: q =>
      let s1 := set_next_seq (set_seq (set_chaintx s (upd (st_chaintx s) x true))
                                      (upd (st_seq s) x (st_next_seq s))) (st_next_seq s + 1) in
      let s2 := try_add_candidate s1 x in
      let kids := map snd (filter (fun e => fst e =? x) (st_unlinked s2)) in
      let s3 := set_unlinked s2 (filter (fun e => negb (fst e =? x)) (st_unlinked s2)) in
      rbt_queue s3 (q ++ kids) f
    end
  end.

(* void ChainstateManager::ReceivedBlockTransactions(const CBlock& block, CBlockIndex* pindexNew, const FlatFilePos& pos) {
     pindexNew->nStatus |= BLOCK_HAVE_DATA; pindexNew->RaiseValidity(BLOCK_VALID_TRANSACTIONS);
     if (pindexNew->pprev == nullptr || pindexNew->pprev->HaveNumChainTxs()) { queue loop }
     else if (pindexNew->pprev && pindexNew->pprev->IsValid(BLOCK_VALID_TREE)) m_blockman.AddUnlinkedBlock(pindexNew); } *)
Definition received_block_transactions (s : state) (b : id) : state :=
  let s1 := set_data s (upd (st_data s) b true) in
  if (b =? GENESIS) || st_chaintx s1 (parent_of b) then rbt_queue s1 [b] (S (length (st_unlinked s1)))
  else if negb (st_failed s1 (parent_of b)) then add_unlinked s1 (parent_of b) b
  else s1.

(* ---------------------------------------------------------------------------------------------- *)
Inductive hdr_res := HOk | HDupInvalid | HPrevNotFound | HBadPrev.

(* bool ChainstateManager::AcceptBlockHeader(const CBlockHeader& block, BlockValidationState& state, CBlockIndex** ppindex, bool min_pow_checked)
     if (hash != genesis) {
       if (known) { if (nStatus & BLOCK_FAILED_VALID) return Invalid("duplicate-invalid"); return true; }
       [CheckBlockHeader: proof of work, assumed to hold]
       if (prev unknown) return Invalid("prev-blk-not-found");
       if (pindexPrev->nStatus & BLOCK_FAILED_VALID) return Invalid("bad-prevblk");
       [ContextualCheckBlockHeader: nBits, time, version: assumed to hold] }
     [min_pow_checked is always true here]
     pindex = m_blockman.AddToBlockIndex(block, m_best_header);   // returns the existing entry for genesis
   AddToBlockIndex: new CBlockIndex (nStatus = BLOCK_VALID_TREE, nSequenceId = SEQ_ID_INIT_FROM_DISK, no data,
   m_chain_tx_count = 0), pprev, nHeight = pprev->nHeight + 1, nChainWork = pprev->nChainWork + GetBlockProof. *)
Definition add_to_block_index (s : state) (b : id) : state :=
  let h := {| h_id := b; h_path := b :: path s (parent_of b); h_work := work s (parent_of b) + proof_of b |} in
  set_index (set_seq (set_chaintx (set_failed (set_data s (upd (st_data s) b false)) (upd (st_failed s) b false))
                                  (upd (st_chaintx s) b false)) (upd (st_seq s) b CHAINSEL_SEQ_ID_INIT_FROM_DISK))
            (h :: st_index s).

Definition accept_block_header (s : state) (b : id) : state * hdr_res :=
  if b =? GENESIS then (s, HOk)
  else if known s b then (if st_failed s b then (s, HDupInvalid) else (s, HOk))
  else if negb (known s (parent_of b)) then (s, HPrevNotFound)
  else if st_failed s (parent_of b) then (s, HBadPrev)
  else (add_to_block_index s b, HOk).

(* bool ChainstateManager::ProcessNewBlockHeaders(headers = {b}, min_pow_checked = true, ...): AcceptBlockHeader, CheckBlockIndex *)
Definition process_new_block_header (s : state) (b : id) : state * hdr_res := accept_block_header s b.

Inductive blk_res :=
| BFail      (* returned false *)
| BOkOld     (* returned true, *fNewBlock == false: already have it, or unrequested and not processed *)
| BOkNew.    (* returned true, *fNewBlock == true: stored *)

(* bool ChainstateManager::AcceptBlock(pblock, state, ppindex, fRequested, dbp, fNewBlock, min_pow_checked)
     if (!AcceptBlockHeader(...)) return false;
     bool fAlreadyHave = pindex->nStatus & BLOCK_HAVE_DATA;
     bool fHasMoreOrSameWork = (ActiveTip() ? pindex->nChainWork >= ActiveTip()->nChainWork : true);
     bool fTooFarAhead{pindex->nHeight > ActiveHeight() + int(MIN_BLOCKS_TO_KEEP)};
     if (fAlreadyHave) return true;
     if (!fRequested) {
       if (pindex->nTx != 0) return true;          // previously processed and pruned: nTx != 0 <=> data here
       if (!fHasMoreOrSameWork) return true;
       if (fTooFarAhead) return true;
       if (pindex->nChainWork < MinimumChainWork()) return true; }
     if (!CheckBlock(...) || !ContextualCheckBlock(...)) { InvalidBlockFound(pindex, state); return false; }
     *fNewBlock = true; [WriteBlock] ReceivedBlockTransactions(block, pindex, blockPos); return true; *)
Definition accept_block (s0 : state) (b : id) (requested : bool) : state * blk_res :=
  let '(s, hr) := accept_block_header s0 b in
  match hr with
  | HOk =>
    let already_have := st_data s b in
    let more_or_same_work := work s b >=? work s (st_tip s) in
    let too_far_ahead := height s b >? height s (st_tip s) + CHAINSEL_MIN_BLOCKS_TO_KEEP in
    if already_have then (s, BOkOld)
    else if negb requested && (st_data s b || negb more_or_same_work || too_far_ahead || (work s b <? st_min_work s))
    then (s, BOkOld)
    else match kind_of b with
         | KBadCheck => (invalid_block_found s b true, BFail)
         | KBadCtx => (invalid_block_found s b false, BFail)
         | KValid | KBadConnect => (received_block_transactions s b, BOkNew)
         end
  | _ => (s, BFail)
  end.

(* bool ChainstateManager::ProcessNewBlock(block, force_processing, min_pow_checked = true, new_block)
     bool ret = CheckBlock( *block, state, GetConsensus());      // a failure here never reaches the index
     if (ret) ret = AcceptBlock(block, state, &pindex, force_processing, nullptr, new_block, min_pow_checked);
     if (!ret) return false;
     ActiveChainstate().ActivateBestChain(state, block); return true; *)
Definition process_new_block (s : state) (b : id) (requested : bool) : state * blk_res :=
  match kind_of b with
  | KBadCheck => (s, BFail)
  | _ =>
    let '(s1, r) := accept_block s b requested in
    match r with
    | BFail => (s1, BFail)
    | _ => (activate_best_chain s1, r)
    end
  end.

(* ---------------------------------------------------------------------------------------------- *)
(* bool Chainstate::InvalidateBlock(BlockValidationState& state, CBlockIndex* const pindex) *)

(*   inner loop of one disconnect, over the cached out-of-chain headers with nChainWork >= new_tip->nChainWork:
       if (candidate->GetAncestor(disconnected_tip->nHeight) == disconnected_tip) {
         candidate->nStatus |= BLOCK_FAILED_VALID; erase from the cache; continue; }
       if (!CBlockIndexWorkComparator()(candidate, new_tip) && candidate->IsValid(BLOCK_VALID_TRANSACTIONS) &&
           candidate->HaveNumChainTxs()) setBlockIndexCandidates.insert(candidate);
   returns the state and the cache that is left *)
Fixpoint inv_scan (s : state) (hp : list id) (dt new_tip : id) : state * list id :=
  match hp with
  | [] => (s, [])
  | c :: r =>
    if work s c <? work s new_tip then let '(s', r') := inv_scan s r dt new_tip in (s', c :: r')
    else if is_desc s c dt then inv_scan (set_failed s (upd (st_failed s) c true)) r dt new_tip
    else let s1 := if negb (worse s c new_tip) && is_valid_tx s c && st_chaintx s c then insert_cand s c else s in
         let '(s', r') := inv_scan s1 r dt new_tip in (s', c :: r')
  end.

(*   one iteration of the while(true) loop, entered with m_chain.Contains(pindex):
       disconnected_tip = m_chain.Tip(); DisconnectTip(); new_tip = m_chain.Tip();   // = disconnected_tip->pprev
       disconnected_tip->nStatus |= BLOCK_FAILED_VALID;
       setBlockIndexCandidates.erase(disconnected_tip); setBlockIndexCandidates.insert(new_tip);
       inner loop; to_mark_failed = disconnected_tip; *)
Definition inv_disconnect_one (acc : state * list id * id) (dt : id) : state * list id * id :=
  let '(s, hp, _) := acc in
  let new_tip := parent_of dt in
  let s1 := set_tip s new_tip in
  let s2 := set_failed s1 (upd (st_failed s1) dt true) in
  let s3 := insert_cand (erase_cand s2 dt) new_tip in
  let '(s4, hp') := inv_scan s3 hp dt new_tip in
  (s4, hp', dt).

(* the active-chain blocks from the tip down to b (inclusive), tip first; [] when b is not in the chain:
   the successive values of m_chain.Tip() while m_chain.Contains(pindex) *)
Fixpoint chain_down_to (p : list id) (b : id) : list id :=
  match p with
  | [] => []
  | x :: r => if x =? b then [x] else x :: chain_down_to r b
  end.

(*   the final sweep: for (auto& [_, block_index] : m_block_index)
       if (block_index.IsValid(BLOCK_VALID_TRANSACTIONS) && block_index.HaveNumChainTxs() &&
           !setBlockIndexCandidates.value_comp()(&block_index, m_chain.Tip())) setBlockIndexCandidates.insert(&block_index); *)
Definition inv_sweep (s : state) : state :=
  fold_left (fun s' x => if is_valid_tx s' x && st_chaintx s' x && negb (worse s' x (st_tip s')) then insert_cand s' x else s')
            (ids s) s.

Definition invalidate_block (s : state) (b : id) : state :=
  if height s b =? 0 then s   (* genesis cannot be invalidated *)
  else
    (* highpow_outofchain_headers: !m_chain.Contains(candidate) && !CBlockIndexWorkComparator()(&candidate, pindex->pprev)
                                   && !(candidate.nStatus & BLOCK_FAILED_VALID) *)
    let hp := filter (fun c => negb (in_chain s c) && negb (worse s c (parent_of b)) && negb (st_failed s c)) (ids s) in
    let was_in_chain := in_chain s b in
    let disc := if was_in_chain then chain_down_to (path s (st_tip s)) b else [] in
    let '(s1, _, to_mark_failed) := fold_left inv_disconnect_one disc (s, hp, b) in
    (* if (m_chain.Contains(to_mark_failed)) return false;  -- cannot happen, kept as a no-op exit *)
    if in_chain s1 to_mark_failed then s1
    else
      (* if (!pindex_was_in_chain && !(pindex->nStatus & BLOCK_FAILED_VALID)) { mark; erase } *)
      let s2 := if negb was_in_chain && negb (st_failed s1 b)
                then erase_cand (set_failed s1 (upd (st_failed s1) b true)) b else s1 in
      invalid_chain_found (inv_sweep s2) to_mark_failed.

(* void Chainstate::ResetBlockFailureFlags(CBlockIndex *pindex) {
     for (auto& [_, block_index] : m_block_index)
       if ((block_index.nStatus & BLOCK_FAILED_VALID) &&
           (block_index.GetAncestor(nHeight) == pindex || pindex->GetAncestor(block_index.nHeight) == &block_index)) {
         block_index.nStatus &= ~BLOCK_FAILED_VALID;
         if (block_index.IsValid(BLOCK_VALID_TRANSACTIONS) && block_index.HaveNumChainTxs() &&
             setBlockIndexCandidates.value_comp()(m_chain.Tip(), &block_index)) setBlockIndexCandidates.insert(&block_index); } } *)
Definition reset_block_failure_flags (s : state) (b : id) : state :=
  fold_left (fun s' x =>
               if st_failed s' x && (is_desc s' x b || is_desc s' b x) then
                 let s1 := set_failed s' (upd (st_failed s') x false) in
                 if is_valid_tx s1 x && st_chaintx s1 x && worse s1 (st_tip s1) x then insert_cand s1 x else s1
               else s')
            (ids s) s.

(* rpc/blockchain.cpp: void InvalidateBlock(ChainstateManager& chainman, const uint256 block_hash)
     LookupBlockIndex -> "Block not found"; InvalidateBlock(state, pblockindex); if (state.IsValid()) ActivateBestChain(state); *)
Definition rpc_invalidate (s : state) (b : id) : state :=
  if known s b then activate_best_chain (invalidate_block s b) else s.
(* void ReconsiderBlock(...): LookupBlockIndex; ResetBlockFailureFlags; [RecalculateBestHeader]; ActivateBestChain *)
Definition rpc_reconsider (s : state) (b : id) : state :=
  if known s b then activate_best_chain (reset_block_failure_flags s b) else s.

(* ---------------------------------------------------------------------------------------------- *)
Inductive op :=
| OpHeader (b : id)                       (* a header delivery *)
| OpBlock (b : id) (requested : bool)     (* a block delivery *)
| OpInvalidate (b : id)
| OpReconsider (b : id).

Definition apply_op (s : state) (o : op) : state :=
  match o with
  | OpHeader b => fst (process_new_block_header s b)
  | OpBlock b r => fst (process_new_block s b r)
  | OpInvalidate b => rpc_invalidate s b
  | OpReconsider b => rpc_reconsider s b
  end.
Definition run (s : state) (ops : list op) : state := fold_left apply_op ops s.

(* The state after LoadGenesisBlock + ActivateBestChain: the genesis entry has data, sequence id
   SEQ_ID_INIT_FROM_DISK + 1, is the only candidate and the tip; nBlockSequenceId is one more. *)
Definition genesis_state (min_work : Z) : state :=
  {| st_index := [ {| h_id := GENESIS; h_path := [GENESIS]; h_work := proof_of GENESIS |} ];
     st_data := fun x => x =? GENESIS;
     st_failed := fun _ => false;
     st_chaintx := fun x => x =? GENESIS;
     st_seq := fun x => if x =? GENESIS then CHAINSEL_SEQ_ID_INIT_FROM_DISK + 1 else CHAINSEL_SEQ_ID_INIT_FROM_DISK;
     st_cands := [GENESIS];
     st_tip := GENESIS;
     st_unlinked := [];
     st_next_seq := CHAINSEL_SEQ_ID_INIT_FROM_DISK + 2;
     st_min_work := min_work |}.

(* ---------------------------------------------------------------------------------------------- *)
(* C58: the decision of AcceptBlock for an unrequested block that is not stored yet, as the property states it *)
Definition unrequested_store_cond (s : state) (work_b height_b : Z) : bool :=
  store_cond work_b height_b (work s (st_tip s)) (height s (st_tip s)) (st_min_work s).
(* would AcceptBlockHeader return true for b *)
Definition header_acceptable (s : state) (b : id) : bool :=
  (b =? GENESIS) || (if known s b then negb (st_failed s b) else known s (parent_of b) && negb (st_failed s (parent_of b))).
(* nChainWork / nHeight the entry of b has or would get *)
Definition work_of_block (s : state) (b : id) : Z := if known s b then work s b else work s (parent_of b) + proof_of b.
Definition height_of_block (s : state) (b : id) : Z := if known s b then height s b else height s (parent_of b) + 1.
Definition passes_checks (b : id) : bool := match kind_of b with KValid | KBadConnect => true | _ => false end.

End Universe.

(* ---------------------------------------------------------------------------------------------- *)
(* The properties' predicates on a DUMP of the implementation's block index (violation search). *)
Record drec := { d_id : id; d_parent : id; d_work : Z; d_seq : Z; d_data : bool; d_failed : bool; d_active : bool; d_kind : kind }.

Fixpoint get_drec (l : list drec) (b : id) : option drec :=
  match l with [] => None | r :: t => if d_id r =? b then Some r else get_drec t b end.

(* the whole ancestry of b (b included) has data and no failure flag; fuel = number of records *)
Fixpoint d_eligible (l : list drec) (b : id) (fuel : nat) : bool :=
  match fuel with
  | O => false
  | S f =>
    match get_drec l b with
    | None => false
    | Some r => d_data r && negb (d_failed r) && ((d_id r =? GENESIS) || d_eligible l (d_parent r) f)
    end
  end.

(* b is strictly better than the tip: more work, or the same work and an earlier sequence id *)
Definition d_better (b t : drec) : bool := (d_work b >? d_work t) || ((d_work b =? d_work t) && (d_seq b <? d_seq t)).

(* C08 tip_is_best on a dump: the tip is eligible and no eligible block is better *)
Definition holds_tip_best (l : list drec) (tip : id) : bool :=
  match get_drec l tip with
  | None => false
  | Some t =>
    d_eligible l tip (length l) &&
    forallb (fun r => negb (d_eligible l (d_id r) (length l) && d_better r t)) l
  end.
(* weaker form, chainwork only (the literal wording of the property) *)
Definition holds_tip_most_work (l : list drec) (tip : id) : bool :=
  match get_drec l tip with
  | None => false
  | Some t => forallb (fun r => negb (d_eligible l (d_id r) (length l) && (d_work r >? d_work t))) l
  end.

(* C08: every active block is unflagged, intrinsically valid, has data, and its parent is active (or it is genesis);
   the tip is active *)
Definition holds_active_clean (l : list drec) (tip : id) : bool :=
  forallb (fun r => negb (d_active r) ||
                    (negb (d_failed r) && d_data r && kind_eqb (d_kind r) KValid &&
                     ((d_id r =? GENESIS) || match get_drec l (d_parent r) with Some p => d_active p | None => false end))) l
  && match get_drec l tip with Some t => d_active t | None => false end.
