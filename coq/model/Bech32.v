(* C45 — bech32 / bech32m as src/bech32.cpp computes it, and ConvertBits of src/util/strencodings.h.
   Executable definitions only (proofs: proofs/Bech32Lemmas.v, proofs/Bech32Detect.v).
   A character is its code as an N (0..255); a string is a list of characters; a 5-bit symbol is an N.

   Outcomes of the real code that are not values are constructors:
     Encode  : assert(c < 'A' || c > 'Z') on every HRP character  -> EncAssertUpper
               CHARSET[i] with i >= 32 reads past the table          -> EncCharsetOOB
     Decode  : CHARSET_REV[c] with c >= 128 would read past the table -> DecRevOOB (proved unreachable:
               CheckCharacters has already rejected c > 126) *)
From Coq Require Import NArith String Ascii.
From BV Require Import lib.Ints.
Local Open Scope N_scope.

Definition str (s : string) : list N := map N_of_ascii (list_ascii_of_string s).

(* inline constexpr size_t CHECKSUM_SIZE = 6;  inline constexpr char SEPARATOR = '1'; *)
Definition CHECKSUM_SIZE_N : nat := 6.
Definition SEPARATOR : N := 49.

(* const char* CHARSET = "qpzry9x8gf2tvdw0s3jn54khce6mua7l"; *)
Definition CHARSET : list N := str "qpzry9x8gf2tvdw0s3jn54khce6mua7l".

(* const int8_t CHARSET_REV[128] *)
Definition CHARSET_REV : list Z := [
    -1; -1; -1; -1; -1; -1; -1; -1; -1; -1; -1; -1; -1; -1; -1; -1;
    -1; -1; -1; -1; -1; -1; -1; -1; -1; -1; -1; -1; -1; -1; -1; -1;
    -1; -1; -1; -1; -1; -1; -1; -1; -1; -1; -1; -1; -1; -1; -1; -1;
    15; -1; 10; 17; 21; 20; 26; 30;  7;  5; -1; -1; -1; -1; -1; -1;
    -1; 29; -1; 24; 13; 25;  9;  8; 23; -1; 18; 22; 31; 27; 19; -1;
     1;  0;  3; 16; 11; 28; 12; 14;  6;  4;  2; -1; -1; -1; -1; -1;
    -1; 29; -1; 24; 13; 25;  9;  8; 23; -1; 18; 22; 31; 27; 19; -1;
     1;  0;  3; 16; 11; 28; 12; 14;  6;  4;  2; -1; -1; -1; -1; -1 ]%Z.

Inductive encoding := BECH32 | BECH32M.
Definition encoding_eqb (a b : encoding) : bool :=
  match a, b with BECH32, BECH32 => true | BECH32M, BECH32M => true | _, _ => false end.

(* uint32_t EncodingConstant(Encoding encoding) { return encoding == Encoding::BECH32 ? 1 : 0x2bc830a3; } *)
Definition encoding_constant (e : encoding) : N :=
  match e with BECH32 => 1 | BECH32M => 0x2bc830a3 end.

(* one iteration of PolyMod:
     uint8_t c0 = c >> 25;
     c = ((c & 0x1ffffff) << 5) ^ v_i;
     if (c0 & 1)  c ^= 0x3b6a57b2;  if (c0 & 2)  c ^= 0x26508e6d;  if (c0 & 4)  c ^= 0x1ea119fa;
     if (c0 & 8)  c ^= 0x3d4233dd;  if (c0 & 16) c ^= 0x2a1462b3;
   c is a uint32_t; every value it takes is below 2^30 when v_i < 2^30 (polymod_step_lt), so nothing
   wraps; c0 < 32 so the uint8_t conversion loses nothing. *)
Definition GEN0 : N := 0x3b6a57b2.
Definition GEN1 : N := 0x26508e6d.
Definition GEN2 : N := 0x1ea119fa.
Definition GEN3 : N := 0x3d4233dd.
Definition GEN4 : N := 0x2a1462b3.
Definition gsel (b : bool) (g : N) : N := if b then g else 0.
Definition polymod_step (c v : N) : N :=
  let c0 := N.shiftr c 25 in
  N.lxor (N.lxor (N.lxor (N.lxor (N.lxor (N.lxor (N.shiftl (N.land c 0x1ffffff) 5) v)
    (gsel (N.testbit c0 0) GEN0)) (gsel (N.testbit c0 1) GEN1)) (gsel (N.testbit c0 2) GEN2))
    (gsel (N.testbit c0 3) GEN3)) (gsel (N.testbit c0 4) GEN4).

(* uint32_t PolyMod(const data& v) { uint32_t c = 1; for (const auto v_i : v) {...} return c; } *)
Definition polymod_from (c : N) (v : list N) : N := fold_left polymod_step v c.
Definition polymod (v : list N) : N := polymod_from 1 v.

(* hrp[i] >> 5 on a (signed) char pushed into a uint8_t vector, and hrp[i] & 0x1f.  For c < 128 these
   are c / 32 and c mod 32; for c >= 128 the char is negative: (c - 256) >> 5 = c/32 - 8, stored as
   the byte 248 + c/32. *)
Definition hrp_hi (c : N) : N := if c <? 128 then N.shiftr c 5 else 248 + N.shiftr c 5.
Definition hrp_lo (c : N) : N := N.land c 31.

(* PreparePolynomialCoefficients: [hrp[i] >> 5 ...] ++ [0] ++ [hrp[i] & 0x1f ...] ++ values *)
Definition prepare (hrp values : list N) : list N :=
  map hrp_hi hrp ++ 0 :: map hrp_lo hrp ++ values.

Inductive verdict := VInvalid | VEnc (e : encoding).

(* Encoding VerifyChecksum(hrp, values): check == 1 -> BECH32; check == 0x2bc830a3 -> BECH32M; else INVALID *)
Definition verify_checksum (hrp values : list N) : verdict :=
  let check := polymod (prepare hrp values) in
  if check =? encoding_constant BECH32 then VEnc BECH32
  else if check =? encoding_constant BECH32M then VEnc BECH32M
  else VInvalid.

(* data CreateChecksum(encoding, hrp, values):
     enc = Prepare(hrp, values) ++ 6 zeros;  mod = PolyMod(enc) ^ EncodingConstant(encoding);
     ret[i] = (mod >> (5 * (5 - i))) & 31 *)
Definition create_checksum (e : encoding) (hrp values : list N) : list N :=
  let md := N.lxor (polymod (prepare hrp values ++ repeat 0 CHECKSUM_SIZE_N)) (encoding_constant e) in
  map (fun i => N.land (N.shiftr md (5 * (5 - i))) 31) [0; 1; 2; 3; 4; 5].

Inductive enc_result := EncOk (s : list N) | EncAssertUpper | EncCharsetOOB.

Definition is_upper (c : N) : bool := (65 <=? c) && (c <=? 90).
Definition is_lower (c : N) : bool := (97 <=? c) && (c <=? 122).

Fixpoint charset_chars (l : list N) : option (list N) :=
  match l with
  | [] => Some []
  | i :: r => match nth_error CHARSET (N.to_nat i), charset_chars r with
              | Some c, Some cs => Some (c :: cs)
              | _, _ => None
              end
  end.

(* std::string Encode(Encoding encoding, const std::string& hrp, const data& values):
     for (const char& c : hrp) assert(c < 'A' || c > 'Z');
     ret = hrp + '1' + CHARSET[values...] + CHARSET[CreateChecksum(...)...] *)
Definition encode (e : encoding) (hrp values : list N) : enc_result :=
  if existsb is_upper hrp then EncAssertUpper
  else match charset_chars (values ++ create_checksum e hrp values) with
       | Some cs => EncOk (hrp ++ SEPARATOR :: cs)
       | None => EncCharsetOOB
       end.

(* inline unsigned char LowerCase(unsigned char c) { return (c >= 'A' && c <= 'Z') ? (c - 'A') + 'a' : c; } *)
Definition lower_case (c : N) : N := if is_upper c then c - 65 + 97 else c.

(* bool CheckCharacters(str, errors): returns errors.empty().  State: (lower, upper, any error so far) *)
Definition check_char_step (st : bool * bool * bool) (c : N) : bool * bool * bool :=
  let '(lower, upper, err) := st in
  if is_lower c then (if upper then (lower, upper, true) else (true, upper, err))
  else if is_upper c then (if lower then (lower, upper, true) else (lower, true, err))
  else if (c <? 33) || (126 <? c) then (lower, upper, true)
  else (lower, upper, err).
Definition check_characters (s : list N) : bool :=
  let '(_, _, err) := fold_left check_char_step s (false, false, false) in negb err.

(* size_t pos = str.rfind(SEPARATOR): index of the last '1', None = npos *)
Fixpoint rfind_from (i : nat) (s : list N) (found : option nat) : option nat :=
  match s with
  | [] => found
  | c :: r => rfind_from (S i) r (if c =? SEPARATOR then Some i else found)
  end.
Definition rfind_sep (s : list N) : option nat := rfind_from 0 s None.

Inductive rev_result := RevOk (l : list N) | RevBad | RevOOB.
(* for each data character: int8_t rev = CHARSET_REV[c]; if (rev == -1) return {}; values[i] = rev; *)
Fixpoint rev_chars (l : list N) : rev_result :=
  match l with
  | [] => RevOk []
  | c :: r =>
    match nth_error CHARSET_REV (N.to_nat c) with
    | None => RevOOB
    | Some v => if (v =? -1)%Z then RevBad
                else match rev_chars r with
                     | RevOk vs => RevOk (Z.to_N v :: vs)
                     | e => e
                     end
    end
  end.

Inductive dec_result := DecOk (e : encoding) (hrp data : list N) | DecInvalid | DecRevOOB.

(* DecodeResult Decode(const std::string& str, CharLimit limit):
     if (!CheckCharacters(str, errors)) return {};
     size_t pos = str.rfind(SEPARATOR);
     if (str.size() > limit) return {};
     if (pos == str.npos || pos == 0 || pos + CHECKSUM_SIZE >= str.size()) return {};
     values[i] = CHARSET_REV[str[i + pos + 1]]  (-1 -> return {})
     hrp += LowerCase(str[i]) for i < pos
     result = VerifyChecksum(hrp, values); if (result == INVALID) return {};
     return {result, hrp, data(values.begin(), values.end() - CHECKSUM_SIZE)}; *)
Definition decode (limit : nat) (s : list N) : dec_result :=
  if negb (check_characters s) then DecInvalid
  else if (limit <? length s)%nat then DecInvalid
  else match rfind_sep s with
       | None => DecInvalid
       | Some pos =>
         if (pos =? 0)%nat || (length s <=? pos + CHECKSUM_SIZE_N)%nat then DecInvalid
         else match rev_chars (skipn (S pos) s) with
              | RevBad => DecInvalid
              | RevOOB => DecRevOOB
              | RevOk values =>
                let hrp := map lower_case (firstn pos s) in
                match verify_checksum hrp values with
                | VInvalid => DecInvalid
                | VEnc e => DecOk e hrp (firstn (length values - CHECKSUM_SIZE_N) values)
                end
              end
       end.

(* ------------------------------------------------------------------------------------------------ *)
(* template<int frombits, int tobits, bool pad> bool ConvertBits(outfn, it, end):
     size_t acc = 0, bits = 0;  maxv = (1 << tobits) - 1;  max_acc = (1 << (frombits + tobits - 1)) - 1;
     while (it != end) { acc = ((acc << frombits) | v) & max_acc; bits += frombits;
                         while (bits >= tobits) { bits -= tobits; outfn((acc >> bits) & maxv); } }
     if (pad) { if (bits) outfn((acc << (tobits - bits)) & maxv); }
     else if (bits >= frombits || ((acc << (tobits - bits)) & maxv)) return false;
     return true;
   acc stays below 2^(frombits+tobits-1) (masked), bits below tobits after the inner loop: no wrap.
   The inner while runs at most (bits+frombits)/tobits times; fuel = frombits + 1 always suffices
   (emit_sufficient). *)
Fixpoint cb_emit (fuel : nat) (tobits acc bits : N) (out : list N) : N * list N :=
  match fuel with
  | O => (bits, out)
  | S f => if tobits <=? bits
           then let bits' := bits - tobits in
                cb_emit f tobits acc bits' (N.land (N.shiftr acc bits') (N.ones tobits) :: out)
           else (bits, out)
  end.
(* state: acc, bits, output reversed *)
Definition cb_step (frombits tobits : N) (st : N * N * list N) (v : N) : N * N * list N :=
  let '(acc, bits, out) := st in
  let acc' := N.land (N.lor (N.shiftl acc frombits) v) (N.ones (frombits + tobits - 1)) in
  let '(bits', out') := cb_emit (S (N.to_nat frombits)) tobits acc' (bits + frombits) out in
  (acc', bits', out').
Definition convert_bits (frombits tobits : N) (pad : bool) (l : list N) : option (list N) :=
  let '(acc, bits, out) := fold_left (cb_step frombits tobits) l (0, 0, []) in
  let last := N.land (N.shiftl acc (tobits - bits)) (N.ones tobits) in
  if pad then Some (rev (if bits =? 0 then out else last :: out))
  else if (frombits <=? bits) || negb (last =? 0) then None
  else Some (rev out).
