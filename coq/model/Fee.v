(* Feerate arithmetic.  Transcribed from
     src/util/feefrac.h      FeeFrac::MulFallback / DivFallback / Mul / Div / EvaluateFee,
                             FeeFrac operator+ / operator-, ByRatio, ByRatioNegSize
     src/util/feefrac.cpp    CompareChunks
     src/util/overflow.h     CeilDiv
     src/policy/feerate.cpp  CFeeRate::CFeeRate(fee, vbytes), CFeeRate::GetFee
   Executable definitions only (proofs are in proofs/FeeLemmas.v).
   Integers are unbounded Z; every place where the C++ type could wrap is an explicit wrap. *)
From Coq Require Import QArith.
From BV Require Import lib.Ints.
Local Open Scope Z_scope.

Definition b2z (b : bool) : Z := if b then 1 else 0.
Definition wrap128 := wraps 128.
(* x >> 32 on a signed 64-bit value: arithmetic shift (C++20), i.e. floor (x / 2^32) *)
Definition asr32 (x : Z) : Z := Z.shiftr x 32.
(* x << 32 on an int64_t: C++20 defines it as the value congruent to x*2^32 modulo 2^64 *)
Definition shl32_i64 (x : Z) : Z := wrap64 (x * 2 ^ 32).

(* ------------------------------------------------------------------------------------------- *)
(* static inline std::pair<int64_t, uint32_t> MulFallback(int64_t a, int32_t b) noexcept
   {
       int64_t low = int64_t{static_cast<uint32_t>(a)} * b;
       int64_t high = (a >> 32) * b;
       return {high + (low >> 32), static_cast<uint32_t>(low)};
   } *)
Definition mul_fallback (a b : Z) : Z * Z :=
  let low := wrap64 (wrapu32 a * b) in
  let high := wrap64 (asr32 a * b) in
  (wrap64 (high + asr32 low), wrapu32 low).

(* value denoted by the (int64_t, uint32_t) pair *)
Definition pair_val (p : Z * Z) : Z := fst p * 2 ^ 32 + snd p.

(* std::pair's operator<=> : lexicographic, first as int64_t, second as uint32_t *)
Definition pair_compare (p q : Z * Z) : comparison :=
  match fst p ?= fst q with Eq => snd p ?= snd q | c => c end.

(* static inline int64_t DivFallback(std::pair<int64_t, uint32_t> n, int32_t d, bool round_down) noexcept
   {
       Assume(d > 0);
       int64_t quot_high = n.first / d;
       int64_t n_low = ((n.first % d) << 32) + n.second;
       int64_t quot_low = n_low / d;
       int32_t mod_low = n_low % d;
       quot_low += (mod_low > 0) - (mod_low && round_down);
       return (quot_high << 32) + quot_low;
   } *)
Definition div_fallback (n : Z * Z) (d : Z) (round_down : bool) : Z :=
  let quot_high := wrap64 (cdiv (fst n) d) in
  let n_low := wrap64 (shl32_i64 (cmod (fst n) d) + snd n) in
  let quot_low := wrap64 (cdiv n_low d) in
  let mod_low := wrap32 (cmod n_low d) in
  let quot_low' := wrap64 (quot_low + (b2z (mod_low >? 0) - b2z (negb (mod_low =? 0) && round_down))) in
  wrap64 (shl32_i64 quot_high + quot_low').

(* static inline __int128 Mul(int64_t a, int32_t b) noexcept { return __int128{a} * b; } *)
Definition mul_native (a b : Z) : Z := wrap128 (a * b).

(* static inline int64_t Div(__int128 n, int32_t d, bool round_down) noexcept
   {
       Assume(d > 0);
       int64_t quot = n / d;
       int32_t mod = n % d;
       return quot + ((mod > 0) - (mod && round_down));
   } *)
Definition div_native (n d : Z) (round_down : bool) : Z :=
  let quot := wrap64 (cdiv n d) in
  let md := wrap32 (cmod n d) in
  wrap64 (quot + (b2z (md >? 0) - b2z (negb (md =? 0) && round_down))).

(* template <std::unsigned_integral Dividend, std::unsigned_integral Divisor>
   constexpr auto CeilDiv(const Dividend dividend, const Divisor divisor)
   { assert(divisor > 0); return dividend / divisor + (dividend % divisor != 0); }
   instantiated with (uint64_t, uint32_t): the result type is uint64_t *)
Definition ceil_div_u64 (dividend divisor : Z) : Z :=
  wrapu64 (dividend / divisor + b2z (negb (dividend mod divisor =? 0))).

(* template<bool RoundDown> int64_t EvaluateFee(int32_t at_size) const noexcept
   {
       Assume(size > 0);
       Assume(at_size >= 0);
       if (fee >= 0 && fee < 0x200000000) [[likely]] {
           if constexpr (RoundDown) {
               return (uint64_t(fee) * at_size) / uint32_t(size);
           } else {
               return CeilDiv(uint64_t(fee) * at_size, uint32_t(size));
           }
       } else {
           return Div(Mul(fee, at_size), size, RoundDown);
       }
   }
   (at_size is converted to uint64_t by the usual arithmetic conversions) *)
Definition evaluate_fee (round_down : bool) (fee size at_size : Z) : Z :=
  if (fee >=? 0) && (fee <? 8589934592) then
    let prod := wrapu64 (wrapu64 fee * wrapu64 at_size) in
    if round_down then wrap64 (prod / wrapu32 size)
    else wrap64 (ceil_div_u64 prod (wrapu32 size))
  else div_native (mul_native fee at_size) size round_down.

(* the same computation routed through the portable fallbacks (what a platform without
   __int128 compiles: Mul = MulFallback, Div = DivFallback) *)
Definition evaluate_fee_fallback (round_down : bool) (fee size at_size : Z) : Z :=
  if (fee >=? 0) && (fee <? 8589934592) then
    let prod := wrapu64 (wrapu64 fee * wrapu64 at_size) in
    if round_down then wrap64 (prod / wrapu32 size)
    else wrap64 (ceil_div_u64 prod (wrapu32 size))
  else div_fallback (mul_fallback fee at_size) size round_down.

(* ------------------------------------------------------------------------------------------- *)
(* FeeFrac = (fee : int64_t, size : int32_t) *)
Notation FF := (Z * Z)%type (only parsing).
Definition ff_fee (a : FF) : Z := fst a.
Definition ff_size (a : FF) : Z := snd a.

(* friend inline FeeFrac operator+(a, b) { return {a.fee + b.fee, a.size + b.size}; }
   friend inline FeeFrac operator-(a, b) { return {a.fee - b.fee, a.size - b.size}; } *)
Definition ff_add (a b : FF) : FF := (wrap64 (fst a + fst b), wrap32 (snd a + snd b)).
Definition ff_sub (a b : FF) : FF := (wrap64 (fst a - fst b), wrap32 (snd a - snd b)).

(* ByRatio: every operator computes
     auto cross_a = T::Mul(a.fee, b.size);  auto cross_b = T::Mul(b.fee, a.size);
   and applies the operator to (cross_a, cross_b). *)
Definition byratio_cmp (a b : FF) : comparison :=
  mul_native (fst a) (snd b) ?= mul_native (fst b) (snd a).
Definition byratio_eq (a b : FF) : bool := mul_native (fst a) (snd b) =? mul_native (fst b) (snd a).
Definition byratio_lt (a b : FF) : bool := mul_native (fst a) (snd b) <? mul_native (fst b) (snd a).
Definition byratio_gt (a b : FF) : bool := mul_native (fst a) (snd b) >? mul_native (fst b) (snd a).
Definition byratio_le (a b : FF) : bool := mul_native (fst a) (snd b) <=? mul_native (fst b) (snd a).
Definition byratio_ge (a b : FF) : bool := mul_native (fst a) (snd b) >=? mul_native (fst b) (snd a).
(* the same with Mul = MulFallback (pairs compared by std::pair's operator<=>) *)
Definition byratio_cmp_fallback (a b : FF) : comparison :=
  pair_compare (mul_fallback (fst a) (snd b)) (mul_fallback (fst b) (snd a)).

(* ByRatioNegSize:
     operator== : a.m_feefrac == b.m_feefrac   (same fee and same size)
     operator<=>: cmp = cross_a <=> cross_b; if (cmp != 0) return cmp; return b.size <=> a.size; *)
Definition negsize_eq (a b : FF) : bool := (fst a =? fst b) && (snd a =? snd b).
Definition negsize_cmp (a b : FF) : comparison :=
  match byratio_cmp a b with
  | Eq => snd b ?= snd a
  | c => c
  end.

(* ------------------------------------------------------------------------------------------- *)
(* std::partial_ordering CompareChunks(std::span<const FeeFrac> chunks0, std::span<const FeeFrac> chunks1) *)
Inductive pord := PLess | PEquiv | PGreater | PUnordered.

(* return better_somewhere[0] <=> better_somewhere[1];   (bool: false < true) *)
Definition final_pord (b0 b1 : bool) : pord :=
  match b0, b1 with
  | true, false => PGreater
  | false, true => PLess
  | _, _ => PEquiv
  end.

Definition is_gt (c : comparison) : bool := match c with Gt => true | _ => false end.
Definition is_lt (c : comparison) : bool := match c with Lt => true | _ => false end.

(* One pass of the do-loop per unit of fuel.  State: the unprocessed chunks of either input
   (chunk[i] from next_index[i] on), accum[0..1], better_somewhere[0..1].
     next_point(dia) = chunk[dia][next_index[dia]] + accum[dia]
     prev_point(dia) = accum[dia]
     advance(dia)    : accum[dia] += chunk[dia][next_index[dia]++]
   unproc_side = (done_0 || done_1) ? done_0 : next_point(0).size > next_point(1).size
   one side done:  cmp = ByRatio{P - A} <=> ByRatio{FeeFrac(0, 1)}
   otherwise:      cmp = ByRatio{P - A} <=> ByRatio{B - A};  if (B.size == P.size) advance(!unproc_side)
   if (is_gt(cmp)) better_somewhere[unproc_side] = true;
   if (is_lt(cmp)) better_somewhere[!unproc_side] = true;
   advance(unproc_side);
   if (better_somewhere[0] && better_somewhere[1]) return unordered; *)
Fixpoint cc_loop (fuel : nat) (r0 r1 : list FF) (acc0 acc1 : FF) (b0 b1 : bool) : option pord :=
  match fuel with
  | O => None
  | S k =>
    match r0, r1 with
    | [], [] => Some (final_pord b0 b1)
    | [], c1 :: t1 =>
        (* done_0: unproc_side = 1, P = next_point(1), A = prev_point(0) *)
        let p := ff_add c1 acc1 in
        let cmp := byratio_cmp (ff_sub p acc0) (0, 1) in
        let b1' := b1 || is_gt cmp in
        let b0' := b0 || is_lt cmp in
        if b0' && b1' then Some PUnordered
        else cc_loop k [] t1 acc0 (ff_add acc1 c1) b0' b1'
    | c0 :: t0, [] =>
        (* done_1: unproc_side = 0, P = next_point(0), A = prev_point(1) *)
        let p := ff_add c0 acc0 in
        let cmp := byratio_cmp (ff_sub p acc1) (0, 1) in
        let b0' := b0 || is_gt cmp in
        let b1' := b1 || is_lt cmp in
        if b0' && b1' then Some PUnordered
        else cc_loop k t0 [] (ff_add acc0 c0) acc1 b0' b1'
    | c0 :: t0, c1 :: t1 =>
        let p0 := ff_add c0 acc0 in
        let p1 := ff_add c1 acc1 in
        if snd p0 >? snd p1 then
          (* unproc_side = 1: P = p1, A = acc0, B = p0 *)
          let cmp := byratio_cmp (ff_sub p1 acc0) (ff_sub p0 acc0) in
          let adv_other := snd p0 =? snd p1 in
          let b1' := b1 || is_gt cmp in
          let b0' := b0 || is_lt cmp in
          if b0' && b1' then Some PUnordered
          else if adv_other then cc_loop k t0 t1 (ff_add acc0 c0) (ff_add acc1 c1) b0' b1'
          else cc_loop k (c0 :: t0) t1 acc0 (ff_add acc1 c1) b0' b1'
        else
          (* unproc_side = 0: P = p0, A = acc1, B = p1 *)
          let cmp := byratio_cmp (ff_sub p0 acc1) (ff_sub p1 acc1) in
          let adv_other := snd p1 =? snd p0 in
          let b0' := b0 || is_gt cmp in
          let b1' := b1 || is_lt cmp in
          if b0' && b1' then Some PUnordered
          else if adv_other then cc_loop k t0 t1 (ff_add acc0 c0) (ff_add acc1 c1) b0' b1'
          else cc_loop k t0 (c1 :: t1) (ff_add acc0 c0) acc1 b0' b1'
    end
  end.

(* every pass consumes at least one chunk, so length+length+1 passes suffice
   (FeeLemmas.compare_chunks_total: the result is never None) *)
Definition compare_chunks (c0 c1 : list FF) : option pord :=
  cc_loop (S (length c0 + length c1)) c0 c1 (0, 0) (0, 0) false false.

(* ------------------------------------------------------------------------------------------- *)
(* CFeeRate::CFeeRate(const CAmount& nFeePaid, int32_t virtual_bytes)
   { if (virtual_bytes > 0) m_feerate = FeePerVSize(nFeePaid, virtual_bytes); else m_feerate = FeePerVSize(); } *)
Definition cfeerate_make (fee_paid vbytes : Z) : FF :=
  if vbytes >? 0 then (fee_paid, vbytes) else (0, 0).

(* CAmount CFeeRate::GetFee(int32_t virtual_bytes) const
   {
       Assume(virtual_bytes >= 0);
       if (m_feerate.IsEmpty()) { return CAmount(0);}
       CAmount nFee = CAmount(m_feerate.EvaluateFeeUp(virtual_bytes));
       if (nFee == 0 && virtual_bytes != 0 && m_feerate.fee < 0) return CAmount(-1);
       return nFee;
   } *)
Definition get_fee (fr : FF) (vbytes : Z) : Z :=
  if snd fr =? 0 then 0
  else
    let nfee := evaluate_fee false (fst fr) (snd fr) vbytes in
    if (nfee =? 0) && negb (vbytes =? 0) && (fst fr <? 0) then -1 else nfee.

(* CAmount GetFeePerK() const { return CAmount(m_feerate.EvaluateFeeDown(1000)); } *)
Definition get_fee_per_k (fr : FF) : Z := evaluate_fee true (fst fr) (snd fr) 1000.

(* ------------------------------------------------------------------------------------------- *)
(* Specifications (what the property states), independent of the code's shape. *)

(* exact rounded quotients for d > 0 *)
Definition floor_div (n d : Z) : Z := n / d.
Definition ceil_div (n d : Z) : Z := - ((- n) / d).
Definition round_div (round_down : bool) (n d : Z) : Z := if round_down then floor_div n d else ceil_div n d.

(* the feerate fee/size as an exact rational (size > 0) *)
Definition feerate_Q (a : FF) : Q := Qmake (fst a) (Z.to_pos (snd a)).

(* The feerate diagram of a chunk list, as a function of the size coordinate x (a rational):
   starts at (0,0), goes in a straight line to each cumulative (size, fee) point in turn, and
   continues horizontally after the last one.  diag c af as is the part of the diagram to the
   right of the point (as, af), for the remaining chunks c. *)
Fixpoint diag (c : list FF) (af asz : Z) (x : Q) : Q :=
  match c with
  | [] => inject_Z af
  | (f, s) :: r =>
      if Qle_bool x (inject_Z (asz + s))
      then (inject_Z af + inject_Z f * (x - inject_Z asz) / inject_Z s)%Q
      else diag r (af + f) (asz + s) x
  end.
Definition diagram (c : list FF) (x : Q) : Q := diag c 0 0 x.

(* the mathematical comparison of two diagrams on x >= 0 *)
Definition diagram_ge (c0 c1 : list FF) : Prop := forall x : Q, (0 <= x)%Q -> (diagram c1 x <= diagram c0 x)%Q.
Definition diagram_gt_somewhere (c0 c1 : list FF) : Prop := exists x : Q, (0 <= x)%Q /\ (diagram c1 x < diagram c0 x)%Q.
Definition diagram_order (c0 c1 : list FF) (r : pord) : Prop :=
  match r with
  | PEquiv => forall x : Q, (0 <= x)%Q -> (diagram c0 x == diagram c1 x)%Q
  | PGreater => diagram_ge c0 c1 /\ diagram_gt_somewhere c0 c1
  | PLess => diagram_ge c1 c0 /\ diagram_gt_somewhere c1 c0
  | PUnordered => diagram_gt_somewhere c0 c1 /\ diagram_gt_somewhere c1 c0
  end.

(* ------------------------------------------------------------------------------------------- *)
(* Executable predicates evaluated on what the implementation returned (violation search).
   Each is the property's statement for one function, written with exact integer arithmetic. *)
Definition holds_mul (a b hi lo native : Z) : bool :=
  (hi * 2 ^ 32 + lo =? a * b) && (0 <=? lo) && (lo <? 2 ^ 32) && (native =? a * b).
Definition holds_div (hi lo d : Z) (round_down : bool) (r_fallback r_native : Z) : bool :=
  let q := round_div round_down (hi * 2 ^ 32 + lo) d in
  (r_fallback =? q) && (r_native =? q).
Definition holds_eval (fee size at_size : Z) (round_down : bool) (r : Z) : bool :=
  r =? round_div round_down (fee * at_size) size.
Definition spec_cmp (a b : FF) : comparison := fst a * snd b ?= fst b * snd a.
Definition spec_negsize_cmp (a b : FF) : comparison :=
  match spec_cmp a b with Eq => snd b ?= snd a | c => c end.
Definition spec_get_fee (fee size vbytes : Z) : Z :=
  if size <=? 0 then 0
  else let c := ceil_div (fee * vbytes) size in
       if (c =? 0) && negb (vbytes =? 0) && (fee <? 0) then -1 else c.
