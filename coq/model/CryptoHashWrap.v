(* C49 — the composite hashers of src/hash.{h,cpp}: CHash256 / HashWriter::GetHash (double SHA-256),
   CHash160 (RIPEMD-160 of SHA-256), TaggedHash (BIP340), BIP32Hash (HMAC-SHA512), MurmurHash3 (x86_32).

     class CHash256 { CSHA256 sha;
       void Finalize(output) { unsigned char buf[32]; sha.Finalize(buf);
                               sha.Reset().Write(buf, 32).Finalize(output.data()); }
       CHash256& Write(input) { sha.Write(input.data(), input.size()); return *this; } };
     class CHash160 { CSHA256 sha;
       void Finalize(output) { unsigned char buf[32]; sha.Finalize(buf);
                               CRIPEMD160().Write(buf, 32).Finalize(output.data()); } ... };
     HashWriter TaggedHash(const std::string& tag) {
       HashWriter writer{}; uint256 taghash; CSHA256().Write(tag).Finalize(taghash.begin());
       writer << taghash << taghash; return writer; }                    // then the caller writes and calls GetSHA256()
     void BIP32Hash(chainCode, nChild, header, data[32], output[64]) {
       unsigned char num[4]; WriteBE32(num, nChild);
       CHMAC_SHA512(chainCode.begin(), 32).Write(&header, 1).Write(data, 32).Write(num, 4).Finalize(output); }

   CSHA256::Reset() sets bytes = 0 and the chaining value but leaves `buf` as the first Finalize left it: the
   reset object is modelled as a fresh one whose indeterminate buffer contents are a further argument.
   Executable definitions only. *)
From Coq Require Import NArith.
From BV Require Import lib.Ints model.CryptoBase model.CryptoMD model.CryptoSHA256 model.CryptoRIPEMD160
  model.CryptoSHA512 model.CryptoHMAC model.CryptoHMACInst.
Local Open Scope Z_scope.

(* specifications *)
Definition hash256_spec (msg : list N) : list N := sha256_spec (sha256_spec msg).
Definition hash160_spec (msg : list N) : list N := ripemd160_spec (sha256_spec msg).
(* BIP340: tagged_hash(tag, msg) = SHA256(SHA256(tag) || SHA256(tag) || msg) *)
Definition tagged_hash_spec (tag msg : list N) : list N :=
  sha256_spec (sha256_spec tag ++ sha256_spec tag ++ msg).
(* BIP32: I = HMAC-SHA512(Key = c_par, Data = header || data || ser32(i)) *)
Definition bip32_hash_spec (chaincode : list N) (nchild : Z) (header : N) (data : list N) : list N :=
  hmac_sha512_spec chaincode ([header] ++ data ++ be_bytes 4 nchild).

(* models *)
Definition chash256_stream (ubuf ubuf2 : list N) (chunks : list (list N)) : list N :=
  let buf := csha256_finalize (fold_left csha256_write chunks (csha256_init ubuf)) in
  csha256_finalize (csha256_write (csha256_init ubuf2) buf).
Definition chash160_stream (ubuf ubuf2 : list N) (chunks : list (list N)) : list N :=
  let buf := csha256_finalize (fold_left csha256_write chunks (csha256_init ubuf)) in
  cripemd160_finalize (cripemd160_write (cripemd160_init ubuf2) buf).
Definition tagged_hash_stream (ubuf : list N) (tag : list N) (chunks : list (list N)) : list N :=
  let taghash := csha256_finalize (csha256_write (csha256_init ubuf) tag) in
  csha256_finalize (fold_left csha256_write chunks (csha256_write (csha256_write (csha256_init ubuf) taghash) taghash)).
Definition bip32_hash_model (ubuf : list N) (chaincode : list N) (nchild : Z) (header : N) (data : list N) : list N :=
  chmac_sha512_stream ubuf chaincode [[header]; data; be_bytes 4 (wrapu32 nchild)].

(* ---- MurmurHash3 x86_32 (Austin Appleby, public domain reference MurmurHash3_x86_32), as transcribed in hash.cpp ---- *)
Definition murmur_c1 : Z := 0xcc9e2d51.
Definition murmur_c2 : Z := 0x1b873593.
Definition murmur_k (k1 : Z) : Z := w32 (rotl32 15 (w32 (k1 * murmur_c1)) * murmur_c2).
(* body: for each 4-byte little endian block *)
Fixpoint murmur_body (nblocks : nat) (h1 : Z) (data : list N) : Z :=
  match nblocks with
  | O => h1
  | S n =>
    let k1 := murmur_k (le_value (firstn 4 data)) in
    let h1 := Z.lxor h1 k1 in
    let h1 := rotl32 13 h1 in
    let h1 := w32 (h1 * 5 + 0xe6546b64) in
    murmur_body n h1 (skipn 4 data)
  end.
Definition murmurhash3 (seed : Z) (data : list N) : Z :=
  let len := length data in
  let nblocks := (len / 4)%nat in
  let h1 := murmur_body nblocks (w32 seed) data in
  let tail := skipn (nblocks * 4) data in
  (* switch (len & 3): the tail bytes, little endian *)
  let h1 := if (0 <? length tail)%nat then Z.lxor h1 (murmur_k (le_value tail)) else h1 in
  (* finalization: h1 ^= len; fmix32 *)
  let h1 := Z.lxor h1 (w32 (Z.of_nat len)) in
  let h1 := Z.lxor h1 (Z.shiftr h1 16) in
  let h1 := w32 (h1 * 0x85ebca6b) in
  let h1 := Z.lxor h1 (Z.shiftr h1 13) in
  let h1 := w32 (h1 * 0xc2b2ae35) in
  Z.lxor h1 (Z.shiftr h1 16).
