(* Bitcoin script: numbers, opcode parsing and the interpreter (EvalScript).  Transcribed from
     src/script/script.h          CScriptNum (set_vch, serialize, minimal-encoding test), constants
     src/script/script.cpp        GetScriptOp, CheckMinimalPush
     src/script/interpreter.cpp   CastToBool, signature/pubkey encoding checks, FindAndDelete,
                                  ConditionStack, EvalChecksig*, EvalScript
   Executable definitions only; proofs are in proofs/ScriptNumLemmas.v, proofs/ScriptLemmas.v and
   proofs/ScriptFlagsLemmas.v.

   Conventions.  A byte is a Z in [0,256); a stack is a list of byte strings with the TOP AT THE
   HEAD (C++: std::vector with the top at back()).  Flags are a Z bit set tested with Z.testbit at the
   bit positions generated from the compiled tree (SCR_FLAG_x).  Everything that depends on real
   cryptography is a parameter: the three hash functions are Section variables and the signature /
   locktime checker (BaseSignatureChecker) is the record [checker]. *)
From BV Require Import lib.Ints gen.Params_gen.
Local Open Scope Z_scope.

Definition bytes := list Z.
Definition lenz {A} (l : list A) : Z := Z.of_nat (length l).

(* ------------------------------------------------------------------------------------------- *)
(* script_error.h  (only the names; SE_x is SCRIPT_ERR_x) *)
Inductive script_error :=
| SE_UNKNOWN_ERROR | SE_EVAL_FALSE | SE_OP_RETURN | SE_SCRIPTNUM
| SE_SCRIPT_SIZE | SE_PUSH_SIZE | SE_OP_COUNT | SE_STACK_SIZE | SE_SIG_COUNT | SE_PUBKEY_COUNT
| SE_VERIFY | SE_EQUALVERIFY | SE_CHECKMULTISIGVERIFY | SE_CHECKSIGVERIFY | SE_NUMEQUALVERIFY
| SE_BAD_OPCODE | SE_DISABLED_OPCODE | SE_INVALID_STACK_OPERATION | SE_INVALID_ALTSTACK_OPERATION
| SE_UNBALANCED_CONDITIONAL
| SE_NEGATIVE_LOCKTIME | SE_UNSATISFIED_LOCKTIME
| SE_SIG_HASHTYPE | SE_SIG_DER | SE_MINIMALDATA | SE_SIG_PUSHONLY | SE_SIG_HIGH_S | SE_SIG_NULLDUMMY
| SE_PUBKEYTYPE | SE_CLEANSTACK | SE_MINIMALIF | SE_SIG_NULLFAIL
| SE_DISCOURAGE_UPGRADABLE_NOPS | SE_DISCOURAGE_UPGRADABLE_WITNESS_PROGRAM
| SE_DISCOURAGE_UPGRADABLE_TAPROOT_VERSION | SE_DISCOURAGE_OP_SUCCESS | SE_DISCOURAGE_UPGRADABLE_PUBKEYTYPE
| SE_WITNESS_PROGRAM_WRONG_LENGTH | SE_WITNESS_PROGRAM_WITNESS_EMPTY | SE_WITNESS_PROGRAM_MISMATCH
| SE_WITNESS_MALLEATED | SE_WITNESS_MALLEATED_P2SH | SE_WITNESS_UNEXPECTED | SE_WITNESS_PUBKEYTYPE
| SE_SCHNORR_SIG_SIZE | SE_SCHNORR_SIG_HASHTYPE | SE_SCHNORR_SIG
| SE_TAPROOT_WRONG_CONTROL_SIZE | SE_TAPSCRIPT_VALIDATION_WEIGHT | SE_TAPSCRIPT_CHECKMULTISIG
| SE_TAPSCRIPT_MINIMALIF | SE_TAPSCRIPT_EMPTY_PUBKEY
| SE_OP_CODESEPARATOR | SE_SIG_FINDANDDELETE.

Inductive result (A : Type) := Ok (a : A) | Err (e : script_error).
Arguments Ok {A} a.
Arguments Err {A} e.
Definition bind {A B} (r : result A) (f : A -> result B) : result B :=
  match r with Ok a => f a | Err e => Err e end.
Notation "'do' x <- r ; k" := (bind r (fun x => k)) (at level 200, x name, r at level 100, k at level 200).
(* "if c then fail with e, else continue" (a notation, so that extraction keeps the continuation lazy) *)
Notation guard c e k := (if c then Err e else k) (only parsing).

(* enum class SigVersion { BASE, WITNESS_V0, TAPROOT, TAPSCRIPT }: EvalScript asserts it is not TAPROOT *)
Inductive sigversion := SV_BASE | SV_WITNESS_V0 | SV_TAPSCRIPT.
Definition is_base (sv : sigversion) : bool := match sv with SV_BASE => true | _ => false end.
Definition is_v0 (sv : sigversion) : bool := match sv with SV_WITNESS_V0 => true | _ => false end.
Definition is_tapscript (sv : sigversion) : bool := match sv with SV_TAPSCRIPT => true | _ => false end.

(* flags & SCRIPT_VERIFY_x  (script_verify_flags is a uint64 bit set; x is the enum value = bit position) *)
Definition has (fl : Z) (bit : Z) : bool := Z.testbit fl bit.

(* ------------------------------------------------------------------------------------------- *)
(* bool CastToBool(const valtype& vch)
   { for (i = 0; i < vch.size(); i++) if (vch[i] != 0) {
         if (i == vch.size()-1 && vch[i] == 0x80) return false;   // negative zero
         return true; }
     return false; } *)
Fixpoint cast_to_bool (v : bytes) : bool :=
  match v with
  | [] => false
  | [b] => negb ((b =? 0) || (b =? 128))
  | b :: r => if b =? 0 then cast_to_bool r else true
  end.

Fixpoint bytes_eqb (a b : bytes) : bool :=
  match a, b with
  | [], [] => true
  | x :: a', y :: b' => (x =? y) && bytes_eqb a' b'
  | _, _ => false
  end.

Definition vch_true : bytes := [1].     (* static const valtype vchTrue(1, 1); *)
Definition vch_false : bytes := [].     (* static const valtype vchFalse(0);   *)
Definition vch_of_bool (b : bool) : bytes := if b then vch_true else vch_false.

(* ------------------------------------------------------------------------------------------- *)
(* CScriptNum *)

(* static int64_t set_vch(const std::vector<unsigned char>& vch)
   { if (vch.empty()) return 0;
     int64_t result = 0;
     for (size_t i = 0; i != vch.size(); ++i) result |= static_cast<int64_t>(vch[i]) << 8*i;
     // If the input vector's most significant byte is 0x80, remove it from the result's msb and return a negative.
     if (vch.back() & 0x80) return -((int64_t)(result & ~(0x80ULL << (8 * (vch.size() - 1)))));
     return result; }
   Little-endian magnitude; the top bit of the LAST byte is the sign.  The constructor rejects more than
   nMaxNumSize (4 or 5) bytes before calling set_vch, so the int64 never overflows (shifts stay < 40). *)
Fixpoint num_mag_sign (v : bytes) : Z * bool :=
  match v with
  | [] => (0, false)
  | [b] => (b mod 128, 128 <=? b)
  | b :: r => let '(m, s) := num_mag_sign r in (b + 256 * m, s)
  end.
Definition num_decode (v : bytes) : Z :=
  let '(m, s) := num_mag_sign v in if s then - m else m.

(* the fRequireMinimal test of the constructor:
     if (fRequireMinimal && vch.size() > 0) {
       if ((vch.back() & 0x7f) == 0) {
         if (vch.size() <= 1 || (vch[vch.size() - 2] & 0x80) == 0) throw scriptnum_error("non-minimally encoded script number"); } } *)
(* v is minimal unless its last byte is 0x00/0x80 and (it is the only byte or the byte before it has
   its top bit clear); written as a recursion that walks to the last two bytes *)
Fixpoint num_minimal (v : bytes) : bool :=
  match v with
  | [] => true
  | [last] => negb (last mod 128 =? 0)
  | prev :: ((last :: t) as r) =>
    match t with
    | [] => negb (last mod 128 =? 0) || (128 <=? prev)
    | _ :: _ => num_minimal r
    end
  end.

(* explicit CScriptNum(const std::vector<unsigned char>& vch, bool fRequireMinimal, const size_t nMaxNumSize = 4)
   { if (vch.size() > nMaxNumSize) throw scriptnum_error("script number overflow");
     if (fRequireMinimal && vch.size() > 0) { ... throw ... }
     m_value = set_vch(vch); }
   scriptnum_error is caught in EvalScript: SCRIPT_ERR_SCRIPTNUM. *)
Definition script_num (require_minimal : bool) (max_size : Z) (v : bytes) : result Z :=
  if lenz v >? max_size then Err SE_SCRIPTNUM
  else if require_minimal && negb (num_minimal v) then Err SE_SCRIPTNUM
  else Ok (num_decode v).

(* static std::vector<unsigned char> serialize(const int64_t& value)
   { if(value == 0) return {};
     std::vector<unsigned char> result; const bool neg = value < 0;
     uint64_t absvalue = neg ? ~static_cast<uint64_t>(value) + 1 : static_cast<uint64_t>(value);
     while(absvalue) { result.push_back(absvalue & 0xff); absvalue >>= 8; }
     if (result.back() & 0x80) result.push_back(neg ? 0x80 : 0);
     else if (neg) result.back() |= 0x80;
     return result; } *)
Fixpoint le_bytes (fuel : nat) (a : Z) : bytes :=
  match fuel with
  | O => []
  | S f => if a =? 0 then [] else (a mod 256) :: le_bytes f (a / 256)
  end.
(* number of base-256 digits of a > 0 (fuel for the while loop; proved sufficient) *)
Definition num_digits (a : Z) : nat := S (Z.to_nat (Z.log2 a / 8)).
Fixpoint set_sign (r : bytes) (neg : bool) : bytes :=
  match r with
  | [] => []
  | [b] => if 128 <=? b then [b; if neg then 128 else 0] else [if neg then b + 128 else b]
  | b :: t => b :: set_sign t neg
  end.
Definition num_encode (n : Z) : bytes :=
  if n =? 0 then []
  else let a := Z.abs n in set_sign (le_bytes (num_digits a) a) (n <? 0).

(* int getint() const: saturating conversion to int *)
Definition getint (n : Z) : Z :=
  if n >? INT32_MAX then INT32_MAX else if n <? INT32_MIN then INT32_MIN else n.

(* ------------------------------------------------------------------------------------------- *)
(* bool GetScriptOp(pc, end, opcodeRet, pvchRet)   (script.cpp) *)

(* the first n bytes of l and the rest; None when l is shorter than n.  (Recursion on the list with a
   Z counter, so an absurd PUSHDATA4 length costs nothing.) *)
Fixpoint take_z (l : bytes) (n : Z) : option (bytes * bytes) :=
  if n <=? 0 then Some ([], l)
  else match l with
       | [] => None
       | x :: t => match take_z t (n - 1) with Some (a, b) => Some (x :: a, b) | None => None end
       end.

(* result: opcode, the length-prefix bytes that followed it, the pushed data, the rest of the script.
   { if (pc >= end) return false;
     unsigned int opcode = *pc++;
     if (opcode <= OP_PUSHDATA4) {
       unsigned int nSize = 0;
       if (opcode < OP_PUSHDATA1) nSize = opcode;
       else if (opcode == OP_PUSHDATA1) { if (end - pc < 1) return false; nSize = *pc++; }
       else if (opcode == OP_PUSHDATA2) { if (end - pc < 2) return false; nSize = ReadLE16(&pc[0]); pc += 2; }
       else if (opcode == OP_PUSHDATA4) { if (end - pc < 4) return false; nSize = ReadLE32(&pc[0]); pc += 4; }
       if (end - pc < 0 || (unsigned int)(end - pc) < nSize) return false;
       if (pvchRet) pvchRet->assign(pc, pc + nSize);
       pc += nSize; }
     opcodeRet = static_cast<opcodetype>(opcode); return true; } *)
Definition get_op (s : bytes) : option (Z * bytes * bytes * bytes) :=
  match s with
  | [] => None
  | opcode :: r =>
    if opcode <=? 78 (* OP_PUSHDATA4 *) then
      let hdr : option (Z * bytes * bytes) :=
        if opcode <? 76 (* OP_PUSHDATA1 *) then Some (opcode, [], r)
        else if opcode =? 76 then
          match r with b0 :: r' => Some (b0, [b0], r') | _ => None end
        else if opcode =? 77 then
          match r with b0 :: b1 :: r' => Some (b0 + 256 * b1, [b0; b1], r') | _ => None end
        else
          match r with b0 :: b1 :: b2 :: b3 :: r' => Some (b0 + 256 * b1 + 65536 * b2 + 16777216 * b3, [b0; b1; b2; b3], r') | _ => None end in
      match hdr with
      | None => None
      | Some (n, lenbytes, r') =>
        match take_z r' n with
        | None => None
        | Some (data, rest) => Some (opcode, lenbytes, data, rest)
        end
      end
    else Some (opcode, [], [], r)
  end.

(* one parsed instruction; p_rest is the script after it (pc after GetOp), needed for OP_CODESEPARATOR *)
Record pop := { p_code : Z; p_data : bytes; p_rest : bytes }.

(* The instruction stream of a script: the ops GetOp yields in order, and whether the script ended
   cleanly (true) or GetOp failed on the tail (false: EvalScript reports BAD_OPCODE when it gets there). *)
Fixpoint parse_ops (fuel : nat) (s : bytes) : list pop * bool :=
  match s with
  | [] => ([], true)
  | _ :: _ =>
    match fuel with
    | O => ([], false)
    | S f =>
      match get_op s with
      | None => ([], false)
      | Some (c, _, d, r) => let '(l, ok) := parse_ops f r in ({| p_code := c; p_data := d; p_rest := r |} :: l, ok)
      end
    end
  end.
Definition parse_script (s : bytes) : list pop * bool := parse_ops (length s) s.

(* bool CheckMinimalPush(const std::vector<unsigned char>& data, opcodetype opcode)
   { if (data.size() == 0) return opcode == OP_0;
     else if (data.size() == 1 && data[0] >= 1 && data[0] <= 16) return false;   // should have used OP_1..OP_16
     else if (data.size() == 1 && data[0] == 0x81) return false;                 // should have used OP_1NEGATE
     else if (data.size() <= 75) return opcode == data.size();
     else if (data.size() <= 255) return opcode == OP_PUSHDATA1;
     else if (data.size() <= 65535) return opcode == OP_PUSHDATA2;
     return true; } *)
Definition check_minimal_push (data : bytes) (opcode : Z) : bool :=
  match data with
  | [] => opcode =? 0
  | [b] => if (1 <=? b) && (b <=? 16) then false else if b =? 129 then false else opcode =? 1
  | _ => let n := lenz data in
         if n <=? 75 then opcode =? n
         else if n <=? 255 then opcode =? 76
         else if n <=? 65535 then opcode =? 77
         else true
  end.

(* CScript& operator<<(std::span<const std::byte> b)  — the serialized push of a byte string
   (used for FindAndDelete's pattern `CScript() << vchSig`):
     size < OP_PUSHDATA1: [size]; <= 0xff: [OP_PUSHDATA1, size]; <= 0xffff: [OP_PUSHDATA2, le16]; else [OP_PUSHDATA4, le32] *)
Definition push_encoding (b : bytes) : bytes :=
  let n := lenz b in
  if n <? 76 then n :: b
  else if n <=? 255 then 76 :: n :: b
  else if n <=? 65535 then 77 :: (n mod 256) :: (n / 256) :: b
  else 78 :: (n mod 256) :: ((n / 256) mod 256) :: ((n / 65536) mod 256) :: ((n / 16777216) mod 256) :: b.

(* ------------------------------------------------------------------------------------------- *)
(* int FindAndDelete(CScript& script, const CScript& b)
   { int nFound = 0; if (b.empty()) return nFound;
     CScript result; pc = pc2 = script.begin(); end = script.end();
     do { result.insert(result.end(), pc2, pc);
          while (static_cast<size_t>(end - pc) >= b.size() && std::equal(b.begin(), b.end(), pc)) { pc = pc + b.size(); ++nFound; }
          pc2 = pc;
     } while (script.GetOp(pc, opcode));
     if (nFound > 0) { result.insert(result.end(), pc2, end); script = std::move(result); }
     return nFound; }
   At every instruction boundary all copies of b are skipped, then one instruction is copied.  When GetOp
   fails (end of script or truncated push) the remainder from pc2 is copied unchanged. *)
Fixpoint strip_prefix (b s : bytes) : option bytes :=
  match b with
  | [] => Some s
  | x :: b' => match s with [] => None | y :: s' => if x =? y then strip_prefix b' s' else None end
  end.
Fixpoint fad_loop (fuel : nat) (s b : bytes) : bytes * Z :=
  match fuel with
  | O => (s, 0)
  | S f =>
    match strip_prefix b s with
    | Some s' => let '(r, k) := fad_loop f s' b in (r, k + 1)
    | None =>
      match get_op s with
      | None => (s, 0)
      | Some (c, lb, d, rest) => let '(r, k) := fad_loop f rest b in (c :: lb ++ d ++ r, k)
      end
    end
  end.
Definition find_and_delete (script b : bytes) : bytes * Z :=
  match b with
  | [] => (script, 0)
  | _ => fad_loop (S (length script)) script b
  end.

(* ------------------------------------------------------------------------------------------- *)
(* signature / public key encoding checks (interpreter.cpp) *)

Fixpoint be_decode_acc (acc : Z) (l : bytes) : Z :=
  match l with [] => acc | b :: r => be_decode_acc (256 * acc + b) r end.
Definition be_decode (l : bytes) : Z := be_decode_acc 0 l.

(* the (R, S) byte strings of  0x30 [total-length] 0x02 [R-length] [R] 0x02 [S-length] [S] [sighash]
   together with all the structural tests of IsValidSignatureEncoding; None = invalid encoding.
   bool static IsValidSignatureEncoding(const std::vector<unsigned char> &sig) {
     if (sig.size() < 9) return false;  if (sig.size() > 73) return false;
     if (sig[0] != 0x30) return false;  if (sig[1] != sig.size() - 3) return false;
     unsigned int lenR = sig[3];  if (5 + lenR >= sig.size()) return false;
     unsigned int lenS = sig[5 + lenR];  if ((size_t)(lenR + lenS + 7) != sig.size()) return false;
     if (sig[2] != 0x02) return false;  if (lenR == 0) return false;  if (sig[4] & 0x80) return false;
     if (lenR > 1 && (sig[4] == 0x00) && !(sig[5] & 0x80)) return false;
     if (sig[lenR + 4] != 0x02) return false;  if (lenS == 0) return false;  if (sig[lenR + 6] & 0x80) return false;
     if (lenS > 1 && (sig[lenR + 6] == 0x00) && !(sig[lenR + 7] & 0x80)) return false;
     return true; }
   (every failing test returns the same `false`, so their order is immaterial) *)
Definition der_int_ok (len : Z) (v : bytes) : bool :=
  match v with
  | [] => false
  | v0 :: vt =>
    if len =? 0 then false
    else if 128 <=? v0 then false
    else if (len >? 1) && (v0 =? 0) && negb (match vt with v1 :: _ => 128 <=? v1 | [] => false end) then false
    else true
  end.
Definition der_rs (sig : bytes) : option (bytes * bytes) :=
  let n := lenz sig in
  if (n <? 9) || (n >? 73) then None else
  match sig with
  | b0 :: b1 :: b2 :: lenR :: t4 =>
    if negb (b0 =? 48) || negb (b1 =? n - 3) || (5 + lenR >=? n) then None else
    match take_z t4 lenR with
    | Some (vR, m2 :: lenS :: t6) =>
      if negb (lenR + lenS + 7 =? n) || negb (b2 =? 2) || negb (m2 =? 2) then None else
      match take_z t6 lenS with
      | Some (vS, _) =>
        (* when lenR = 0 the "R" tests look at sig[4] = the marker byte; all of them are superseded by lenR == 0 *)
        if (lenR =? 0) || (lenS =? 0) then None
        else if der_int_ok lenR vR && der_int_ok lenS vS then Some (vR, vS) else None
      | None => None
      end
    | _ => None
    end
  | _ => None
  end.
Definition is_valid_signature_encoding (sig : bytes) : bool :=
  match der_rs sig with Some _ => true | None => false end.

(* bool CPubKey::CheckLowS(vchSig): ecdsa_signature_parse_der_lax then !secp256k1_ecdsa_signature_normalize.
   On a strictly DER-encoded signature the lax parser reads the same R and S; if either is >= the group
   order the parsed signature is replaced by zero (and zero is "low").  Otherwise low means S <= (n-1)/2. *)
Definition SECP256K1_ORDER : Z := 0xFFFFFFFFFFFFFFFFFFFFFFFFFFFFFFFEBAAEDCE6AF48A03BBFD25E8CD0364141.
Definition check_low_s (sig : bytes) : bool :=
  match der_rs sig with
  | None => false
  | Some (vR, vS) =>
    let r := be_decode vR in let s := be_decode vS in
    if (r >=? SECP256K1_ORDER) || (s >=? SECP256K1_ORDER) then true
    else s <=? (SECP256K1_ORDER - 1) / 2
  end.

(* bool static IsDefinedHashtypeSignature(const valtype &vchSig) {
     if (vchSig.size() == 0) return false;
     unsigned char nHashType = vchSig[vchSig.size() - 1] & (~(SIGHASH_ANYONECANPAY));
     if (nHashType < SIGHASH_ALL || nHashType > SIGHASH_SINGLE) return false;  return true; } *)
Definition is_defined_hashtype_signature (sig : bytes) : bool :=
  match rev sig with
  | [] => false
  | h :: _ => let t := if 128 <=? h then h - 128 else h in (1 <=? t) && (t <=? 3)
  end.

(* bool static IsCompressedOrUncompressedPubKey(const valtype &vchPubKey) {
     if (vchPubKey.size() < CPubKey::COMPRESSED_SIZE) return false;
     if (vchPubKey[0] == 0x04) { if (vchPubKey.size() != CPubKey::SIZE) return false; }
     else if (vchPubKey[0] == 0x02 || vchPubKey[0] == 0x03) { if (vchPubKey.size() != CPubKey::COMPRESSED_SIZE) return false; }
     else return false;
     return true; } *)
Definition is_compressed_or_uncompressed_pubkey (pk : bytes) : bool :=
  match pk with
  | [] => false
  | p0 :: _ =>
    let n := lenz pk in
    if n <? 33 then false
    else if p0 =? 4 then n =? 65
    else if (p0 =? 2) || (p0 =? 3) then n =? 33
    else false
  end.
(* bool static IsCompressedPubKey: size == 33 and first byte 2 or 3 *)
Definition is_compressed_pubkey (pk : bytes) : bool :=
  match pk with
  | [] => false
  | p0 :: _ => (lenz pk =? 33) && ((p0 =? 2) || (p0 =? 3))
  end.

(* bool CheckSignatureEncoding(const std::vector<unsigned char> &vchSig, script_verify_flags flags, ScriptError* serror) {
     if (vchSig.size() == 0) return true;
     if ((flags & (DERSIG | LOW_S | STRICTENC)) != 0 && !IsValidSignatureEncoding(vchSig)) return set_error(serror, SCRIPT_ERR_SIG_DER);
     else if ((flags & LOW_S) != 0 && !IsLowDERSignature(vchSig, serror)) return false;     // SIG_DER or SIG_HIGH_S
     else if ((flags & STRICTENC) != 0 && !IsDefinedHashtypeSignature(vchSig)) return set_error(serror, SCRIPT_ERR_SIG_HASHTYPE);
     return true; } *)
Definition check_signature_encoding (fl : Z) (sig : bytes) : result unit :=
  match sig with
  | [] => Ok tt
  | _ =>
    if (has fl SCR_FLAG_DERSIG || has fl SCR_FLAG_LOW_S || has fl SCR_FLAG_STRICTENC) && negb (is_valid_signature_encoding sig)
    then Err SE_SIG_DER
    else if has fl SCR_FLAG_LOW_S && negb (is_valid_signature_encoding sig) then Err SE_SIG_DER
    else if has fl SCR_FLAG_LOW_S && negb (check_low_s sig) then Err SE_SIG_HIGH_S
    else if has fl SCR_FLAG_STRICTENC && negb (is_defined_hashtype_signature sig) then Err SE_SIG_HASHTYPE
    else Ok tt
  end.

(* bool static CheckPubKeyEncoding(const valtype &vchPubKey, script_verify_flags flags, const SigVersion &sigversion, ScriptError* serror) {
     if ((flags & STRICTENC) != 0 && !IsCompressedOrUncompressedPubKey(vchPubKey)) return set_error(serror, SCRIPT_ERR_PUBKEYTYPE);
     if ((flags & WITNESS_PUBKEYTYPE) != 0 && sigversion == SigVersion::WITNESS_V0 && !IsCompressedPubKey(vchPubKey)) return set_error(serror, SCRIPT_ERR_WITNESS_PUBKEYTYPE);
     return true; } *)
Definition check_pubkey_encoding (fl : Z) (sv : sigversion) (pk : bytes) : result unit :=
  if has fl SCR_FLAG_STRICTENC && negb (is_compressed_or_uncompressed_pubkey pk) then Err SE_PUBKEYTYPE
  else if has fl SCR_FLAG_WITNESS_PUBKEYTYPE && is_v0 sv && negb (is_compressed_pubkey pk) then Err SE_WITNESS_PUBKEYTYPE
  else Ok tt.

(* ------------------------------------------------------------------------------------------- *)
(* opcodes, grouped the way the `case` labels of EvalScript's switch group them *)
Inductive unop := U_1ADD | U_1SUB | U_NEGATE | U_ABS | U_NOT | U_0NOTEQUAL.
Inductive binop := B_ADD | B_SUB | B_BOOLAND | B_BOOLOR | B_NUMEQUAL | B_NUMEQUALVERIFY | B_NUMNOTEQUAL
                 | B_LESSTHAN | B_GREATERTHAN | B_LESSTHANOREQUAL | B_GREATERTHANOREQUAL | B_MIN | B_MAX.
Inductive hashop := H_RIPEMD160 | H_SHA1 | H_SHA256 | H_HASH160 | H_HASH256.
Inductive opc :=
| O_PUSHDATA                 (* 0x00 .. OP_PUSHDATA4 *)
| O_SMALLINT (n : Z)         (* OP_1NEGATE (n = -1), OP_1 .. OP_16 *)
| O_NOP | O_CLTV | O_CSV | O_NOPN   (* OP_NOP1, OP_NOP4 .. OP_NOP10 *)
| O_IF | O_NOTIF | O_VERIF   (* OP_VERIF, OP_VERNOTIF: inside the IF..ENDIF range, no case label *)
| O_ELSE | O_ENDIF | O_VERIFY | O_RETURN
| O_TOALTSTACK | O_FROMALTSTACK | O_2DROP | O_2DUP | O_3DUP | O_2OVER | O_2ROT | O_2SWAP | O_IFDUP | O_DEPTH
| O_DROP | O_DUP | O_NIP | O_OVER | O_PICK | O_ROLL | O_ROT | O_SWAP | O_TUCK
| O_SIZE | O_EQUAL | O_EQUALVERIFY
| O_UNARY (u : unop) | O_BINARY (b : binop) | O_WITHIN
| O_HASH (h : hashop)
| O_CODESEPARATOR | O_CHECKSIG | O_CHECKSIGVERIFY | O_CHECKSIGADD | O_CHECKMULTISIG | O_CHECKMULTISIGVERIFY
| O_DISABLED                 (* CAT SUBSTR LEFT RIGHT INVERT AND OR XOR 2MUL 2DIV MUL DIV MOD LSHIFT RSHIFT *)
| O_BAD.                     (* no case label: OP_RESERVED, OP_VER, OP_RESERVED1/2, everything above OP_CHECKSIGADD *)

Definition decode_op (c : Z) : opc :=
  if c <=? 78 then O_PUSHDATA
  else if c =? 79 then O_SMALLINT (-1)
  else if c =? 80 then O_BAD
  else if c <=? 96 then O_SMALLINT (c - 80)      (* CScriptNum bn((int)opcode - (int)(OP_1 - 1)) *)
  else match c with
  | 97 => O_NOP | 98 => O_BAD | 99 => O_IF | 100 => O_NOTIF | 101 => O_VERIF | 102 => O_VERIF
  | 103 => O_ELSE | 104 => O_ENDIF | 105 => O_VERIFY | 106 => O_RETURN
  | 107 => O_TOALTSTACK | 108 => O_FROMALTSTACK | 109 => O_2DROP | 110 => O_2DUP | 111 => O_3DUP
  | 112 => O_2OVER | 113 => O_2ROT | 114 => O_2SWAP | 115 => O_IFDUP | 116 => O_DEPTH | 117 => O_DROP
  | 118 => O_DUP | 119 => O_NIP | 120 => O_OVER | 121 => O_PICK | 122 => O_ROLL | 123 => O_ROT
  | 124 => O_SWAP | 125 => O_TUCK
  | 126 => O_DISABLED | 127 => O_DISABLED | 128 => O_DISABLED | 129 => O_DISABLED
  | 130 => O_SIZE
  | 131 => O_DISABLED | 132 => O_DISABLED | 133 => O_DISABLED | 134 => O_DISABLED
  | 135 => O_EQUAL | 136 => O_EQUALVERIFY | 137 => O_BAD | 138 => O_BAD
  | 139 => O_UNARY U_1ADD | 140 => O_UNARY U_1SUB | 141 => O_DISABLED | 142 => O_DISABLED
  | 143 => O_UNARY U_NEGATE | 144 => O_UNARY U_ABS | 145 => O_UNARY U_NOT | 146 => O_UNARY U_0NOTEQUAL
  | 147 => O_BINARY B_ADD | 148 => O_BINARY B_SUB
  | 149 => O_DISABLED | 150 => O_DISABLED | 151 => O_DISABLED | 152 => O_DISABLED | 153 => O_DISABLED
  | 154 => O_BINARY B_BOOLAND | 155 => O_BINARY B_BOOLOR | 156 => O_BINARY B_NUMEQUAL
  | 157 => O_BINARY B_NUMEQUALVERIFY | 158 => O_BINARY B_NUMNOTEQUAL | 159 => O_BINARY B_LESSTHAN
  | 160 => O_BINARY B_GREATERTHAN | 161 => O_BINARY B_LESSTHANOREQUAL | 162 => O_BINARY B_GREATERTHANOREQUAL
  | 163 => O_BINARY B_MIN | 164 => O_BINARY B_MAX | 165 => O_WITHIN
  | 166 => O_HASH H_RIPEMD160 | 167 => O_HASH H_SHA1 | 168 => O_HASH H_SHA256 | 169 => O_HASH H_HASH160
  | 170 => O_HASH H_HASH256 | 171 => O_CODESEPARATOR | 172 => O_CHECKSIG | 173 => O_CHECKSIGVERIFY
  | 174 => O_CHECKMULTISIG | 175 => O_CHECKMULTISIGVERIFY
  | 176 => O_NOPN | 177 => O_CLTV | 178 => O_CSV | 179 => O_NOPN | 180 => O_NOPN | 181 => O_NOPN
  | 182 => O_NOPN | 183 => O_NOPN | 184 => O_NOPN | 185 => O_NOPN
  | 186 => O_CHECKSIGADD
  | _ => O_BAD
  end.

(* ------------------------------------------------------------------------------------------- *)
(* BaseSignatureChecker: the part of the environment that is not script logic.
   chk_ecdsa sig pubkey scriptCode sigversion        = checker.CheckECDSASignature(...)
   chk_schnorr sig pubkey codeseparator_pos          = None when CheckSchnorrSignature returns true,
                                                       Some e when it returns false having set *serror = e
   chk_schnorr_keypath sig program                   = the same for the taproot key-path call (SigVersion::TAPROOT)
   chk_locktime n / chk_sequence n                   = checker.CheckLockTime / CheckSequence
   (The real Schnorr checker also reads the annex and tapleaf hash from execdata; these are fixed for one spend,
   so a `checker` value stands for the checker of one particular spend.) *)
Record checker := {
  chk_ecdsa : bytes -> bytes -> bytes -> sigversion -> bool;
  chk_schnorr : bytes -> bytes -> Z -> option script_error;
  chk_schnorr_keypath : bytes -> bytes -> option script_error;
  chk_locktime : Z -> bool;
  chk_sequence : Z -> bool
}.

(* Execution state of one EvalScript call.
   ConditionStack is modelled as the code implements it: the size of the implied stack of booleans and
   the position of the first false in it (NO_FALSE = uint32 max when all true). *)
Definition NO_FALSE : Z := 4294967295.
Record state := {
  st_stack : list bytes;        (* stack, top first *)
  st_alt : list bytes;          (* altstack, top first *)
  st_cond_size : Z;             (* vfExec.m_stack_size *)
  st_cond_ff : Z;               (* vfExec.m_first_false_pos *)
  st_opcount : Z;               (* nOpCount *)
  st_code : bytes;              (* [pbegincodehash, pend) *)
  st_pos : Z;                   (* opcode_pos *)
  st_codesep_pos : Z;           (* execdata.m_codeseparator_pos *)
  st_weight : Z                 (* execdata.m_validation_weight_left *)
}.
Definition set_stack (st : state) (s : list bytes) : state :=
  {| st_stack := s; st_alt := st_alt st; st_cond_size := st_cond_size st; st_cond_ff := st_cond_ff st;
     st_opcount := st_opcount st; st_code := st_code st; st_pos := st_pos st;
     st_codesep_pos := st_codesep_pos st; st_weight := st_weight st |}.
Definition set_stacks (st : state) (s a : list bytes) : state :=
  {| st_stack := s; st_alt := a; st_cond_size := st_cond_size st; st_cond_ff := st_cond_ff st;
     st_opcount := st_opcount st; st_code := st_code st; st_pos := st_pos st;
     st_codesep_pos := st_codesep_pos st; st_weight := st_weight st |}.
Definition set_cond (st : state) (size ff : Z) : state :=
  {| st_stack := st_stack st; st_alt := st_alt st; st_cond_size := size; st_cond_ff := ff;
     st_opcount := st_opcount st; st_code := st_code st; st_pos := st_pos st;
     st_codesep_pos := st_codesep_pos st; st_weight := st_weight st |}.
Definition set_opcount (st : state) (n : Z) : state :=
  {| st_stack := st_stack st; st_alt := st_alt st; st_cond_size := st_cond_size st; st_cond_ff := st_cond_ff st;
     st_opcount := n; st_code := st_code st; st_pos := st_pos st;
     st_codesep_pos := st_codesep_pos st; st_weight := st_weight st |}.
Definition set_codesep (st : state) (code : bytes) (pos : Z) : state :=
  {| st_stack := st_stack st; st_alt := st_alt st; st_cond_size := st_cond_size st; st_cond_ff := st_cond_ff st;
     st_opcount := st_opcount st; st_code := code; st_pos := st_pos st;
     st_codesep_pos := pos; st_weight := st_weight st |}.
Definition set_weight (st : state) (w : Z) : state :=
  {| st_stack := st_stack st; st_alt := st_alt st; st_cond_size := st_cond_size st; st_cond_ff := st_cond_ff st;
     st_opcount := st_opcount st; st_code := st_code st; st_pos := st_pos st;
     st_codesep_pos := st_codesep_pos st; st_weight := w |}.
Definition set_pos (st : state) (p : Z) : state :=
  {| st_stack := st_stack st; st_alt := st_alt st; st_cond_size := st_cond_size st; st_cond_ff := st_cond_ff st;
     st_opcount := st_opcount st; st_code := st_code st; st_pos := p;
     st_codesep_pos := st_codesep_pos st; st_weight := st_weight st |}.

(* ConditionStack *)
Definition cond_empty (st : state) : bool := st_cond_size st =? 0.
Definition cond_all_true (st : state) : bool := st_cond_ff st =? NO_FALSE.
(* void push_back(bool f) { if (m_first_false_pos == NO_FALSE && !f) m_first_false_pos = m_stack_size; ++m_stack_size; } *)
Definition cond_push (st : state) (f : bool) : state :=
  let ff := if (st_cond_ff st =? NO_FALSE) && negb f then st_cond_size st else st_cond_ff st in
  set_cond st (wrapu32 (st_cond_size st + 1)) ff.
(* void pop_back() { --m_stack_size; if (m_first_false_pos == m_stack_size) m_first_false_pos = NO_FALSE; } *)
Definition cond_pop (st : state) : state :=
  let sz := st_cond_size st - 1 in
  set_cond st sz (if st_cond_ff st =? sz then NO_FALSE else st_cond_ff st).
(* void toggle_top() { if (m_first_false_pos == NO_FALSE) m_first_false_pos = m_stack_size - 1;
                       else if (m_first_false_pos == m_stack_size - 1) m_first_false_pos = NO_FALSE;
                       else { /* a false below the top: toggling the top is unobservable */ } } *)
Definition cond_toggle (st : state) : state :=
  let ff := if st_cond_ff st =? NO_FALSE then st_cond_size st - 1
            else if st_cond_ff st =? st_cond_size st - 1 then NO_FALSE
            else st_cond_ff st in
  set_cond st (st_cond_size st) ff.

Section Interp.
(* CSHA256, CRIPEMD160, CSHA1 as functions from byte strings to byte strings *)
Variable sha256 : bytes -> bytes.
Variable ripemd160 : bytes -> bytes.
Variable sha1 : bytes -> bytes.

Definition hash_of (h : hashop) (v : bytes) : bytes :=
  match h with
  | H_RIPEMD160 => ripemd160 v
  | H_SHA1 => sha1 v
  | H_SHA256 => sha256 v
  | H_HASH160 => ripemd160 (sha256 v)      (* CHash160 *)
  | H_HASH256 => sha256 (sha256 v)         (* CHash256 *)
  end.

Variable fl : Z.            (* script_verify_flags *)
Variable ck : checker.
Variable sv : sigversion.

Definition require_minimal : bool := has fl SCR_FLAG_MINIMALDATA.   (* fRequireMinimal *)
Definition num4 (v : bytes) : result Z := script_num require_minimal SCR_DEFAULT_MAX_NUM_SIZE v.
Definition num5 (v : bytes) : result Z := script_num require_minimal 5 v.
Definition push_num (n : Z) (s : list bytes) : list bytes := num_encode n :: s.

(* arithmetic: int64 in C++; the operands are at most 4 bytes, so nothing can wrap (proved); the wraps
   are written where the C++ computes in int64 *)
Definition bool_z (b : bool) : Z := if b then 1 else 0.
Definition unop_apply (u : unop) (n : Z) : Z :=
  match u with
  | U_1ADD => wrap64 (n + 1)                (* bn += bnOne *)
  | U_1SUB => wrap64 (n - 1)                (* bn -= bnOne *)
  | U_NEGATE => wrap64 (- n)                (* bn = -bn *)
  | U_ABS => if n <? 0 then wrap64 (- n) else n
  | U_NOT => bool_z (n =? 0)
  | U_0NOTEQUAL => bool_z (negb (n =? 0))
  end.
Definition binop_apply (b : binop) (n1 n2 : Z) : Z :=
  match b with
  | B_ADD => wrap64 (n1 + n2)
  | B_SUB => wrap64 (n1 - n2)
  | B_BOOLAND => bool_z (negb (n1 =? 0) && negb (n2 =? 0))
  | B_BOOLOR => bool_z (negb (n1 =? 0) || negb (n2 =? 0))
  | B_NUMEQUAL => bool_z (n1 =? n2)
  | B_NUMEQUALVERIFY => bool_z (n1 =? n2)
  | B_NUMNOTEQUAL => bool_z (negb (n1 =? n2))
  | B_LESSTHAN => bool_z (n1 <? n2)
  | B_GREATERTHAN => bool_z (n1 >? n2)
  | B_LESSTHANOREQUAL => bool_z (n1 <=? n2)
  | B_GREATERTHANOREQUAL => bool_z (n1 >=? n2)
  | B_MIN => if n1 <? n2 then n1 else n2
  | B_MAX => if n1 >? n2 then n1 else n2
  end.

(* static bool EvalChecksigPreTapscript(vchSig, vchPubKey, pbegincodehash, pend, flags, checker, sigversion, serror, fSuccess)
   { CScript scriptCode(pbegincodehash, pend);
     if (sigversion == SigVersion::BASE) {
       int found = FindAndDelete(scriptCode, CScript() << vchSig);
       if (found > 0 && (flags & SCRIPT_VERIFY_CONST_SCRIPTCODE)) return set_error(serror, SCRIPT_ERR_SIG_FINDANDDELETE); }
     if (!CheckSignatureEncoding(vchSig, flags, serror) || !CheckPubKeyEncoding(vchPubKey, flags, sigversion, serror)) return false;
     fSuccess = checker.CheckECDSASignature(vchSig, vchPubKey, scriptCode, sigversion);
     if (!fSuccess && (flags & SCRIPT_VERIFY_NULLFAIL) && vchSig.size()) return set_error(serror, SCRIPT_ERR_SIG_NULLFAIL);
     return true; } *)
Definition nonempty (v : bytes) : bool := match v with [] => false | _ => true end.
Definition script_code_del (code sig : bytes) : result bytes :=
  if is_base sv then
    let '(c, found) := find_and_delete code (push_encoding sig) in
    guard ((found >? 0) && has fl SCR_FLAG_CONST_SCRIPTCODE) SE_SIG_FINDANDDELETE (Ok c)
  else Ok code.
Definition eval_checksig_pre (sig pk : bytes) (st : state) : result (bool * state) :=
  do code <- script_code_del (st_code st) sig;
  do _ <- check_signature_encoding fl sig;
  do _ <- check_pubkey_encoding fl sv pk;
  let ok := chk_ecdsa ck sig pk code sv in
  guard (negb ok && has fl SCR_FLAG_NULLFAIL && nonempty sig) SE_SIG_NULLFAIL (Ok (ok, st)).

(* static bool EvalChecksigTapscript(sig, pubkey, execdata, flags, checker, sigversion, serror, success)
   { success = !sig.empty();
     if (success) { execdata.m_validation_weight_left -= VALIDATION_WEIGHT_PER_SIGOP_PASSED;
                    if (execdata.m_validation_weight_left < 0) return set_error(serror, SCRIPT_ERR_TAPSCRIPT_VALIDATION_WEIGHT); }
     if (pubkey.size() == 0) return set_error(serror, SCRIPT_ERR_TAPSCRIPT_EMPTY_PUBKEY);
     else if (pubkey.size() == 32) { if (success && !checker.CheckSchnorrSignature(sig, pubkey, sigversion, execdata, serror)) return false; }
     else { if ((flags & SCRIPT_VERIFY_DISCOURAGE_UPGRADABLE_PUBKEYTYPE) != 0) return set_error(serror, SCRIPT_ERR_DISCOURAGE_UPGRADABLE_PUBKEYTYPE); }
     return true; } *)
Definition eval_checksig_tapscript (sig pk : bytes) (st : state) : result (bool * state) :=
  let success := nonempty sig in
  let w := if success then wrap64 (st_weight st - SCR_VALIDATION_WEIGHT_PER_SIGOP_PASSED) else st_weight st in
  guard (success && (w <? 0)) SE_TAPSCRIPT_VALIDATION_WEIGHT
  (let st' := set_weight st w in
   if lenz pk =? 0 then Err SE_TAPSCRIPT_EMPTY_PUBKEY
   else if lenz pk =? 32 then
     if success then
       match chk_schnorr ck sig pk (st_codesep_pos st) with
       | None => Ok (success, st')
       | Some e => Err e
       end
     else Ok (success, st')
   else guard (has fl SCR_FLAG_DISCOURAGE_UPGRADABLE_PUBKEYTYPE) SE_DISCOURAGE_UPGRADABLE_PUBKEYTYPE (Ok (success, st'))).

Definition eval_checksig (sig pk : bytes) (st : state) : result (bool * state) :=
  match sv with
  | SV_BASE | SV_WITNESS_V0 => eval_checksig_pre sig pk st
  | SV_TAPSCRIPT => eval_checksig_tapscript sig pk st
  end.

(* OP_CHECKMULTISIG: the signature/key matching loop
     bool fSuccess = true;
     while (fSuccess && nSigsCount > 0) {
       valtype& vchSig = stacktop(-isig); valtype& vchPubKey = stacktop(-ikey);
       if (!CheckSignatureEncoding(vchSig, flags, serror) || !CheckPubKeyEncoding(vchPubKey, flags, sigversion, serror)) return false;
       bool fOk = checker.CheckECDSASignature(vchSig, vchPubKey, scriptCode, sigversion);
       if (fOk) { isig++; nSigsCount--; }
       ikey++; nKeysCount--;
       if (nSigsCount > nKeysCount) fSuccess = false; }
   sigs / keys are the not-yet-matched signatures and keys, topmost first (isig.., ikey..). *)
Fixpoint multisig_loop (code : bytes) (keys sigs : list bytes) : result bool :=
  match sigs with
  | [] => Ok true
  | sig :: sigs' =>
    match keys with
    | [] => Ok false
    | key :: keys' =>
      do _ <- check_signature_encoding fl sig;
      do _ <- check_pubkey_encoding fl sv key;
      let ok := chk_ecdsa ck sig key code sv in
      let sigs2 := if ok then sigs' else sigs in
      if lenz sigs2 >? lenz keys' then Ok false else multisig_loop code keys' sigs2
    end
  end.

(* for (int k = 0; k < nSigsCount; k++) { valtype& vchSig = stacktop(-isig-k);
     if (sigversion == SigVersion::BASE) { int found = FindAndDelete(scriptCode, CScript() << vchSig);
        if (found > 0 && (flags & SCRIPT_VERIFY_CONST_SCRIPTCODE)) return set_error(serror, SCRIPT_ERR_SIG_FINDANDDELETE); } } *)
Fixpoint script_code_del_all (code : bytes) (sigs : list bytes) : result bytes :=
  match sigs with
  | [] => Ok code
  | sig :: r => do c <- script_code_del code sig; script_code_del_all c r
  end.

(* the first n elements of a stack and the rest; None if there are fewer *)
Fixpoint take_n {A} (l : list A) (n : Z) : option (list A * list A) :=
  if n <=? 0 then Some ([], l)
  else match l with
       | [] => None
       | x :: t => match take_n t (n - 1) with Some (a, b) => Some (x :: a, b) | None => None end
       end.

(* case OP_CHECKMULTISIG / OP_CHECKMULTISIGVERIFY  ([sig ...] num_of_signatures [pubkey ...] num_of_pubkeys -- bool)
   Returns the stack with the result pushed (before the VERIFY part) and the new nOpCount. *)
Definition eval_checkmultisig (st : state) : result (bool * state) :=
  guard (is_tapscript sv) SE_TAPSCRIPT_CHECKMULTISIG
  (match st_stack st with
  | [] => Err SE_INVALID_STACK_OPERATION                       (* (int)stack.size() < 1 *)
  | vk :: s1 =>
    do nk0 <- num4 vk;
    let nk := getint nk0 in
    guard ((nk <? 0) || (nk >? MAX_PUBKEYS_PER_MULTISIG)) SE_PUBKEY_COUNT
    (let opc := st_opcount st + nk in                            (* nOpCount += nKeysCount *)
     guard (opc >? MAX_OPS_PER_SCRIPT) SE_OP_COUNT
     (match take_n s1 nk with                                     (* i = 2 + nKeys; stack.size() < i *)
     | Some (keys, vs :: s2) =>
       do ns0 <- num4 vs;
       let ns := getint ns0 in
       guard ((ns <? 0) || (ns >? nk)) SE_SIG_COUNT
       (match take_n s2 ns with                                   (* i = 3 + nKeys + nSigs; stack.size() < i : the dummy is counted *)
       | Some (sigs, dummy :: s3) =>
         do code <- script_code_del_all (st_code st) sigs;
         do ok <- multisig_loop code keys sigs;
         (* cleanup loop: the nSigs signatures are the last elements popped (ikey2 == 0) *)
         guard (negb ok && has fl SCR_FLAG_NULLFAIL && existsb nonempty sigs) SE_SIG_NULLFAIL
         (guard (has fl SCR_FLAG_NULLDUMMY && nonempty dummy) SE_SIG_NULLDUMMY
          (Ok (ok, set_opcount (set_stack st (vch_of_bool ok :: s3)) opc)))
       | _ => Err SE_INVALID_STACK_OPERATION
       end)
     | _ => Err SE_INVALID_STACK_OPERATION
     end))
  end).

(* "(fSuccess) popstack(stack); else return set_error(serror, <verify error>)" after a bool was pushed *)
Definition verify_top (ok : bool) (e : script_error) (st : state) : result state :=
  if ok then match st_stack st with _ :: r => Ok (set_stack st r) | [] => Err SE_UNKNOWN_ERROR end
  else Err e.

Definition invalid_stack {A} : result A := Err SE_INVALID_STACK_OPERATION.

(* the body of `switch (opcode)` for an executed non-push opcode, or IF..ENDIF when not executing.
   p is the instruction, fexec = vfExec.all_true() at the start of the iteration. *)
Definition exec_op (p : pop) (o : opc) (fexec : bool) (st : state) : result state :=
  let stk := st_stack st in
  match o with
  | O_PUSHDATA => Err SE_UNKNOWN_ERROR            (* handled before the switch; not reachable *)
  | O_SMALLINT n => Ok (set_stack st (push_num n stk))
  | O_NOP => Ok st
  | O_CLTV =>
    if negb (has fl SCR_FLAG_CHECKLOCKTIMEVERIFY) then Ok st      (* not enabled; treat as a NOP2 *)
    else match stk with
         | [] => invalid_stack
         | top :: _ =>
           do n <- num5 top;
           guard (n <? 0) SE_NEGATIVE_LOCKTIME
           (guard (negb (chk_locktime ck n)) SE_UNSATISFIED_LOCKTIME (Ok st))
         end
  | O_CSV =>
    if negb (has fl SCR_FLAG_CHECKSEQUENCEVERIFY) then Ok st
    else match stk with
         | [] => invalid_stack
         | top :: _ =>
           do n <- num5 top;
           guard (n <? 0) SE_NEGATIVE_LOCKTIME
           (if negb (Z.land n SCR_SEQUENCE_LOCKTIME_DISABLE_FLAG =? 0) then Ok st
            else guard (negb (chk_sequence ck n)) SE_UNSATISFIED_LOCKTIME (Ok st))
         end
  | O_NOPN => guard (has fl SCR_FLAG_DISCOURAGE_UPGRADABLE_NOPS) SE_DISCOURAGE_UPGRADABLE_NOPS (Ok st)
  | O_IF | O_NOTIF =>
    if fexec then
      match stk with
      | [] => invalid_stack
      | vch :: r =>
        (* tapscript: consensus minimal IF; witness v0: policy (MINIMALIF) *)
        guard (is_tapscript sv && ((lenz vch >? 1) || match vch with [b] => negb (b =? 1) | _ => false end)) SE_TAPSCRIPT_MINIMALIF
        (guard (is_v0 sv && has fl SCR_FLAG_MINIMALIF && ((lenz vch >? 1) || match vch with [b] => negb (b =? 1) | _ => false end)) SE_MINIMALIF
         (let v := cast_to_bool vch in
          let v := match o with O_NOTIF => negb v | _ => v end in
          Ok (cond_push (set_stack st r) v)))
      end
    else Ok (cond_push st false)
  | O_VERIF => Err SE_BAD_OPCODE
  | O_ELSE => guard (cond_empty st) SE_UNBALANCED_CONDITIONAL (Ok (cond_toggle st))
  | O_ENDIF => guard (cond_empty st) SE_UNBALANCED_CONDITIONAL (Ok (cond_pop st))
  | O_VERIFY =>
    match stk with
    | [] => invalid_stack
    | top :: r => if cast_to_bool top then Ok (set_stack st r) else Err SE_VERIFY
    end
  | O_RETURN => Err SE_OP_RETURN
  | O_TOALTSTACK =>
    match stk with [] => invalid_stack | x :: r => Ok (set_stacks st r (x :: st_alt st)) end
  | O_FROMALTSTACK =>
    match st_alt st with [] => Err SE_INVALID_ALTSTACK_OPERATION | x :: a => Ok (set_stacks st (x :: stk) a) end
  | O_2DROP => match stk with _ :: _ :: r => Ok (set_stack st r) | _ => invalid_stack end
  | O_2DUP => match stk with x2 :: x1 :: r => Ok (set_stack st (x2 :: x1 :: x2 :: x1 :: r)) | _ => invalid_stack end
  | O_3DUP => match stk with x3 :: x2 :: x1 :: r => Ok (set_stack st (x3 :: x2 :: x1 :: x3 :: x2 :: x1 :: r)) | _ => invalid_stack end
  | O_2OVER => match stk with x4 :: x3 :: x2 :: x1 :: r => Ok (set_stack st (x2 :: x1 :: x4 :: x3 :: x2 :: x1 :: r)) | _ => invalid_stack end
  | O_2ROT => match stk with x6 :: x5 :: x4 :: x3 :: x2 :: x1 :: r => Ok (set_stack st (x2 :: x1 :: x6 :: x5 :: x4 :: x3 :: r)) | _ => invalid_stack end
  | O_2SWAP => match stk with x4 :: x3 :: x2 :: x1 :: r => Ok (set_stack st (x2 :: x1 :: x4 :: x3 :: r)) | _ => invalid_stack end
  | O_IFDUP => match stk with x :: r => Ok (set_stack st (if cast_to_bool x then x :: x :: r else x :: r)) | _ => invalid_stack end
  | O_DEPTH => Ok (set_stack st (push_num (lenz stk) stk))
  | O_DROP => match stk with _ :: r => Ok (set_stack st r) | _ => invalid_stack end
  | O_DUP => match stk with x :: r => Ok (set_stack st (x :: x :: r)) | _ => invalid_stack end
  | O_NIP => match stk with x2 :: _ :: r => Ok (set_stack st (x2 :: r)) | _ => invalid_stack end
  | O_OVER => match stk with x2 :: x1 :: r => Ok (set_stack st (x1 :: x2 :: x1 :: r)) | _ => invalid_stack end
  | O_PICK | O_ROLL =>
    (* if (stack.size() < 2) INVALID_STACK_OPERATION; int n = CScriptNum(stacktop(-1), fRequireMinimal).getint(); popstack(stack);
       if (n < 0 || n >= (int)stack.size()) INVALID_STACK_OPERATION;
       valtype vch = stacktop(-n-1); if (opcode == OP_ROLL) stack.erase(stack.end()-n-1); stack.push_back(vch); *)
    match stk with
    | vn :: ((_ :: _) as r) =>
      do n0 <- num4 vn;
      let n := getint n0 in
      if (n <? 0) || (n >=? lenz r) then invalid_stack
      else match nth_error r (Z.to_nat n) with
           | None => Err SE_UNKNOWN_ERROR           (* stack.at() would throw: not reachable *)
           | Some vch =>
             match o with
             | O_ROLL => Ok (set_stack st (vch :: firstn (Z.to_nat n) r ++ skipn (S (Z.to_nat n)) r))
             | _ => Ok (set_stack st (vch :: r))
             end
           end
    | _ => invalid_stack
    end
  | O_ROT => match stk with x3 :: x2 :: x1 :: r => Ok (set_stack st (x1 :: x3 :: x2 :: r)) | _ => invalid_stack end
  | O_SWAP => match stk with x2 :: x1 :: r => Ok (set_stack st (x1 :: x2 :: r)) | _ => invalid_stack end
  | O_TUCK => match stk with x2 :: x1 :: r => Ok (set_stack st (x2 :: x1 :: x2 :: r)) | _ => invalid_stack end
  | O_SIZE => match stk with x :: r => Ok (set_stack st (push_num (lenz x) (x :: r))) | _ => invalid_stack end
  | O_EQUAL | O_EQUALVERIFY =>
    match stk with
    | x2 :: x1 :: r =>
      let eq := bytes_eqb x1 x2 in                 (* bool fEqual = (vch1 == vch2); *)
      let st' := set_stack st (vch_of_bool eq :: r) in
      match o with O_EQUALVERIFY => verify_top eq SE_EQUALVERIFY st' | _ => Ok st' end
    | _ => invalid_stack
    end
  | O_UNARY u =>
    match stk with
    | x :: r => do n <- num4 x; Ok (set_stack st (push_num (unop_apply u n) r))
    | _ => invalid_stack
    end
  | O_BINARY b =>
    match stk with
    | x2 :: x1 :: r =>
      do n1 <- num4 x1; do n2 <- num4 x2;
      let res := num_encode (binop_apply b n1 n2) in
      let st' := set_stack st (res :: r) in
      match b with B_NUMEQUALVERIFY => verify_top (cast_to_bool res) SE_NUMEQUALVERIFY st' | _ => Ok st' end
    | _ => invalid_stack
    end
  | O_WITHIN =>
    match stk with
    | x3 :: x2 :: x1 :: r =>
      do n1 <- num4 x1; do n2 <- num4 x2; do n3 <- num4 x3;
      Ok (set_stack st (vch_of_bool ((n2 <=? n1) && (n1 <? n3)) :: r))
    | _ => invalid_stack
    end
  | O_HASH h => match stk with x :: r => Ok (set_stack st (hash_of h x :: r)) | _ => invalid_stack end
  | O_CODESEPARATOR => Ok (set_codesep st (p_rest p) (st_pos st))     (* pbegincodehash = pc; m_codeseparator_pos = opcode_pos *)
  | O_CHECKSIG | O_CHECKSIGVERIFY =>
    match stk with
    | pk :: sig :: r =>
      do res <- eval_checksig sig pk st;
      let '(ok, st1) := res in
      let st' := set_stack st1 (vch_of_bool ok :: r) in
      match o with O_CHECKSIGVERIFY => verify_top ok SE_CHECKSIGVERIFY st' | _ => Ok st' end
    | _ => invalid_stack
    end
  | O_CHECKSIGADD =>
    if negb (is_tapscript sv) then Err SE_BAD_OPCODE
    else match stk with
         | pk :: vnum :: sig :: r =>
           do num <- num4 vnum;
           do res <- eval_checksig sig pk st;
           let '(ok, st1) := res in
           Ok (set_stack st1 (push_num (wrap64 (num + bool_z ok)) r))
         | _ => invalid_stack
         end
  | O_CHECKMULTISIG | O_CHECKMULTISIGVERIFY =>
    do res <- eval_checkmultisig st;
    let '(ok, st') := res in
    match o with O_CHECKMULTISIGVERIFY => verify_top ok SE_CHECKMULTISIGVERIFY st' | _ => Ok st' end
  | O_DISABLED => Err SE_DISABLED_OPCODE           (* rejected before the switch; kept for totality *)
  | O_BAD => Err SE_BAD_OPCODE                     (* default: *)
  end.

(* one iteration of `for (; pc < pend; ++opcode_pos)` after a successful GetOp *)
Definition in_if_range (c : Z) : bool := (99 <=? c) && (c <=? 104).      (* OP_IF <= opcode && opcode <= OP_ENDIF *)
Definition step (p : pop) (st : state) : result state :=
  let c := p_code p in
  let o := decode_op c in
  let fexec := cond_all_true st in
  guard (lenz (p_data p) >? MAX_SCRIPT_ELEMENT_SIZE) SE_PUSH_SIZE
  (* if (sigversion == BASE || WITNESS_V0) { if (opcode > OP_16 && ++nOpCount > MAX_OPS_PER_SCRIPT) OP_COUNT } *)
  (let counted := negb (is_tapscript sv) && (c >? 96) in
   let opcnt := if counted then st_opcount st + 1 else st_opcount st in
   guard (counted && (opcnt >? MAX_OPS_PER_SCRIPT)) SE_OP_COUNT
   (let st := set_opcount st opcnt in
    guard (match o with O_DISABLED => true | _ => false end) SE_DISABLED_OPCODE
    (guard (match o with O_CODESEPARATOR => is_base sv && has fl SCR_FLAG_CONST_SCRIPTCODE | _ => false end) SE_OP_CODESEPARATOR
     (do st' <-
        (if fexec && (c <=? 78) then
           guard (require_minimal && negb (check_minimal_push (p_data p) c)) SE_MINIMALDATA
                 (Ok (set_stack st (p_data p :: st_stack st)))
         else if fexec || in_if_range c then exec_op p o fexec st
         else Ok st);
      guard (lenz (st_stack st') + lenz (st_alt st') >? MAX_STACK_SIZE) SE_STACK_SIZE
            (Ok (set_pos st' (wrapu32 (st_pos st' + 1)))))))).

Fixpoint eval_ops (ops : list pop) (tail_ok : bool) (st : state) : result state :=
  match ops with
  | [] => if tail_ok then Ok st else Err SE_BAD_OPCODE       (* if (!script.GetOp(pc, opcode, vchPushValue)) BAD_OPCODE *)
  | p :: r => do st' <- step p st; eval_ops r tail_ok st'
  end.

Definition init_state (script : bytes) (stack : list bytes) (weight : Z) : state :=
  {| st_stack := stack; st_alt := []; st_cond_size := 0; st_cond_ff := NO_FALSE; st_opcount := 0;
     st_code := script; st_pos := 0; st_codesep_pos := 4294967295; st_weight := weight |}.

(* bool EvalScript(stack, script, flags, checker, sigversion, execdata, serror)
   weight = execdata.m_validation_weight_left on entry (tapscript only). *)
Definition eval_script_state (script : bytes) (stack : list bytes) (weight : Z) : result state :=
  guard (negb (is_tapscript sv) && (lenz script >? MAX_SCRIPT_SIZE)) SE_SCRIPT_SIZE
  (let '(ops, ok) := parse_script script in
   do st <- eval_ops ops ok (init_state script stack weight);
   guard (negb (cond_empty st)) SE_UNBALANCED_CONDITIONAL (Ok st)).

Definition eval_script (script : bytes) (stack : list bytes) : result (list bytes) :=
  do st <- eval_script_state script stack 0; Ok (st_stack st).

End Interp.

(* ------------------------------------------------------------------------------------------- *)
(* The stub BaseSignatureChecker used by the correspondence (tie/drivers/script_drv.cpp implements the
   same function in C++): a deterministic function of the bytes it is given and of the 32 oracle bits
   of the case line, so that both sides see the same answers.  It depends on the scriptCode (length and
   byte sum), which makes FindAndDelete and OP_CODESEPARATOR observable. *)
Definition byte0 (v : bytes) : Z := match v with b :: _ => b | [] => 0 end.
Fixpoint sumz (l : bytes) : Z := match l with [] => 0 | b :: r => b + sumz r end.
Definition sv_index (sv : sigversion) : Z := match sv with SV_BASE => 0 | SV_WITNESS_V0 => 1 | SV_TAPSCRIPT => 3 end.
Definition stub_checker (obits : Z) : checker := {|
  chk_ecdsa := fun sig pk code sv =>
    match sig with
    | [] => false
    | _ => Z.testbit obits ((byte0 sig + 3 * byte0 pk + lenz code + sumz code + sv_index sv) mod 32)
    end;
  chk_schnorr := fun sig pk cpos =>
    if Z.testbit obits ((byte0 sig + 5 * byte0 pk + cpos) mod 32) then None
    else Some (if Z.even (byte0 sig) then SE_SCHNORR_SIG else SE_SCHNORR_SIG_HASHTYPE);
  chk_schnorr_keypath := fun sig _ =>
    if Z.testbit obits ((byte0 sig + 11) mod 32) then None
    else Some (if Z.even (byte0 sig) then SE_SCHNORR_SIG else SE_SCHNORR_SIG_SIZE);
  chk_locktime := fun n => Z.testbit obits (n mod 32);
  chk_sequence := fun n => Z.testbit obits ((n + 7) mod 32)
|}.
