(* Text codecs.  Transcribed from
     src/crypto/hex_base.cpp      HexStr, HexDigit (table generated from the compiled tree)
     src/util/strencodings.cpp    TryParseHex, EncodeBase64, DecodeBase64, EncodeBase32, DecodeBase32
     src/util/strencodings.h      ConvertBits, IsSpace, ToLower
   Characters are N (their byte value), strings are `list N`.  Definitions only. *)
From Coq Require Import NArith.
From BV Require Import lib.Ints gen.Params_gen model.SerBase.
Local Open Scope Z_scope.

(* constexpr inline bool IsSpace(char c) { return c == ' ' || c == '\f' || c == '\n' || c == '\r' || c == '\t' || c == '\v'; } *)
Definition is_space (c : N) : bool :=
  ((c =? 32) || (c =? 12) || (c =? 10) || (c =? 13) || (c =? 9) || (c =? 11))%N.

(* constexpr char ToLower(char c) { return (c >= 'A' && c <= 'Z' ? (c - 'A') + 'a' : c); } *)
Definition to_lower (c : N) : N := if ((65 <=? c) && (c <=? 90))%N then (c - 65 + 97)%N else c.

(* ---- hex ----
   constexpr char hexmap[16] = {'0',...,'9','a',...,'f'};  byte_to_hex[i] = {hexmap[i >> 4], hexmap[i & 15]}
   std::string HexStr(span<const uint8_t> s): for (uint8_t v : s) append byte_to_hex[v] *)
Definition hexmap : list N := [48; 49; 50; 51; 52; 53; 54; 55; 56; 57; 97; 98; 99; 100; 101; 102]%N.
Definition hex_char (v : N) : N := nth (N.to_nat v) hexmap 0%N.   (* v < 16 at both uses *)
Definition hex_str (s : list N) : list N :=
  flat_map (fun b => [hex_char (N.shiftr b 4); hex_char (N.land b 15)]) s.

(* signed char HexDigit(char c) { return p_util_hexdigit[(unsigned char)c]; }
   HEXDIGIT_TABLE is printed from the compiled tree (HexDigit(0..255)). *)
Definition hex_digit (c : N) : Z := nth (N.to_nat c) HEXDIGIT_TABLE (-1).

(* template <typename Byte> std::optional<std::vector<Byte>> TryParseHex(std::string_view str)
   {
       std::vector<Byte> vch;
       auto it = str.begin();
       while (it != str.end()) {
           if (IsSpace( *it)) { ++it; continue; }
           auto c1 = HexDigit( *(it++));
           if (it == str.end()) return std::nullopt;
           auto c2 = HexDigit( *(it++));
           if (c1 < 0 || c2 < 0) return std::nullopt;
           vch.push_back(Byte(c1 << 4) | Byte(c2));
       }
       return vch;
   } *)
Fixpoint try_parse_hex (s : list N) : option (list N) :=
  match s with
  | [] => Some []
  | c :: r =>
    if is_space c then try_parse_hex r
    else match r with
         | [] => None
         | c2 :: r2 =>
           let c1v := hex_digit c in
           let c2v := hex_digit c2 in
           if (c1v <? 0) || (c2v <? 0) then None
           else match try_parse_hex r2 with
                | Some l => Some (Z.to_N (Z.lor (wrapu8 (Z.shiftl c1v 4)) c2v) :: l)
                | None => None
                end
         end
  end.

(* what a string that TryParseHex accepts is normalised to: no white space, lower case *)
Definition hex_normal (s : list N) : list N := map to_lower (filter (fun c => negb (is_space c)) s).

(* ---- ConvertBits ----
   template <int frombits, int tobits, bool pad, typename O, typename It, typename I = std::identity>
   bool ConvertBits(O outfn, It it, It end, I infn = {})
   {
       size_t acc = 0;
       size_t bits = 0;
       constexpr size_t maxv = (1 << tobits) - 1;
       constexpr size_t max_acc = (1 << (frombits + tobits - 1)) - 1;
       while (it != end) {
           int v = infn( *it);
           if (v < 0) return false;
           acc = ((acc << frombits) | v) & max_acc;
           bits += frombits;
           while (bits >= tobits) { bits -= tobits; outfn((acc >> bits) & maxv); }
           ++it;
       }
       if (pad) { if (bits) outfn((acc << (tobits - bits)) & maxv); }
       else if (bits >= frombits || ((acc << (tobits - bits)) & maxv)) { return false; }
       return true;
   }
   The inner while runs exactly bits / tobits times; that count is the nat argument of cb_emit
   (cb_emit_exit: afterwards bits < tobits).  The input is the list of infn values. *)
Fixpoint cb_emit (k : nat) (tobits acc bits : Z) : Z * list Z :=
  match k with
  | O => (bits, [])
  | S k' =>
    if bits >=? tobits then
      let bits' := bits - tobits in
      let '(b, l) := cb_emit k' tobits acc bits' in
      (b, Z.land (Z.shiftr acc bits') (2 ^ tobits - 1) :: l)
    else (bits, [])
  end.

Fixpoint cb_loop (frombits tobits acc bits : Z) (inp : list Z) : option (Z * Z * list Z) :=
  match inp with
  | [] => Some (acc, bits, [])
  | v :: r =>
    if v <? 0 then None
    else
      let acc1 := Z.land (Z.lor (Z.shiftl acc frombits) v) (2 ^ (frombits + tobits - 1) - 1) in
      let bits1 := bits + frombits in
      let '(bits2, outs) := cb_emit (Z.to_nat (bits1 / tobits)) tobits acc1 bits1 in
      match cb_loop frombits tobits acc1 bits2 r with
      | Some (a, b, l) => Some (a, b, outs ++ l)
      | None => None
      end
  end.

Definition convert_bits (frombits tobits : Z) (pad : bool) (inp : list Z) : option (list Z) :=
  match cb_loop frombits tobits 0 0 inp with
  | None => None
  | Some (acc, bits, outs) =>
    let last := Z.land (Z.shiftl acc (tobits - bits)) (2 ^ tobits - 1) in
    if pad then Some (if bits =? 0 then outs else outs ++ [last])
    else if (bits >=? frombits) || negb (last =? 0) then None
    else Some outs
  end.

Definition bytes_to_Z (l : list N) : list Z := map Z.of_N l.
Definition Z_to_bytes (l : list Z) : list N := map Z.to_N l.

(* ---- base64 ----  pbase64 = "ABCDEFGHIJKLMNOPQRSTUVWXYZabcdefghijklmnopqrstuvwxyz0123456789+/" *)
Definition b64_char (v : Z) : N :=
  Z.to_N (if v <? 26 then 65 + v else if v <? 52 then 97 + (v - 26) else if v <? 62 then 48 + (v - 52)
          else if v =? 62 then 43 else 47).
(* decode64_table: 'A'..'Z' -> 0..25, 'a'..'z' -> 26..51, '0'..'9' -> 52..61, '+' -> 62, '/' -> 63, else -1 *)
Definition b64_value (c : N) : Z :=
  let z := Z.of_N c in
  if (65 <=? z) && (z <=? 90) then z - 65
  else if (97 <=? z) && (z <=? 122) then z - 97 + 26
  else if (48 <=? z) && (z <=? 57) then z - 48 + 52
  else if z =? 43 then 62 else if z =? 47 then 63 else -1.

Definition pad_to (m : nat) (s : list N) : list N :=
  (* while (str.size() % m) str += '='; *)
  s ++ repeat 61%N ((m - length s mod m) mod m).

(* std::string EncodeBase64(span<const unsigned char> input)
   { std::string str; ConvertBits<8, 6, true>([&](int v) { str += pbase64[v]; }, input.begin(), input.end());
     while (str.size() % 4) str += '='; return str; } *)
Definition encode_base64 (input : list N) : option (list N) :=
  match convert_bits 8 6 true (bytes_to_Z input) with
  | Some vs => Some (pad_to 4 (map b64_char vs))
  | None => None
  end.

(* if (str.size() >= 1 && str.back() == '=') str.remove_suffix(1); *)
Definition strip_one_eq (s : list N) : list N :=
  match rev s with
  | c :: r => if (c =? 61)%N then rev r else s
  | [] => s
  end.
(* if (str.size() >= 2 && str.substr(str.size() - 2) == "==") str.remove_suffix(2); *)
Definition strip_two_eq (s : list N) : list N :=
  match rev s with
  | c1 :: c2 :: r => if ((c1 =? 61) && (c2 =? 61))%N then rev r else s
  | _ => s
  end.

(* std::optional<std::vector<unsigned char>> DecodeBase64(std::string_view str)
   {
       if (str.size() % 4 != 0) return {};
       /* One or two = characters at the end are permitted. */
       if (str.size() >= 1 && str.back() == '=') str.remove_suffix(1);
       if (str.size() >= 1 && str.back() == '=') str.remove_suffix(1);
       bool valid = ConvertBits<6, 8, false>(push_back, str.begin(), str.end(), [](char c) { return decode64_table[uint8_t(c)]; });
       if (!valid) return {};
       return ret;
   } *)
Definition decode_base64 (str : list N) : option (list N) :=
  if negb (length str mod 4 =? 0)%nat then None
  else
    let s := strip_one_eq (strip_one_eq str) in
    match convert_bits 6 8 false (map b64_value s) with
    | Some vs => Some (Z_to_bytes vs)
    | None => None
    end.

(* ---- base32 ----  pbase32 = "abcdefghijklmnopqrstuvwxyz234567" *)
Definition b32_char (v : Z) : N := Z.to_N (if v <? 26 then 97 + v else 50 + (v - 26)).
(* decode32_table: 'A'..'Z' and 'a'..'z' -> 0..25, '2'..'7' -> 26..31, else -1 *)
Definition b32_value (c : N) : Z :=
  let z := Z.of_N c in
  if (65 <=? z) && (z <=? 90) then z - 65
  else if (97 <=? z) && (z <=? 122) then z - 97
  else if (50 <=? z) && (z <=? 55) then z - 50 + 26
  else -1.

(* std::string EncodeBase32(span<const unsigned char> input, bool pad)
   { ConvertBits<8, 5, true>(...pbase32[v]...); if (pad) { while (str.size() % 8) str += '='; } return str; } *)
Definition encode_base32 (pad : bool) (input : list N) : option (list N) :=
  match convert_bits 8 5 true (bytes_to_Z input) with
  | Some vs => Some (if pad then pad_to 8 (map b32_char vs) else map b32_char vs)
  | None => None
  end.

(* std::optional<std::vector<unsigned char>> DecodeBase32(std::string_view str)
   {
       if (str.size() % 8 != 0) return {};
       /* 1, 3, 4, or 6 padding '=' suffix characters are permitted. */
       if (str.size() >= 1 && str.back() == '=') str.remove_suffix(1);
       if (str.size() >= 2 && str.substr(str.size() - 2) == "==") str.remove_suffix(2);
       if (str.size() >= 1 && str.back() == '=') str.remove_suffix(1);
       if (str.size() >= 2 && str.substr(str.size() - 2) == "==") str.remove_suffix(2);
       bool valid = ConvertBits<5, 8, false>(..., [](char c) { return decode32_table[uint8_t(c)]; });
       if (!valid) return {};
       return ret;
   } *)
Definition decode_base32 (str : list N) : option (list N) :=
  if negb (length str mod 8 =? 0)%nat then None
  else
    let s := strip_two_eq (strip_one_eq (strip_two_eq (strip_one_eq str))) in
    match convert_bits 5 8 false (map b32_value s) with
    | Some vs => Some (Z_to_bytes vs)
    | None => None
    end.

(* ---- base58 (src/base58.cpp) ----
   pszBase58 = "123456789ABCDEFGHJKLMNPQRSTUVWXYZabcdefghijkmnopqrstuvwxyz"; mapBase58[c] is the
   position of c in it, or -1. *)
Definition b58_alphabet : list N :=
  [49; 50; 51; 52; 53; 54; 55; 56; 57;
   65; 66; 67; 68; 69; 70; 71; 72; 74; 75; 76; 77; 78; 80; 81; 82; 83; 84; 85; 86; 87; 88; 89; 90;
   97; 98; 99; 100; 101; 102; 103; 104; 105; 106; 107; 109; 110; 111; 112; 113; 114; 115; 116; 117;
   118; 119; 120; 121; 122]%N.
Definition b58_char (v : Z) : N := nth (Z.to_nat v) b58_alphabet 0%N.     (* v < 58 at its use *)
Fixpoint index_of (c : N) (l : list N) (i : Z) : Z :=
  match l with [] => -1 | x :: r => if (x =? c)%N then i else index_of c r (i + 1) end.
Definition b58_value (c : N) : Z := index_of c b58_alphabet 0.

(* The big-number arrays b58 / b256 are kept least significant digit first (the C++ walks them
   with reverse iterators).  One pass of
       for (it = b.rbegin(); (carry != 0 || i < length) && (it != b.rend()); ++it, ++i) {
           carry += mult * ( *it); *it = carry % base; carry /= base; }
   returns the new array, the final carry and the final i. *)
Fixpoint bn_muladd (base mult : Z) (digits : list Z) (carry i len : Z) : list Z * Z * Z :=
  match digits with
  | [] => ([], carry, i)
  | d :: r =>
    if negb (carry =? 0) || (i <? len) then
      let c := carry + mult * d in
      let '(r', carry', i') := bn_muladd base mult r (c / base) (i + 1) len in
      (c mod base :: r', carry', i')
    else (digits, carry, i)
  end.

(* fold the passes over the input digits; None = the assert(carry == 0) fires *)
Fixpoint bn_absorb (base mult : Z) (b : list Z) (len : Z) (inp : list Z) : option (list Z * Z) :=
  match inp with
  | [] => Some (b, len)
  | ch :: r =>
    let '(b', carry, i) := bn_muladd base mult b ch 0 len in
    if negb (carry =? 0) then None else bn_absorb base mult b' i r
  end.

Fixpoint count_prefix (p : N -> bool) (l : list N) : nat :=
  match l with [] => O | x :: r => if p x then S (count_prefix p r) else O end.
Fixpoint drop_while {A} (p : A -> bool) (l : list A) : list A :=
  match l with [] => [] | x :: r => if p x then drop_while p r else l end.

(* std::string EncodeBase58(span<const unsigned char> input)
   {
       int zeroes = 0; int length = 0;
       while (input.size() > 0 && input[0] == 0) { input = input.subspan(1); zeroes++; }
       int size = input.size() * 138 / 100 + 1; // log(256) / log(58), rounded up.
       std::vector<unsigned char> b58(size);
       while (input.size() > 0) {
           int carry = input[0]; int i = 0;
           for (...) { carry += 256 * ( *it); *it = carry % 58; carry /= 58; }
           assert(carry == 0);
           length = i;
           input = input.subspan(1);
       }
       auto it = b58.begin() + (size - length);
       while (it != b58.end() && *it == 0) it++;
       std::string str; str.assign(zeroes, '1');
       while (it != b58.end()) str += pszBase58[ *(it++)];
       return str;
   } *)
Definition encode_base58 (input : list N) : option (list N) :=
  let zeroes := count_prefix (fun c => (c =? 0)%N) input in
  let rest := skipn zeroes input in
  let size := Z.to_nat (Z.of_nat (length rest) * 138 / 100 + 1) in
  match bn_absorb 58 256 (repeat 0 size) 0 (bytes_to_Z rest) with
  | None => None
  | Some (b58, len) =>
    let msb_first := rev (firstn (Z.to_nat len) b58) in
    Some (repeat 49%N zeroes ++ map b58_char (drop_while (fun d => d =? 0) msb_first))
  end.

(* static bool DecodeBase58(const char* psz, std::vector<unsigned char>& vch, int max_ret_len)
   {
       while ( *psz && IsSpace( *psz)) psz++;                                  // leading spaces
       int zeroes = 0; int length = 0;
       while ( *psz == '1') { zeroes++; if (zeroes > max_ret_len) return false; psz++; }
       int size = strlen(psz) * 733 /1000 + 1; // log(58) / log(256), rounded up.
       std::vector<unsigned char> b256(size);
       while ( *psz && !IsSpace( *psz)) {
           int carry = mapBase58[(uint8_t)*psz];
           if (carry == -1) return false;                                      // invalid character
           int i = 0;
           for (...) { carry += 58 * ( *it); *it = carry % 256; carry /= 256; }
           assert(carry == 0);
           length = i;
           if (length + zeroes > max_ret_len) return false;
           psz++;
       }
       while (IsSpace( *psz)) psz++;                                           // trailing spaces
       if ( *psz != 0) return false;
       auto it = b256.begin() + (size - length);
       vch.assign(zeroes, 0x00);
       while (it != b256.end()) vch.push_back( *(it++));
       return true;
   }
   bool DecodeBase58(const std::string& str, ...) { if (!ContainsNoNUL(str)) return false; return DecodeBase58(str.c_str(), ...); }
   Result: None = false; Some None = the assert fires. *)
Fixpoint b58_absorb (b : list Z) (len zeroes max_ret_len : Z) (s : list N) : option (option (list Z * Z * list N)) :=
  match s with
  | [] => Some (Some (b, len, []))
  | c :: r =>
    if is_space c then Some (Some (b, len, s))
    else
      let carry0 := b58_value c in
      if carry0 =? -1 then None
      else
        let '(b', carry, i) := bn_muladd 256 58 b carry0 0 len in
        if negb (carry =? 0) then Some None
        else if i + zeroes >? max_ret_len then None
        else b58_absorb b' i zeroes max_ret_len r
  end.

Definition decode_base58 (str : list N) (max_ret_len : Z) : option (option (list N)) :=
  if existsb (fun c => (c =? 0)%N) str then None
  else
    let s1 := drop_while is_space str in
    let zeroes := count_prefix (fun c => (c =? 49)%N) s1 in
    (* the check inside the counting loop: fails as soon as the count exceeds max_ret_len *)
    if (0 <? Z.of_nat zeroes) && (Z.of_nat zeroes >? max_ret_len) then None
    else
      let s2 := skipn zeroes s1 in
      let size := Z.to_nat (Z.of_nat (length s2) * 733 / 1000 + 1) in
      match b58_absorb (repeat 0 size) 0 (Z.of_nat zeroes) max_ret_len s2 with
      | None => None
      | Some None => Some None
      | Some (Some (b256, len, s3)) =>
        if negb (match drop_while is_space s3 with [] => true | _ => false end) then None
        else Some (Some (repeat 0%N zeroes ++ Z_to_bytes (rev (firstn (Z.to_nat len) b256))))
      end.
