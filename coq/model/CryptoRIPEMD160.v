(* C49 — RIPEMD-160.  Specification from Dobbertin, Bosselaers, Preneel, "RIPEMD-160: A Strengthened
   Version of RIPEMD" (pseudo-code of appendix A): two parallel lines of 80 steps, little endian
   words, MD4-style padding with a little endian 64-bit bit length.  Then the instance of the
   streaming-object model for CRIPEMD160. *)
From Coq Require Import NArith.
From BV Require Import lib.Ints model.CryptoBase model.CryptoMD.
Local Open Scope Z_scope.

(* nonlinear functions at bit level *)
Definition rmd_f (j : nat) (x y z : Z) : Z :=
  if (j <? 16)%nat then Z.lxor (Z.lxor x y) z
  else if (j <? 32)%nat then Z.lor (Z.land x y) (Z.land (not32 x) z)
  else if (j <? 48)%nat then Z.lxor (Z.lor x (not32 y)) z
  else if (j <? 64)%nat then Z.lor (Z.land x z) (Z.land y (not32 z))
  else Z.lxor x (Z.lor y (not32 z)).

(* added constants *)
Definition rmd_K (j : nat) : Z :=
  if (j <? 16)%nat then 0x00000000 else if (j <? 32)%nat then 0x5A827999
  else if (j <? 48)%nat then 0x6ED9EBA1 else if (j <? 64)%nat then 0x8F1BBCDC else 0xA953FD4E.
Definition rmd_K' (j : nat) : Z :=
  if (j <? 16)%nat then 0x50A28BE6 else if (j <? 32)%nat then 0x5C4DD124
  else if (j <? 48)%nat then 0x6D703EF3 else if (j <? 64)%nat then 0x7A6D76E9 else 0x00000000.

(* selection of message word *)
Definition rmd_r : list nat := [
  0; 1; 2; 3; 4; 5; 6; 7; 8; 9; 10; 11; 12; 13; 14; 15;
  7; 4; 13; 1; 10; 6; 15; 3; 12; 0; 9; 5; 2; 14; 11; 8;
  3; 10; 14; 4; 9; 15; 8; 1; 2; 7; 0; 6; 13; 11; 5; 12;
  1; 9; 11; 10; 0; 8; 12; 4; 13; 3; 7; 15; 14; 5; 6; 2;
  4; 0; 5; 9; 7; 12; 2; 10; 14; 1; 3; 8; 11; 6; 15; 13 ]%nat.
Definition rmd_r' : list nat := [
  5; 14; 7; 0; 9; 2; 11; 4; 13; 6; 15; 8; 1; 10; 3; 12;
  6; 11; 3; 7; 0; 13; 5; 10; 14; 15; 8; 12; 4; 9; 1; 2;
  15; 5; 1; 3; 7; 14; 6; 9; 11; 8; 12; 2; 10; 0; 4; 13;
  8; 6; 4; 1; 3; 11; 15; 0; 5; 12; 2; 13; 9; 7; 10; 14;
  12; 15; 10; 4; 1; 5; 8; 7; 6; 2; 13; 14; 0; 3; 9; 11 ]%nat.
(* amount for rotate left *)
Definition rmd_s : list Z := [
  11; 14; 15; 12; 5; 8; 7; 9; 11; 13; 14; 15; 6; 7; 9; 8;
  7; 6; 8; 13; 11; 9; 7; 15; 7; 12; 15; 9; 11; 7; 13; 12;
  11; 13; 6; 7; 14; 9; 13; 15; 14; 8; 13; 6; 5; 12; 7; 5;
  11; 12; 14; 15; 14; 15; 9; 8; 9; 14; 5; 6; 8; 6; 5; 12;
  9; 15; 5; 11; 6; 8; 13; 12; 5; 12; 13; 14; 11; 8; 5; 6 ].
Definition rmd_s' : list Z := [
  8; 9; 9; 11; 13; 15; 15; 5; 7; 7; 8; 11; 14; 14; 12; 6;
  9; 13; 15; 7; 12; 8; 9; 11; 7; 7; 12; 7; 6; 15; 13; 11;
  9; 7; 15; 11; 8; 6; 6; 14; 12; 13; 5; 14; 13; 13; 7; 5;
  15; 5; 8; 11; 14; 14; 6; 14; 6; 9; 12; 9; 12; 5; 15; 8;
  8; 5; 12; 9; 12; 5; 14; 6; 8; 13; 6; 5; 15; 13; 11; 11 ].

Definition rmd_state : Type := (Z * Z * Z * Z * Z)%type.
Definition rmd_iv : rmd_state := (0x67452301, 0xEFCDAB89, 0x98BADCFE, 0x10325476, 0xC3D2E1F0).

(* T := rol_s(A + f(B,C,D) + X[r] + K) + E;  A := E; E := D; D := rol_10(C); C := B; B := T *)
Definition rmd_step (X : list Z) (f : Z -> Z -> Z -> Z) (K : Z) (r : nat) (s : Z) (v : rmd_state) : rmd_state :=
  let '(A, B, C, D, E) := v in
  let T := w32 (rotl32 s (w32 (A + f B C D + nth r X 0 + K)) + E) in
  (E, T, B, rotl32 10 C, D).

Definition rmd_line_left (X : list Z) (v : rmd_state) : rmd_state :=
  fold_left (fun v jrs => let '(j, r, s) := jrs in rmd_step X (rmd_f j) (rmd_K j) r s v)
            (combine (combine (seq 0 80) rmd_r) rmd_s) v.
Definition rmd_line_right (X : list Z) (v : rmd_state) : rmd_state :=
  fold_left (fun v jrs => let '(j, r, s) := jrs in rmd_step X (rmd_f (79 - j)) (rmd_K' j) r s v)
            (combine (combine (seq 0 80) rmd_r') rmd_s') v.

Definition rmd_compress (H : rmd_state) (block : list N) : rmd_state :=
  let X := le32_words block in
  let '(h0, h1, h2, h3, h4) := H in
  let '(A, B, C, D, E) := rmd_line_left X H in
  let '(A', B', C', D', E') := rmd_line_right X H in
  (* T := h1 + C + D'; h1 := h2 + D + E'; h2 := h3 + E + A'; h3 := h4 + A + B'; h4 := h0 + B + C'; h0 := T *)
  (w32 (h1 + C + D'), w32 (h2 + D + E'), w32 (h3 + E + A'), w32 (h4 + A + B'), w32 (h0 + B + C')).

Definition rmd_out (H : rmd_state) : list N :=
  let '(h0, h1, h2, h3, h4) := H in
  le_bytes 4 h0 ++ le_bytes 4 h1 ++ le_bytes 4 h2 ++ le_bytes 4 h3 ++ le_bytes 4 h4.

Definition ripemd160_spec (msg : list N) : list N :=
  md_spec rmd_state 64 rmd_compress rmd_iv rmd_out 8 (le_bytes 8) msg.

(* ---- CRIPEMD160 ---- *)
Definition cripemd160 := hasher rmd_state.
Definition cripemd160_init (ubuf : list N) : cripemd160 := h_init rmd_state rmd_iv ubuf.
Definition cripemd160_write : cripemd160 -> list N -> cripemd160 := h_write rmd_state 64 rmd_compress.
Definition cripemd160_finalize : cripemd160 -> list N :=
  h_finalize rmd_state 64 rmd_compress rmd_out 119 (le_bytes 8).
Definition cripemd160_stream (chunks : list (list N)) : list N :=
  cripemd160_finalize (fold_left cripemd160_write chunks (cripemd160_init (zeros 64))).
