(* C21 (part C): BlockFilterIndex — src/index/blockfilterindex.cpp, src/index/db_key.h.
   The filter of a block is represented by its hash (b_filter_hash, computed by the reference
   BlockFilter code from block + undo); the flat files holding the encoded filters and their
   positions are not modelled (LookupFilter verifies the checksum of what it reads against the
   stored hash).  Executable definitions only. *)
From Coq Require Import NArith.
From BV Require Import lib.Ints model.CryptoBase model.CryptoSHA256 model.Index.
Local Open Scope Z_scope.

(* struct DBVal { uint256 hash; uint256 header; FlatFilePos pos; } *)
Record bf_val : Type := { fv_hash : bytes; fv_header : bytes }.
Record bf_index : Type := {
  bf_last_header : bytes;                     (* uint256 m_last_header{} *)
  bf_dbh : list (Z * (bytes * bf_val));       (* DBHeightKey(height) -> (block hash, DBVal) *)
  bf_dbs : list (bytes * bf_val)              (* DBHashKey(hash) -> DBVal *)
}.
Definition ZERO32 : bytes := repeat 0%N 32.
Definition bf_index0 : bf_index := {| bf_last_header := ZERO32; bf_dbh := []; bf_dbs := [] |}.

Fixpoint bfh_read (db : list (Z * (bytes * bf_val))) (h : Z) : option (bytes * bf_val) :=
  match db with [] => None | (k, v) :: r => if k =? h then Some v else bfh_read r h end.
Fixpoint bfs_read (db : list (bytes * bf_val)) (hash : bytes) : option bf_val :=
  match db with [] => None | (k, v) :: r => if bytes_eqb k hash then Some v else bfs_read r hash end.

(* uint256 BlockFilter::ComputeHeader(const uint256& prev_header) const: return Hash(GetHash(), prev_header);   (double SHA256) *)
Definition filter_header (filter_hash prev_header : bytes) : bytes := sha256d (filter_hash ++ prev_header).

(* std::optional<uint256> BlockFilterIndex::ReadFilterHeader(int height, const uint256& expected_block_hash)
     height index only; nullopt when missing or when "previous block header belongs to unexpected block" *)
Definition read_filter_header (x : bf_index) (height : Z) (expected : bytes) : option bytes :=
  match bfh_read (bf_dbh x) height with
  | None => None
  | Some (h, v) => if bytes_eqb h expected then Some (fv_header v) else None
  end.

(* bool BlockFilterIndex::CustomAppend(block)
     BlockFilter filter(m_filter_type, *block.data, *block.undo_data);
     const uint256& header = filter.ComputeHeader(m_last_header);
     bool res = Write(filter, block.height, header);   // m_db->Write(DBHeightKey(height), {block hash, {filter hash, header, pos}})
     if (res) m_last_header = header; *)
Definition bf_append (x : bf_index) (b : block) : res bf_index :=
  let header := filter_header (b_filter_hash b) (bf_last_header x) in
  Ok {| bf_last_header := header;
        bf_dbh := (b_height b, (b_hash b, {| fv_hash := b_filter_hash b; fv_header := header |})) :: bf_dbh x;
        bf_dbs := bf_dbs x |}.

(* bool BlockFilterIndex::CustomRemove(block)
     CopyHeightIndexToHashIndex(height) (false when the height entry is missing);
     m_last_header = *Assert(ReadFilterHeader(block.height - 1, *Assert(block.prev_hash))); *)
Definition bf_remove (x : bf_index) (b : block) : res bf_index :=
  match bfh_read (bf_dbh x) (b_height b) with
  | None => Err ENoHeightEntry
  | Some (hh, hv) =>
    match read_filter_header x (b_height b - 1) (b_prev b) with
    | None => Err EFilterPrev            (* Assert fails: abort *)
    | Some hd => Ok {| bf_last_header := hd; bf_dbh := bf_dbh x; bf_dbs := (hh, hv) :: bf_dbs x |}
    end
  end.
Definition bf_commit (x : bf_index) : bf_index := x.    (* DB_FILTER_POS and the file flush: not modelled *)
(* bool BlockFilterIndex::CustomInit(block): if (block) { op_last_header = ReadFilterHeader(height, hash); if (!op) return false; m_last_header = *op; } *)
Definition bf_custom_init (db : bf_index) (best : option (bytes * Z)) : res bf_index :=
  match best with
  | None => Ok {| bf_last_header := ZERO32; bf_dbh := bf_dbh db; bf_dbs := bf_dbs db |}
  | Some (hash, height) =>
    match read_filter_header db height hash with
    | None => Err EInitCorrupt
    | Some hd => Ok {| bf_last_header := hd; bf_dbh := bf_dbh db; bf_dbs := bf_dbs db |}
    end
  end.

(* LookUpOne (db_key.h) — LookupFilter / LookupFilterHeader *)
Definition bf_lookup (x : bf_index) (hash : bytes) (height : Z) : option bf_val :=
  match bfh_read (bf_dbh x) height with
  | None => None
  | Some (h, v) => if bytes_eqb h hash then Some v else bfs_read (bf_dbs x) hash
  end.

(* recomputation from the active chain (BIP157): header_i = Hash(filter_hash_i || header_{i-1}), header_{-1} = 0 *)
Definition chain_filter_header (chain : list block) : bytes :=
  fold_left (fun hd b => filter_header (b_filter_hash b) hd) chain ZERO32.
