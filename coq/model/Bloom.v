(* CBloomFilter and CRollingBloomFilter: insert / contains.  Transcribed from src/common/bloom.{h,cpp}.
   Executable definitions only.  MurmurHash3 is a Section variable (the OCaml driver passes a real one).
   The constructors compute sizes with floating point (log, exp): the models start from the
   constructed object's integer fields, which the correspondence compares with the real constructors. *)
From BV Require Import lib.Ints.
Local Open Scope Z_scope.

Section Bloom.
Variable K : Type.                      (* std::span<const unsigned char> *)
Variable murmur : Z -> K -> Z.          (* unsigned int MurmurHash3(unsigned int nHashSeed, span) *)

(* ---------------------------------------------------------------------------------------------
   CBloomFilter: std::vector<unsigned char> vData; unsigned int nHashFuncs, nTweak; unsigned char nFlags *)
Record bloom := { bl_data : list Z; bl_nhash : Z; bl_tweak : Z }.

(* inline unsigned int CBloomFilter::Hash(unsigned int nHashNum, span vDataToHash) const
   { return MurmurHash3(nHashNum * 0xFBA4C795 + nTweak, vDataToHash) % (vData.size() * 8); } *)
Definition bloom_hash (f : bloom) (n : Z) (key : K) : Z :=
  Z.modulo (wrapu32 (murmur (wrapu32 (n * 0xFBA4C795 + bl_tweak f)) key)) (Z.of_nat (length (bl_data f)) * 8).

(* vData[i] |= mask   (no effect when i is out of range; Hash keeps it in range) *)
Fixpoint or_byte (data : list Z) (i : nat) (mask : Z) : list Z :=
  match data, i with
  | [], _ => []
  | b :: r, O => wrapu8 (Z.lor b mask) :: r
  | b :: r, S k => b :: or_byte r k mask
  end.

(* vData[i] & mask != 0 ; out of range is undefined in C++: None *)
Definition test_byte (data : list Z) (i : nat) (mask : Z) : option bool :=
  match nth_error data i with
  | Some b => Some (negb (Z.land b mask =? 0))
  | None => None
  end.

(* the hash numbers 0, 1, ..., n-1 *)
Fixpoint znums (n : nat) : list Z :=
  match n with O => [] | S k => znums k ++ [Z.of_nat k] end.

(* void CBloomFilter::insert(span vKey) {
       if (vData.empty()) return;
       for (unsigned int i = 0; i < nHashFuncs; i++) {
           unsigned int nIndex = Hash(i, vKey);
           vData[nIndex >> 3] |= (1 << (7 & nIndex));
       }
   } *)
Definition bloom_insert (f : bloom) (key : K) : bloom :=
  match bl_data f with
  | [] => f
  | _ =>
    fold_left (fun (g : bloom) (i : Z) =>
                 let nIndex := bloom_hash g i key in
                 {| bl_data := or_byte (bl_data g) (Z.to_nat (Z.shiftr nIndex 3)) (Z.shiftl 1 (Z.land 7 nIndex));
                    bl_nhash := bl_nhash g; bl_tweak := bl_tweak g |})
              (znums (Z.to_nat (bl_nhash f))) f
  end.

(* bool CBloomFilter::contains(span vKey) const {
       if (vData.empty()) return true;
       for (unsigned int i = 0; i < nHashFuncs; i++) {
           unsigned int nIndex = Hash(i, vKey);
           if (!(vData[nIndex >> 3] & (1 << (7 & nIndex)))) return false;
       }
       return true;
   } *)
Definition bloom_contains (f : bloom) (key : K) : option bool :=
  match bl_data f with
  | [] => Some true
  | _ =>
    fold_left (fun (acc : option bool) (i : Z) =>
                 match acc with
                 | Some true =>
                   let nIndex := bloom_hash f i key in
                   test_byte (bl_data f) (Z.to_nat (Z.shiftr nIndex 3)) (Z.shiftl 1 (Z.land 7 nIndex))
                 | _ => acc
                 end)
              (znums (Z.to_nat (bl_nhash f))) (Some true)
  end.

(* ---------------------------------------------------------------------------------------------
   CRollingBloomFilter: int nEntriesPerGeneration, nEntriesThisGeneration, nGeneration;
   std::vector<uint64_t> data; unsigned int nTweak; int nHashFuncs *)
Record rolling := { rb_per_gen : Z; rb_this_gen : Z; rb_gen : Z; rb_data : list Z; rb_tweak : Z; rb_nhash : Z }.

(* static inline uint32_t RollingBloomHash(unsigned int nHashNum, uint32_t nTweak, span)
   { return MurmurHash3(nHashNum * 0xFBA4C795 + nTweak, vDataToHash); } *)
Definition rolling_hash (tweak : Z) (n : Z) (key : K) : Z :=
  wrapu32 (murmur (wrapu32 (n * 0xFBA4C795 + tweak)) key).

(* static inline uint32_t FastRange32(uint32_t x, uint32_t n) { return (uint64_t{x} * n) >> 32; } *)
Definition fast_range32 (x n : Z) : Z := Z.shiftr (wrapu64 (x * wrapu32 n)) 32.

(* for (uint32_t p = 0; p < data.size(); p += 2) {
       uint64_t p1 = data[p], p2 = data[p + 1];
       uint64_t mask = (p1 ^ nGenerationMask1) | (p2 ^ nGenerationMask2);
       data[p] = p1 & mask; data[p + 1] = p2 & mask;
   }  (data.size() is even by construction; a trailing single word would be out of bounds) *)
Fixpoint wipe_generation (data : list Z) (m1 m2 : Z) : list Z :=
  match data with
  | p1 :: p2 :: r =>
    let mask := Z.lor (Z.lxor p1 m1) (Z.lxor p2 m2) in
    Z.land p1 mask :: Z.land p2 mask :: wipe_generation r m1 m2
  | _ => data
  end.

(* data[i] = (data[i] & ~(uint64_t{1} << bit)) | (uint64_t(v)) << bit; *)
Fixpoint set_word_bit (data : list Z) (i : nat) (bit v : Z) : list Z :=
  match data, i with
  | [], _ => []
  | w :: r, O => Z.lor (Z.land w (wrapu64 (Z.lnot (Z.shiftl 1 bit)))) (Z.shiftl v bit) :: r
  | w :: r, S k => w :: set_word_bit r k bit v
  end.

(* void CRollingBloomFilter::insert(span vKey) {
       if (nEntriesThisGeneration == nEntriesPerGeneration) {
           nEntriesThisGeneration = 0;
           nGeneration++;
           if (nGeneration == 4) nGeneration = 1;
           uint64_t nGenerationMask1 = 0 - (uint64_t)(nGeneration & 1);
           uint64_t nGenerationMask2 = 0 - (uint64_t)(nGeneration >> 1);
           ...wipe...
       }
       nEntriesThisGeneration++;
       for (int n = 0; n < nHashFuncs; n++) {
           uint32_t h = RollingBloomHash(n, nTweak, vKey);
           int bit = h & 0x3F;
           uint32_t pos = FastRange32(h, data.size());
           data[pos & ~1U] = (data[pos & ~1U] & ~(uint64_t{1} << bit)) | (uint64_t(nGeneration & 1)) << bit;
           data[pos | 1]   = (data[pos | 1]   & ~(uint64_t{1} << bit)) | (uint64_t(nGeneration >> 1)) << bit;
       }
   } *)
Definition rolling_insert (f : rolling) (key : K) : rolling :=
  let f1 :=
    if rb_this_gen f =? rb_per_gen f then
      let g0 := rb_gen f + 1 in
      let g := if g0 =? 4 then 1 else g0 in
      let m1 := wrapu64 (0 - Z.land g 1) in
      let m2 := wrapu64 (0 - Z.shiftr g 1) in
      {| rb_per_gen := rb_per_gen f; rb_this_gen := 0; rb_gen := g;
         rb_data := wipe_generation (rb_data f) m1 m2; rb_tweak := rb_tweak f; rb_nhash := rb_nhash f |}
    else f in
  let f2 := {| rb_per_gen := rb_per_gen f1; rb_this_gen := wrap32 (rb_this_gen f1 + 1); rb_gen := rb_gen f1;
               rb_data := rb_data f1; rb_tweak := rb_tweak f1; rb_nhash := rb_nhash f1 |} in
  let size := Z.of_nat (length (rb_data f2)) in
  let g := rb_gen f2 in
  let d' :=
  fold_left (fun (d : list Z) (n : Z) =>
               let h := rolling_hash (rb_tweak f2) n key in
               let bit := Z.land h 0x3F in
               let pos := fast_range32 h size in
               let d1 := set_word_bit d (Z.to_nat (Z.land pos 0xFFFFFFFE)) bit (Z.land g 1) in
               set_word_bit d1 (Z.to_nat (Z.lor pos 1)) bit (Z.shiftr g 1))
            (znums (Z.to_nat (rb_nhash f2))) (rb_data f2) in
  {| rb_per_gen := rb_per_gen f2; rb_this_gen := rb_this_gen f2; rb_gen := rb_gen f2;
     rb_data := d'; rb_tweak := rb_tweak f2; rb_nhash := rb_nhash f2 |}.

(* bool CRollingBloomFilter::contains(span vKey) const {
       for (int n = 0; n < nHashFuncs; n++) {
           uint32_t h = RollingBloomHash(n, nTweak, vKey);
           int bit = h & 0x3F;
           uint32_t pos = FastRange32(h, data.size());
           if (!(((data[pos & ~1U] | data[pos | 1]) >> bit) & 1)) return false;
       }
       return true;
   }  (an index outside data is undefined in C++: None) *)
Definition rolling_contains (f : rolling) (key : K) : option bool :=
  let size := Z.of_nat (length (rb_data f)) in
  fold_left (fun (acc : option bool) (n : Z) =>
               match acc with
               | Some true =>
                 let h := rolling_hash (rb_tweak f) n key in
                 let bit := Z.land h 0x3F in
                 let pos := fast_range32 h size in
                 match nth_error (rb_data f) (Z.to_nat (Z.land pos 0xFFFFFFFE)), nth_error (rb_data f) (Z.to_nat (Z.lor pos 1)) with
                 | Some a, Some b => Some (Z.testbit (Z.lor a b) bit)
                 | _, _ => None
                 end
               | _ => acc
               end)
            (znums (Z.to_nat (rb_nhash f))) (Some true).

End Bloom.
