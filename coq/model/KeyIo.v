(* C45 — EncodeDestination / DecodeDestination of src/key_io.cpp (per chain), over the bech32 and
   base58check models.  Executable definitions only.

   CTxDestination = variant<CNoDestination, PubKeyDestination, PKHash, ScriptHash, WitnessV0ScriptHash,
                            WitnessV0KeyHash, WitnessV1Taproot, PayToAnchor, WitnessUnknown>.
   The fixed-size hashes are byte lists here; their sizes (20 / 32) are premises of the theorems
   (dest_wf).  WitnessUnknown carries an unsigned version and a program of any length. *)
From Coq Require Import NArith String Ascii.
From BV Require Import lib.Ints model.Bech32 model.Base58.
Local Open Scope N_scope.

Inductive dest :=
| DNone
| DPubKey
| DPKHash (h : list N)
| DScriptHash (h : list N)
| DWSH (h : list N)
| DWPKH (h : list N)
| DTaproot (x : list N)
| DAnchor
| DWitUnknown (ver : N) (prog : list N).

(* per chain: Base58Prefix(PUBKEY_ADDRESS), Base58Prefix(SCRIPT_ADDRESS), ..., Bech32HRP() *)
Record keyio_params := {
  kp_pubkey : list N; kp_script : list N; kp_secret : list N; kp_xpub : list N; kp_xprv : list N;
  kp_hrp : list N }.
Definition kp_of_row (r : list Z * list Z * list Z * list Z * list Z * list Z) : keyio_params :=
  let '(a, b, c, d, e, h) := r in
  {| kp_pubkey := map Z.to_N a; kp_script := map Z.to_N b; kp_secret := map Z.to_N c;
     kp_xpub := map Z.to_N d; kp_xprv := map Z.to_N e; kp_hrp := map Z.to_N h |}.

Definition ANCHOR_BYTES : list N := [0x4e; 0x73].
(* static constexpr std::size_t BECH32_WITNESS_PROG_MAX_LEN = 40;  WITNESS_V1_TAPROOT_SIZE = 32 *)
Definition BECH32_WITNESS_PROG_MAX_LEN : nat := 40.

Inductive addr_result := AddrStr (s : list N) | AddrAssert.

Definition of_b58 (r : b58enc_result) : addr_result :=
  match r with B58Str s => AddrStr s | B58EncAssert => AddrAssert end.
Definition of_b32 (r : enc_result) : addr_result :=
  match r with EncOk s => AddrStr s | _ => AddrAssert end.

Definition bytes_eqb (a b : list N) : bool := if list_eq_dec N.eq_dec a b then true else false.

Section KeyIo.
  Variable hash256 : list N -> list N.
  Variable limit : nat.           (* bech32::CharLimit::BECH32 *)

  (* data = {version}; ConvertBits<8, 5, true>(push_back, program); bech32::Encode(enc, hrp, data) *)
  Definition segwit_encode (kp : keyio_params) (e : encoding) (ver : N) (prog : list N) : addr_result :=
    match convert_bits 8 5 true prog with
    | Some d => of_b32 (encode e (kp_hrp kp) (ver :: d))
    | None => AddrAssert     (* pad = true never fails *)
    end.

  (* std::visit(DestinationEncoder(params), dest) *)
  Definition encode_destination (kp : keyio_params) (d : dest) : addr_result :=
    match d with
    | DPKHash h => of_b58 (encode_base58check hash256 (kp_pubkey kp ++ h))
    | DScriptHash h => of_b58 (encode_base58check hash256 (kp_script kp ++ h))
    | DWPKH h => segwit_encode kp BECH32 0 h
    | DWSH h => segwit_encode kp BECH32 0 h
    | DTaproot x => segwit_encode kp BECH32M 1 x
    | DWitUnknown ver prog =>
      (* if (version < 1 || version > 16 || program.size() < 2 || program.size() > 40) return {}; *)
      if (ver <? 1) || (16 <? ver) || (length prog <? 2)%nat || (40 <? length prog)%nat then AddrStr []
      else segwit_encode kp BECH32M ver prog      (* (unsigned char)version: identity for version <= 16 *)
    | DAnchor => segwit_encode kp BECH32M 1 ANCHOR_BYTES     (* PayToAnchor is-a WitnessUnknown(1, ANCHOR_BYTES) *)
    | DNone => AddrStr []
    | DPubKey => AddrStr []
    end.

  (* error_str classes of DecodeDestination *)
  Inductive dec_err :=
  | E_ok | E_b58_len | E_b58_unsupported | E_not_b58 | E_b58_checksum | E_empty | E_hrp | E_v0_needs_bech32
  | E_v1_needs_bech32m | E_v0_size | E_version | E_size | E_padding | E_bech32 | E_assert.

  Definition has_prefix (p l : list N) : bool := bytes_eqb p (firstn (length p) l).

  (* CTxDestination DecodeDestination(const std::string& str, const CChainParams& params, std::string& error_str, ...) *)
  Definition decode_destination (kp : keyio_params) (s : list N) : dest * dec_err :=
    (* bool is_bech32 = (ToLower(str.substr(0, params.Bech32HRP().size())) == params.Bech32HRP()); *)
    let is_bech32 := bytes_eqb (map lower_case (firstn (length (kp_hrp kp)) s)) (kp_hrp kp) in
    let b58 := if is_bech32 then B58False else decode_base58check hash256 s 21 in
    match is_bech32, b58 with
    | false, B58DecAssert => (DNone, E_assert)
    | false, B58Bytes data =>
      let pk := kp_pubkey kp in
      let sc := kp_script kp in
      (* data.size() == hash.size() + pubkey_prefix.size() && std::equal(prefix.begin(), prefix.end(), data.begin()) *)
      if (length data =? 20 + length pk)%nat && has_prefix pk data then (DPKHash (skipn (length pk) data), E_ok)
      else if (length data =? 20 + length sc)%nat && has_prefix sc data then (DScriptHash (skipn (length sc) data), E_ok)
      else if ((length sc <=? length data)%nat && has_prefix sc data) || ((length pk <=? length data)%nat && has_prefix pk data)
           then (DNone, E_b58_len)
           else (DNone, E_b58_unsupported)
    | false, B58False =>
      (* if (!DecodeBase58(str, data, 100)) "Invalid or unsupported Segwit (Bech32) or Base58 encoding." else "Invalid checksum or length ..." *)
      match decode_base58 s 100 with
      | B58Bytes _ => (DNone, E_b58_checksum)
      | B58False => (DNone, E_not_b58)
      | B58DecAssert => (DNone, E_assert)
      end
    | true, _ =>
      match decode limit s with
      | DecRevOOB => (DNone, E_assert)
      | DecInvalid => (DNone, E_bech32)          (* LocateErrors message *)
      | DecOk enc hrp data =>
        match data with
        | [] => (DNone, E_empty)
        | version :: rest =>
          if negb (bytes_eqb hrp (kp_hrp kp)) then (DNone, E_hrp)
          else if (version =? 0) && negb (encoding_eqb enc BECH32) then (DNone, E_v0_needs_bech32)
          else if negb (version =? 0) && negb (encoding_eqb enc BECH32M) then (DNone, E_v1_needs_bech32m)
          else match convert_bits 5 8 false rest with
               | None => (DNone, E_padding)
               | Some prog =>
                 if version =? 0 then
                   if (length prog =? 20)%nat then (DWPKH prog, E_ok)
                   else if (length prog =? 32)%nat then (DWSH prog, E_ok)
                   else (DNone, E_v0_size)
                 else if (version =? 1) && (length prog =? 32)%nat then (DTaproot prog, E_ok)
                 else if (version =? 1) && bytes_eqb prog ANCHOR_BYTES then (DAnchor, E_ok)
                 else if 16 <? version then (DNone, E_version)
                 else if (length prog <? 2)%nat || (BECH32_WITNESS_PROG_MAX_LEN <? length prog)%nat then (DNone, E_size)
                 else (DWitUnknown version prog, E_ok)
               end
        end
      end
    end.

  (* std::string EncodeExtKey / EncodeExtPubKey: data = Base58Prefix(EXT_PUBLIC_KEY or EXT_SECRET_KEY) ++ 74 bytes; EncodeBase58Check *)
  Definition encode_ext (prefix code74 : list N) : addr_result :=
    of_b58 (encode_base58check hash256 (prefix ++ code74)).
  (* DecodeExtKey / DecodeExtPubKey: DecodeBase58Check(str, data, 78);
       data.size() == BIP32_EXTKEY_SIZE + prefix.size() && std::equal(prefix...) -> key.Decode(data + prefix.size())
     None = the default (invalid) key is returned *)
  Definition decode_ext (prefix : list N) (s : list N) : option (list N) :=
    match decode_base58check hash256 s 78 with
    | B58Bytes data =>
      if (length data =? 74 + length prefix)%nat && has_prefix prefix data then Some (skipn (length prefix) data) else None
    | _ => None
    end.
  (* std::string EncodeSecret(const CKey& key): prefix ++ key32 ++ (compressed ? [1] : []) *)
  Definition encode_secret (kp : keyio_params) (key32 : list N) (compressed : bool) : addr_result :=
    of_b58 (encode_base58check hash256 (kp_secret kp ++ key32 ++ (if compressed then [1] else []))).
  (* CKey DecodeSecret(str): DecodeBase58Check(str, data, 34);
       (size == 32 + p || (size == 33 + p && data.back() == 1)) && prefix matches -> key.Set(32 bytes, compressed)
     returns the 32 key bytes and the compressed flag; the caller applies CKey::Check (0 < key < n) *)
  Definition decode_secret (kp : keyio_params) (s : list N) : option (list N * bool) :=
    match decode_base58check hash256 s 34 with
    | B58Bytes data =>
      let p := length (kp_secret kp) in
      if ((length data =? 32 + p)%nat || ((length data =? 33 + p)%nat && (match last data 0 with 1 => true | _ => false end)))
         && has_prefix (kp_secret kp) data
      then Some (firstn 32 (skipn p data), (length data =? 33 + p)%nat)
      else None
    | _ => None
    end.

  (* the destinations ExtractDestination can produce, with their fixed sizes *)
  Definition dest_wf (d : dest) : bool :=
    match d with
    | DPKHash h | DScriptHash h | DWPKH h => (length h =? 20)%nat && forallb (fun b => b <? 256) h
    | DWSH h | DTaproot h => (length h =? 32)%nat && forallb (fun b => b <? 256) h
    | DAnchor => true
    | DWitUnknown ver prog =>
      (1 <=? ver) && (ver <=? 16) && (2 <=? length prog)%nat && (length prog <=? 40)%nat && forallb (fun b => b <? 256) prog
      && negb ((ver =? 1) && ((length prog =? 32)%nat || bytes_eqb prog ANCHOR_BYTES))
    | DNone | DPubKey => false
    end.
End KeyIo.
