(* C49 — SHA-512.  Specification from FIPS 180-4 (4.1.3, 4.2.3, 5.1.2, 5.3.5, 6.4); then the instance
   of the streaming-object model for CSHA512 (128-byte blocks; Finalize writes a 16-byte size
   descriptor whose upper 8 bytes are always zero: `unsigned char sizedesc[16] = {0x00};
   WriteBE64(sizedesc + 8, bytes << 3);`).  The constants are the first 64 bits of the fractional
   parts of the cube (square) roots of the first 80 (8) primes, generated from that definition. *)
From Coq Require Import NArith.
From BV Require Import lib.Ints model.CryptoBase model.CryptoMD.
Local Open Scope Z_scope.

Definition Ch64 (x y z : Z) : Z := Z.lxor (Z.land x y) (Z.land (not64 x) z).
Definition Maj64 (x y z : Z) : Z := Z.lxor (Z.lxor (Z.land x y) (Z.land x z)) (Z.land y z).
Definition BSig0_512 (x : Z) : Z := Z.lxor (Z.lxor (rotr64 28 x) (rotr64 34 x)) (rotr64 39 x).
Definition BSig1_512 (x : Z) : Z := Z.lxor (Z.lxor (rotr64 14 x) (rotr64 18 x)) (rotr64 41 x).
Definition SSig0_512 (x : Z) : Z := Z.lxor (Z.lxor (rotr64 1 x) (rotr64 8 x)) (Z.shiftr x 7).
Definition SSig1_512 (x : Z) : Z := Z.lxor (Z.lxor (rotr64 19 x) (rotr64 61 x)) (Z.shiftr x 6).

Definition K512 : list Z := [
  0x428a2f98d728ae22; 0x7137449123ef65cd; 0xb5c0fbcfec4d3b2f; 0xe9b5dba58189dbbc;
  0x3956c25bf348b538; 0x59f111f1b605d019; 0x923f82a4af194f9b; 0xab1c5ed5da6d8118;
  0xd807aa98a3030242; 0x12835b0145706fbe; 0x243185be4ee4b28c; 0x550c7dc3d5ffb4e2;
  0x72be5d74f27b896f; 0x80deb1fe3b1696b1; 0x9bdc06a725c71235; 0xc19bf174cf692694;
  0xe49b69c19ef14ad2; 0xefbe4786384f25e3; 0x0fc19dc68b8cd5b5; 0x240ca1cc77ac9c65;
  0x2de92c6f592b0275; 0x4a7484aa6ea6e483; 0x5cb0a9dcbd41fbd4; 0x76f988da831153b5;
  0x983e5152ee66dfab; 0xa831c66d2db43210; 0xb00327c898fb213f; 0xbf597fc7beef0ee4;
  0xc6e00bf33da88fc2; 0xd5a79147930aa725; 0x06ca6351e003826f; 0x142929670a0e6e70;
  0x27b70a8546d22ffc; 0x2e1b21385c26c926; 0x4d2c6dfc5ac42aed; 0x53380d139d95b3df;
  0x650a73548baf63de; 0x766a0abb3c77b2a8; 0x81c2c92e47edaee6; 0x92722c851482353b;
  0xa2bfe8a14cf10364; 0xa81a664bbc423001; 0xc24b8b70d0f89791; 0xc76c51a30654be30;
  0xd192e819d6ef5218; 0xd69906245565a910; 0xf40e35855771202a; 0x106aa07032bbd1b8;
  0x19a4c116b8d2d0c8; 0x1e376c085141ab53; 0x2748774cdf8eeb99; 0x34b0bcb5e19b48a8;
  0x391c0cb3c5c95a63; 0x4ed8aa4ae3418acb; 0x5b9cca4f7763e373; 0x682e6ff3d6b2b8a3;
  0x748f82ee5defb2fc; 0x78a5636f43172f60; 0x84c87814a1f0ab72; 0x8cc702081a6439ec;
  0x90befffa23631e28; 0xa4506cebde82bde9; 0xbef9a3f7b2c67915; 0xc67178f2e372532b;
  0xca273eceea26619c; 0xd186b8c721c0c207; 0xeada7dd6cde0eb1e; 0xf57d4f7fee6ed178;
  0x06f067aa72176fba; 0x0a637dc5a2c898a6; 0x113f9804bef90dae; 0x1b710b35131c471b;
  0x28db77f523047d84; 0x32caab7b40c72493; 0x3c9ebe0a15c9bebc; 0x431d67c49c100d4c;
  0x4cc5d4becb3e42b6; 0x597f299cfc657e2a; 0x5fcb6fab3ad6faec; 0x6c44198c4a475817 ].

Definition sha512_state : Type := (Z * Z * Z * Z * Z * Z * Z * Z)%type.
Definition sha512_iv : sha512_state :=
  (0x6a09e667f3bcc908, 0xbb67ae8584caa73b, 0x3c6ef372fe94f82b, 0xa54ff53a5f1d36f1, 0x510e527fade682d1, 0x9b05688c2b3e6c1f, 0x1f83d9abfb41bd6b, 0x5be0cd19137e2179).

(* 6.4.2 step 1: W_t = M_t (t < 16), W_t = ssig1(W_{t-2}) + W_{t-7} + ssig0(W_{t-15}) + W_{t-16} (16 <= t < 80) *)
Fixpoint sha512_sched_ext (n : nat) (rev_w : list Z) : list Z :=
  match n with
  | O => rev_w
  | S n' =>
    let wt := w64 (SSig1_512 (nth 1 rev_w 0) + nth 6 rev_w 0 + SSig0_512 (nth 14 rev_w 0) + nth 15 rev_w 0) in
    sha512_sched_ext n' (wt :: rev_w)
  end.
Definition sha512_schedule (block : list N) : list Z :=
  rev (sha512_sched_ext 64 (rev (be64_words block))).

Definition sha512_round (v : sha512_state) (kw : Z * Z) : sha512_state :=
  let '(a, b, c, d, e, f, g, h) := v in
  let '(k, w) := kw in
  let T1 := w64 (h + BSig1_512 e + Ch64 e f g + k + w) in
  let T2 := w64 (BSig0_512 a + Maj64 a b c) in
  (w64 (T1 + T2), a, b, c, w64 (d + T1), e, f, g).

Definition sha512_compress (H : sha512_state) (block : list N) : sha512_state :=
  let '(a, b, c, d, e, f, g, h) := fold_left sha512_round (combine K512 (sha512_schedule block)) H in
  let '(H0, H1, H2, H3, H4, H5, H6, H7) := H in
  (w64 (a + H0), w64 (b + H1), w64 (c + H2), w64 (d + H3),
   w64 (e + H4), w64 (f + H5), w64 (g + H6), w64 (h + H7)).

Definition sha512_out (H : sha512_state) : list N :=
  let '(H0, H1, H2, H3, H4, H5, H6, H7) := H in
  be_bytes 8 H0 ++ be_bytes 8 H1 ++ be_bytes 8 H2 ++ be_bytes 8 H3 ++
  be_bytes 8 H4 ++ be_bytes 8 H5 ++ be_bytes 8 H6 ++ be_bytes 8 H7.

(* 5.1.2: the length field is the 128-bit big endian bit length *)
Definition sha512_spec (msg : list N) : list N :=
  md_spec sha512_state 128 sha512_compress sha512_iv sha512_out 16 (be_bytes 16) msg.

(* ---- CSHA512 ---- *)
Definition csha512 := hasher sha512_state.
Definition csha512_sizedesc (v : Z) : list N := zeros 8 ++ be_bytes 8 v.
Definition csha512_init (ubuf : list N) : csha512 := h_init sha512_state sha512_iv ubuf.
Definition csha512_write : csha512 -> list N -> csha512 := h_write sha512_state 128 sha512_compress.
Definition csha512_finalize : csha512 -> list N :=
  h_finalize sha512_state 128 sha512_compress sha512_out 239 csha512_sizedesc.
Definition csha512_stream (chunks : list (list N)) : list N :=
  csha512_finalize (fold_left csha512_write chunks (csha512_init (zeros 128))).
