(* C14 (second mechanism) -- parallel prevout fetching: CoinsViewOverlay::StartFetching / ProcessInput /
   FetchCoinFromBase (src/coins.h, src/coins.cpp).

   m_inputs is fixed while workers run; workers claim indices with m_input_head.fetch_add(1), store
   base->PeekCoin(outpoint) into the slot and then set its `ready` flag (release); the main thread, on the first
   access to an outpoint, takes the slot at m_input_tail if it is for that outpoint, waits for `ready` (acquire) and
   moves the coin out, otherwise asks base->PeekCoin directly.  Each of these is one atomic step here; a schedule is any
   list of enabled actions.  base is a function: PeekCoin is const and does not populate any cache, so "the base view
   is unchanged" holds by construction of the model (the driver checks it on the real views).
   The release/acquire pairing itself (that the coin write is visible once `ready` is seen) is the model's step
   order, not something proved about the C++ memory model. *)
From BV Require Import lib.Ints.
Local Open Scope nat_scope.

Definition outpoint := Z.
Definition coin := Z.

Inductive wpc := WIdle | WClaimed (i : nat) | WWrote (i : nat) | WDone.
Record slot := { sl_coin : option (option coin); sl_ready : bool }.
Inductive mpc := MIdle | MWaiting (i : nat).

Record fs := {
  f_inputs : list outpoint;        (* m_inputs[k].outpoint *)
  f_slots : list slot;             (* m_inputs[k].coin / ready *)
  f_head : nat;                    (* m_input_head *)
  f_tail : nat;                    (* m_input_tail *)
  f_workers : list wpc;
  f_main : mpc;
  f_results : list (outpoint * option coin);   (* what FetchCoinFromBase returned so far *)
  f_bug : bool                     (* Assert(!input.ready.test_and_set()) fired, or a coin was read before it was written *)
}.

Inductive fact :=
| FClaim (w : nat)        (* const auto i{m_input_head.fetch_add(1)}; if (i >= m_inputs.size()) return false; *)
| FWrite (w : nat)        (* input.coin = base->PeekCoin(input.outpoint); *)
| FReady (w : nat)        (* Assert(!input.ready.test_and_set(release)); input.ready.notify_one(); return true; *)
| FFetch (o : outpoint)   (* main thread: FetchCoinFromBase(o), up to the wait *)
| FRead.                  (* main thread: input.ready.wait(false, acquire) returns; return std::move(input.coin); *)

Definition updn {A} (l : list A) (i : nat) (x : A) : list A := firstn i l ++ x :: skipn (S i) l.

Definition set_worker (s : fs) (w : nat) (p : wpc) : fs :=
  {| f_inputs := f_inputs s; f_slots := f_slots s; f_head := f_head s; f_tail := f_tail s;
     f_workers := updn (f_workers s) w p; f_main := f_main s; f_results := f_results s; f_bug := f_bug s |}.

Definition fstep (base : outpoint -> option coin) (s : fs) (a : fact) : option fs :=
  match a with
  | FClaim w =>
      match nth_error (f_workers s) w with
      | Some WIdle =>
          let i := f_head s in
          let s' := {| f_inputs := f_inputs s; f_slots := f_slots s; f_head := S i; f_tail := f_tail s;
                       f_workers := f_workers s; f_main := f_main s; f_results := f_results s; f_bug := f_bug s |} in
          Some (set_worker s' w (if Nat.ltb i (length (f_inputs s)) then WClaimed i else WDone))
      | _ => None
      end
  | FWrite w =>
      match nth_error (f_workers s) w with
      | Some (WClaimed i) =>
          match nth_error (f_inputs s) i, nth_error (f_slots s) i with
          | Some o, Some sl =>
              let s' := {| f_inputs := f_inputs s; f_slots := updn (f_slots s) i {| sl_coin := Some (base o); sl_ready := sl_ready sl |};
                           f_head := f_head s; f_tail := f_tail s; f_workers := f_workers s; f_main := f_main s;
                           f_results := f_results s; f_bug := f_bug s |} in
              Some (set_worker s' w (WWrote i))
          | _, _ => None
          end
      | _ => None
      end
  | FReady w =>
      match nth_error (f_workers s) w with
      | Some (WWrote i) =>
          match nth_error (f_slots s) i with
          | Some sl =>
              let s' := {| f_inputs := f_inputs s; f_slots := updn (f_slots s) i {| sl_coin := sl_coin sl; sl_ready := true |};
                           f_head := f_head s; f_tail := f_tail s; f_workers := f_workers s; f_main := f_main s;
                           f_results := f_results s; f_bug := f_bug s || sl_ready sl |} in
              Some (set_worker s' w WIdle)
          | None => None
          end
      | _ => None
      end
  | FFetch o =>
      match f_main s with
      | MIdle =>
          (* if (m_input_tail < m_inputs.size() && m_inputs[m_input_tail].outpoint == outpoint) { auto& input{m_inputs[m_input_tail++]}; wait ... }
             else return base->PeekCoin(outpoint); *)
          match nth_error (f_inputs s) (f_tail s) with
          | Some o' =>
              if Z.eqb o' o then
                Some {| f_inputs := f_inputs s; f_slots := f_slots s; f_head := f_head s; f_tail := S (f_tail s);
                        f_workers := f_workers s; f_main := MWaiting (f_tail s); f_results := f_results s; f_bug := f_bug s |}
              else Some {| f_inputs := f_inputs s; f_slots := f_slots s; f_head := f_head s; f_tail := f_tail s;
                           f_workers := f_workers s; f_main := MIdle; f_results := f_results s ++ [(o, base o)]; f_bug := f_bug s |}
          | None => Some {| f_inputs := f_inputs s; f_slots := f_slots s; f_head := f_head s; f_tail := f_tail s;
                            f_workers := f_workers s; f_main := MIdle; f_results := f_results s ++ [(o, base o)]; f_bug := f_bug s |}
          end
      | MWaiting _ => None
      end
  | FRead =>
      match f_main s with
      | MWaiting i =>
          match nth_error (f_inputs s) i, nth_error (f_slots s) i with
          | Some o, Some sl =>
              if sl_ready sl then
                match sl_coin sl with
                | Some c => Some {| f_inputs := f_inputs s; f_slots := f_slots s; f_head := f_head s; f_tail := f_tail s;
                                    f_workers := f_workers s; f_main := MIdle; f_results := f_results s ++ [(o, c)]; f_bug := f_bug s |}
                | None => Some {| f_inputs := f_inputs s; f_slots := f_slots s; f_head := f_head s; f_tail := f_tail s;
                                  f_workers := f_workers s; f_main := MIdle; f_results := f_results s ++ [(o, None)]; f_bug := true |}
                end
              else None          (* still waiting *)
          | _, _ => None
          end
      | MIdle => None
      end
  end.

Fixpoint frun (base : outpoint -> option coin) (s : fs) (l : list fact) : option fs :=
  match l with
  | [] => Some s
  | a :: r => match fstep base s a with Some s' => frun base s' r | None => None end
  end.

(* StartFetching: m_inputs = the block's prevouts in order, without those created earlier in the same block *)
Definition finit (inputs : list outpoint) (nworkers : nat) : fs :=
  {| f_inputs := inputs; f_slots := repeat {| sl_coin := None; sl_ready := false |} (length inputs);
     f_head := 0; f_tail := 0; f_workers := repeat WIdle nworkers; f_main := MIdle; f_results := []; f_bug := false |}.

(* for (tx : block.vtx | drop(1)) { for (input : tx->vin) if (!earlier_txids.contains(input.prevout.hash)) m_inputs.emplace_back(input.prevout);
                                    earlier_txids.emplace(tx->GetHash()); }
   a transaction = (its id, the ids of the transactions its inputs spend from, with the outpoint of each input) *)
Fixpoint block_inputs (txs : list (Z * list (Z * outpoint))) (earlier : list Z) : list outpoint :=
  match txs with
  | [] => []
  | (txid, ins) :: r =>
      map snd (filter (fun x => negb (existsb (Z.eqb (fst x)) earlier)) ins) ++ block_inputs r (txid :: earlier)
  end.
