(* C16 -- crash replay of the coins database: the logical protocol.

   Transcription of
     src/txdb.cpp        CCoinsViewDB::BatchWrite, GetBestBlock, GetHeadBlocks
     src/validation.cpp  Chainstate::ReplayBlocks, RollforwardBlock, DisconnectBlock, ApplyTxInUndo
     src/chain.cpp       LastCommonAncestor, CBlockIndex::GetAncestor (as a walk over pprev)
     src/coins.cpp       AddCoins(check = true), CCoinsViewCache::SpendCoin / AddCoin (as writes into an overlay)
   over an abstract durable key -> value map (the chainstate LevelDB) and an abstract block store
   (block index + block data + undo data).

   Only executable definitions here; proofs are in proofs/CrashReplay*.v. *)
From Coq Require Import List NArith Bool Arith.
Import ListNotations.

(* ------------------------------------------------------------------------------------------ *)
(* Ledger objects                                                                               *)

Definition txid := N.
Definition blockid := N.
(* uint256::IsNull(): the all-zero hash stands for "no block" in DB_BEST_BLOCK / DB_HEAD_BLOCKS *)
Definition null_id : blockid := 0%N.
Definition is_null (h : blockid) : bool := N.eqb h 0%N.

Definition outpoint := (txid * nat)%type.            (* COutPoint{hash, n} *)
Definition op_eqb (a b : outpoint) : bool := N.eqb (fst a) (fst b) && Nat.eqb (snd a) (snd b).

(* Coin{out, nHeight, fCoinBase}: the txout is abstracted to its amount *)
Record coin := mkCoin { c_height : nat; c_cb : bool; c_value : N }.
Definition coin_eqb (a b : coin) : bool :=
  Nat.eqb (c_height a) (c_height b) && Bool.eqb (c_cb a) (c_cb b) && N.eqb (c_value a) (c_value b).

(* CTxOut: amount, and whether scriptPubKey.IsUnspendable() (such outputs never enter the coin set) *)
Record txout := mkOut { o_value : N; o_spendable : bool }.
(* CTransaction: t_cb is IsCoinBase() (a property of the transaction's own input, not of its position) *)
Record tx := mkTx { t_id : txid; t_cb : bool; t_ins : list outpoint; t_outs : list txout }.
Definition block := list tx.                           (* CBlock::vtx *)
Definition txundo := list coin.                        (* CTxUndo::vprevout *)
Definition blockundo := list txundo.                   (* CBlockUndo::vtxundo, one per non-first transaction *)

(* ------------------------------------------------------------------------------------------ *)
(* The durable map (chainstate LevelDB): DB_BEST_BLOCK 'B', DB_HEAD_BLOCKS 'H', DB_COIN 'C'      *)

Inductive key := KBest | KHead | KCoin (o : outpoint).
Inductive value := VBlock (h : blockid) | VHeads (l : list blockid) | VCoin (c : coin).
Definition key_eqb (a b : key) : bool :=
  match a, b with
  | KBest, KBest => true
  | KHead, KHead => true
  | KCoin x, KCoin y => op_eqb x y
  | _, _ => false
  end.

Definition db := list (key * value).
Fixpoint db_get (m : db) (k : key) : option value :=
  match m with
  | [] => None
  | (k', v) :: m' => if key_eqb k k' then Some v else db_get m' k
  end.
Definition db_del (k : key) (m : db) : db := filter (fun kv => negb (key_eqb k (fst kv))) m.
Definition db_put (k : key) (v : value) (m : db) : db := (k, v) :: db_del k m.

(* CDBBatch: an ordered list of Write / Erase; CDBWrapper::WriteBatch applies it atomically *)
Inductive op := Put (k : key) (v : value) | Del (k : key).
Definition batch := list op.
Definition apply_op (m : db) (o : op) : db :=
  match o with Put k v => db_put k v m | Del k => db_del k m end.
Definition apply_ops (ops : list op) (m : db) : db := fold_left apply_op ops m.
Definition apply_batches (bs : list batch) (m : db) : db := fold_left (fun m b => apply_ops b m) bs m.

(* A crash: the first k batches are durable, the rest is lost (premise: each WriteBatch is atomic
   and batches become durable in order). *)
Definition crash_after (k : nat) (bs : list batch) (m : db) : db := apply_batches (firstn k bs) m.

(* uint256 CCoinsViewDB::GetBestBlock() const {
       uint256 hashBestChain;
       if (!m_db->Read(DB_BEST_BLOCK, hashBestChain)) return uint256();
       return hashBestChain; } *)
Definition get_best (m : db) : blockid :=
  match db_get m KBest with Some (VBlock h) => h | _ => null_id end.
(* std::vector<uint256> CCoinsViewDB::GetHeadBlocks() const {
       std::vector<uint256> vhashHeadBlocks;
       if (!m_db->Read(DB_HEAD_BLOCKS, vhashHeadBlocks)) return std::vector<uint256>();
       return vhashHeadBlocks; } *)
Definition get_heads (m : db) : list blockid :=
  match db_get m KHead with Some (VHeads l) => l | _ => [] end.
(* CCoinsViewDB::GetCoin *)
Definition db_coin (m : db) (o : outpoint) : option coin :=
  match db_get m (KCoin o) with Some (VCoin c) => Some c | _ => None end.

(* ------------------------------------------------------------------------------------------ *)
(* CCoinsViewCache over the database, as a write log (newest first).  Some c = unspent coin,
   None = spent entry.  SpendCoin and AddCoin never depend on what was there before as far as the
   resulting view is concerned; what they *return* (was there a coin) is read through view_get. *)

Definition overlay := list (outpoint * option coin).
Fixpoint log_get (l : overlay) (o : outpoint) : option (option coin) :=
  match l with
  | [] => None
  | (o', v) :: l' => if op_eqb o o' then Some v else log_get l' o
  end.
(* CCoinsViewCache::GetCoin / HaveCoin through the cache into the database *)
Definition view_get (ov : overlay) (m : db) (o : outpoint) : option coin :=
  match log_get ov o with Some v => v | None => db_coin m o end.
Definition have_coin (ov : overlay) (m : db) (o : outpoint) : bool :=
  match view_get ov m o with Some _ => true | None => false end.
(* bool CCoinsViewCache::SpendCoin(const COutPoint&, Coin* moveout): returns false when there is no
   unspent coin, otherwise marks it spent *)
Definition spend_coin (ov : overlay) (o : outpoint) : overlay := (o, None) :: ov.
(* void CCoinsViewCache::AddCoin(outpoint, coin, possible_overwrite) *)
Definition add_coin (ov : overlay) (o : outpoint) (c : coin) : overlay := (o, Some c) :: ov.

(* ------------------------------------------------------------------------------------------ *)
(* RollforwardBlock
     for (const CTransactionRef& tx : block.vtx) {
         if (!tx->IsCoinBase()) {
             for (const CTxIn &txin : tx->vin) inputs.SpendCoin(txin.prevout);
         }
         // Pass check = true as every addition may be an overwrite.
         AddCoins(inputs, *tx, pindex->nHeight, true);
     }
   AddCoins(cache, tx, nHeight, check):
     for (size_t i = 0; i < tx.vout.size(); ++i) {
         bool overwrite = check ? cache.HaveCoin(COutPoint(txid, i)) : fCoinbase;
         cache.AddCoin(COutPoint(txid, i), Coin(tx.vout[i], nHeight, fCoinbase), overwrite);
     }
   AddCoin: if (coin.out.scriptPubKey.IsUnspendable()) return;                                  *)

Fixpoint add_outs (id : txid) (h : nat) (cb : bool) (n : nat) (outs : list txout) (ov : overlay) : overlay :=
  match outs with
  | [] => ov
  | o :: outs' =>
      add_outs id h cb (S n) outs'
        (if o_spendable o then add_coin ov (id, n) (mkCoin h cb (o_value o)) else ov)
  end.
Definition spend_ins (ins : list outpoint) (ov : overlay) : overlay := fold_left spend_coin ins ov.
Definition rollforward_tx (h : nat) (t : tx) (ov : overlay) : overlay :=
  add_outs (t_id t) h (t_cb t) 0 (t_outs t) (if t_cb t then ov else spend_ins (t_ins t) ov).
Definition rollforward_block (h : nat) (b : block) (ov : overlay) : overlay :=
  fold_left (fun ov t => rollforward_tx h t ov) b ov.

(* ------------------------------------------------------------------------------------------ *)
(* DisconnectBlock / ApplyTxInUndo.  Result: failed, or done with the fClean flag.             *)

Inductive disc_result :=
| DiscFailed                      (* DISCONNECT_FAILED *)
| DiscLegacyUndo                  (* undo.nHeight == 0: the pre-0.15 undo format path (AccessByTxid), not modelled *)
| DiscDone (clean : bool) (ov : overlay).   (* DISCONNECT_OK (true) / DISCONNECT_UNCLEAN (false) *)

(* for (size_t o = 0; o < tx.vout.size(); o++) {
       if (!tx.vout[o].scriptPubKey.IsUnspendable()) {
           COutPoint out(hash, o); Coin coin;
           bool is_spent = view.SpendCoin(out, &coin);
           if (!is_spent || tx.vout[o] != coin.out || pindex->nHeight != coin.nHeight || is_coinbase != coin.IsCoinBase()) {
               if (!is_bip30_exception) fClean = false; // transaction output mismatch
   } } }
   (is_bip30_exception concerns two main-net block hashes and is false everywhere else) *)
Fixpoint erase_outs (id : txid) (h : nat) (cb : bool) (n : nat) (outs : list txout)
         (m : db) (acc : bool * overlay) : bool * overlay :=
  match outs with
  | [] => acc
  | o :: outs' =>
      erase_outs id h cb (S n) outs' m
        (if o_spendable o then
           let '(clean, ov) := acc in
           let matches := match view_get ov m (id, n) with
                          | Some c => coin_eqb c (mkCoin h cb (o_value o))
                          | None => false
                          end in
           (clean && matches, spend_coin ov (id, n))
         else acc)
  end.

(* int ApplyTxInUndo(Coin&& undo, CCoinsViewCache& view, const COutPoint& out) {
       bool fClean = true;
       if (view.HaveCoin(out)) fClean = false; // overwriting transaction output
       if (undo.nHeight == 0) { ... AccessByTxid ... }      -> DiscLegacyUndo
       view.AddCoin(out, std::move(undo), !fClean);
       return fClean ? DISCONNECT_OK : DISCONNECT_UNCLEAN; }
   called for j = vin.size()-1 down to 0 *)
Fixpoint restore_ins (rins : list (outpoint * coin)) (m : db) (clean : bool) (ov : overlay) : disc_result :=
  match rins with
  | [] => DiscDone clean ov
  | (o, u) :: r =>
      if Nat.eqb (c_height u) 0 then DiscLegacyUndo
      else restore_ins r m (clean && negb (have_coin ov m o)) (add_coin ov o u)
  end.

(* one transaction of the reverse loop; u = None for i == 0 (no inputs restored: "not coinbases") *)
Definition disconnect_tx (h : nat) (t : tx) (u : option txundo) (m : db) (clean : bool) (ov : overlay) : disc_result :=
  let '(clean1, ov1) := erase_outs (t_id t) h (t_cb t) 0 (t_outs t) m (clean, ov) in
  match u with
  | None => DiscDone clean1 ov1
  | Some prevouts =>
      (* if (txundo.vprevout.size() != tx.vin.size()) return DISCONNECT_FAILED; *)
      if Nat.eqb (length prevouts) (length (t_ins t))
      then restore_ins (rev (combine (t_ins t) prevouts)) m clean1 ov1
      else DiscFailed
  end.

Fixpoint disconnect_txs (h : nat) (rtxs : list (tx * option txundo)) (m : db) (clean : bool) (ov : overlay) : disc_result :=
  match rtxs with
  | [] => DiscDone clean ov
  | (t, u) :: r =>
      match disconnect_tx h t u m clean ov with
      | DiscDone clean' ov' => disconnect_txs h r m clean' ov'
      | e => e
      end
  end.

(* vtx[0] has no undo record, vtx[i] (i > 0) has vtxundo[i-1] *)
Definition pair_undo (b : block) (u : blockundo) : list (tx * option txundo) :=
  match b with
  | [] => []
  | t0 :: rest => (t0, None) :: combine rest (map Some u)
  end.

(* if (blockUndo.vtxundo.size() + 1 != block.vtx.size()) return DISCONNECT_FAILED;
   for (int i = block.vtx.size() - 1; i >= 0; i--) ...                                          *)
Definition disconnect_block (h : nat) (b : block) (u : blockundo) (m : db) (ov : overlay) : disc_result :=
  if Nat.eqb (S (length u)) (length b)
  then disconnect_txs h (rev (pair_undo b u)) m true ov
  else DiscFailed.

(* ------------------------------------------------------------------------------------------ *)
(* The block store: block index entry, block data (ReadBlock) and undo data (ReadBlockUndo).   *)

Record entry := mkEntry {
  e_parent : option blockid;       (* pprev *)
  e_height : nat;                  (* nHeight *)
  e_block  : option block;         (* None: ReadBlock fails (data not on disk) *)
  e_undo   : option blockundo      (* None: ReadBlockUndo fails *)
}.
Definition store := blockid -> option entry.

(* pindex->GetAncestor(height), as a walk over pprev (the skip list is an optimisation of it) *)
Fixpoint get_ancestor (st : store) (fuel : nat) (id : blockid) (h : nat) : option blockid :=
  match st id with
  | None => None
  | Some e =>
      if Nat.eqb (e_height e) h then Some id
      else match fuel with
           | O => None
           | S f => match e_parent e with
                    | None => None
                    | Some p => get_ancestor st f p h
                    end
           end
  end.

(* const CBlockIndex* LastCommonAncestor(const CBlockIndex* pa, const CBlockIndex* pb) {
       if (pa->nHeight > pb->nHeight) pa = pa->GetAncestor(pb->nHeight);
       else if (pb->nHeight > pa->nHeight) pb = pb->GetAncestor(pa->nHeight);
       while (pa != pb && pa && pb) { pa = pa->pprev; pb = pb->pprev; }
       assert(pa == pb); return pa; } *)
Fixpoint lca_walk (st : store) (fuel : nat) (pa pb : blockid) : option blockid :=
  if N.eqb pa pb then Some pa
  else match fuel with
       | O => None
       | S f =>
           match st pa, st pb with
           | Some ea, Some eb =>
               match e_parent ea, e_parent eb with
               | Some qa, Some qb => lca_walk st f qa qb
               | _, _ => None
               end
           | _, _ => None
           end
       end.
Definition last_common_ancestor (st : store) (pa pb : blockid) : option blockid :=
  match st pa, st pb with
  | Some ea, Some eb =>
      let ha := e_height ea in
      let hb := e_height eb in
      match (if Nat.ltb hb ha then get_ancestor st ha pa hb else Some pa),
            (if Nat.ltb ha hb then get_ancestor st hb pb ha else Some pb) with
      | Some qa, Some qb => lca_walk st (Nat.min ha hb) qa qb
      | _, _ => None
      end
  | _, _ => None
  end.

Inductive replay_error :=
| ErrBadHeads          (* hashHeads.size() != 2 *)
| ErrUnknownNew        (* reorganization to unknown block requested *)
| ErrUnknownOld        (* reorganization from unknown block requested *)
| ErrNoFork            (* assert(pindexFork != nullptr) *)
| ErrReadBlock         (* ReadBlock failed *)
| ErrDisconnect        (* DisconnectBlock returned DISCONNECT_FAILED (incl. unreadable undo data) *)
| ErrLegacyUndo        (* the unmodelled nHeight == 0 undo path was reached *)
| ErrWalk.             (* a pprev / GetAncestor walk left the index (null dereference in the C++) *)

Inductive replay_result :=
| ReplayNoop                                   (* hashHeads.empty(): already consistent *)
| ReplayError (e : replay_error)
| ReplayDone (new_tip : blockid) (ov : overlay).   (* the cache that ReplayBlocks then flushes *)

(* while (pindexOld != pindexFork) {
       if (pindexOld->nHeight > 0) { // Never disconnect the genesis block.
           ReadBlock; DisconnectBlock(block, pindexOld, cache); FAILED -> return false }
       pindexOld = pindexOld->pprev; } *)
Fixpoint rollback (st : store) (fuel : nat) (old fork : blockid) (m : db) (ov : overlay) : replay_error + overlay :=
  if N.eqb old fork then inr ov
  else match fuel with
       | O => inl ErrWalk
       | S f =>
           match st old with
           | None => inl ErrWalk
           | Some e =>
               let step :=
                 if Nat.ltb 0 (e_height e) then
                   match e_block e with
                   | None => inl ErrReadBlock
                   | Some b =>
                       match e_undo e with
                       | None => inl ErrDisconnect
                       | Some u =>
                           match disconnect_block (e_height e) b u m ov with
                           | DiscFailed => inl ErrDisconnect
                           | DiscLegacyUndo => inl ErrLegacyUndo
                           | DiscDone _ ov' => inr ov'
                           end
                       end
                   end
                 else inr ov in
               match step with
               | inl err => inl err
               | inr ov' =>
                   match e_parent e with
                   | None => inl ErrWalk
                   | Some p => rollback st f p fork m ov'
                   end
               end
           end
       end.

(* for (int nHeight = nForkHeight + 1; nHeight <= pindexNew->nHeight; ++nHeight) {
       const CBlockIndex& pindex{*Assert(pindexNew->GetAncestor(nHeight))};
       if (!RollforwardBlock(&pindex, cache)) return false; }
   n = number of heights still to do, h = next height *)
Fixpoint rollforward (st : store) (new : blockid) (new_height : nat) (n : nat) (h : nat) (ov : overlay) : replay_error + overlay :=
  match n with
  | O => inr ov
  | S n' =>
      match get_ancestor st new_height new h with
      | None => inl ErrWalk
      | Some id =>
          match st id with
          | None => inl ErrWalk
          | Some e =>
              match e_block e with
              | None => inl ErrReadBlock
              | Some b => rollforward st new new_height n' (S h) (rollforward_block h b ov)
              end
          end
      end
  end.

(* Chainstate::ReplayBlocks up to (excluding) the final cache.Flush() *)
Definition replay_blocks (st : store) (m : db) : replay_result :=
  match get_heads m with
  | [] => ReplayNoop
  | [hnew; hold] =>
      match st hnew with
      | None => ReplayError ErrUnknownNew
      | Some enew =>
          (* old tip / fork / fork height; a null old tip means "first flush": nothing to roll back, fork height 0 *)
          let prep : replay_error + (option (blockid * blockid) * nat) :=
            if is_null hold then inr (None, 0)
            else match st hold with
                 | None => inl ErrUnknownOld
                 | Some _ =>
                     match last_common_ancestor st hold hnew with
                     | None => inl ErrNoFork
                     | Some f =>
                         match st f with
                         | None => inl ErrNoFork
                         | Some ef => inr (Some (hold, f), e_height ef)
                         end
                     end
                 end in
          match prep with
          | inl err => ReplayError err
          | inr (oldfork, fork_height) =>
              let rolled_back :=
                match oldfork with
                | None => inr []
                | Some (old, f) =>
                    match st old with
                    | None => inl ErrUnknownOld
                    | Some eold => rollback st (S (e_height eold)) old f m []
                    end
                end in
              match rolled_back with
              | inl err => ReplayError err
              | inr ov =>
                  match rollforward st hnew (e_height enew) (e_height enew - fork_height) (S fork_height) ov with
                  | inl err => ReplayError err
                  | inr ov' => ReplayDone hnew ov'
                  end
              end
          end
      end
  | _ => ReplayError ErrBadHeads
  end.

(* ------------------------------------------------------------------------------------------ *)
(* CCoinsViewDB::BatchWrite.  The cursor yields the dirty entries (outpoint, coin-or-spent); the
   boolean attached to an entry says whether batch.ApproximateSize() > batch_write_bytes held
   after it was added (a partial batch is written and the batch cleared).

     batch.Erase(DB_BEST_BLOCK);
     batch.Write(DB_HEAD_BLOCKS, Vector(block_hash, old_tip));
     for (it ...) { if dirty { spent ? batch.Erase(entry) : batch.Write(entry, coin) }
                    if (batch.ApproximateSize() > m_options.batch_write_bytes) { m_db->WriteBatch(batch); batch.Clear(); } }
     batch.Erase(DB_HEAD_BLOCKS);
     batch.Write(DB_BEST_BLOCK, block_hash);
     m_db->WriteBatch(batch);                                                                    *)

Definition dirty_entry := (outpoint * option coin)%type.
Definition entry_op (e : dirty_entry) : op :=
  match snd e with
  | Some c => Put (KCoin (fst e)) (VCoin c)
  | None => Del (KCoin (fst e))
  end.

Fixpoint bw_loop (es : list (dirty_entry * bool)) (cur fin : batch) : list batch :=
  match es with
  | [] => [cur ++ fin]
  | (e, cut) :: es' =>
      let cur' := cur ++ [entry_op e] in
      if cut then cur' :: bw_loop es' [] fin else bw_loop es' cur' fin
  end.

Definition bw_header (new old : blockid) : batch := [Del KBest; Put KHead (VHeads [new; old])].
Definition bw_footer (new : blockid) : batch := [Del KHead; Put KBest (VBlock new)].

(* uint256 old_tip = GetBestBlock();
   if (old_tip.IsNull()) {
       std::vector<uint256> old_heads = GetHeadBlocks();
       if (old_heads.size() == 2) { assert(old_heads[0] == block_hash); old_tip = old_heads[1]; } }
   None = the assertion fails (the process aborts, nothing is written) *)
Definition bw_old_tip (m : db) (new : blockid) : option blockid :=
  let best := get_best m in
  if is_null best then
    match get_heads m with
    | [h0; h1] => if N.eqb h0 new then Some h1 else None
    | _ => Some best
    end
  else Some best.

Definition batch_write (m : db) (es : list (dirty_entry * bool)) (new : blockid) : option (list batch) :=
  match bw_old_tip m new with
  | None => None
  | Some old => Some (bw_loop es (bw_header new old) (bw_footer new))
  end.

(* The dirty entries of a cache: one per outpoint written, with its final value (newest first in
   the log, so the first occurrence wins).  The real cache additionally drops entries that were
   created and spent again without ever reaching the database (FRESH), and iterates in its own
   order; the theorems quantify over every entry list that is `valid` for the view, of which this
   is one. *)
Fixpoint dirty_of (ov : overlay) (seen : list outpoint) : list dirty_entry :=
  match ov with
  | [] => []
  | (o, v) :: r =>
      if existsb (op_eqb o) seen then dirty_of r seen else (o, v) :: dirty_of r (o :: seen)
  end.

(* attach cut flags: cut after every n-th entry (n = 0: never) -- used by the drivers only *)
Fixpoint with_cuts (n i : nat) (es : list dirty_entry) : list (dirty_entry * bool) :=
  match es with
  | [] => []
  | e :: r => if Nat.eqb (S i) n then (e, true) :: with_cuts n 0 r else (e, false) :: with_cuts n (S i) r
  end.

(* ------------------------------------------------------------------------------------------ *)
(* Specification side: the UTXO set of a chain.                                                 *)

(* connecting a block on a consistent state has the effect of RollforwardBlock; the coin set of a
   chain (blocks at heights h, h+1, ...) is the view obtained by applying them to the empty set *)
Fixpoint apply_chain (h : nat) (bs : list block) (ov : overlay) : overlay :=
  match bs with
  | [] => ov
  | b :: r => apply_chain (S h) r (rollforward_block h b ov)
  end.
Definition log_coin (l : overlay) (o : outpoint) : option coin :=
  match log_get l o with Some v => v | None => None end.

(* validity of a transaction / block on the state reached so far (the part of ConnectBlock /
   CheckTxInputs / BIP30 that the recovery argument needs):
   - vtx[0] is the coinbase and nothing else is (CheckBlock);
   - every input of a non-coinbase transaction is an unspent coin when it is spent;
   - no spendable output is created on top of an unspent coin (BIP30 / unique txids). *)
Fixpoint ins_ok (ins : list outpoint) (s : overlay) : bool :=
  match ins with
  | [] => true
  | o :: r => match log_coin s o with
              | Some _ => ins_ok r (spend_coin s o)
              | None => false
              end
  end.
Fixpoint outs_fresh (id : txid) (n : nat) (outs : list txout) (s : overlay) : bool :=
  match outs with
  | [] => true
  | o :: r => (negb (o_spendable o) || match log_coin s (id, n) with None => true | Some _ => false end)
              && outs_fresh id (S n) r s
  end.
Definition tx_ok (first : bool) (t : tx) (s : overlay) : bool :=
  Bool.eqb (t_cb t) first &&
  (if t_cb t then true else ins_ok (t_ins t) s) &&
  outs_fresh (t_id t) 0 (t_outs t) (if t_cb t then s else spend_ins (t_ins t) s).
Fixpoint txs_ok (h : nat) (first : bool) (b : list tx) (s : overlay) : bool :=
  match b with
  | [] => true
  | t :: r => tx_ok first t s && txs_ok h false r (rollforward_tx h t s)
  end.
Definition block_ok (h : nat) (b : block) (s : overlay) : bool :=
  match b with [] => false | _ => txs_ok h true b s end.

(* the undo data ConnectBlock writes: for every non-first transaction the coins its inputs spent *)
Fixpoint undo_ins (ins : list outpoint) (s : overlay) : list (option coin) :=
  match ins with
  | [] => []
  | o :: r => log_coin s o :: undo_ins r (spend_coin s o)
  end.
Fixpoint undo_txs (h : nat) (b : list tx) (s : overlay) : list (list (option coin)) :=
  match b with
  | [] => []
  | t :: r => undo_ins (t_ins t) s :: undo_txs h r (rollforward_tx h t s)
  end.
Definition undo_matches (h : nat) (b : block) (u : blockundo) (s : overlay) : Prop :=
  match b with
  | [] => False
  | t0 :: rest => map (map Some) u = undo_txs h rest (rollforward_tx h t0 s)
  end.

(* ------------------------------------------------------------------------------------------ *)
(* FlushStateToDisk: the order of its durable steps (should_write branch)
     FlushChainstateBlockFile   block and undo files flushed
     WriteBlockIndexDB          block index, synced LevelDB batch
     UnlinkPrunedFiles          (only when pruning)
     CoinsTip().Flush()/Sync()  -> BatchWrite: the coin batches, in order                        *)
Inductive flush_step :=
| StepBlockFiles
| StepBlockIndex
| StepUnlinkPruned
| StepCoinBatch (i : nat).
Definition flush_steps (prune : bool) (nbatches : nat) : list flush_step :=
  [StepBlockFiles; StepBlockIndex] ++ (if prune then [StepUnlinkPruned] else []) ++ map StepCoinBatch (seq 0 nbatches).

(* ------------------------------------------------------------------------------------------ *)
(* The property's predicate on an observed recovery (used by the violation search).
   Observed: whether a head marker was in the crashed database, the recovered best block, the
   recovered coin listing (sorted, no duplicates: it comes from a database cursor).
   Reference: the old and new tip of the interrupted flush and their coin sets. *)

Definition coin_listing := list (outpoint * coin).
Fixpoint listing_eqb (a b : coin_listing) : bool :=
  match a, b with
  | [], [] => true
  | (o1, c1) :: a', (o2, c2) :: b' => op_eqb o1 o2 && coin_eqb c1 c2 && listing_eqb a' b'
  | _, _ => false
  end.

(* canonical listing of the unspent coins of a view over the candidate outpoints `dom` (in order) *)
Fixpoint listing_of (get : outpoint -> option coin) (dom : list outpoint) : coin_listing :=
  match dom with
  | [] => []
  | o :: r => match get o with
              | Some c => (o, c) :: listing_of get r
              | None => listing_of get r
              end
  end.

Inductive verdict := VOk | VBadTip | VBadCoins | VMarkerNotRecovered | VNotNewTip.
(* marker : a head marker was present before recovery; then the recovered tip must be the new tip.
   In every case the recovered tip is the old or the new tip and the coins are those of that tip. *)
Definition holds_recovery (old new : blockid) (ref_old ref_new : coin_listing)
           (marker : bool) (tip : blockid) (coins : coin_listing) : verdict :=
  if marker && negb (N.eqb tip new) then VNotNewTip
  else if N.eqb tip new then (if listing_eqb coins ref_new then VOk else VBadCoins)
  else if N.eqb tip old then (if listing_eqb coins ref_old then VOk else VBadCoins)
  else VBadTip.

(* ------------------------------------------------------------------------------------------ *)
(* Executable helpers for the drivers and for concrete examples.                               *)

(* a finite block store *)
Fixpoint store_of (l : list (blockid * entry)) : store :=
  fun id => match l with
            | [] => None
            | (i, e) :: r => if N.eqb id i then Some e else store_of r id
            end.

(* the undo data connecting block b on state s records (None: some input is not an unspent coin) *)
Fixpoint all_some (l : list (option coin)) : option (list coin) :=
  match l with
  | [] => Some []
  | Some c :: r => match all_some r with Some r' => Some (c :: r') | None => None end
  | None :: _ => None
  end.
Fixpoint all_some2 (l : list (list (option coin))) : option blockundo :=
  match l with
  | [] => Some []
  | x :: r => match all_some x, all_some2 r with
              | Some x', Some r' => Some (x' :: r')
              | _, _ => None
              end
  end.
Definition compute_undo (h : nat) (b : block) (s : overlay) : option blockundo :=
  match b with
  | [] => None
  | t0 :: rest => all_some2 (undo_txs h rest (rollforward_tx h t0 s))
  end.

(* the consistent database of a tip *)
Definition db_of_listing (tip : blockid) (l : coin_listing) : db :=
  (KBest, VBlock tip) :: map (fun oc => (KCoin (fst oc), VCoin (snd oc))) l.

(* the cache log of the node that went from old to new while the database still holds old: the same
   operations ReplayBlocks performs (DisconnectBlock down to the fork, then the new branch applied) *)
Definition reorg_log (st : store) (m : db) (new old : blockid) : replay_result :=
  replay_blocks st (apply_ops (bw_header new old) m).

(* flush a cache log over database m towards tip new, cutting a partial batch after every n-th entry *)
Definition flush_batches (m : db) (ov : overlay) (n : nat) (new : blockid) : option (list batch) :=
  batch_write m (with_cuts n 0 (dirty_of ov [])) new.

(* one start-up: ReplayBlocks and its final flush, uninterrupted. None = start-up fails. *)
Definition recover_once (st : store) (m : db) (n : nat) : option db :=
  match replay_blocks st m with
  | ReplayNoop => Some m
  | ReplayError _ => None
  | ReplayDone new ov =>
      match flush_batches m ov n new with
      | Some bs => Some (apply_batches bs m)
      | None => None
      end
  end.

(* the mid-flush invariant, on listings: every listed coin of the crashed database is the coin of the
   old or of the new tip at that outpoint, and every coin common to both tips is present *)
Fixpoint listing_get (l : coin_listing) (o : outpoint) : option coin :=
  match l with
  | [] => None
  | (o', c) :: r => if op_eqb o o' then Some c else listing_get r o
  end.
Definition opt_coin_eqb (a b : option coin) : bool :=
  match a, b with
  | Some x, Some y => coin_eqb x y
  | None, None => true
  | _, _ => false
  end.
Definition holds_midflush (ref_old ref_new crashed : coin_listing) : bool :=
  forallb (fun oc => let o := fst oc in
                     opt_coin_eqb (Some (snd oc)) (listing_get ref_old o) ||
                     opt_coin_eqb (Some (snd oc)) (listing_get ref_new o)) crashed
  && forallb (fun oc => let o := fst oc in
                        opt_coin_eqb (listing_get crashed o) (listing_get ref_old o) ||
                        opt_coin_eqb (listing_get crashed o) (listing_get ref_new o)) (ref_old ++ ref_new).
