From Coq Require Import Extraction ExtrOcamlBasic.
From BV Require Import lib.ExtractBase lib.Ints gen.Params_gen model.SerBase model.SerTx model.SigHash model.SigEnc.
Extraction "model.ml" extract_base
  get_op script_parses strip_codeseparators ser_script_code
  legacy_preimage bip143_preimage taproot_preimage
  legacy_sighash bip143_sighash taproot_sighash tapleaf_hash annex_hash
  is_valid_signature_encoding is_defined_hashtype_signature check_signature_encoding check_pubkey_encoding
  pubkey_is_valid check_ecdsa_signature check_schnorr_signature low_s_arith tap_hash_type_valid.
