From Coq Require Import Extraction ExtrOcamlBasic.
From BV Require Import lib.ExtractBase lib.Ints gen.Params_gen model.Merkle model.Cmpct.
Extraction "model.ml" extract_base is_block_mutated block_merkle_root
  place_prefilled prefilled_slots free_slots init_checks fill_loop fill_block.
