From Coq Require Import Extraction ExtrOcamlBasic.
From BV Require Import lib.ExtractBase lib.Ints gen.Params_gen model.Transport.
Extraction "model.ml" extract_base
  node_recv_chunks conn_outs conn_dead
  v1_iter v1_init v1_encode v1_header v1_set_message_to_send v1send_init v1_pump
  v2_iter v2_init v2_stream v2_packets v2_contents v2_short_id v2_expected v2_get_received_message BIP324_SHORT_IDS
  holds_v1 holds_v2 TR_MAGICS MAX_CONTENTS_LEN.
