From Coq Require Import Extraction ExtrOcamlBasic.
From BV Require Import lib.ExtractBase lib.Ints model.Fee model.Lin model.TxGraph.
Extraction "model.ml" extract_base init_state step run top main_oversized stag_oversized
  q_ancestors q_descendants q_cluster q_count_distinct q_anc_union q_desc_union q_feerate ids
  query_checks trim_checks first_failure holds_query holds_trim
  mkLobs mkOobs mkQobs.
