From Coq Require Import Extraction ExtrOcamlBasic.
From BV Require Import lib.ExtractBase lib.Ints model.Merkle.
Extraction "model.ml" extract_base compute_merkle_root compute_merkle_root_noflag fold_path
  merkle_computation compute_merkle_path holds_path any_level_has_equal_pair
  block_merkle_root block_witness_merkle_root check_merkle_root check_witness_malleation is_block_mutated.
