From Coq Require Import Extraction ExtrOcamlBasic.
From BV Require Import lib.ExtractBase lib.Ints model.CryptoBase model.CryptoMD model.CryptoSHA256
  model.CryptoSHA1 model.CryptoSHA512 model.CryptoRIPEMD160 model.CryptoHMAC model.CryptoHMACInst
  model.CryptoChaCha model.CryptoPoly1305 model.CryptoAEAD model.CryptoSipHash model.CryptoSHA3
  model.CryptoSHA256D64 model.CryptoHashWrap model.CryptoPoly1305Limbs model.CryptoAES.
Extraction "model.ml" extract_base zeros
  sha256_spec csha256_stream sha256d64_spec
  sha1_spec csha1_stream sha512_spec csha512_stream ripemd160_spec cripemd160_stream
  hmac_sha256_spec hmac_sha512_spec hkdf_sha256_spec chmac_sha256_stream chmac_sha512_stream chkdf_sha256_l32
  chacha20_encrypt chacha20_new chacha20_seek cc_run_ops bip324_nonce fschacha20_new fschacha20_crypt_seq
  poly1305_spec poly1305_stream
  aead_encrypt_spec aead_decrypt_spec aead_encrypt aead_decrypt fsaead_new fsaead_encrypt_seq fsaead_encrypt fsaead_decrypt
  bip324_packet_spec
  siphash24_spec csiphasher_stream csiphasher_run presalted_siphash_u256 presalted_siphash_u256_extra
  siphash13uj_spec uj_stream sha3_256_spec sha3_stream keccak_f keccakf_cpp
  sha256d64_dispatch hash256_spec hash160_spec tagged_hash_spec bip32_hash_spec
  chash256_stream chash160_stream tagged_hash_stream bip32_hash_model murmurhash3
  donna_stream
  aes256_encrypt_block_spec aes256_decrypt_block_spec cbc_encrypt cbc_decrypt cbc_encrypt_spec cbc_decrypt_spec pkcs7_pad pkcs7_unpad.
