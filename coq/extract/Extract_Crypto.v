From Coq Require Import Extraction ExtrOcamlBasic.
From BV Require Import lib.ExtractBase lib.Ints model.CryptoBase model.CryptoMD model.CryptoSHA256
  model.CryptoSHA1 model.CryptoSHA512 model.CryptoRIPEMD160 model.CryptoHMAC model.CryptoHMACInst.
Extraction "model.ml" extract_base zeros
  sha256_spec csha256_stream sha256d64_spec
  sha1_spec csha1_stream sha512_spec csha512_stream ripemd160_spec cripemd160_stream
  hmac_sha256_spec hmac_sha512_spec hkdf_sha256_spec chmac_sha256_stream chmac_sha512_stream chkdf_sha256_l32.
