From Coq Require Import Extraction ExtrOcamlBasic.
From BV Require Import lib.ExtractBase lib.Ints model.Fee.
Extraction "model.ml" extract_base
  mul_fallback mul_native div_fallback div_native evaluate_fee evaluate_fee_fallback
  byratio_cmp byratio_eq byratio_lt byratio_gt byratio_le byratio_ge byratio_cmp_fallback
  negsize_cmp negsize_eq compare_chunks cfeerate_make get_fee get_fee_per_k
  round_div holds_mul holds_div holds_eval spec_cmp spec_negsize_cmp spec_get_fee.
