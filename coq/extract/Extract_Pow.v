From Coq Require Import Extraction ExtrOcamlBasic.
From BV Require Import lib.ExtractBase lib.Ints lib.ChainParams gen.Params_gen model.Pow.
Extraction "model.ml" extract_base all_chains set_compact get_compact get_compact_asserts derive_target
  check_pow check_pow_spec calc_next_work permitted_transition get_next_work_required median_time_past
  contextual_check_header accept_header interval height_of
  holds_set_compact holds_get_compact holds_retarget compact_encode_spec compact_magnitude compact_sign
  compact_trunc retarget_spec mpi_size.
