From Coq Require Import Extraction ExtrOcamlBasic.
From BV Require Import lib.ExtractBase lib.Ints gen.Params_gen model.SerBase model.SerTx model.CryptoSHA256 model.MempoolPersist.
Extraction "model.ml" extract_base
  run_load run_parse tx_txid tx_wtxid empty_pool dm_erase dm_find set_mem lres_pool lres_ok bytes_eqb
  encode_file tx_ser xor_at.
