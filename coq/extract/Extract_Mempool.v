From Coq Require Import Extraction ExtrOcamlBasic.
From BV Require Import lib.ExtractBase lib.Ints gen.Params_gen model.Locks model.Mempool model.Miner.
Extraction "model.ml" extract_base
  MP_DEFAULT_MEMPOOL_EXPIRY_HOURS
  empty_pool pool_ids in_pool height mtp_tip utxo
  accept process_transaction disconnect_n connect_all resurrect remove_for_reorg limit_size expire trim
  reorg step run dump_of check_dump
  assemble check_template offered_ok chunk_parents_ok chunk_wf MAX_BLOCK_SIGOPS_COST.
