From Coq Require Import Extraction ExtrOcamlBasic.
From BV Require Import lib.ExtractBase lib.Ints gen.Params_gen model.VersionBits.
Extraction "model.ml" extract_base vbuild vnode_at get_state_for state_after get_state_since_height_for
  get_state_statistics_for align prev_boundary condition tstate_name v_mtp state_of_key.
