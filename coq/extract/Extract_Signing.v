From Coq Require Import Extraction ExtrOcamlBasic.
From BV Require Import lib.ExtractBase lib.Ints model.Signing.
Extraction "model.ml" extract_base produce spec_spend ms_sat check_locktime check_sequence report_ok.
