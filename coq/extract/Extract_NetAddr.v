From Coq Require Import Extraction ExtrOcamlBasic.
From BV Require Import lib.ExtractBase model.NetAddr model.BanMan model.NetAddrInst.
Extraction "model.ml" extract_base run_match_cidr run_match_mask run_match_single run_is_valid
  holds_match_cidr holds_match_single run_ser run_unser run_ban_script holds_ban.
