From Coq Require Import Extraction ExtrOcamlBasic.
From BV Require Import lib.ExtractBase lib.Ints lib.ChainParams gen.Params_gen model.Amount.
Extraction "model.ml" extract_base all_chains chain_subsidy get_block_subsidy subsidy_spec
  holds_total money_range total_issuance_bound.
