From Coq Require Import Extraction ExtrOcamlBasic.
From BV Require Import lib.ExtractBase lib.Ints model.AddrMan model.AddrManInst.
Extraction "model.ml" extract_base real_cfg init_state add_single good attempt connected set_services_op resolve_collisions
  select_tried_collision getaddr size_op select_plan select_result_ok check_addrman serialize unserialize.
