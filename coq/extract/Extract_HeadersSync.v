From Coq Require Import Extraction ExtrOcamlBasic.
From BV Require Import lib.ExtractBase lib.Ints lib.ChainParams gen.Params_gen model.Pow model.HeadersSync.
Extraction "model.ml" extract_base process_next_headers permitted_main block_proof hs_init max_commitments_of holds_commitments.
