From Coq Require Import Extraction ExtrOcamlBasic.
From BV Require Import lib.ExtractBase lib.Ints model.CryptoBase model.CryptoSHA256 model.CryptoChaCha model.MuHash.
Extraction "model.ml" extract_base mh_cmd_run mh_regs0 mh_to_num3072 num_multiply num_divide num_get_inverse P3072.
