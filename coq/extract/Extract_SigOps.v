From Coq Require Import Extraction ExtrOcamlBasic.
From BV Require Import lib.ExtractBase lib.Ints gen.Params_gen model.SigOps model.BlockCheck proofs.BlockCheckLemmas.
Extraction "model.ml" extract_base get_op parse get_sigop_count p2sh_sigop_count is_p2sh is_push_only is_witness_program
  count_witness_sigops legacy_sigop_count p2sh_sigop_count_tx tx_sigop_cost
  spec_sigops spec_p2sh_sigops spec_is_p2sh redeem_script spec_witness_program spec_witness_sigops spec_legacy spec_p2sh_tx spec_tx_cost
  script_push_int64 bip34_ok get_block_weight block_limits_verdict spec_block_ok_b btx_of.
