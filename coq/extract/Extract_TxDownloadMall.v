From Coq Require Import Extraction ExtrOcamlBasic.
From BV Require Import lib.ExtractBase lib.Ints model.TxDownloadMall.
Extraction "model.ml" extract_base run step dl_empty already_have holds_c64 orph_have pool_has_wtxid mem.
