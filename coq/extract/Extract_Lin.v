From Coq Require Import Extraction ExtrOcamlBasic.
From BV Require Import lib.ExtractBase lib.Ints model.Fee model.Lin model.LinPost.
Extraction "model.ml" extract_base
  chunking chunking_info lin_feerates is_topological feerates_in_range diagram_not_worse lin_not_worse
  valid_and_not_worse feerates_nonincreasing is_connected chunks_connected all_topo_orders dominates_all_topo
  compare_chunks post_linearize.
