From Coq Require Import Extraction ExtrOcamlBasic.
From BV Require Import lib.ExtractBase lib.Ints gen.Params_gen model.Orphanage.
Extraction "model.ml" extract_base o_empty ostep get_children_from_same_peer
  usage_by_peer anns_from_peer latency_from_peer count_announcements announcers_of have_tx_to_reconsider
  total_latency max_global_usage max_peer_latency needs_trim
  peers_of wtxids_of recompute_peer spec_unique_count spec_total_usage spec_total_latency
  spec_max_global_usage spec_max_peer_latency spec_needs_trim spec_dosy spends_any ORPHAN_MAX_TX_WEIGHT.
