From Coq Require Import Extraction ExtrOcamlBasic.
From BV Require Import lib.ExtractBase lib.Ints model.TxRequest.
Extraction "model.ml" extract_base compute_priority t_empty step s_empty s_step
  count_in_flight count_candidates count_total tracker_size candidate_peers
  s_count s_count_in_flight s_count_candidates s_size s_candidate_peers
  recompute_peerinfo pinfo_eqb in_st cnt.
