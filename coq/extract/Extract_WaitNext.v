From Coq Require Import Extraction ExtrOcamlBasic.
From BV Require Import lib.ExtractBase lib.Ints gen.Params_gen model.WaitNext.
Extraction "model.ml" extract_base step start returned_ok MAX_MONEY.
