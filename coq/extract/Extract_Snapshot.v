From Coq Require Import Extraction ExtrOcamlBasic.
From BV Require Import lib.ExtractBase lib.Ints gen.Params_gen model.SerBase model.Compress model.CompressEC model.CryptoSHA256 model.Snapshot.
Extraction "model.ml" extract_base run_activate run_utxo_hash run_maybe_validate read_meta bytes_eq.
