From Coq Require Import Extraction ExtrOcamlBasic.
From BV Require Import lib.ExtractBase lib.Ints model.MuHash model.Index model.IndexCoinStats model.IndexTx model.IndexFilter model.IndexSim.
Extraction "model.ml" extract_base sim_run sim0 stats_agree.
