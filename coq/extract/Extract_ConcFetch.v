From Coq Require Import Extraction ExtrOcamlBasic.
From BV Require Import lib.ExtractBase lib.Ints model.ConcFetch.
Extraction "model.ml" extract_base fstep finit block_inputs.
