From Coq Require Import Extraction ExtrOcamlBasic.
From BV Require Import lib.ExtractBase lib.Ints gen.Params_gen model.TxRelay model.PrivBcast.
Extraction "model.ml" extract_base rinit_at rstep serve_getdata find_entry find_peer
  pb_add pb_remove pb_pick pb_tx_for_node pick_candidates PRIVBCAST_MAX_TRANSACTIONS PRIVBCAST_MAX_SEND_ATTEMPTS.
