From Coq Require Import Extraction ExtrOcamlBasic.
From BV Require Import lib.ExtractBase lib.Ints model.TxRelay.
Extraction "model.ml" extract_base rinit_at rstep serve_getdata find_entry find_peer.
