From Coq Require Import Extraction ExtrOcamlBasic.
From BV Require Import lib.ExtractBase lib.Ints model.Notify model.NotifySim.
Extraction "model.ml" extract_base sim_events sub_run_ix sub_step exec_ops qrun.
