From Coq Require Import Extraction ExtrOcamlBasic.
From BV Require Import lib.ExtractBase lib.Ints model.WalletSpend model.FeeBump.
Extraction "model.ml" extract_base get_fee dust_threshold effective_rate required_rate min_viable_change
  max_fee_without_change spendable sffo_shares total_reduction payouts
  ck_inputs_distinct ck_inputs_allowed ck_presets_used ck_conservation ck_change_pos ck_recipients
  ck_sffo_amount ck_no_dust ck_change ck_sizes ck_rate ck_fee valid_funding
  precondition expected_refusal bump_split new_rate bump_request check_fee_rate o_fee as_result cp_candidates
  ck_inputs_kept ck_pays_increment valid_bump.
