From Coq Require Import Extraction ExtrOcamlBasic.
From BV Require Import lib.ExtractBase lib.Ints gen.Params_gen model.WalletBal.
Extraction "model.ml" extract_base get_balance available_coins balance_spec coins_spec tracks own_pending_of
  status_of bucket_of how_spent.
