From Coq Require Import Extraction ExtrOcamlBasic.
From BV Require Import lib.ExtractBase lib.Ints gen.Params_gen model.Amount model.TxCheck.
Extraction "model.ml" extract_base check_transaction first_violation nowit_size.
