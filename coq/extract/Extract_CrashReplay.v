From Coq Require Import Extraction ExtrOcamlBasic.
From BV Require Import lib.ExtractBase model.CrashReplay.
Extraction "model.ml" extract_base replay_blocks batch_write with_cuts dirty_of crash_after apply_batches apply_ops
  bw_header get_heads get_best db_coin listing_of log_coin apply_chain rollforward_block compute_undo block_ok
  holds_recovery holds_midflush listing_eqb store_of db_of_listing reorg_log flush_batches recover_once flush_steps.
