From Coq Require Import Extraction ExtrOcamlBasic.
From BV Require Import lib.ExtractBase lib.Ints model.CheckQueue.
Extraction "model.ml" extract_base step init result_ok serial enabled.
