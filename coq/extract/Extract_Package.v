From Coq Require Import Extraction ExtrOcamlBasic.
From BV Require Import lib.ExtractBase lib.Ints gen.Params_gen model.Package model.PackageAccept model.Truc model.PackageTruc.
Extraction "model.ml" extract_base is_well_formed is_topo_sorted is_consistent is_child_with_parents
  is_child_with_parents_tree first_violation has_dup unsorted has_empty_vin has_conflict spec_cwp_b spec_cwp_tree_b
  weights_ok_b toy_single toy_accept toy3_single toy3_accept has_wtxid has_txid rm_find result_matches holds_results
  holds_no_dangling spends truc_holds.
