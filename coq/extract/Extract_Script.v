From Coq Require Import Extraction ExtrOcamlBasic.
From BV Require Import lib.ExtractBase lib.Ints gen.Params_gen model.Script model.ScriptVerify.
Extraction "model.ml" extract_base eval_script_state eval_script stub_checker num_encode num_decode num_minimal
  script_num cast_to_bool parse_script find_and_delete push_encoding check_signature_encoding check_pubkey_encoding
  verify_script execute_witness_script verify_taproot flags_valid is_push_only witness_program is_pay_to_script_hash.
