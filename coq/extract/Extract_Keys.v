From Coq Require Import Extraction ExtrOcamlBasic.
From BV Require Import lib.ExtractBase lib.Ints gen.Params_gen model.Bech32 model.Base58 model.KeyIo model.KeyIoInst
  model.EC model.Bip32 model.Bip32Inst.
Extraction "model.ml" extract_base
  encode bech32_decode convert_bits verify_checksum create_checksum
  encode_base58 decode_base58 b58check_encode b58check_decode
  keyio_chains addr_encode addr_decode dest_wf lower_case bech32_limit
  xkey_encode xkey_decode wif_encode wif_decode
  bip32_ckd_priv bip32_ckd_pub bip32_neuter bip32_encode_prv bip32_encode_pub bip32_decode_prv bip32_decode_pub
  bip32_set_seed ec_seckey_verify.
