From Coq Require Import Extraction ExtrOcamlBasic.
From BV Require Import lib.ExtractBase model.ContBuf model.ContPrevector model.ContVecDeque model.ContBitdeque model.ContPool model.ContInst.
Extraction "model.ml" extract_base pv_trace_raw pv_spec_raw holds_pv vd_trace_raw vd_spec_raw holds_vd
  bd_trace_raw bd_spec_raw holds_bd
  pool_trace_raw holds_pool.
