From Coq Require Import Extraction ExtrOcamlBasic.
From BV Require Import lib.ExtractBase lib.Ints model.WalletCrypt.
Extraction "model.ml" extract_base step run init reload encrypt_phase1 ideal_cipher code_chk has_enc is_locked count_recs can_sign get_key
  set_key_from_passphrase encrypt_secret decrypt_secret.
