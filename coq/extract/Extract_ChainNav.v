From Coq Require Import Extraction ExtrOcamlBasic.
From BV Require Import lib.ExtractBase lib.Ints model.Pow model.ChainNav.
Extraction "model.ml" extract_base build_tree get_node get_ancestor last_common_ancestor find_fork set_tip chain_at
  locator_entries locator_heights get_bits_proof get_skip_height ancestor_spec height_of_block walk_up
  compact_magnitude compact_sign.
