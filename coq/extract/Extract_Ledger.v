From Coq Require Import Extraction ExtrOcamlBasic.
From BV Require Import lib.ExtractBase lib.Ints lib.ChainParams gen.Params_gen model.Amount model.Ledger.
From BV Require model.TxCheck.
Extraction "model.ml" extract_base chain_regtest get_block_subsidy subsidy_sum
  lookup total check_block check_tx_inputs connect_block disconnect_block
  genesis_state cs_height connect_tip disconnect_tip replay chain_blocks
  canon scan_chain holds_C01 holds_C02 holds_C09.
