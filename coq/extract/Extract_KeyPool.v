From Coq Require Import Extraction ExtrOcamlBasic.
From BV Require Import lib.ExtractBase lib.Ints model.KeyPool.
Extraction "model.ml" extract_base run init handed holds_distinct.
