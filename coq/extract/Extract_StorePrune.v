From Coq Require Import Extraction ExtrOcamlBasic.
From BV Require Import lib.ExtractBase lib.Ints gen.Params_gen model.StorePrune.
Extraction "model.ml" extract_base flush_prune locks_after_disconnect pruned_verdict REGTEST_PRUNE_AFTER_HEIGHT.
