From Coq Require Import Extraction ExtrOcamlBasic.
From BV Require Import lib.ExtractBase lib.Ints gen.Params_gen model.Punish.
Extraction "model.ml" extract_base punish_block punish_tx discourage_and_disconnect block_outcome tx_outcome BVR_CONSENSUS BVR_MUTATED BVR_INVALID_HEADER BVR_TIME_FUTURE.
