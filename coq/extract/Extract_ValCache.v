From Coq Require Import Extraction ExtrOcamlBasic.
From BV Require Import lib.ExtractBase lib.Ints model.ValCache.
Extraction "model.ml" extract_base cuckoo_setup compute_hashes cuckoo_insert cuckoo_contains cuckoo_run
  exec_plain exec_cached check_input_scripts real_ok run_history.
