From Coq Require Import Extraction ExtrOcamlBasic.
From BV Require Import lib.ExtractBase lib.Ints model.PrivBcast.
Extraction "model.ml" extract_base pb_add pb_remove pb_pick pb_tx_for_node pb_confirm pb_did_confirm pb_have_pending pb_stale attempts_remaining pick_candidates.
