From Coq Require Import Extraction ExtrOcamlBasic.
From BV Require Import lib.ExtractBase lib.Ints gen.Params_gen model.Coins.
Extraction "model.ml" extract_base step run spec_step holds_step holds_acct obs_match init_layers init_spec
  layer_recount flagged entry_usage entry_flagged view_peek spec_views m_get m_set entry_sane entry_check stack_views spec_run.
