From Coq Require Import Extraction ExtrOcamlBasic.
From BV Require Import lib.ExtractBase lib.Ints gen.Params_gen model.Http.
Extraction "model.ml" extract_base new_client feed feed_all observable.
