From Coq Require Import Extraction ExtrOcamlBasic.
From BV Require Import lib.ExtractBase lib.Ints model.Psbt.
Extraction "model.ml" extract_base kv_decode kv_encode kv_wf lookup has_key union_keep compatible merge_spec_holds
  merge_modifiable keep_first compute_timelock timelock_spec le_dec bytes_eqb.
