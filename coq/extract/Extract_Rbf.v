From Coq Require Import Extraction ExtrOcamlBasic.
From BV Require Import lib.ExtractBase lib.Ints gen.Params_gen model.Fee model.Lin model.Rbf.
Extraction "model.ml" extract_base
  ids pays_for_rbf input_conflicts truc_sibling direct_conflicts evicted mark_desc fees_of tx_parents
  cluster_reps within_b wf_pool_b same_set rbf_accept_ok compare_chunks
  RBF_INCREMENTAL_RELAY_FEE RBF_MAX_REPLACEMENT_CANDIDATES.
