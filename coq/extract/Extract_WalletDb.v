From Coq Require Import Extraction ExtrOcamlBasic.
From BV Require Import lib.ExtractBase lib.Ints model.WalletDb.
Extraction "model.ml" extract_base step run init reopen crash_in op_effect load_ok_at code_lock_upgrade.
