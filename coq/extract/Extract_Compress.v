From Coq Require Import Extraction ExtrOcamlBasic.
From BV Require Import lib.ExtractBase lib.Ints gen.Params_gen model.SerBase model.Compress model.CompressEC.
Extraction "model.ml" extract_base
  compress_amount decompress_amount compress_amount_unbounded
  write_varint read_varint write_compact_size read_compact_size
  secp_fully_valid secp_decompress
  special_script_size compress_script decompress_script ser_script unser_script
  ser_txout unser_txout ser_coin unser_coin ser_undo unser_undo
  holds_coin_roundtrip coin_eqb bytes_okb.
