From Coq Require Import Extraction ExtrOcamlBasic.
From BV Require Import lib.ExtractBase lib.Ints gen.Params_gen model.EC model.ECSign.
Extraction "model.ml" extract_base
  secp_p secp_n secp_half_n scalar_is_high scalar_check_overflow
  sig_parse_compact sig_normalize ec_seckey_verify ec_seckey_negate ec_seckey_tweak_add ec_seckey_tweak_mul
  ec_pubkey_parse ec_pubkey_serialize ec_pubkey_create ec_pubkey_negate ec_pubkey_tweak_add
  xonly_from_pubkey xonly_parse xonly_serialize xonly_tweak_add xonly_tweak_add_check
  ecdsa_verify node_ecdsa_verify scalar_bytes on_curve be_val ckey_sign_exec.
