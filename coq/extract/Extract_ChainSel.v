From Coq Require Import Extraction ExtrOcamlBasic.
From BV Require Import lib.ExtractBase lib.Ints gen.Params_gen model.ChainSel.
Extraction "model.ml" extract_base genesis_state process_new_block process_new_block_header rpc_invalidate
  rpc_reconsider apply_op run known in_chain work height store_cond unrequested_store_cond header_acceptable
  work_of_block height_of_block passes_checks holds_tip_best holds_tip_most_work holds_active_clean
  CHAINSEL_MIN_BLOCKS_TO_KEEP.
