From Coq Require Import Extraction ExtrOcamlBasic.
From BV Require Import lib.ExtractBase lib.Ints gen.Params_gen model.CoinSel.
Extraction "model.ml" extract_base group_of amt offered_groups valid_selection optimal_check none_check
  select_coins_bnb coin_grinder result_of sort_nat pick_at waste_of bnb_waste.
