From Coq Require Import Extraction ExtrOcamlBasic.
From BV Require Import lib.ExtractBase lib.Ints gen.Params_gen model.Package model.PackageAccept model.Truc.
Extraction "model.ml" extract_base single_truc_checks package_truc_checks parents_of children_of anc_count desc_count
  truc_try_add truc_try_package truc_apply truc_holds truc_ok_tx desc_txids remove_set vsize_of has_txid is_truc
  check_cluster_limits check_policy_limits cluster_of direct_conflicts anc_set.
