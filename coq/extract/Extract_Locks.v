From Coq Require Import Extraction ExtrOcamlBasic.
From BV Require Import lib.ExtractBase lib.Ints gen.Params_gen model.Locks.
Extraction "model.ml" extract_base is_final_tx mtp_at calculate_sequence_locks evaluate_sequence_locks sequence_locks
  check_inputs_maturity contextual_txs_final spec_final_b spec_mtp spec_sequence_locks_b spec_mature_b block_height connect_tx_verdict spec_verdict.
