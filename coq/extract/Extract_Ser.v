From Coq Require Import Extraction ExtrOcamlBasic.
From BV Require Import lib.ExtractBase lib.Ints gen.Params_gen model.SerBase model.SerTx model.Codec model.CodecMoney.
Extraction "model.ml" extract_base
  write_compact_size read_compact_size write_varint read_varint
  ser_bytes unser_bytes ser_tx unser_tx strip_witness has_witness ser_header unser_header ser_block unser_block
  hex_str try_parse_hex hex_normal hex_digit is_space
  convert_bits encode_base64 decode_base64 encode_base32 decode_base32 b64_value b32_value
  encode_base58 decode_base58 b58_value
  format_money parse_money
  bytes_okb.
