From Coq Require Import Extraction ExtrOcamlBasic.
From BV Require Import lib.ExtractBase lib.Ints gen.Params_gen model.Eviction.
Extraction "model.ml" extract_base select_node_to_evict_stable protect_by_ratio_stable
  select_gen protect_all protect_by_ratio pick erase_last_k_sorted stable_sort
  cmp_rev_connected cmp_rev_min_ping surely_last_k zlen
  holds_C59 ids_unique eligible protected_by_rule protected_block_relay_only.
