From Coq Require Import Extraction ExtrOcamlBasic.
From BV Require Import lib.ExtractBase lib.Ints lib.ChainParams gen.Params_gen model.Pow model.AssumeValid.
Extraction "model.ml" extract_base bits_proof equiv_time script_check skip_allowed chain_regtest cp_target_spacing.
