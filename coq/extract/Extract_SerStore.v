From Coq Require Import Extraction ExtrOcamlBasic.
From BV Require Import lib.ExtractBase lib.Ints gen.Params_gen model.SerBase model.SerTx model.SerStore.
Extraction "model.ml" extract_base obfuscate xor_stream bytes_okb
  write_record read_raw_block read_block flip_byte undo_read_ok_after_flip bytes_eq ser_header.
