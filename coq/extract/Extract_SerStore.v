From Coq Require Import Extraction ExtrOcamlBasic.
From BV Require Import lib.ExtractBase lib.Ints gen.Params_gen model.SerBase model.SerStore.
Extraction "model.ml" extract_base obfuscate xor_stream bytes_okb.
