From Coq Require Import Extraction ExtrOcamlBasic.
From BV Require Import lib.ExtractBase lib.Ints gen.Params_gen model.Merkle model.Pmt model.Bloom model.Gcs.
Extraction "model.ml" extract_base compute_merkle_root_noflag
  pmt_build pmt_extract matched_from
  bloom_insert bloom_contains rolling_insert rolling_contains
  bw_init bw_write bw_flush br_init br_read golomb_rice_encode golomb_rice_decode
  compact_size gcs_build gcs_encoded gcs_match gcs_match_any.
