from vlib.runner import Tie
from vlib import core
from props import C08 as base

ID = "C58"
LEVEL = "proof"
DESIGN_REF = "DESIGN.md section 5, C58"
PROP_FILES = ["props/Properties_C58.v"]
RULE = ("cases: op scripts on a fresh TestChain100Setup (regtest: work = 2*(height+1)): an unrequested block delivered at work "
        "offsets -1/0/+1/+2 relative to the tip, at height offsets 287/288/289 (a header chain of 289 delivered first, then one "
        "unrequested block on top), with MinimumChainWork set just below / at / above the block's work, with acceptable and "
        "unacceptable headers and with blocks that fail the checks; each followed by the requested redelivery of the same block "
        "and of its missing ancestors; plus random trees with a high share of unrequested deliveries and a random MinimumChainWork. "
        "After every op the implementation prints the tip and every changed flag. Non-trivial = contains an unrequested delivery "
        "of a block that is not stored yet; distinct = distinct case lines.")
ASSUMPTIONS = list(base.ASSUMPTIONS) + [
    "the block is new or header-only (no pruning: nTx != 0 <=> BLOCK_HAVE_DATA)",
    "on regtest every block has the same work, so the work offset and the height offset to the tip are tied; the theorems are for arbitrary work"]
TRUSTED = list(base.TRUSTED)
KEEP = None


def gen(rng, tier):
    P = core.parse_params()
    keep = int(P.get("CHAINSEL_MIN_BLOCKS_TO_KEEP", 288)) if isinstance(P, dict) else 288
    cases = []
    W = lambda h: 2 * (h + 1)
    # 1. work offsets around the tip (tip g100, height 100): a block at height 99 / 100 / 101 / 102
    for mw in (None,):
        # less work: on g98 (height 99); same work: on g99; more: on g100
        for par, nm in (("g97", "a"), ("g98", "a"), ("g99", "a"), ("g100", "a")):
            cases.append("blk a %s valid; sub a unreq; sub a req" % par)
            cases.append("blk a %s valid; hdr a; sub a unreq; sub a unreq; sub a req; sub a unreq" % par)
            cases.append("blk a %s badconnect; sub a unreq; sub a req" % par)
            cases.append("blk a %s badctx; sub a unreq; sub a req" % par)
            cases.append("blk a %s badcheck; sub a unreq; sub a req" % par)
        # two ahead through a header-only parent
        cases.append("blk a g100 valid; blk b a valid; hdr a; sub b unreq; sub a unreq; sub b req")
        cases.append("blk a g100 valid; blk b a valid; sub b unreq; hdr a b; sub b unreq; sub a req")
        # after the tip moved: what was enough work no longer is
        cases.append("blk a g100 valid; blk b g100 valid; blk c g99 valid; sub a req; sub b unreq; sub c unreq; sub b req; sub c req")
        cases.append("blk a g100 valid; blk b a valid; blk c g100 valid; blk d c valid; sub a req; sub b req; sub c unreq; sub d unreq; sub c req; sub d unreq; sub d req")
        # unacceptable header: failed block / failed parent / unknown parent
        cases.append("blk a g100 valid; blk b a valid; hdr a b; inv a; sub b unreq; sub a unreq; rec a; sub b unreq; sub a unreq")
        cases.append("blk a g100 badctx; blk b a valid; sub a req; sub b unreq; sub b req")
        cases.append("blk a g100 valid; blk b a valid; sub b unreq; sub b req; sub a unreq; sub b unreq")
    # 2. height window: header chain of keep+1 on top of the tip, one unrequested block at offset keep-1, keep, keep+1
    n = keep + 1
    allh = " ".join("c%d" % i for i in range(1, n + 1))
    for off in (keep - 1, keep, keep + 1):
        cases.append("chain c g100 %d; hdr %s; sub c%d unreq; sub c%d req; sub c%d unreq" % (n, allh, off, off, off))
    # the tip one higher: the window moves with it
    cases.append("chain c g100 %d; hdr %s; sub c%d unreq; sub c1 req; sub c%d unreq; sub c%d unreq; sub c%d req"
                 % (n, allh, keep + 1, keep + 1, keep + 2 if keep + 2 <= n else n, keep + 1))
    # a fork far ahead on a lower base, and with min chain work in play
    cases.append("chain c g99 %d; hdr %s; sub c%d unreq; sub c%d unreq; sub c%d unreq" % (n, allh, keep, keep + 1, keep - 1))
    cases.append("mw %d; chain c g100 %d; hdr %s; sub c%d unreq; sub c%d unreq; sub c%d req" % (W(100 + keep), n, allh, keep - 1, keep, keep - 1))
    # 3. minimum chain work around the block's work (block at height 101: work 204; at 102: 206)
    for mw in (W(101) - 1, W(101), W(101) + 1, W(102), W(102) + 1):
        cases.append("mw %d; blk a g100 valid; sub a unreq; sub a req" % mw)
        cases.append("mw %d; blk a g100 valid; blk b a valid; hdr a; sub b unreq; sub a unreq; sub a req; sub b unreq; sub b req" % mw)
        cases.append("mw %d; blk a g100 valid; blk b a valid; sub a req; sub b unreq; sub b req" % mw)
        cases.append("mw %d; blk a g99 valid; sub a unreq; sub a req" % mw)
    # 4. random trees, many unrequested deliveries, random min work near the tip's work
    nrand = 150 if tier == "quick" else 8000
    for _ in range(nrand):
        nb = rng.choice([1, 2, 3])
        bases = ["g%d" % (100 - rng.choice([0, 0, 1, 1, 2, 3])) for _ in range(nb)]
        blocks = base.gen_tree(rng, rng.choice([2, 4, 6, 10]), bases)
        ops = base.gen_script(rng, blocks, bases, unreq_p=0.55)
        mw = rng.choice([None, None, W(100) + rng.randrange(-2, 9)])
        cases.append(base.fmt(blocks, ops, mw))
    return cases


def nontrivial(c):
    return "unreq" in c


def classify(c):
    if c.startswith("mw"):
        return "minwork" + ("+far" if "chain " in c else "")
    if "chain " in c:
        return "height-window"
    return "work-offset" if c.count("blk ") <= 4 else "random"


TIES = [Tie("chainsel_unrequested", "tie/drivers/chainsel_drv.cpp", "Extract_ChainSel.v", "chainsel_driver.ml", gen, mode="C58",
            predicate="driver", nontrivial=nontrivial, classify=classify, shrink=base.shrink)]

LEVEL_TEXT = ("Coq theorems about the model of AcceptBlock / ProcessNewBlock in every state reachable by any op sequence: an unrequested "
              "block that is not stored yet is stored iff its header is acceptable, it passes CheckBlock and ContextualCheckBlock, "
              "work >= work(tip), height <= height(tip) + MIN_BLOCKS_TO_KEEP (generated constant) and work >= MinimumChainWork; "
              "otherwise the resulting state is EQUAL to the state after delivering only its header (no data, no failure flag, "
              "candidates, tip and unlinked map unchanged), hence any later op sequence, in particular the requested redelivery, "
              "behaves as if the unrequested delivery had been a header delivery. Tied to the real node by the per-op correspondence "
              "at the work / height / min-work boundaries.")
LEVEL_NOTE = base.LEVEL_NOTE + (" The block file contents (WriteBlock) are not modelled: 'stored' is BLOCK_HAVE_DATA, which is set only "
                                "by ReceivedBlockTransactions right after WriteBlock.")
TECHNIQUE = "Coq proof (case analysis of the AcceptBlock model on invariant states) + per-op differential correspondence"
