import os
from vlib.runner import Tie
from vlib import core

ID = "C37"
LEVEL = "partial"
DESIGN_REF = "DESIGN.md section 5, C37"
PROP_FILES = ["props/Properties_C37.v"]
RULE = ("cases: operation scripts (Add one address from a source with a forced outcome of the stochastic test, Good, Attempt, Connected, "
        "SetServices, ResolveCollisions, SelectTriedCollision, GetAddr, Select, Size, Serialize->Unserialize reload, clock moves) over a "
        "universe of 46 addresses (IPv4 engineered by search to collide in the tried table and, per source, in the new table; other ports; "
        "IPv6, 6to4, Tor, I2P, CJDNS; unroutable) and 13 sources; after every operation the complete private state of the real AddrMan and "
        "the result of the real CheckAddrman() are compared with the model. non-trivial = script with at least 4 operations; distinct = distinct scripts")
ASSUMPTIONS = ["bucket/position functions (keyed double-SHA256) and CNetAddr predicates are Section variables of the model; premises kept in the "
               "theorems: their values lie inside the table dimensions, a routable address is valid; the tie tabulates the real functions for the universe",
               "times passed to Good/Attempt/Connected and address timestamps are positive and below 2^32 (nTime goes to disk as uint32)",
               "insecure_rand draws, the clock and the iteration order of the unordered_map mapInfo are explicit arguments of the model (the theorems quantify over them)",
               "nIdCount (int64) does not wrap"]
TRUSTED = ["Coq 8.16.1 kernel (coqc)", "tie/dump_params.cpp (+ tie/params/p2pd.h) prints the ADDRMAN_* constants",
           "extraction: ExtrOcamlBasic only; ocaml/conv.ml + addrman_driver.ml glue (oracle tables, canonical dumps)",
           "tie/drivers/addrman_drv.cpp: reads AddrManImpl's private members (#define private public), reseeds insecure_rand to force/predict draws"]

ARITY = {"t": 1, "a": 6, "g": 2, "at": 3, "c": 2, "sv": 2, "r": 0, "stc": 1, "ga": 5, "sel": 3, "sz": 2, "rl": 0}
NOW0 = 1700000000
_oracle = {"path": None, "T": [], "N": {}, "X": [], "nkeys": 52, "nsrc": 13}


def split_ops(case):
    w = case.split()
    ops = []
    i = 0
    while i < len(w):
        n = ARITY[w[i]]
        ops.append(w[i:i + 1 + n])
        i += 1 + n
    return ops


def join_ops(ops):
    return " ".join(" ".join(o) for o in ops)


class AddrTie(Tie):
    hints = {}

    def build(self):
        cpp, mdl = super().build()
        rc, out, err = core.run_lines(cpp, ["oracle"], [], 600)
        if rc != 0 or not out:
            raise core.InfraError("addrman_drv oracle failed: " + err[-2000:])
        path = os.path.join(core.BUILD, "drv", "addrman_oracle.txt")
        tmp = path + ".%d" % os.getpid()
        open(tmp, "w").write("\n".join(out) + "\n")
        os.replace(tmp, path)
        _oracle["path"] = path
        _oracle["T"] = []
        _oracle["N"] = {}
        _oracle["X"] = []
        for l in out:
            w = l.split()
            if w[0] == "universe":
                _oracle["nkeys"], _oracle["nsrc"] = int(w[1]), int(w[2])
            elif w[0] == "class" and w[1] == "T":
                _oracle["T"].append([int(x) for x in w[2:]])
            elif w[0] == "class" and w[1] == "X":
                _oracle["X"].append([int(x) for x in w[2:]])
            elif w[0] == "class" and w[1] == "N":
                _oracle["N"].setdefault(int(w[2]), []).append([int(x) for x in w[3:]])
        return cpp, mdl

    def run_impl(self, cpp, cases):
        outs = super().run_impl(cpp, cases)
        res = []
        for c, o in zip(cases, outs):
            obs, _, h = o.partition(" ##")
            self.hints[c] = h
            res.append(obs)
        return res

    def aug(self, c):
        return c + " ##" + self.hints.get(c, "")

    def run_model(self, mdl, cases):
        rc, out, err = core.run_lines(mdl, ["model", _oracle["path"]], [self.aug(c) for c in cases], self.timeout)
        if len(out) != len(cases):
            raise core.InfraError("model driver returned %d lines for %d cases (rc=%s)\nstderr: %s" % (len(out), len(cases), rc, err[-2000:]))
        return out

    def run_holds(self, mdl, cases, impl):
        lines = [self.aug(c) + " => " + i for c, i in zip(cases, impl)]
        rc, out, err = core.run_lines(mdl, ["holds", _oracle["path"]], lines, self.timeout)
        if len(out) != len(cases):
            raise core.InfraError("model driver (holds) returned %d lines for %d cases\nstderr: %s" % (len(out), len(cases), err[-2000:]))
        return out


def shrink(case):
    ops = split_ops(case)
    n = len(ops)
    # big cuts first (every candidate costs a driver start): halve the script, then drop quarters, then single operations
    if n > 1:
        yield join_ops(ops[:n // 2])
        yield join_ops(ops[:(3 * n) // 4])
        yield join_ops(ops[:n - 1])
    k = max(1, n // 4)
    while k >= 1:
        for i in range(0, n, k):
            if i + k <= n and n - k >= 1:
                yield join_ops(ops[:i] + ops[i + k:])
        if k == 1:
            break
        k //= 2


def gen(rng, tier):
    T = _oracle["T"] or [[0, 1, 3, 5]]
    N = _oracle["N"] or {0: [[0, 7, 8]], 1: [[0, 9, 10]]}
    nk, ns = _oracle["nkeys"], _oracle["nsrc"]
    X = _oracle["X"] or [[0, 46, 47]]     # tried-table collisions across networks (IPv4/IPv6, Tor/IPv6, CJDNS/IPv6)
    eng = sorted(set(k for cl in T for k in cl) | set(k for s in N for cl in N[s] for k in cl) | set(k for cl in X for k in cl))
    cases = []

    class S:  # script builder with a clock
        def __init__(self):
            self.ops = []
            self.now = NOW0

        def t(self, dt):
            self.now += dt
            self.ops.append("t %d" % self.now)

        def add(self, k, s, dt=None, want0=None, pen=None, svc=None):
            if dt is None:
                dt = rng.choice([-5, -100, -3000, -3700, -90000, 0, 5, 500, -40 * 86400, 700])
            if want0 is None:
                want0 = rng.choice([1, 1, 0])
            if pen is None:
                pen = rng.choice([0, 0, 7200, 100000, 2000000000])
            if svc is None:
                svc = rng.choice([0, 1, 9, 1033, 18446744073709551615 >> 1])
            self.ops.append("a %d %d %d %d %d %d" % (k, s, max(0, self.now + dt), svc, pen, want0))

        def good(self, k, dt=0):
            self.ops.append("g %d %d" % (k, max(1, self.now + dt)))

        def attempt(self, k, cnt=1, dt=0):
            self.ops.append("at %d %d %d" % (k, cnt, max(1, self.now + dt)))

        def connected(self, k, dt=0):
            self.ops.append("c %d %d" % (k, max(1, self.now + dt)))

        def misc(self):
            r = rng.random()
            if r < 0.25:
                self.ops.append("ga %d %d %d %d %d" % (rng.choice([0, 0, 1, 3, 2500]), rng.choice([0, 23, 50, 100]), rng.choice([-1, -1, 1, 2, 3, 4, 5]),
                                                       rng.choice([0, 1]), rng.randrange(1 << 30)))
            elif r < 0.5:
                self.ops.append("sel %d %d %d" % (rng.choice([0, 0, 1]), rng.choice([0, 0, 2, 4, 6, 8, 16, 32, 56, 62]), rng.randrange(1 << 30)))
            elif r < 0.65:
                self.ops.append("sz %d %d" % (rng.choice([-1, 1, 2, 3, 4, 5, 0]), rng.choice([0, 1, 2])))
            elif r < 0.75:
                self.ops.append("stc %d" % rng.randrange(10))
            elif r < 0.85:
                self.ops.append("sv %d %d" % (rng.randrange(nk), rng.choice([0, 1, 1033])))
            elif r < 0.95:
                self.ops.append("r")
            else:
                self.ops.append("rl")

        def done(self):
            cases.append(" ".join(self.ops))

    def pick_key():
        return rng.choice(eng) if rng.random() < 0.75 else rng.randrange(nk)

    nscripts = 2000 if tier == "quick" else 30000
    for it in range(nscripts):
        s = S()
        kind = it % 8
        if kind == 7:
            # an address moving into tried evicts a colliding tried entry of a DIFFERENT network: the per-network counters of both
            # networks change (test-before-evict collision, resolved after the test window)
            cl = list(rng.choice(X))
            rng.shuffle(cl)
            a, b = cl[0], cl[1]
            s.add(a, rng.randrange(ns), dt=-5)
            s.good(a)
            if rng.random() < 0.4:
                s.add(rng.choice(eng), rng.randrange(ns), dt=-5)
            s.add(b, rng.randrange(ns), dt=-5)
            s.good(b, dt=1)
            if len(cl) > 2 and rng.random() < 0.4:
                s.add(cl[2], rng.randrange(ns), dt=-5)
                s.good(cl[2], dt=2)
            r = rng.random()
            if r < 0.5:
                s.t(rng.choice([14400 + 2401, 14400 + 2500, 20000]))     # old entry untested for > 4h and the new one older than the test window
            else:
                s.t(rng.choice([14401, 15000]))
                s.attempt(a, 1)
                s.t(rng.choice([61, 100]))                                # failed attempt more than 60 s ago: replace
            s.ops.append("r")
            for net in (1, 2, 3, 5):
                s.ops.append("sz %d %d" % (net, rng.choice([0, 1, 2])))
            if rng.random() < 0.5:
                s.ops.append("rl")
                for net in (1, 2, 3, 5):
                    s.ops.append("sz %d %d" % (net, rng.choice([0, 1])))
            for _ in range(rng.randrange(4)):
                s.misc()
        elif kind == 0:
            # tried collisions and their resolution
            cl = list(rng.choice(T))
            rng.shuffle(cl)
            src = rng.choice([0, 0, 1, 2])
            for k in cl:
                s.add(k, src, dt=-5)
                if rng.random() < 0.3:
                    s.add(k, rng.randrange(ns), dt=rng.choice([1, 100]), want0=1)
            s.good(cl[0])
            for k in cl[1:]:
                s.good(k)
                if rng.random() < 0.3:
                    s.misc()
            for _ in range(rng.choice([1, 2, 4])):
                r = rng.random()
                if r < 0.3:
                    s.attempt(cl[0], rng.choice([0, 1]))
                s.t(rng.choice([30, 61, 2399, 2401, 14399, 14400, 14401, 20000]))
                if r > 0.6:
                    s.attempt(cl[0], 1)
                    s.t(rng.choice([59, 60, 61, 100]))
                s.ops.append("stc %d" % rng.randrange(10))
                s.ops.append("r")
                if rng.random() < 0.4:
                    s.good(rng.choice(cl))
            for _ in range(rng.randrange(4)):
                s.misc()
        elif kind == 1:
            # reference count growth to the limit, from many sources
            k = pick_key()
            srcs = list(range(ns))
            rng.shuffle(srcs)
            s.add(k, srcs[0], dt=-3000)
            for j, sr in enumerate(srcs[1:] + srcs[:3]):
                s.add(k, sr, dt=-2999 + j, want0=1 if rng.random() < 0.9 else 0, pen=0)
                if rng.random() < 0.1:
                    s.misc()
            if rng.random() < 0.5:
                s.good(k)
            if rng.random() < 0.5:
                s.ops.append("rl")
            for _ in range(rng.randrange(5)):
                s.add(pick_key(), rng.randrange(ns))
        elif kind == 2:
            # collisions in the new table: terrible entries get overwritten, multi-referenced entries lose a slot
            sr = rng.choice(sorted(N.keys()))
            cl = list(rng.choice(N[sr]))
            rng.shuffle(cl)
            a = cl[0]
            mode = rng.randrange(4)
            if mode == 0:
                s.add(a, sr, dt=-5)
            elif mode == 1:
                s.add(a, sr, dt=rng.choice([-31 * 86400, 601, 599, -30 * 86400 + 5]))     # horizon / future
            elif mode == 2:
                s.add(a, sr, dt=-5)
                s.add(a, rng.choice([x for x in range(ns) if x != sr]), dt=0, want0=1)     # second reference
            else:
                s.add(a, sr, dt=-5)
                for j in range(rng.choice([2, 3, 4])):
                    s.attempt(a, 1)
                    s.good(rng.choice(eng), dt=j + 1)
                    s.t(rng.choice([30, 61, 100]))
            s.t(rng.choice([0, 30, 61, 61, 700]))
            for b in cl[1:]:
                s.add(b, sr, dt=-5)
                if rng.random() < 0.3:
                    s.misc()
            for _ in range(rng.randrange(6)):
                s.add(pick_key(), rng.choice([sr, rng.randrange(ns)]))
        elif kind == 3:
            # eviction from tried back into an occupied new slot
            cl = list(rng.choice(T))
            rng.shuffle(cl)
            a, b = cl[0], cl[1]
            s.add(a, 0, dt=-5)
            s.good(a)
            for n0 in N.get(0, []):
                if a in n0:
                    for c in n0:
                        if c != a:
                            s.add(c, 0, dt=-5)
                            if rng.random() < 0.4:
                                s.add(c, rng.randrange(1, ns), dt=0, want0=1)
            s.add(b, rng.choice([0, 1]), dt=-5)
            s.good(b)
            s.t(rng.choice([14400 + 2401, 14401, 3000]))
            if rng.random() < 0.5:
                s.attempt(a, 1)
                s.t(61)
            s.ops.append("r")
            for _ in range(rng.randrange(5)):
                s.misc()
        else:
            # random walk
            for _ in range(rng.choice([8, 20, 45, 80])):
                r = rng.random()
                if r < 0.4:
                    s.add(pick_key(), rng.randrange(ns))
                elif r < 0.55:
                    s.good(pick_key(), dt=rng.choice([0, -5, 3]))
                elif r < 0.63:
                    s.attempt(pick_key(), rng.choice([0, 1, 1]), dt=rng.choice([0, -5]))
                elif r < 0.68:
                    s.connected(pick_key(), dt=rng.choice([0, 1201, 1200]))
                elif r < 0.78:
                    s.t(rng.choice([1, 59, 61, 599, 601, 2401, 14401, 86400, 8 * 86400, 31 * 86400]))
                else:
                    s.misc()
        if rng.random() < 0.35:
            s.ops.append("rl")
            for _ in range(rng.randrange(6)):
                if rng.random() < 0.5:
                    s.add(pick_key(), rng.randrange(ns))
                else:
                    s.misc()
        s.done()
    return cases


def nontrivial(c):
    return len(split_ops(c)) >= 4


def classify(c):
    return "script"


TIES = [AddrTie("addrman_ops", "tie/drivers/addrman_drv.cpp", "Extract_AddrMan.v", "addrman_driver.ml", gen,
                predicate="driver", nontrivial=nontrivial, classify=classify, shrink=shrink)]

LEVEL_TEXT = ("Coq theorems, by induction over all operation sequences (all addresses, sources, timestamps, random draws, map iteration orders), about an "
              "executable transcription of AddrManImpl: the CheckAddrman invariant holds in every reachable state and no assert/Assume of the "
              "C++ fires; reference counts are at most 8, a tried address occupies exactly one slot, table sizes are bounded by the table "
              "dimensions; Good moves an entry to tried and loses nothing but what the code evicts; Serialize (any iteration order of mapInfo) "
              "writes every address with its statistics and nothing else. The model is tied to the real AddrMan by comparing the complete "
              "private state after every operation.")
LEVEL_NOTE = ("Residue: the Unserialize half of the reload clause (the reloaded tables hold the same addresses in the same slots) is modelled "
              "and exercised (every third script reloads the real AddrMan and continues on it; addresses, statistics and placement are compared "
              "before/after) but not proved; its full statement is in Properties_C37.v. "
              "Trusted: Coq kernel, dump_params.cpp, extraction + driver glue. The keyed hashes are abstract functions in the proofs and tabulated from the "
              "real code for the tie. Select_'s random search loop is not modelled: its precondition (the counts say an eligible entry exists) is "
              "proved sound and the implementation's answers are judged by the specification select_result_ok. Asmap change on reload (re-bucketing) "
              "is modelled but not exercised by the tie.")
TECHNIQUE = "Coq proof (state-machine invariant by induction over operation sequences; refinement of the loops) + differential correspondence"
