from vlib.runner import Tie
from vlib import core

ID = "C16"
LEVEL = "partial"
DESIGN_REF = "DESIGN.md section 5, C16 and Appendix A"
PROP_FILES = ["props/Properties_C16.v"]
RULE = ("cases: block trees of real regtest blocks on top of a 130-block fixture chain (old branch / new branch of 0-4 blocks each above an optional "
        "common prefix; chains of spends, transactions re-mined on the other branch at another height, coins spent on one side and unspent on the "
        "other, unspendable outputs), old tip a (flushed database) and new tip b (cache) of an interrupted flush; batch_write_bytes from 1 byte "
        "(one entry per batch) upwards; EVERY batch boundary of the real BatchWrite is a crash point (database snapshot taken right before each "
        "WriteBatch), and for three of them every batch boundary of the flush that ends ReplayBlocks as well. non-trivial = the scenario has at "
        "least one block; distinct = distinct case lines")
ASSUMPTIONS = ["each CDBWrapper::WriteBatch is atomic and batches become durable in order (a crash leaves a prefix of the batch sequence): premise of the theorems, and "
               "what the driver's snapshot-before-every-WriteBatch realises; LevelDB's log recovery, fsync behaviour and torn writes are outside the model",
               "ledger premise of the theorems: the OLD branch is a valid extension of utxo(fork) (inputs unspent when spent, no spendable output created on top of an "
               "unspent coin - BIP30 / unique txids) and its stored undo data is what connecting it recorded; nothing is assumed about the new branch "
               "(Example C16_unique_outpoints_premise_is_needed shows the premise cannot be dropped)",
               "the old tip's hash is not the null hash; the block index holds both branches with block and undo data readable (FlushStateToDisk writes them before the coins: "
               "C16_data_precedes_coins, observed by the driver through the order of the flush's log lines)",
               "the pre-0.15 undo format path of ApplyTxInUndo (undo.nHeight == 0 -> AccessByTxid) is not modelled (error constructor DiscLegacyUndo, proved unreachable under the ledger premise)",
               "chainwork clause (tip after resuming >= last flushed tip) is checked by the driver only (reorg-by-work scenarios), not proved; pruning of block files is not exercised"]
TRUSTED = ["Coq 8.16.1 kernel (coqc; vm_compute in the examples)",
           "extraction: ExtrOcamlBasic only; ocaml/conv.ml + crashreplay_driver.ml glue (scenario parsing, enumeration of the model's crash points, text form of coin sets)",
           "tie/drivers/crashreplay_drv.cpp: builds real blocks/transactions, reaches CCoinsViewDB / Chainstate internals via #define private public (batch size, raw "
           "database snapshots and restores, cache re-initialisation to emulate a restart), takes the snapshots from a logging callback on BatchWrite's own log lines",
           "props/C16.py compares implementation and model outputs modulo the number of batches (the split is implementation-defined; the theorems hold for every split)"]

P = 130
SUBSIDY = 5000000000


class Out(str):
    """Driver output that compares modulo the crash-point count: first / set of interior / last records."""
    def _c(self):
        return compress(str(self))
    def __eq__(self, other):
        a, b = self._c(), Out(other)._c()
        if a is None or b is None:
            return str(self) == str(other)
        if a[0] != b[0]:
            return False
        for x, y in zip(a[1:], b[1:]):
            if x and y and x != y:
                return False
        return True
    def __ne__(self, other):
        return not self.__eq__(other)
    __hash__ = str.__hash__


def compress(s):
    parts = [p.split() for p in s.split(" | ")]
    if not parts or not parts[0] or parts[0][0] != "ok":
        return None
    hdr = dict(t.split("=", 1) for t in parts[0][1:] if "=" in t)
    nb = int(hdr.get("nb", "0"))
    sets = {}
    first = last = None
    mids = set()
    second = set()
    for p in parts[1:]:
        if p[0] == "S":
            sets[p[1]] = " ".join(p[2:])
    for p in parts[1:]:
        if p[0] == "R":
            k = int(p[1])
            rec = (p[2], p[3], p[5], p[6], sets.get(p[7], "?") if p[5] == "ok" else "")
            if k == 0:
                first = rec + (sets.get(p[4], "?"),)
            elif k == nb:
                last = rec + (sets.get(p[4], "?"),)
            else:
                mids.add(rec)
        elif p[0] == "Q":
            second.add((p[4], p[5], sets.get(p[6], "?") if p[4] == "ok" else ""))
    if nb == 0:
        last = first
    return ((hdr.get("a"), hdr.get("b"), hdr.get("order"), hdr.get("w"), first, last), frozenset(mids), frozenset(second))


class Ledger:
    """Python-side bookkeeping used only to generate valid scenarios."""
    def __init__(self):
        self.blocks = {0: dict(parent=None, height=P, txs=[])}
        self.txs = {}        # label -> (ins, outs)
        self.next_tx = 2000
        self.next_block = 1

    def chain(self, l):
        out = []
        while l is not None:
            out.append(l)
            l = self.blocks[l]["parent"]
        return out[::-1]

    def utxo(self, l):
        u = {(h, 0): SUBSIDY for h in range(1, P + 1)}
        for bl in self.chain(l)[1:]:
            b = self.blocks[bl]
            for t in b["txs"]:
                ins, outs = self.txs[t]
                for i in ins:
                    del u[i]
                for n, v in enumerate(outs):
                    if v != "u":
                        u[(t, n)] = v
        return u

    def mined(self, l):
        return {t for bl in self.chain(l)[1:] for t in self.blocks[bl]["txs"]}

    def add_block(self, parent, rng, reuse_from=(), ntx=None):
        """A block on `parent`: re-mine transactions of other branches when possible, plus fresh ones."""
        height = self.blocks[parent]["height"] + 1
        u = self.utxo(parent)
        mined = self.mined(parent)
        txs = []
        # candidates from other branches whose inputs are all available here
        for t in reuse_from:
            if t in mined or t in txs:
                continue
            ins, outs = self.txs[t]
            if all(i in u and (i[0] >= 2000 or i[0] <= height - 100) for i in ins) and rng.random() < 0.7:
                for i in ins:
                    del u[i]
                for n, v in enumerate(outs):
                    if v != "u":
                        u[(t, n)] = v
                txs.append(t)
        n_new = rng.choice([0, 1, 1, 2, 3]) if ntx is None else ntx
        for _ in range(n_new):
            spendable = [o for o in u if (o[0] >= 2000) or (o[0] <= height - 100)]
            if not spendable:
                break
            # prefer outputs created by scenario transactions (chains of spends), sometimes several inputs
            pref = [o for o in spendable if o[0] >= 2000]
            nin = rng.choice([1, 1, 1, 2, 3])
            ins = []
            for _k in range(nin):
                pool = pref if (pref and rng.random() < 0.7) else spendable
                pool = [o for o in pool if o not in ins]
                if not pool:
                    break
                ins.append(rng.choice(sorted(pool)))
            total = sum(u[i] for i in ins)
            nout = rng.choice([1, 1, 2, 2, 3, 4])
            outs = []
            fee = 1000 + 7 * (self.next_tx - 2000)   # distinct per label, so that two labels never denote the same real transaction
            share = (total - fee) // nout
            if share <= 0:
                continue
            for k in range(nout):
                outs.append("u" if (rng.random() < 0.12 and k > 0) else share)
            t = self.next_tx
            self.next_tx += 1
            self.txs[t] = (ins, outs)
            for i in ins:
                del u[i]
            for n, v in enumerate(outs):
                if v != "u":
                    u[(t, n)] = v
            txs.append(t)
        l = self.next_block
        self.next_block += 1
        self.blocks[l] = dict(parent=parent, height=height, txs=txs)
        return l

    def line(self, q, r, a, b):
        toks = ["reorg", str(P), str(q), str(r), str(len(self.blocks) - 1)]
        for l in sorted(k for k in self.blocks if k != 0):
            bl = self.blocks[l]
            toks += ["b", str(l), str(bl["parent"]), str(SUBSIDY), str(len(bl["txs"]))]
            for t in bl["txs"]:
                ins, outs = self.txs[t]
                toks += ["t", str(t), str(len(ins))]
                for i in ins:
                    toks += [str(i[0]), str(i[1])]
                toks += [str(len(outs))] + [str(v) for v in outs]
        toks += [str(a), str(b)]
        return " ".join(toks)


def scenario(rng, shape, q, r):
    L = Ledger()
    f = 0
    for _ in range(shape[0]):
        f = L.add_block(f, rng)
    a = f
    for _ in range(shape[1]):
        a = L.add_block(a, rng, ntx=rng.choice([1, 2, 3]))
    atx = [t for bl in L.chain(a)[1:] for t in L.blocks[bl]["txs"]]
    b = f
    for _ in range(shape[2]):
        b = L.add_block(b, rng, reuse_from=atx)
    return L.line(q, r, a, b)


def gen(rng, tier):
    cases = []
    # aimed classes first: reorgs with overlapping transactions, one entry per batch, second-level crashes
    shapes = [(0, 1, 2), (1, 2, 3), (0, 2, 1), (1, 2, 2), (0, 0, 2), (0, 2, 0), (2, 1, 1), (0, 3, 4), (1, 0, 1), (0, 1, 0), (0, 0, 0), (1, 4, 2), (0, 1, 1)]
    n = 100 if tier == "quick" else 2500
    for i in range(n):
        shape = shapes[i % len(shapes)] if i < 2 * len(shapes) else (rng.choice([0, 0, 1, 2]), rng.choice([0, 1, 2, 3]), rng.choice([0, 1, 2, 3, 4]))
        q = rng.choice([1, 1, 1, 1, 40, 60, 100, 150, 300, 100000])
        r = 1 if rng.random() < 0.4 else 0
        cases.append(scenario(rng, shape, q, r))
    return cases


def nontrivial(c):
    return int(c.split()[4]) > 0


TIES = [Tie("crash_replay", "tie/drivers/crashreplay_drv.cpp", "Extract_CrashReplay.v", "crashreplay_driver.ml", gen,
            predicate="driver", nontrivial=nontrivial, canon=Out,
            classify=lambda c: "reorg-q%s-r%s" % (("1" if c.split()[2] == "1" else "n"), c.split()[3]))]

LEVEL_TEXT = ("Coq theorems about an executable transcription of CCoinsViewDB::BatchWrite (head-blocks marker, partial batches, final batch), "
              "Chainstate::ReplayBlocks (LastCommonAncestor, rollback loop with DisconnectBlock/ApplyTxInUndo and their UNCLEAN tolerance, roll-forward "
              "loop with RollforwardBlock/AddCoins(check=true)) over an abstract durable map and block store: for EVERY block tree, old tip a, new tip b, "
              "every valid dirty-entry list, every split into partial batches, every crash point, and every sequence of further crashes during the "
              "flush that ends ReplayBlocks, recovery succeeds and yields exactly {best=a, utxo(a)} (crash before the first batch) or {best=b, utxo(b)}; "
              "the marker is present exactly at interior crash points; roll-forward / rollback from any in-between state; flush ordering. The model is "
              "tied to the real code by enumerating every batch boundary of the real BatchWrite on real regtest reorgs and running the real "
              "ReplayBlocks/LoadChainTip on each crashed database.")
LEVEL_NOTE = ("partial: the protocol is proved on the model under the premise that each WriteBatch is atomic and batches are durable in order; the "
              "system-call level (every write/fsync/rename as a crash point, dropped unsynced data, LevelDB log recovery) is not modelled and the crash "
              "points exercised on the real code are the batch boundaries. Not proved: the chainwork clause (driver-checked only), the multi-flush "
              "power-loss reduction, the legacy undo path, pruning. Trusted: Coq kernel, extraction + driver glue, the driver's private-member access and "
              "snapshot/restore emulation of a crash and restart.")
TECHNIQUE = "Coq proof (blind-write logs, undo/roll-forward composition, induction over batches, block-tree walks) + crash-point enumeration on the real code"
