from vlib.runner import Tie, InfraError
from vlib import core
import struct

ID = "C55"
LEVEL = "proof"
DESIGN_REF = "DESIGN.md section 5, C55"
PROP_FILES = ["props/Properties_C55.v"]
RULE = ("two correspondences with the real DumpMempool/LoadMempool. 'file': mempool.dat files built by the generator (v1 and v2/XOR, 0..6 "
        "records of structurally valid transactions with and without witness, extra deltas, unbroadcast ids; then every truncation class, "
        "byte flips, bad versions and key lengths, counts above/below the records present, 2^64-1, non-canonical and oversized CompactSizes, "
        "duplicate and unsorted map keys, int64 extremes and saturating/cancelling deltas, trailing bytes; all load options) loaded into an "
        "empty pool on regtest: return value, mapDeltas, unbroadcast set and pool compared with the model (every transaction is rejected by "
        "normal submission there). 'scn': a pool of real signed transactions (chains and fan-outs over matured coinbases, zero/low-fee "
        "transactions that enter only through PrioritiseTransaction, negative deltas, deltas for absent txids, unbroadcast marks) is dumped by "
        "the real DumpMempool, the file is checked against the pool (order, times, deltas, mapDeltas minus pool, unbroadcast), optionally "
        "truncated at header/record/field/tail boundaries or extended, and loaded at a mock time whose expiry cutoff sits on/next to entry "
        "times into a pool that may already hold some of the transactions; the model predicts return value and resulting pool from the file "
        "bytes, the pre-load pool and the set of transactions that independent normal submission (PrioritiseTransaction + "
        "AcceptToMemoryPool in saved order) accepts. non-trivial = at least one record / one transaction; distinct = distinct case lines")
ASSUMPTIONS = ["transaction serialization round trip (unser (ser t ++ rest) = Ok t rest) and 'every strict prefix of a serialized transaction fails to "
               "parse' are premises of the abstract theorems; both are discharged for the SerTx codec that the extracted model runs "
               "(C55_instance_codec_roundtrip, C55_instance_codec_prefix; side condition of the extended format: no transaction with outputs but no inputs)",
               "normal submission is the abstract function `accept` of (pool state, transaction, accept time); evictions performed by normal submission "
               "itself (RBF, size limit, Expire inside AcceptToMemoryPool) are not modelled and are avoided by the scenario generator",
               "0 <= now and expiry small enough that NodeClock arithmetic in nanoseconds does not wrap (the generator uses |values| < 2^40)",
               "MEMPOOL_DUMP_VERSION(_NO_XOR_KEY) are file-local constants: tied behaviourally (version cases), not generated",
               "m_interrupt is not set during the load"]
TRUSTED = ["Coq 8.16.1 kernel (coqc)", "extraction: ExtrOcamlBasic only; ocaml/conv.ml + mempoolpersist_driver.ml glue (parsing/printing, comparison of the "
           "decoded dump with the pool listing)",
           "tie/drivers/mempoolpersist_drv.cpp builds the pools with CreateValidTransaction/AcceptToMemoryPool/PrioritiseTransaction/AddUnbroadcastTx, "
           "swaps fresh CTxMemPool objects into the active chainstate (as the validation_load_mempool fuzz target does), calls the real "
           "DumpMempool/LoadMempool and computes the reference acceptance set by plain submission",
           "props/C55.py hands the implementation's observations (dumped file bytes, pre-load pool, reference acceptance set) to the model run"]

T0 = 1700000000
U64 = (1 << 64) - 1
I64MAX = (1 << 63) - 1
I64MIN = -(1 << 63)


# ---------------------------------------------------------------------------------------------
# python-side serialization (only used to BUILD input files; the oracle is the model)

def cs(n):
    if n < 253: return bytes([n])
    if n <= 0xffff: return b"\xfd" + struct.pack("<H", n)
    if n <= 0xffffffff: return b"\xfe" + struct.pack("<I", n)
    return b"\xff" + struct.pack("<Q", n)


def i64(v):
    return struct.pack("<Q", v & U64)


def rbytes(rng, n):
    return bytes(rng.randrange(256) for _ in range(n))


def mk_tx(rng):
    nin = rng.choice([1, 1, 1, 2, 3])
    nout = rng.choice([0, 1, 1, 2, 3]) if nin else 1
    wit = rng.random() < 0.5
    ins = []
    wits = []
    for _ in range(nin):
        ss = rbytes(rng, rng.choice([0, 0, 1, 23, 72, 107]))
        ins.append(rbytes(rng, 32) + struct.pack("<I", rng.choice([0, 1, 7, 0xffffffff])) + cs(len(ss)) + ss + struct.pack("<I", rng.choice([0xffffffff, 0xfffffffd, 0, 5])))
        st = [rbytes(rng, rng.choice([0, 1, 33, 71])) for _ in range(rng.choice([0, 1, 2, 2]))]
        wits.append(st)
    if wit and all(len(s) == 0 for s in wits):
        wits[0] = [b"\x01"]
    outs = []
    for _ in range(nout):
        spk = rbytes(rng, rng.choice([0, 1, 22, 25, 34]))
        outs.append(i64(rng.choice([0, 1, 546, 10 ** 8, 21 * 10 ** 14, rng.randrange(1 << 40)])) + cs(len(spk)) + spk)
    b = struct.pack("<I", rng.choice([1, 2, 2, 3, 0xffffffff]))
    if wit:
        b += b"\x00\x01"
    b += cs(nin) + b"".join(ins) + cs(nout) + b"".join(outs)
    if wit:
        for st in wits:
            b += cs(len(st)) + b"".join(cs(len(x)) + x for x in st)
    b += struct.pack("<I", rng.choice([0, 0, 1, 500000000, 0xffffffff]))
    return b


def xor_from(key, off, data):
    return bytes(c ^ key[(off + i) % 8] for i, c in enumerate(data))


def build_file(rng):
    """returns (bytes, [section boundary offsets])"""
    v1 = rng.random() < 0.25
    nrec = rng.choice([0, 1, 1, 2, 3, 6])
    recs = []
    txs = [mk_tx(rng) for _ in range(nrec)]
    if nrec >= 2 and rng.random() < 0.2:
        txs[1] = txs[0]          # the same transaction twice: the deltas stack
    dchoices = [0, 0, 1, -1, 1000, -1000, 5000, I64MAX, I64MIN, I64MAX - 1, 123456789]
    body = b""
    bounds = []
    cnt = nrec
    r = rng.random()
    if r < 0.08: cnt = nrec + rng.choice([1, 2, 1000])
    elif r < 0.12: cnt = max(0, nrec - 1)
    elif r < 0.15: cnt = rng.choice([U64, 1 << 63, 1 << 32])
    body += struct.pack("<Q", cnt)
    for t in txs:
        bounds.append(len(body))
        body += t
        bounds.append(len(body))
        body += i64(rng.choice([T0, T0 - 1, T0 + 1, 0, -1, I64MAX, I64MIN, T0 - 1209600, T0 - 1209599])) + i64(rng.choice(dchoices))
    bounds.append(len(body))
    # mapDeltas
    nd = rng.choice([0, 0, 1, 2, 4])
    keys = sorted(rbytes(rng, 32) for _ in range(nd))
    pairs = [(k, rng.choice(dchoices[2:])) for k in keys]
    r = rng.random()
    if pairs and r < 0.15: pairs.append((pairs[0][0], rng.choice([7, -7, -pairs[0][1] if abs(pairs[0][1]) < I64MAX else 3])))   # duplicate key: first one wins
    elif pairs and r < 0.3: pairs.reverse()               # unsorted
    elif r < 0.4 and False: pass
    mcount = cs(len(pairs))
    r = rng.random()
    if r < 0.05: mcount = b"\xfd" + struct.pack("<H", len(pairs))          # non-canonical
    elif r < 0.08: mcount = b"\xfe" + struct.pack("<I", 0x02000001)         # > MAX_SIZE
    elif r < 0.11: mcount = cs(len(pairs) + 1)
    body += mcount + b"".join(k + i64(v) for k, v in pairs)
    bounds.append(len(body))
    nu = rng.choice([0, 0, 1, 3])
    ids = sorted(rbytes(rng, 32) for _ in range(nu))
    if ids and rng.random() < 0.3: ids.append(ids[0])
    ucount = cs(len(ids))
    if rng.random() < 0.05: ucount = cs(len(ids) + 1)
    body += ucount + b"".join(ids)
    if rng.random() < 0.1:
        body += rbytes(rng, rng.choice([1, 2, 40]))        # trailing bytes are not looked at
    if v1:
        hdr = struct.pack("<Q", 1)
        return hdr + body, [len(hdr) + b for b in bounds], hdr
    key = rbytes(rng, 8) if rng.random() < 0.85 else bytes(8)
    hdr = struct.pack("<Q", 2) + b"\x08" + key
    r = rng.random()
    if r < 0.03: hdr = struct.pack("<Q", 2) + b"\x07" + key[:7]
    elif r < 0.06: hdr = struct.pack("<Q", 2) + b"\x09" + key + b"\x00"
    elif r < 0.08: hdr = struct.pack("<Q", 2) + b"\xfd\x08\x00" + key
    elif r < 0.10: hdr = struct.pack("<Q", rng.choice([0, 3, 258, U64, 1 << 32 | 2])) + b"\x08" + key
    elif r < 0.11: hdr = struct.pack("<Q", 2) + b"\x00"
    return hdr + xor_from(key, len(hdr), body), [len(hdr) + b for b in bounds], hdr


def gen_file(rng, tier):
    cases = []
    n = 260 if tier == "quick" else 6000
    for _ in range(n):
        f, bounds, hdr = build_file(rng)
        o = rng.choice([6, 6, 6, 7, 4, 2, 0, 3, 5, 1])
        now = T0 + rng.choice([0, 100, 1209600])
        expiry = rng.choice([1209600, 3600])
        variants = [f]
        r = rng.random()
        if r < 0.45:
            pts = set()
            for b in bounds + [len(hdr), len(f), 8, 9, 17, 25]:
                for d in (-1, 0, 1, 4, 8, 9):
                    pts.add(b + d)
            pts = sorted(p for p in pts if 0 <= p < len(f))
            k = 3 if tier == "quick" else 12
            for p in rng.sample(pts, min(k, len(pts))):
                variants.append(f[:p])
            if tier != "quick" and len(f) < 400 and rng.random() < 0.1:
                variants += [f[:p] for p in range(len(f))]        # every truncation point
        elif r < 0.8:
            for _k in range(2 if tier == "quick" else 8):
                g = bytearray(f)
                p = rng.randrange(len(g)) if rng.random() < 0.6 else min(len(g) - 1, rng.choice(bounds + [0, 8, 9, 17, 24]) + rng.choice([0, 1, 7]))
                g[p] ^= 1 << rng.randrange(8)
                variants.append(bytes(g))
        for v in variants:
            cases.append("file %d %d %d %s" % (now, expiry, o, v.hex() if v else "-"))
    return cases


# ---------------------------------------------------------------------------------------------
# scenarios on real transactions

def gen_scn(rng, tier):
    cases = []
    n = 130 if tier == "quick" else 2500
    for ci in range(n):
        ntx = rng.choice([1, 2, 3, 4, 5, 6, 8])
        ops = []
        free_cb = list(range(0, 40))
        rng.shuffle(free_cb)
        avail = []          # (txindex, vout)
        times = []
        created = []
        for k in range(ntx):
            ins = []
            nin = rng.choice([1, 1, 1, 2])
            for _ in range(nin):
                if avail and rng.random() < 0.6:
                    a = avail.pop(rng.randrange(len(avail)))
                    ins.append("t%d:%d" % a)
                else:
                    ins.append("c%d" % free_cb.pop())
            nout = rng.choice([1, 1, 2, 3])
            fee = rng.choice([0, 0, 5, 20, 300, 1000, 1000, 20000, 50000])
            ops.append("C %d %d %s" % (fee, nout, ",".join(ins)))
            for v in range(nout):
                avail.append((k, v))
            r = rng.random()
            if fee < 300 and r < 0.8:
                ops.append("P t%d %d" % (k, rng.choice([1000, 5000, 300, 100])))
            elif r < 0.25:
                ops.append("P t%d %d" % (k, rng.choice([7, -7, 100000, -200, -990, -19000])))
            t = T0 + rng.choice([0, 1, 2, 10, 50, 1000, 5000]) + k
            if rng.random() < 0.92:
                ops.append("S %d %d" % (k, t))
                times.append(t)
                created.append(k)
                r = rng.random()
                if r < 0.2:
                    ops.append("P t%d %d" % (k, rng.choice([-990, -985, -300, 250, 1 << 40, -7, 7])))   # after acceptance: may make it unacceptable on reload
            if rng.random() < 0.35:
                ops.append("U %d" % k)
        for _ in range(rng.choice([0, 0, 1, 2])):
            ops.append("P x%02x %d" % (rng.randrange(256), rng.choice([1, -1, 12345, -12345, I64MAX, I64MIN])))
        # load time: the expiry cutoff now - expiry sits on / next to an entry time, or far away
        expiry = rng.choice([1209600, 1209600, 3600, 100000])
        r = rng.random()
        if times and r < 0.6:
            cutoff = rng.choice(times) + rng.choice([-1, 0, 1])
        elif r < 0.8:
            cutoff = T0 - 10
        else:
            cutoff = T0 + 100000
        now = cutoff + expiry
        # transactions already in the pool at load time (never expired: their time is the load time)
        for k in created:
            if rng.random() < 0.12:
                ops.append("K %d %d %d %d" % (k, now - rng.choice([0, 1, 5]), rng.choice([0, 0, 1000, 2500]), rng.choice([0, 1])))
        o = rng.choice([6, 6, 6, 6, 6, 7, 4, 2, 0, 5])
        v1 = 1 if rng.random() < 0.15 else 0
        r = rng.random()
        if r < 0.45: mut = "none"
        elif r < 0.55: mut = "a%d" % rng.choice([0, 1, 7, 8, 9, 16, 17, 18, 24, 25, 26])
        elif r < 0.72: mut = "e%d" % rng.choice([1, 2, 8, 31, 32, 33, 34, 40, 41, 64, 65, 66, 73, 74])
        elif r < 0.92: mut = "r%d:%d" % (rng.randrange(0, ntx + 1), rng.choice([0, 1, 3, 4, 5, 41, 60, 100, 150, 200, 250]))
        else: mut = "z" + rbytes(rng, rng.choice([1, 8, 33])).hex()
        cases.append("scn %d %d %d %d %s ; %s" % (now, expiry, o, v1, mut, " ; ".join(ops)))
    return cases


class PersistTie(Tie):
    """The model predicts from what the implementation dumped: the full implementation line (dumped file bytes,
    pre-load pool, reference acceptance set) is handed to the model run; compared are `dump=ok ret=.. post=..`."""
    def run_impl(self, cpp, cases):
        outs = Tie.run_impl(self, cpp, cases)
        if not hasattr(self, "_full"):
            self._full = {}
        res = []
        for c, o in zip(cases, outs):
            self._full[c] = o
            if c.startswith("scn") and " ret=" in o:
                o = "dump=ok" + o[o.index(" ret="):]
            res.append(o)
        return res

    def run_model(self, mdl, cases):
        full = getattr(self, "_full", {})
        lines = [c + " => " + full.get(c, "") for c in cases]
        rc, out, err = core.run_lines(mdl, ["model"], lines, self.timeout)
        if len(out) != len(cases):
            raise InfraError("model driver returned %d lines for %d cases (rc=%s)\nstderr: %s" % (len(out), len(cases), rc, err[-2000:]))
        return out


def nontrivial_file(c):
    return len(c.split()[4]) > 60


def nontrivial_scn(c):
    return " S " in c


TIES = [PersistTie("scenario_dump_load", "tie/drivers/mempoolpersist_drv.cpp", "Extract_MempoolPersist.v", "mempoolpersist_driver.ml", gen_scn,
                   predicate="functional", nontrivial=nontrivial_scn, classify=lambda c: "scn:" + c.split()[5][0]),
        PersistTie("file_load", "tie/drivers/mempoolpersist_drv.cpp", "Extract_MempoolPersist.v", "mempoolpersist_driver.ml", gen_file,
                   predicate="functional", nontrivial=nontrivial_file)]

LEVEL_TEXT = ("Coq theorems over an executable transcription of DumpMempool/LoadMempool (version, XOR key keyed by absolute file position, raw "
              "64-bit count, (tx, time, delta) records, mapDeltas, unbroadcast set; PrioritiseTransaction before the expiry test and before "
              "submission; failure at any point keeps what was applied) over an abstract transaction codec and an abstract normal-submission "
              "verdict: file round trip for every snapshot and key; load after dump applies exactly the saved records in saved order with "
              "their times and deltas (delta before acceptance), restores deltas of absent transactions and the unbroadcast marks of "
              "transactions that made it in; every strict prefix of a dumped file is reported as a failed load whose state is that of a "
              "prefix of the records; for arbitrary bytes the loader never removes an entry and adds only transactions normal submission "
              "accepted. Model tied to the real code on generated files and on real-transaction scenarios.")
LEVEL_NOTE = ("Trusted: Coq kernel, extraction + driver glue. Normal submission (AcceptToMemoryPool) is an abstract function in the theorems and the "
              "real one in the tie (reference run); its own evictions are out of scope. The order of infoAll() (topological by mining score) is "
              "taken from the implementation.")
TECHNIQUE = "Coq proof (induction over records / streams, codec round trips) + differential correspondence on generated files and real-transaction scenarios"
