from vlib.runner import Tie
from vlib import core
import hashlib
import os
import re

ID = "C32"
LEVEL = "proof"
DESIGN_REF = "DESIGN.md section 5, C32"
PROP_FILES = ["props/Properties_C32.v"]
RULE = ("cases: v1 = message sequences through the real V1Transport sender (all known types, random printable types, payload sizes "
        "0/1/255..257/65535..65537/up to 66 kB) plus crafted frames (size = bound, bound+1, other chains' magic, checksum wrong in each of "
        "its 4 bytes, invalid type characters), cut by schedules 1/2/23/24/25/64k/random, single and double bit flips in every header field, "
        "the payload and the following frame; v2 = a real V2Transport (initiator or responder) fed by a hand-driven BIP324Cipher peer: garbage "
        "0/1/15/16/17/4094/4095, decoys before/after the version packet, every short id 1..255, long ids valid and malformed, empty "
        "contents, a packet announcing MAX_CONTENTS_LEN and +1, bit flips in key/garbage/terminator/length/ciphertext/tag; the receiver's own "
        "sender decrypted by the peer (short id bytes); v2raw = raw streams to a V2Transport (v1 fallback, wrong-network v1 header at 16/17 "
        "bytes, junk of 64+4110/4111/4112 bytes); v2rr = two real V2Transports exchanging messages in both directions. "
        "non-trivial = every case; distinct = distinct case lines")
ASSUMPTIONS = ["v1 checksum: an abstract 4-byte function H4 in the theorems; the tampering corollary's premise is H4 payload' <> H4 payload",
               "v2 cryptography is a parameter of the model: the round-trip theorem assumes decrypt(encrypt) = identity with the stated lengths and equal "
               "garbage terminators on both sides, and that the terminator does not occur early in garbage||terminator (probability < 2^-116)",
               "v2 tampering theorem: premises auth (idealised AEAD unforgeability: the n-th Decrypt accepts only the sender's n-th packet) and no_mitm "
               "(an altered key string yields a session under which nothing authenticates; an active key-substituting attacker is outside the property "
               "because BIP324 is unauthenticated)",
               "a responder's peer key must not spell a v1 version header in bytes 4..15 (the code disconnects such a peer; probability 2^-96)",
               "each chunk handed to ReceiveMsgBytes is shorter than 2^32 bytes (V1Transport converts the chunk size to unsigned int)",
               "message types are at most 12 characters in 0x20..0x7E (v1) / 0x20..0x7F (v2), payloads at most min(MAX_SIZE, MAX_PROTOCOL_MESSAGE_LENGTH)",
               "session-id agreement and ciphertext conformance to BIP324 are checked on the implementation (peer = independent use of BIP324Cipher, "
               "session ids compared), not proved: the ciphers are not modelled in this family (C49 covers FSChaCha20Poly1305)"]
TRUSTED = ["Coq 8.16.1 kernel (coqc; vm_compute on the generated table)",
           "tie/dump_params.cpp + tie/params/transport.h print header field sizes, the receive bounds, BIP324 framing constants, every chain's "
           "message start and the short-id table as V2Transport::GetMessageType decodes it (private static member reached by explicit instantiation)",
           "extraction: ExtrOcamlBasic only; ocaml/conv.ml + transport_driver.ml glue (pure OCaml SHA-256 for the v1 checksum; a structural stand-in "
           "for the v2 ciphers with the same lengths, XOR length cipher and any-byte-change-fails tag)",
           "tie/drivers/transport_drv.cpp replicates the loop of CNode::ReceiveMsgBytes around the real transports and drives a BIP324Cipher as the v2 peer"]

TYPES = ["addr", "block", "blocktxn", "cmpctblock", "feefilter", "filteradd", "filterclear", "filterload", "getblocks", "getblocktxn",
         "getdata", "getheaders", "headers", "inv", "mempool", "merkleblock", "notfound", "ping", "pong", "sendcmpct", "tx", "getcfilters",
         "cfilter", "getcfheaders", "cfheaders", "getcfcheckpt", "cfcheckpt", "addrv2"]
TABLE = TYPES + [""] * 8 + ["feature"]           # BIP324 short ids 1..37 as this tree has them
OTHER = ["version", "verack", "sendheaders", "sendaddrv2", "wtxidrelay", "sendtxrcncl", "getaddr", "x", "twelve_chars", "A b~!", "feature"]


def hx(b):
    return b.hex() if b else "-"


def magics():
    txt = open(os.path.join(core.COQ, "gen", "Params_gen.v")).read()
    out = []
    for name in ("main", "test", "testnet4", "signet", "regtest"):
        m = re.search(r"Definition TR_MAGIC_%s : list N := \[(.*?)\]\." % name, txt)
        out.append(bytes(int(x) for x in re.findall(r"\((\d+)\)%N", m.group(1))))
    return out


def pspec(rng, sizes=None):
    n = rng.choice(sizes or [0, 0, 1, 2, 8, 30, 100, 255, 256, 257, 300, 1000])
    if n == 0:
        return "-", 0
    if n <= 16 and rng.random() < 0.5:
        return "h" + bytes(rng.randrange(256) for _ in range(n)).hex(), n
    return "r%d:%d" % (n, rng.randrange(1, 1 << 40)), n


def lcg_bytes(seed, n):
    out = bytearray()
    x = seed
    for _ in range(n):
        x = (x * 6364136223846793005 + 1442695040888963407) & ((1 << 64) - 1)
        out.append(x >> 56)
    return bytes(out)


def expand(ps):
    if ps == "-":
        return b""
    if ps[0] == "h":
        return bytes.fromhex(ps[1:])
    ln, seed = ps[1:].split(":")
    return lcg_bytes(int(seed), int(ln))


def sched(rng):
    r = rng.random()
    if r < 0.12: return [1]
    if r < 0.2: return [2]
    if r < 0.26: return [rng.choice([3, 15, 16, 17, 23, 24, 25, 63, 64, 65])]
    if r < 0.4: return [1 << 16]
    if r < 0.5: return [1 << 20]
    return [rng.choice([1, 1, 2, 3, 5, 7, 16, 24, 40, 64, 100, 1000, 4096]) for _ in range(rng.randrange(1, 6))]


def big_sizes(rng, sc):
    """payload sizes the model can afford for a schedule: it re-measures its buffers on every chunk"""
    m = min(sc)
    if m >= 4096 and rng.random() < 0.12:
        return [65535, 65536, 65537, 66000]
    if m >= 64 and rng.random() < 0.1:
        return [3000, 5000]
    return None


def fmt_sched(s):
    return "F %d %s" % (len(s), " ".join(map(str, s)))


def fmt_flips(f):
    return ("X %d " % len(f) + " ".join("%d %d" % x for x in f)).strip()


def rtype(rng, hi=0x7e):
    r = rng.random()
    if r < 0.6: return rng.choice(TYPES).encode()
    if r < 0.8: return rng.choice(OTHER).encode()
    return bytes(rng.randrange(0x20, hi + 1) for _ in range(rng.randrange(1, 13)))


def dsha4(p):
    return hashlib.sha256(hashlib.sha256(p).digest()).digest()[:4]


def v1_cases(rng, tier, P, MAG):
    cases = []
    MAXP = min(P["TR_MAX_SIZE"], P["TR_MAX_PROTOCOL_MESSAGE_LENGTH"])
    n = 420 if tier == "quick" else 15000
    for _ in range(n):
        chain = rng.randrange(5)
        nm = rng.choice([1, 1, 2, 3, 5])
        items, offs, pos = [], [], 0
        sc = sched(rng)
        for _k in range(nm):
            t = rtype(rng)
            ps, ln = pspec(rng, big_sizes(rng, sc))
            items.append("M %s %s" % (hx(t), ps))
            offs.append((pos, ln))
            pos += 24 + ln
        flips = []
        r = rng.random()
        if r < 0.5:
            for _k in range(rng.choice([1, 1, 1, 2])):
                o, ln = rng.choice(offs)
                region = rng.choice(["magic", "type", "size", "cks", "cks3", "payload", "any"])
                if region == "magic": off = o + rng.randrange(4)
                elif region == "type": off = o + 4 + rng.randrange(12)
                elif region == "size": off = o + 16 + rng.randrange(4)
                elif region == "cks": off = o + 20 + rng.randrange(4)
                elif region == "cks3": off = o + 23
                elif region == "payload": off = o + 24 + (rng.randrange(ln) if ln else 0)
                else: off = rng.randrange(max(1, pos))
                flips.append((off, rng.randrange(8)))
        cases.append("v1 %d %s %s I %d %s" % (chain, fmt_sched(sc), fmt_flips(flips), len(items), " ".join(items)))
    # crafted frames
    def hdr(magic, typ, size, cks):
        return magic + typ.ljust(12, b"\0")[:12] + size.to_bytes(4, "little") + cks
    for chain in range(5):
        m = MAG[chain]
        other = MAG[(chain + 1) % 5]
        for sz in (MAXP - 1, MAXP, MAXP + 1, P["TR_MAX_SIZE"], P["TR_MAX_SIZE"] + 1, 0xFFFFFFFF, 0x80000000):
            for s in ([1 << 20], [1], [23, 1]):
                cases.append("v1 %d %s X 0 I 1 R %s -" % (chain, fmt_sched(s), hx(hdr(m, b"block", sz, b"\0\0\0\0"))))
        p = b"hello world"
        good = dsha4(p)
        for k in range(4):
            bad = bytearray(good); bad[k] ^= rng.choice([1, 0x80, 0xff])
            cases.append("v1 %d %s X 0 I 2 R %s h%s M 70696e67 h0102" % (chain, fmt_sched(sched(rng)), hx(hdr(m, b"tx", len(p), bytes(bad))), p.hex()))
        cases.append("v1 %d %s X 0 I 2 R %s h%s M 70696e67 h0102" % (chain, fmt_sched(sched(rng)), hx(hdr(m, b"tx", len(p), good)), p.hex()))
        cases.append("v1 %d %s X 0 I 2 R %s h%s M 70696e67 h0102" % (chain, fmt_sched(sched(rng)), hx(hdr(other, b"tx", len(p), good)), p.hex()))
        for typ in (b"\x7f", b"a\x1fb", b"ab\0c", b"abcdefghijkl", b"\x80", b"", b" ", b"~", b"a\0\0\0\0\0\0\0\0\0\0b"):
            cases.append("v1 %d %s X 0 I 2 R %s h%s M 70696e67 h0102" % (chain, fmt_sched(sched(rng)), hx(hdr(m, typ, len(p), good)), p.hex()))
        # announced size longer / shorter than what follows
        cases.append("v1 %d %s X 0 I 2 R %s h%s M 70696e67 h0102" % (chain, fmt_sched(sched(rng)), hx(hdr(m, b"tx", len(p) + 3, good)), p.hex()))
        cases.append("v1 %d %s X 0 I 2 R %s h%s M 70696e67 h0102" % (chain, fmt_sched(sched(rng)), hx(hdr(m, b"tx", len(p) - 3, good)), p.hex()))
    return cases


def contents_for(rng, t):
    """BIP324 contents prefix for a type string."""
    if t in TABLE and t != "":
        return bytes([TABLE.index(t) + 1])
    return b"\0" + t.encode().ljust(12, b"\0")


def v2_cases(rng, tier, P):
    cases = []
    MAXC = 1 + 12 + min(P["TR_MAX_SIZE"], P["TR_MAX_PROTOCOL_MESSAGE_LENGTH"])
    n = 520 if tier == "quick" else 20000
    big_garbage_budget = [14 if tier == "quick" else 400]
    def garb(rng):
        r = rng.random()
        if r < 0.75 or big_garbage_budget[0] <= 0:
            return rng.choice([0, 0, 1, 2, 15, 16, 17, 33, 100])
        big_garbage_budget[0] -= 1
        return rng.choice([4094, 4095, 4095, 2000])
    for it in range(n):
        chain = rng.randrange(5)
        rinit = rng.randrange(2)
        rseed, pseed = rng.randrange(1, 1 << 40), rng.randrange(1, 1 << 40)
        glen = garb(rng)
        gspec = "-" if glen == 0 else "r%d:%d" % (glen, rng.randrange(1, 1 << 40))
        rgarb = rng.choice([0, 0, 1, 16, 40, 300]) if rng.random() < 0.97 else rng.choice([4094, 4095])
        pk = []
        sc = sched(rng)
        layout = []   # (offset, total_len) of each packet on the wire
        pos = 64 + glen + 16
        # decoys before the version packet, version, then application packets with decoys in between
        def add(ig, pre, ps):
            nonlocal pos
            ln = len(pre) + len(expand(ps))
            pk.append("%d %s %s" % (ig, hx(pre), ps))
            layout.append((pos, ln + 20))
            pos += ln + 20
        for _k in range(rng.choice([0, 0, 0, 1, 2])):
            add(1, bytes(rng.randrange(256) for _ in range(rng.choice([0, 1, 5]))), pspec(rng, [0, 3, 40])[0])
        add(0, b"" if rng.random() < 0.8 else bytes(rng.randrange(256) for _ in range(rng.randrange(1, 9))), "-")
        for _k in range(rng.choice([0, 1, 1, 2, 3, 5])):
            if rng.random() < 0.25:
                add(1, bytes(rng.randrange(256) for _ in range(rng.choice([0, 1, 13]))), pspec(rng, [0, 3, 40])[0])
            r = rng.random()
            ps = pspec(rng, big_sizes(rng, sc))[0]
            if r < 0.45: add(0, contents_for(rng, rng.choice(TYPES + ["feature"])), ps)
            elif r < 0.6: add(0, contents_for(rng, rng.choice(OTHER)), ps)
            elif r < 0.72: add(0, bytes([rng.choice([28, 29, 30, 36, 37, 38, 39, 40, 127, 128, 254, 255])]), ps)
            elif r < 0.8: add(0, bytes([rng.randrange(1, 256)]), ps)
            elif r < 0.9:
                t = bytearray(b"\0" + rtype(rng, 0x7f).ljust(12, b"\0"))
                k = rng.randrange(1, 13)
                t[k] = rng.choice([0x7f, 0x80, 0x1f, 0x20, 0x00, 0xff, t[k]])
                add(0, bytes(t), ps)
            elif r < 0.95: add(0, b"\0" + bytes(rng.randrange(0x20, 0x7f) for _ in range(rng.randrange(0, 12))), "-")   # long form cut short
            else: add(0, b"", "-")                                                                                   # empty contents
        flips = []
        if rng.random() < 0.5:
            for _k in range(rng.choice([1, 1, 1, 2])):
                region = rng.choice(["key", "garbage", "term", "len", "body", "tag", "any"])
                o, ln = rng.choice(layout)
                if region == "key": off = rng.randrange(64)
                elif region == "garbage": off = 64 + (rng.randrange(glen) if glen else 0)
                elif region == "term": off = 64 + glen + rng.randrange(16)
                elif region == "len": off = o + rng.randrange(3)
                elif region == "body": off = o + 3 + rng.randrange(ln - 19)
                elif region == "tag": off = o + ln - 16 + rng.randrange(16)
                else: off = rng.randrange(pos)
                flips.append((off, rng.randrange(8)))
        tx = []
        for _k in range(rng.choice([0, 1, 2, 4])):
            r = rng.random()
            t = rng.choice(TYPES + ["feature"]) if r < 0.6 else (rng.choice(OTHER) if r < 0.85 else rtype(rng).decode("latin1"))
            tx.append("%s %s" % (hx(t.encode("latin1")), pspec(rng)[0]))
        cases.append("v2 %d %d %d %d %d G %s %s %s P %d %s S %d %s" % (chain, rinit, rseed, rgarb, pseed, gspec, fmt_sched(sc), fmt_flips(flips),
                                                                    len(pk), " ".join(pk), len(tx), " ".join(tx)))
    # every short id once through the receiver, every table type once through the sender
    for b in range(1, 256):
        cases.append("v2 4 %d 7 0 9 G - F 1 1048576 X 0 P 2 0 - - 0 %02x h0102 S 0" % (b & 1, b))
    for t in TYPES + ["feature", ""] + OTHER:
        cases.append("v2 0 %d 7 3 9 G r5:1 F 1 7 X 0 P 1 0 - - S 2 %s h01 %s -" % (len(t) & 1, hx(t.encode()), hx(t.encode())))
    # the contents length bound, announced only
    for ln in (MAXC - 1, MAXC, MAXC + 1, (1 << 24) - 1):
        for rinit in (0, 1):
            cases.append("v2 4 %d 5 0 6 G - F 1 1048576 X 0 P 3 0 - - 0 12 h00 0 T %d S 0" % (rinit, ln))
            cases.append("v2 4 %d 5 0 6 G r3:1 F 1 1 X 0 P 1 0 T %d S 0" % (rinit, ln))
    # garbage boundary with a damaged terminator: fails exactly when 4095+16 bytes have been scanned
    for glen in (4094, 4095):
        for fill in (0, 1, 2, 40):
            cases.append("v2 4 0 5 0 6 G r%d:3 F 1 4096 X 1 %d 0 P 2 0 - - 0 12 r%d:5 S 0" % (glen, 64 + glen + 7, fill))
    return cases


def v2raw_cases(rng, tier, P, MAG):
    cases = []
    for chain in range(5):
        m = MAG[chain]
        other = MAG[(chain + 2) % 5]
        for rinit in (0, 1):
            for s in ([1], [15], [16], [17], [24], [1 << 20], [3, 5]):
                cases.append("v2raw %d %d 5 0 %s X 0 I 3 M 76657273696f6e r100:1 M 76657261636b - M 70696e67 h0102030405060708" % (chain, rinit, fmt_sched(s)))
                # a v1 version header of another network: exactly 16 bytes, 17 bytes, whole header
                vh = other + b"version\0\0\0\0\0"
                cases.append("v2raw %d %d 5 0 %s X 0 I 1 B %s" % (chain, rinit, fmt_sched(s), vh.hex()))
                cases.append("v2raw %d %d 5 0 %s X 0 I 1 B %s" % (chain, rinit, fmt_sched(s), (vh + b"\x64").hex()))
                cases.append("v2raw %d %d 5 0 %s X 0 I 1 B %s" % (chain, rinit, fmt_sched(s), (vh + bytes(60)).hex()))
                # this network's prefix cut short, then a mismatch
                k = rng.randrange(1, 16)
                pre = (m + b"version\0\0\0\0\0")[:k] + bytes([rng.randrange(256)]) + bytes(rng.randrange(256) for _ in range(rng.choice([0, 3, 60])))
                cases.append("v2raw %d %d 5 0 %s X 0 I 1 B %s" % (chain, rinit, fmt_sched(s), pre.hex()))
    G = P["TR_MAX_GARBAGE_LEN"] + P["TR_GARBAGE_TERMINATOR_LEN"]
    for extra in (G - 1, G, G + 1, G + 50):
        for rinit in (0, 1):
            junk = lcg_bytes(rng.randrange(1, 1 << 40), 64 + extra)
            cases.append("v2raw 4 %d 5 0 %s X 0 I 1 B %s" % (rinit, fmt_sched(rng.choice([[1 << 20], [4096], [100]])), junk.hex()))
    for _ in range(40 if tier == "quick" else 2000):
        junk = bytes(rng.randrange(256) for _ in range(rng.choice([1, 15, 16, 17, 63, 64, 65, 80, 200])))
        cases.append("v2raw %d %d %d 0 %s X 0 I 1 B %s" % (rng.randrange(5), rng.randrange(2), rng.randrange(1, 1 << 30), fmt_sched(sched(rng)), junk.hex()))
    return cases


def v2rr_cases(rng, tier, P):
    cases = []
    def q(k):
        items = []
        for _ in range(k):
            t = rng.choice(TYPES + OTHER)
            items.append("%s %s" % (hx(t.encode()), pspec(rng)[0]))
        return "%d %s" % (k, " ".join(items))
    big = [4 if tier == "quick" else 100]
    for _ in range(120 if tier == "quick" else 5000):
        ga = rng.choice([0, 1, 16, 100])
        gb = rng.choice([0, 1, 16, 100])
        if big[0] > 0 and rng.random() < 0.1:
            ga, gb = rng.choice([(4095, 0), (0, 4095), (4095, 4095)]); big[0] -= 1
        cases.append("v2rr %d %d %d %d %d %s A %s B %s" % (rng.randrange(5), rng.randrange(1, 1 << 40), ga, rng.randrange(1, 1 << 40), gb,
                                                          fmt_sched(sched(rng)), q(rng.choice([0, 1, 2, 5])), q(rng.choice([0, 1, 2, 5]))))
    return cases


def gen(rng, tier):
    P = core.parse_params()
    MAG = magics()
    cases = v1_cases(rng, tier, P, MAG) + v2_cases(rng, tier, P) + v2raw_cases(rng, tier, P, MAG) + v2rr_cases(rng, tier, P)
    return [" ".join(c.split()) for c in cases]


TIES = [Tie("transport_fn", "tie/drivers/transport_drv.cpp", "Extract_Transport.v", "transport_driver.ml", gen,
            predicate="driver", nontrivial=lambda c: True)]

LEVEL_TEXT = ("Coq theorems about an executable transcription of V1Transport / V2Transport under the loop of CNode::ReceiveMsgBytes, for all message "
              "sequences, all byte streams and ALL fragmentations: cutting a stream into chunks anywhere never changes what is delivered, the receive state "
              "or the disconnect decision (v1 exactly; v2 up to one postponed handshake check, identified); every sent sequence is received exactly "
              "(v1; v2 with garbage 0..MAX_GARBAGE_LEN, decoys anywhere, short and long type encodings); a v1 frame whose payload does not match its "
              "checksum is never delivered, bad magic / size above the generated bounds disconnects; under the stated AEAD premises ANY altered v2 stream "
              "delivers only an initial segment of what was sent and nothing after a failed authentication; the garbage terminator search holds at most "
              "MAX_GARBAGE_LEN+16 bytes; the short-id table compiled into net.cpp is proved equal to the BIP324 table with decode(encode)=id. Model tied to "
              "the real transports by differential execution with fragmentation schedules and bit flips; the real sender's packets are decrypted by an "
              "independent BIP324Cipher peer; both ends' session ids are compared.")
LEVEL_NOTE = ("Trusted: Coq kernel; dump_params + tie/params/transport.h; extraction and driver glue. The v2 ciphers are parameters of the model (premises in the "
              "theorem statements); the correspondence instantiates them with a structural stand-in (same lengths, XOR length cipher, any-change-fails tag), so "
              "wire bytes are compared for v1 (real double SHA-256) and only lengths/behaviour for v2. Not proved here: key derivation / session-id agreement / "
              "ciphertext conformance to BIP324 (checked on the implementation against an independent BIP324Cipher; FSChaCha20Poly1305 is C49's). The driver "
              "replicates the ReceiveMsgBytes loop instead of constructing a CNode. The send-side state machines are modelled for v1 (exercised by the tie with "
              "partial MarkBytesSent schedules) and by a stream function for v2.")
TECHNIQUE = "Coq proof (generic chunk-merge theorem over absorb-then-look iterations, invariants, vm_compute on the generated table) + differential correspondence with bit flips"
