from vlib.runner import Tie
from vlib import core
from props import mempool_gen as G

ID = "C28"
LEVEL = "partial"
DESIGN_REF = "DESIGN.md section 5, C28"
PROP_FILES = ["props/Properties_C28.v"]
RULE = ("cases: the C22 operation scripts (conflicts and replacements, coinbase maturity edges, lock-time edges, chains, resurrection after "
        "disconnects, random walks with missing inputs / bad witnesses / zero fees / -maxmempool=5) in which 70% of the submissions are preceded "
        "by `test` of the same transaction: ProcessTransaction(tx, test_accept=true) with a fingerprint of the mempool (wtxids with modified "
        "fees, nTransactionsUpdated, totals, mapNextTx size, sequence number, cachedInnerUsage, TxGraph count and staging flag, mapDeltas size, "
        "rolling minimum fee) taken before and after, then ProcessTransaction(tx, false); the two verdicts are compared. Non-trivial = a "
        "submission; distinct = distinct scripts.")
ASSUMPTIONS = ["`no other change in between`: the same state and the same policy answers for the test and for the submission (the model's `pol`); "
               "the submission may evict anything",
               "faithfulness (clauses 1 and 2) is a structural fact of the model (where the test_accept return sits); that the real "
               "AcceptSingleTransactionInternal has this structure is established by the correspondence only",
               "the script half is C11's theorem: the checker (signatures, locktime, sequence) and the hash functions are arbitrary functions "
               "that do not see the flags; SCR_BLOCK_FLAGS_ALL lists GetBlockScriptFlags for every deployment combination of every chain, "
               "regenerated from the compiled tree"]
TRUSTED = ["Coq 8.16.1 kernel (coqc)",
           "tie/dump_params.cpp (+ tie/params/script.h of the script family) prints STANDARD_SCRIPT_VERIFY_FLAGS and the block flag sets",
           "extraction: ExtrOcamlBasic only; ocaml/conv.ml + mempool_driver.ml glue",
           "tie/drivers/mempool_drv.cpp: the mempool fingerprint reads private members through `#define private public`"]

TIES = [G.MempoolTie("test_then_submit", "tie/drivers/mempool_drv.cpp", "Extract_Mempool.v", "mempool_driver.ml", G.gen_c28, mode="C28",
                     predicate="driver", nontrivial=G.nontrivial, classify=G.classify, shrink=G.shrink, timeout=3000)]

LEVEL_TEXT = ("Coq theorems: on the transcription of AcceptSingleTransactionInternal a test-accept returns the unchanged state and the verdict "
              "the submission gives from the same state unless that one ends in `mempool full`; and (C11's theorem, restated per transaction) "
              "every input that passes VerifyScript under STANDARD_SCRIPT_VERIFY_FLAGS passes it under every flag set GetBlockScriptFlags can "
              "return. The faithfulness half is tied to the real code by test-then-submit pairs at random points of the C22 histories with a "
              "fingerprint of every mutable mempool member before and after the test.")
LEVEL_NOTE = ("Partial: the proof covers the flag half; the faithfulness half is a structural fact of the model and rests on the "
              "correspondence (stated as such in DESIGN.md). Trusted: Coq kernel, dump_params.cpp, extraction + driver glue.")
TECHNIQUE = "Coq proof (flag monotonicity, imported from the script family) + differential correspondence (test then submit, mempool fingerprint)"
