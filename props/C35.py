from vlib.runner import Tie
from vlib import core

ID = "C35"
LEVEL = "proof"
DESIGN_REF = "DESIGN.md section 5, C35"
PROP_FILES = ["props/Properties_C35.v"]
RULE = ("cases: operation scripts (AddTx / AddAnnouncer / EraseTx / EraseForPeer / EraseForBlock / AddChildrenToWorkSet / "
        "GetTxToReconsider / GetChildrenFromSamePeer) on MakeTxOrphanage(small latency limit, small reserved weight) over 2-4 "
        "peers and 4-9 real transactions built by the driver (chosen prevouts, 1-25 inputs incl. duplicates, padded to "
        "chosen weights, witness-malleated twins, one above MAX_STANDARD_TX_WEIGHT), peers flooding up to and over both "
        "limits; after every operation the driver calls SanityCheck and prints all counters, per-peer usage and every "
        "orphan with its announcers. A case is non-trivial when some operation made LimitOrphans evict; distinct = distinct "
        "case lines.")
ASSUMPTIONS = ["transactions are identified by wtxid (the runs quantify over a fixed function wtxid -> transaction)",
               "max_global_latency_score >= number of peers with announcements (otherwise GetDosScore's assert fails), "
               "0 < reserved_peer_usage <= INT32_MAX and max_global_latency_score <= INT32_MAX (FeeFrac's int32 size)",
               "the boost multi_index container is modelled as a list with the selections its sort orders define; the model "
               "is a hand transcription tied by the correspondence on the listed cases"]
TRUSTED = ["Coq 8.16.1 kernel (coqc; no native_compute)",
           "tie/dump_params.cpp + tie/params/orphan_params.h print MAX_STANDARD_TX_WEIGHT and the default limits from the compiled tree",
           "extraction: ExtrOcamlBasic only; ocaml/conv.ml + orphan_driver.ml glue (zarith only to parse/print text)",
           "tie/drivers/orphan_drv.cpp builds the transactions, drives the real TxOrphanage and prints its query interface; "
           "for AddChildrenToWorkSet it selects, by replaying the script, an rng seed whose draws follow the rule the model uses"]


def _vi(n):
    return 1 if n < 253 else 3 if n <= 0xffff else 5


def tx_weight(nin, nout, pad, wit):
    nonwit = 4 + _vi(nin) + (32 + 4 + _vi(pad) + pad + 4) + (nin - 1) * (32 + 4 + 1 + 4) + _vi(nout) + nout * (8 + 1 + 1) + 4
    w = nonwit * 4
    if wit > 0:
        w += 2 + (1 + _vi(wit) + wit) + (nin - 1)
    return w


def gen_case(rng, nops, style):
    npeers = rng.choice([2, 3, 3, 4])
    peers = rng.sample([0, 1, 2, 3, 5, 8], npeers)
    if rng.random() < 0.05:
        peers[0] = -1
    G = rng.choice([4, 5, 6, 8, 10, 14]) if style != "roomy" else rng.choice([30, 3000])
    R = rng.choice([300, 600, 1000, 1500, 2500]) if style != "roomy" else rng.choice([5000, 404000])
    ntx = rng.choice([4, 5, 6, 7, 9])
    txs = []      # (label, base, weight, nout, pad, wit, inputs[(txid,n)])
    labels = []
    for i in range(ntx):
        lab = i + 1
        if txs and rng.random() < 0.15:
            b = rng.choice([t for t in txs if t[1] == t[0]])
            used = set(t[5] for t in txs if t[1] == b[0])
            wit = rng.choice([w for w in (1, 5, 30, 200, 201, 202, 203, 204, 205) if w not in used])
            txs.append((lab, b[0], tx_weight(len(b[6]), b[3], b[4], wit), b[3], b[4], wit, b[6]))
            continue
        r = rng.random()
        nin = 1 if r < 0.45 else 2 if r < 0.65 else 3 if r < 0.75 else rng.choice([9, 10, 11, 19, 20, 25])
        ins = []
        for _ in range(nin):
            if txs and rng.random() < 0.55:
                par = rng.choice(txs)
                ins.append((par[1], rng.randrange(0, par[3])))
            else:
                ins.append((-rng.randrange(1, 4), rng.randrange(0, 2)))
        if len(ins) > 1 and rng.random() < 0.2:
            ins[-1] = ins[0]
        nout = rng.choice([1, 1, 2, 3])
        pad = rng.choice([0, 0, 10, 50, 100, 200, 300, 600])
        if rng.random() < 0.04:
            pad = 100001
        wit = rng.choice([0, 0, 0, 7, 100])
        while any(t[3] == nout and t[4] == pad and t[6] == ins for t in txs):
            pad += 1     # two labels must not denote the same transaction (or an unintended twin)
        txs.append((lab, lab, tx_weight(nin, nout, pad, wit), nout, pad, wit, ins))
    labs = [t[0] for t in txs]
    ops = []
    present = []
    for _ in range(nops):
        r = rng.random()
        if style == "flood":
            th = (0.50, 0.70, 0.75, 0.80, 0.86, 0.93, 0.97)
        else:
            th = (0.35, 0.55, 0.62, 0.70, 0.80, 0.90, 0.96)
        if r < th[0]:
            w = rng.choice(labs); p = rng.choice(peers); ops.append("add %d %d" % (w, p)); present.append(w)
        elif r < th[1]:
            w = rng.choice(present) if present and rng.random() < 0.85 else rng.choice(labs)
            ops.append("ann %d %d" % (w, rng.choice(peers)))
        elif r < th[2]:
            ops.append("erase %d" % (rng.choice(present) if present and rng.random() < 0.8 else rng.choice(labs)))
        elif r < th[3]:
            ops.append("peer %d" % rng.choice(peers))
        elif r < th[4]:
            sp = []
            for _ in range(rng.choice([1, 1, 2, 3])):
                if rng.random() < 0.7:
                    t = rng.choice(txs); sp.append(rng.choice(t[6]))
                else:
                    sp.append((rng.choice([t[1] for t in txs] + [-1, -2, -3]), rng.randrange(0, 3)))
            ops.append("block " + ",".join("%d:%d" % x for x in sp))
        elif r < th[5]:
            ops.append("work %d %d" % (rng.choice(labs), rng.randrange(0, 6)))
        elif r < th[6]:
            ops.append("recon %d" % rng.choice(peers))
        else:
            ops.append("kids %d %d" % (rng.choice(labs), rng.choice(peers)))
    tdefs = " ; ".join("t %d %d %d %d %d %d %s" % (t[0], t[1], t[2], t[3], t[4], t[5], ",".join("%d:%d" % x for x in t[6])) for t in txs)
    return "%d %d | %s | %s" % (G, R, tdefs, " ; ".join(ops))


def gen(rng, tier):
    n = 1500 if tier == "quick" else 40000
    cases = []
    for i in range(n):
        style = rng.choice(["flood", "flood", "mixed", "mixed", "roomy"])
        cases.append(gen_case(rng, rng.choice([4, 8, 12, 20, 30, 45]), style))
    return cases


def shrink(case):
    head, tdefs, ops = case.split(" | ")
    ops = ops.split(" ; ")
    n = len(ops)
    def mk(o):
        return head + " | " + tdefs + " | " + " ; ".join(o)
    if n > 4:
        yield mk(ops[: n // 2])
        yield mk(ops[: (3 * n) // 4])
        for k in (8, 4, 2):
            if n > 2 * k:
                for s in range(0, n, k):
                    yield mk(ops[:s] + ops[s + k:])
    for i in range(n - 1, -1, -1):
        if n > 1:
            yield mk(ops[:i] + ops[i + 1:])


TIES = [Tie("orphanage_ops", "tie/drivers/orphan_drv.cpp", "Extract_Orphanage.v", "orphan_driver.ml", gen,
            predicate="driver", nontrivial=lambda c: c.count("add ") >= 3,
            classify=lambda c: "G<=%s" % ("14" if int(c.split(" ", 1)[0]) <= 14 else "big"), shrink=shrink)]

LEVEL_TEXT = ("Coq theorems, by induction over ALL operation sequences of an executable transcription of TxOrphanageImpl: in every "
              "reachable state every SanityCheck clause holds (per-peer usage/count/latency, unique-orphan counters, the outpoint "
              "index without dangling or missing entries, the reconsiderable set) and the pool is within both global limits; "
              "LimitOrphans never hits a failed Assume (key lemma: over the global limit implies a peer with DoS score > 1), "
              "terminates, evicts only announcements of peers whose DoS score exceeded 1 when it started and nothing when the "
              "pool is within limits; EraseTx / EraseForPeer / EraseForBlock remove exactly the affected announcements (block: "
              "exactly the orphans spending a spent outpoint); reconsideration changes flags only. Model tied to the real "
              "TxOrphanage by differential execution of operation scripts on real transactions; constants from the compiled tree.")
LEVEL_NOTE = ("Premises kept in the statements: transactions identified by wtxid; every input >= 164 weight units; 0 < "
              "max_global_latency_score <= 10^6, 0 < reserved_peer_usage <= INT32_MAX; at most max_global_latency_score announcing "
              "peers (with more, MaxPeerLatencyScore() is 0 and GetDosScore's assert fails in the real code - confirmed with "
              "MakeTxOrphanage(4, 1000) and 5 peers; unreachable with the default 3000). The random choice of AddChildrenToWorkSet "
              "is an input of the model; the driver picks rng seeds whose draws follow the model's rule. Trusted: Coq kernel; "
              "dump_params; extraction and the OCaml/C++ driver glue; hand transcription checked by correspondence.")
TECHNIQUE = "Coq proof (induction over all operation sequences of an executable transcription) + differential correspondence against the real TxOrphanage"
