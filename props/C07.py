from vlib.runner import Tie
from vlib import core

ID = "C07"
LEVEL = "proof"
DESIGN_REF = "DESIGN.md section 5, C07"
PROP_FILES = ["props/Properties_C07.v"]
RULE = ("cases: setc <nBits> for all 256 size bytes x sign on/off x boundary mantissas (0,1,0x7f,0x80,0xff,0x100,0xffff,0x10000,"
        "0x7fffff...) plus seeded random nBits; getc <x> at 256^k, 256^k/2 (+-1), mantissa boundaries 0x7fffff/0x800000 * 256^k for every byte "
        "length, 2^256-1 and random; pow <chain> <hash> <nBits> with hash = target-1/target/target+1/0/2^256-1 for targets at/above/below "
        "every chain's powLimit, negative, zero and overflowing nBits; calc <chain> <lastbits> <firstbits> <tfirst> <tlast> <k> = "
        "CalculateNextWorkRequired on a synthetic k-period chain with timespans at T/4, T, 4T (+-1), 0, negative, 2^32-1, extreme int64 first "
        "times and old targets at/near powLimit, powLimit/4, tiny and mid-range, followed by PermittedDifficultyTransition on the result; "
        "perm <chain> <height> <old> <new> with new at the computed max/min bounds +-1 ulp on and off retarget heights; next <chain> <time> "
        "<segments> = GetNextWorkRequired on synthetic chains (retarget boundary, min-difficulty walk-back runs crossing period starts and "
        "reaching genesis, the 20-minute rule at +-1 s) followed by PermittedDifficultyTransition; mtp <times> = GetMedianTimePast on 1..13 "
        "blocks; hdr = ProcessNewBlockHeaders on a regtest node with the header time at MTP-1/MTP/MTP+1 and now+7199/7200/7201, wrong "
        "nBits, insufficient hash. Non-trivial = every case except nBits 0; distinct = distinct case lines.")
ASSUMPTIONS = ["block times are 32-bit (CBlockIndex::nTime) and nHeight+1 does not overflow int",
               "previous headers' nBits are valid targets for the chain (they passed CheckProofOfWork when accepted)",
               "GetAncestor(h) returns the ancestor at height h (property C54); chains are modelled as lists, tip first",
               "int64 subtraction pindexLast->GetBlockTime() - nFirstBlockTime does not overflow (it cannot for 32-bit block times)",
               "the models are hand transcriptions of pow.cpp / arith_uint256.cpp / GetMedianTimePast / ContextualCheckBlockHeader; tied by the "
               "correspondence on the listed cases; the version gates of ContextualCheckBlockHeader are not part of this property's model"]
TRUSTED = ["Coq 8.16.1 kernel (coqc; vm_compute used on the generated chain parameters; no native_compute)",
           "tie/dump_params.cpp + tie/params/pow.h print each chain's powLimit, timespan, spacing, flags and MAX_FUTURE_BLOCK_TIME, "
           "nMedianTimeSpan, MAX_TIMEWARP from the compiled tree",
           "extraction: ExtrOcamlBasic only; ocaml/conv.ml + pow_driver.ml glue (zarith only to parse/print text and expand run-length chains)",
           "tie/drivers/pow_drv.cpp builds synthetic CBlockIndex chains with BuildSkip and calls the real functions; header cases go through "
           "ChainstateManager::ProcessNewBlockHeaders on a regtest TestingSetup under SetMockTime"]

M256 = (1 << 256) - 1


def decode(c):
    size = c >> 24
    word = c & 0x007fffff
    if size <= 3:
        word >>= 8 * (3 - size)
        val = word
    else:
        val = (word << (8 * (size - 3))) & M256
    neg = word != 0 and (c & 0x00800000) != 0
    ovf = word != 0 and (size > 34 or (word > 0xff and size > 33) or (word > 0xffff and size > 32))
    return val, neg, ovf


def encode(x):
    size = (x.bit_length() + 7) // 8
    if size <= 3:
        c = x << (8 * (3 - size))
    else:
        c = x >> (8 * (size - 3))
    if c & 0x00800000:
        c >>= 8
        size += 1
    return c | (size << 24)


def next_up(c):
    """smallest canonical compact above c's value"""
    v = decode(c)[0]
    e = encode(v)
    size = e >> 24
    step = 1 << (8 * max(0, size - 3))
    return encode(min(M256, v + step))


def next_down(c):
    v = decode(c)[0]
    return encode(max(0, v - 1))


def hx(x):
    return "%064x" % x


def gen_setc(rng, tier):
    cases = []
    mants = [0, 1, 0x7f, 0x80, 0xff, 0x100, 0x101, 0x7fff, 0x8000, 0xffff, 0x10000, 0x10001, 0x7fffff, 0x7ffffe, 0x400000, 0x00ff00, 0x123456]
    for size in range(256):
        for sign in (0, 0x00800000):
            for m in mants:
                cases.append("setc %d" % ((size << 24) | sign | m))
    for _ in range(600 if tier == "quick" else 50000):
        r = rng.random()
        if r < 0.5:
            cases.append("setc %d" % rng.getrandbits(32))
        else:
            cases.append("setc %d" % ((rng.randrange(0, 40) << 24) | rng.getrandbits(24)))
    return cases


def gen_getc(rng, tier):
    xs = {0, 1, 2, M256, M256 - 1, 1 << 255, (1 << 255) - 1}
    for k in range(0, 33):
        p = 256 ** k
        for v in (p - 1, p, p + 1, p // 2 - 1, p // 2, p // 2 + 1, 0x7fffff * p, 0x800000 * p, 0x7fffff * p + p - 1, 0x800000 * p - 1,
                  0x7fff * p, 0x8000 * p, 0xffff * p + p - 1, 0x10000 * p, 0x123456 * p + (p // 3)):
            if 0 <= v <= M256:
                xs.add(v)
    for _ in range(500 if tier == "quick" else 40000):
        b = rng.randrange(1, 257)
        xs.add(rng.getrandbits(b))
    return ["getc %x" % x for x in sorted(xs)]


def gen_pow(rng, tier, P):
    cases = []
    for ci, ch in enumerate(P["chains"]):
        L = ch["cp_pow_limit"]
        lb = encode(L)
        bits = {lb, lb + 1, lb - 1, next_up(lb), next_down(lb), lb | 0x00800000, lb & 0xff000000, 0, 0x01000000, 0x01010000, 0x01800000,
                0x02008000, 0x03000001, 0x1d00ffff, 0x1c00ffff, 0x170331db, 0x207fffff, 0x20800000, 0x21000001, 0x21008000, 0x2100ffff,
                0x22000001, 0x220000ff, 0x22000100, 0x23000001, 0x21010000, 0xff000001, 0x1e0377ae, 0x1e0377af, 0x1e0377ad, 0x04800001}
        for _ in range(40 if tier == "quick" else 3000):
            bits.add(rng.getrandbits(32))
            bits.add((rng.randrange(1, 35) << 24) | rng.getrandbits(23))
        for b in sorted(bits):
            t, neg, ovf = decode(b)
            for h in {0, 1, M256, t, max(0, t - 1), min(M256, t + 1), L, min(M256, L + 1), rng.getrandbits(256), rng.getrandbits(max(1, t.bit_length()))}:
                cases.append("pow %d %s %d" % (ci, hx(h), b))
    return cases


def old_bits_for(ch, rng, n_random):
    L = ch["cp_pow_limit"]
    lb = encode(L)
    olds = [lb, next_down(lb), encode(L // 4), next_up(encode(L // 4)), next_down(encode(L // 4)), encode(L // 4 + 1), encode(L // 16),
            encode(L // 3), encode(L >> 40), 0x1b0404cb, 0x170331db, 0x1c05a3f4, 0x1c387f6f, 0x03000001, 0x01010000, 0x02008000, 0x03123456,
            0x04123456, 0x05009234]
    for _ in range(n_random):
        olds.append(encode(rng.randrange(1, L + 1) >> rng.randrange(0, 200)))
    out = []
    for o in olds:
        v, neg, ovf = decode(o)
        if v > 0 and not neg and not ovf and v <= L and o not in out:
            out.append(o)
    return out


def gen_calc(rng, tier, P):
    cases = []
    for ci, ch in enumerate(P["chains"]):
        T = ch["cp_target_timespan"]
        olds = old_bits_for(ch, rng, 6 if tier == "quick" else 200)
        actuals = [T // 4 - 1, T // 4, T // 4 + 1, T - 1, T, T + 1, 4 * T - 1, 4 * T, 4 * T + 1, 0, -1, 1, -T, 2 ** 31, 2 ** 32 - 1,
                   2 ** 32, 2 ** 33 + 5, 2 ** 62, -(2 ** 62), T // 2, 2 * T, 3 * T + 7]
        for o in olds:
            for a in actuals + [rng.randrange(T // 8, 5 * T) for _ in range(3)]:
                tlast = rng.choice([0, 1, 2 ** 32 - 1, rng.randrange(0, 2 ** 32), 1231006505 + rng.randrange(0, 10 ** 9)])
                tfirst = tlast - a
                fb = rng.choice(olds) if ch["cp_enforce_bip94"] else rng.choice([0, o, 0x1d00ffff])
                k = 2 if rng.random() < 0.05 else 1
                cases.append("calc %d %d %d %d %d %d" % (ci, o, fb, tfirst, tlast, k))
        # a few old targets outside the property's domain (negative / overflow / above the limit): functional comparison only
        for o in (0x1d80ffff, 0x2100ffff, 0x22000100, 0x207fffff, 0x00000000, 0xff7fffff):
            for a in (T // 4, T, 4 * T):
                cases.append("calc %d %d %d %d %d 1" % (ci, o, o, 1000 - a, 1000))
    return cases


def scaled(ch, old_bits, ts):
    L = ch["cp_pow_limit"]
    T = ch["cp_target_timespan"]
    v = (decode(old_bits)[0] * (ts & 0xffffffff)) & M256
    v //= T
    if v > L:
        v = L
    return encode(v)


def gen_perm(rng, tier, P):
    cases = []
    for ci, ch in enumerate(P["chains"]):
        T = ch["cp_target_timespan"]
        I = T // ch["cp_target_spacing"]
        olds = old_bits_for(ch, rng, 4 if tier == "quick" else 100)
        for o in olds:
            mx = scaled(ch, o, 4 * T)
            mn = scaled(ch, o, T // 4)
            news = {o, mx, mn, next_up(mx), next_down(mx), next_up(mn), next_down(mn), mx + 1, mx - 1, mn + 1, mn - 1, o + 1, o - 1,
                    mx | 0x00800000, 0, 0x21000001, rng.getrandbits(32), scaled(ch, o, rng.randrange(T // 4, 4 * T))}
            for n in sorted(news):
                if not (0 <= n < 2 ** 32):
                    continue
                for h in (I, 2 * I, 0):
                    cases.append("perm %d %d %d %d" % (ci, h, o, n))
                for h in (I - 1, I + 1, 1):
                    if n in (o, o + 1, mx, mn):
                        cases.append("perm %d %d %d %d" % (ci, h, o, n))
    return cases


def gen_next(rng, tier, P):
    cases = []
    reps = 1 if tier == "quick" else 12
    for ci, ch in enumerate(P["chains"]):
        T = ch["cp_target_timespan"]
        S = ch["cp_target_spacing"]
        I = T // S
        lb = encode(ch["cp_pow_limit"])
        olds = old_bits_for(ch, rng, 0)
        for _ in range(reps):
            B = rng.choice(olds)
            t0 = rng.randrange(0, 2 ** 31)
            # retarget boundary: chain of exactly I (and 2I) blocks with different paces
            for dt in (S, S // 4, S // 5, 4 * S, 5 * S, 0, 1, S - 1, 2 * S):
                if t0 + 2 * I * dt < 2 ** 32:
                    cases.append("next %d %d %d:%d:%d:%d" % (ci, t0 + I * dt, I, t0, dt, B))
            cases.append("next %d %d %d:%d:%d:%d %d:%d:%d:%d" % (ci, t0 + 2 * I * S, I, t0, S, lb, I, t0 + I * S, S // 2, B))
            # first block of the period has other bits (BIP94 reads it), last block min-difficulty
            cases.append("next %d %d 1:%d:0:%d %d:%d:%d:%d 1:%d:0:%d" % (ci, t0 + I * S, t0, B, I - 2, t0 + S, S, rng.choice(olds), t0 + (I - 1) * S, lb))
            # off-boundary heights
            for n in (1, 2, I - 1, I + 1, I + 5):
                last_t = t0 + (n - 1) * S
                for bt in (last_t + 2 * S - 1, last_t + 2 * S, last_t + 2 * S + 1, last_t, last_t - 5 if last_t >= 5 else 0):
                    cases.append("next %d %d %d:%d:%d:%d" % (ci, bt, n, t0, S, B))
            # min-difficulty runs: j normal blocks after a period start then m min-difficulty ones
            for (j, m) in ((3, 4), (1, 1), (0, 5), (5, 0), (1, I + 3), (0, I - 1), (2, I - 2), (0, I), (0, 2 * I + 1)):
                n0 = I + j
                segs = "%d:%d:%d:%d" % (n0, t0, S, B)
                if m:
                    segs += " %d:%d:%d:%d" % (m, t0 + n0 * S, 3 * S, lb)
                tot = n0 + m
                if (tot % I) == 0:
                    continue
                last_t = t0 + n0 * S + (m - 1) * 3 * S if m else t0 + (n0 - 1) * S
                for bt in (last_t + 2 * S, last_t + 2 * S + 1):
                    cases.append("next %d %d %s" % (ci, bt % 2 ** 32, segs))
            # everything min-difficulty down to genesis
            cases.append("next %d %d %d:%d:%d:%d" % (ci, t0 + 7 * S, 7, t0, S, lb))
    return cases


def gen_mtp(rng, tier):
    cases = []
    for n in range(1, 14):
        for _ in range(4 if tier == "quick" else 60):
            style = rng.random()
            if style < 0.3:
                ts = [rng.randrange(0, 10) for _ in range(n)]
            elif style < 0.6:
                ts = [rng.randrange(0, 2 ** 32) for _ in range(n)]
            else:
                b = rng.randrange(0, 2 ** 32 - 100000)
                ts = [b + rng.randrange(0, 7200) for _ in range(n)]
            cases.append("mtp " + " ".join(map(str, ts)))
    cases.append("mtp " + " ".join(["4294967295"] * 11))
    return cases


def gen_hdr(rng, tier):
    """times are relative to the regtest genesis block's time; the intermediate headers must be valid"""
    cases = []
    reps = 6 if tier == "quick" else 80
    for _ in range(reps):
        n = rng.choice([0, 1, 2, 5, 10, 11, 12, 15])
        ts = []
        hist = [0]
        for i in range(n):
            srt = sorted(hist[-11:])
            mtp = srt[len(srt) // 2]
            t = mtp + rng.choice([1, 1, 2, 10, 600, 1200, 1201, 3000])
            ts.append(t)
            hist.append(t)
        srt = sorted(hist[-11:])
        mtp = srt[len(srt) // 2]
        last = hist[-1]
        for ft in (mtp - 1, mtp, mtp + 1, mtp + 2, last + 600, last + 1201):
            if ft < -1000000:
                continue
            for now in (ft - 7201, ft - 7200, ft - 7199, ft + 100, ft - 7200 - 3600):
                cases.append("hdr %d 0 0 %s" % (now, " ".join(map(str, ts + [ft]))))
        ft = mtp + 5
        cases.append("hdr %d -1 0 %s" % (ft, " ".join(map(str, ts + [ft]))))
        cases.append("hdr %d 1 0 %s" % (ft, " ".join(map(str, ts + [ft]))))
        cases.append("hdr %d -8388607 0 %s" % (ft, " ".join(map(str, ts + [ft]))))
        cases.append("hdr %d 0 1 %s" % (ft, " ".join(map(str, ts + [ft]))))
        cases.append("hdr %d 0 1 %s" % (ft - 10000, " ".join(map(str, ts + [mtp]))))
    return cases


def gen(rng, tier):
    P = core.parse_params()
    cases = []
    cases += gen_setc(rng, tier)
    cases += gen_getc(rng, tier)
    cases += gen_pow(rng, tier, P)
    cases += gen_calc(rng, tier, P)
    cases += gen_perm(rng, tier, P)
    cases += gen_next(rng, tier, P)
    cases += gen_mtp(rng, tier)
    cases += gen_hdr(rng, tier)
    return cases


TIES = [Tie("pow_fn", "tie/drivers/pow_drv.cpp", "Extract_Pow.v", "pow_driver.ml", gen,
            predicate="driver", nontrivial=lambda c: c not in ("setc 0", "getc 0"))]

LEVEL_TEXT = ("Coq theorems over all inputs: SetCompact = mantissa*256^(size-3) mod 2^256 with the overflow flag exactly 'value >= 2^256' and the "
              "negative flag exactly 'sign bit and value <> 0'; GetCompact = the reference (MPI) encoding, its asserts never fail, get/set "
              "round trip, truncation below 2^-15 and monotone; CheckProofOfWork accepts iff sign clear, 0 < target <= powLimit and hash <= "
              "target over unbounded integers, for every generated chain; CalculateNextWorkRequired on every retargeting chain = encoding of "
              "min(old*clamp(dt,T/4,4T)/T, powLimit) with no 32-bit truncation of the multiplier and no 256-bit wrap (per-chain vm_compute on "
              "the generated powLimit/timespan), result within [old/4 (compact precision), 4*old] and <= powLimit; for every chain and every "
              "valid header chain the nBits demanded by GetNextWorkRequired passes PermittedDifficultyTransition; GetNextWorkRequired's "
              "asserts cannot fire; an accepted header has valid PoW, the required nBits, time > median of the previous 11 and <= now + 2 h. "
              "Models tied to the real functions by differential execution on boundary-directed cases.")
LEVEL_NOTE = ("Trusted: Coq kernel; dump_params; extraction and the OCaml/C++ glue. The models are hand transcriptions (operator*= overload "
              "resolution to uint32_t is modelled explicitly and proved harmless on the generated chains). Chains are lists (GetAncestor "
              "correctness is C54). ContextualCheckBlockHeader is static, so its model is tied through ProcessNewBlockHeaders on regtest only "
              "(no BIP94 timewarp branch is exercised by the tie; it is in the model and theorem). Version gates are out of scope here.")
TECHNIQUE = "Coq proof (arithmetic over Z with explicit 256/64/32-bit wraps, vm_compute on generated chain parameters) + differential correspondence"
