from vlib.runner import Tie
from vlib import core

ID = "C43"
LEVEL = "proof"
DESIGN_REF = "DESIGN.md section 5, C43"
PROP_FILES = ["props/Properties_C43.v"]
RULE = ("cases: kp <keypool size> followed by 3-25 operations on a real descriptor CWallet over a real SQLite file: new receiving/change "
        "addresses, SetAddressBook / DelAddressBook / previously-spent flag / receive requests on foreign and own addresses, LockCoin "
        "(persistent or not) / UnlockCoin / UnlockAllCoins, AddToWallet / RemoveTxs, TopUp, SetWalletFlag, AddWalletDescriptor, clean restarts "
        "and crashes; `@j:` copies the database file (+journal) just before the operation's j-th mutating database call and loads the copy. "
        "After every case the running wallet's observable state is compared with a second CWallet loaded from a copy of the file. "
        "non-trivial = at least three operations; distinct = distinct case lines")
ASSUMPTIONS = ["a committed SQLite transaction / autocommitted statement is atomic and durable, an uncommitted one leaves nothing (the model's database "
               "is a map replaced at commit); crash = process death: the file holds exactly what SQLite had written (power loss, torn pages and SQLite's "
               "own journal recovery are runtime, not modelled)",
               "record kinds modelled: descriptor counters, imported descriptors (key, cache, descriptor records), address book (name, purpose, used, "
               "receive requests), locked coins, transactions (+ witness variant, order position), the avoid-reuse flag; not modelled: encryption records "
               "(C42), best block, settings file, legacy records, migration",
               "address book entries that carry no data (created by operator[] in memory) are not part of the observable state",
               "all database calls succeed (failing calls are C62's subject); labels, ids and values are small numbers in the generated cases"]
TRUSTED = ["Coq 8.16.1 kernel (coqc)", "extraction: ExtrOcamlBasic only; ocaml/conv.ml + walletdb_driver.ml glue (renders the model's getters over the keys a case mentions)",
           "tie/drivers/walletdb_drv.cpp + walletdb_common.h: real CWallet / WalletBatch / SQLiteDatabase; private members read through #define private public; "
           "snapshots are byte copies of the wallet file and its rollback journal"]


def gen_case(rng, nops, snaps):
    kp = rng.choice([1, 2, 2, 3])
    ops = []
    own = []                    # address tokens handed out
    nxt = [0] * 8
    txs = []
    txaddr = {}
    tk = 0
    ik = 0
    locks = []
    def addr():
        r = rng.random()
        if own and r < 0.3:
            return rng.choice(own)
        if r < 0.4:
            s = rng.randrange(0, 8)
            return "m%d.%d" % (s, rng.randrange(0, kp + 3))
        return "x%d" % rng.randrange(1, 5)
    for _ in range(nops):
        r = rng.random()
        pre = ""
        if snaps and rng.random() < 0.45:
            pre = "@%d:" % rng.choice([0, 1, 1, 2, 2, 3, 4, 5, 6])
        if r < 0.10:
            t = rng.randrange(0, 4)
            if rng.random() < 0.7:
                ops.append(pre + "new:%d" % t); own.append("m%d.%d" % (t, nxt[t])); nxt[t] += 1
            else:
                ops.append(pre + "chg:%d" % t); own.append("m%d.%d" % (4 + t, nxt[4 + t])); nxt[4 + t] += 1
        elif r < 0.24:
            ops.append(pre + "label:%s:%s:%s" % (addr(), rng.choice(["-", "1", "2", "7"]), rng.choice(["r", "s", "n", "n"])))
        elif r < 0.34:
            ops.append(pre + "del:%s" % addr())
        elif r < 0.41:
            ops.append(pre + "spent:%s:%d" % (addr(), rng.choice([0, 1, 1])))
        elif r < 0.48:
            ops.append(pre + "rr:%s:%d:%d" % (addr(), rng.randrange(0, 4), rng.randrange(1, 9)))
        elif r < 0.52:
            ops.append(pre + "rrdel:%s:%d" % (addr(), rng.randrange(0, 4)))
        elif r < 0.63:
            n = rng.randrange(0, 5)
            ops.append(pre + "lock:%d:%d" % (n, rng.choice([0, 1])))
        elif r < 0.70:
            ops.append(pre + "unlock:%d" % rng.randrange(0, 5))
        elif r < 0.72:
            ops.append("unlockall")
        elif r < 0.80:
            if txs and rng.random() < 0.1:
                k = rng.choice(txs)                 # the same transaction again: nothing new is written
            else:
                tk += 1; k = tk; txaddr[k] = addr(); txs.append(k)
            ops.append(pre + "tx:%d:%s" % (k, txaddr[k]))
        elif r < 0.86:
            if txs:
                k = rng.sample(txs, min(len(txs), rng.choice([1, 1, 2, 3])))
                if rng.random() < 0.15:
                    k.append(90 + rng.randrange(0, 5))      # unknown transaction: the whole removal is rolled back
                ops.append(pre + "rmtx:%s" % ",".join(map(str, k)))
                if not any(x >= 90 for x in k):
                    txs = [x for x in txs if x not in k]
            else:
                ops.append(pre + "rmtx:%d" % (90 + rng.randrange(0, 5)))
        elif r < 0.90:
            ops.append(pre + "top:%d:%d" % (rng.randrange(0, 8), rng.choice([0, 0, 1, kp + 2, 7])))
        elif r < 0.92:
            ops.append(pre + "flag")
        elif r < 0.95:
            ik += 1
            ops.append(pre + "import:%d:%d" % (ik, rng.choice([1, 3])))
        elif r < 0.98:
            ops.append("reload")
        else:
            ops.append("crash")
    return "kp %d %s" % (kp, " ".join(ops))


def aimed_locks(rng):
    n = rng.randrange(0, 4)
    seq = []
    for _ in range(rng.choice([2, 3, 4, 5])):
        seq.append(rng.choice(["lock:%d:0" % n, "lock:%d:1" % n, "unlock:%d" % n, "lock:%d:1" % ((n + 1) % 4), "unlockall", "reload"]))
    return "kp 1 %s" % " ".join(seq)


def gen(rng, tier):
    quick = tier == "quick"
    cases = []
    for _ in range(60 if quick else 1500):
        cases.append(aimed_locks(rng))
    for _ in range(160 if quick else 4000):
        cases.append(gen_case(rng, rng.randrange(3, 22), True))
    for _ in range(120 if quick else 3000):
        cases.append(gen_case(rng, rng.randrange(3, 26), False))
    seen = set()
    out = []
    for c in cases:
        if c not in seen:
            seen.add(c); out.append(c)
    return out


def classify(c):
    ops = c.split()[2:]
    return ("snap" if any(o[0] == "@" for o in ops) else "plain") + ("+restart" if any(o in ("reload", "crash") for o in ops) else "")


def shrink(c):
    w = c.split()
    head, ops = w[:2], w[2:]
    for i in range(len(ops)):
        yield " ".join(head + ops[:i] + ops[i + 1:])
    for i, o in enumerate(ops):
        if o[0] == "@":
            yield " ".join(head + ops[:i] + [o.split(":", 1)[1]] + ops[i + 1:])


TIES = [Tie("walletdb_ops", "tie/drivers/walletdb_drv.cpp", "Extract_WalletDb.v", "walletdb_driver.ml", gen,
            predicate="driver", nontrivial=lambda c: len(c.split()) >= 5, classify=classify, shrink=shrink)]

LEVEL_TEXT = ("Coq theorems over ALL sequences of the modelled wallet operations, restarts and crashes: at every point every getter of the running "
              "wallet equals what LoadWallet rebuilds from the committed records (descriptor counters, imports, labels, purposes, used flags, receive "
              "requests, transactions, order position, flag; lockedutxo records = persistently locked coins), hence a clean restart reloads everything "
              "unchanged; an update bracketed in one database transaction (address book removal, transaction removal, keypool top-up) is all-or-nothing at "
              "every database-call crash point; the records left by a crash at any call of any operation load (write order of descriptor import). The "
              "transcription is tied to the real CWallet on a real SQLite file: results, the running wallet's state, the state of a wallet loaded from a copy "
              "of the file, and the state loaded from snapshots taken before chosen database calls are all compared with the model.")
LEVEL_NOTE = ("Trusted: Coq kernel, extraction + driver glue. Premise: SQLite commits are atomic and durable (crash = process death; no power-loss / torn-page "
              "model, no crash point inside sqlite3's COMMIT itself). Encryption records are C42's; settings.json, best block, migration are not modelled. "
              "History: the check found that LockCoin(persist=true) on a coin locked in memory only left the in-memory flag non-persistent so that the lock "
              "came back after a restart; fixed in /repo a3617e9; the old transcription is `run false` with theorem C43_unupgraded_lock_would_resurrect and "
              "`holds` still classifies that failure (lock-upgrade). Reading of the statement corrected: user descriptor import (AddWalletDescriptor) is not "
              "one database transaction in this tree (theorem C43_import_is_not_one_transaction); what holds is that the wallet loads at each of its crash points.")
TECHNIQUE = "Coq proof (simulation invariant between memory and database records, transaction atomicity lemma, induction over histories) + differential correspondence with crash snapshots"
