from vlib.runner import Tie
from vlib import core
import os

# C40_NO_EXCLUDE=1 also generates the regimes in which the unchanged tree is known to deviate (see RULE / report)
NO_EXCLUDE = os.environ.get("C40_EXCLUDE") != "1"   # the regimes of the two recorded findings are generated; they are reported as KNOWN-FINDING

ID = "C40"
LEVEL = "translation_validation"
DESIGN_REF = "DESIGN.md section 5, C40"
PROP_FILES = ["props/Properties_C40.v"]
RULE = ("cases: <algo bnb|cg|srd|knap> <sffo> <target> <cost_of_change> <change_target> <change_fee> <min_viable_change> "
        "<max_weight> <bump_discount> <feerate> <long_term_feerate> <rng seed> <group value:bytes:bump,...>*; pools of 1-13 "
        "groups (1-3 coins each) built with the real COutput/OutputGroup::Insert/OutputGroupTypeMap::Push; effective values from "
        "small sets with ties, powers of two and duplicates; targets placed at a chosen subset sum -1/0/+1, minus the cost of "
        "change -1/0/+1, minus the change target -1/0/+1; max weight at the chosen subset's weight -1/0/+1 or non-binding; "
        "feerate above / equal / below the long-term feerate; negative effective values (filtered for bnb/cg/srd, offered to "
        "knap); a few pools of 17-19 groups that exhaust TOTAL_TRIES. Every result is judged by the extracted checker; with "
        "<= 13 offered groups a complete search / a failure is compared with the brute-force reference. non-trivial = pool "
        "of >= 2 groups; distinct = distinct case lines. Excluded from generation (reported as findings): tight weight limit "
        "together with tied selection amounts when feerate <= long-term feerate or bump fees are present; bump fees when "
        "feerate < long-term feerate.")
ASSUMPTIONS = ["amounts and weights of a case stay far below 2^62 / 2^31 (the model sums in unbounded Z without wraps)",
               "feerates of the cases are >= 0 sat/kvB; CFeeRate::GetFee is modelled as ceil(rate*bytes/1000) and compared on every case "
               "through the OutputGroup totals the C++ driver echoes",
               "std::sort on <= 16 elements is libstdc++'s (stable) insertion sort; larger pools of the cases have pairwise different amounts",
               "BnB / CoinGrinder optimality and completeness and all SRD / knapsack guarantees are checked per case "
               "(translation validation), not proved for the C++ algorithms; the Gallina transcriptions of SelectCoinsBnB and CoinGrinder "
               "are proved to return only valid selections and are compared output-for-output with the C++ (selection, waste, completed, tries)",
               "BnB optimality is stated against non-redundant selections (no coin can be dropped while still reaching the target), "
               "which is what the search explores"]
TRUSTED = ["Coq 8.16.1 kernel",
           "tie/dump_params.cpp prints CHANGE_LOWER, MAX_MONEY, WITNESS_SCALE_FACTOR from the compiled tree; TOTAL_TRIES (file-static) is "
           "hand-copied and exercised by the exhaustion cases",
           "extraction: ExtrOcamlBasic only; ocaml/conv.ml + coinsel_driver.ml glue (parsing, coin ids <-> group positions)",
           "tie/drivers/coinsel_drv.cpp builds the OutputGroups it is told to, calls the four algorithms and prints the SelectionResult"]


def fee_at(rate, b):
    return (rate * b + 999) // 1000


BYTES = [41, 58, 68, 91, 100, 148, 150, 272, 300, 500]


def mk_pool(rng, n, rate, ltrate, style, allow_neg, allow_bump, multi):
    """returns list of groups, each a list of (value, bytes, bump); and per-group (amt_eff, weight)"""
    groups = []
    for _ in range(n):
        k = 1
        if multi and rng.random() < 0.2:
            k = rng.choice([2, 2, 3])
        coins = []
        for _ in range(k):
            b = rng.choice(BYTES) if rng.random() < 0.85 else rng.randrange(41, 600)
            if rng.random() < 0.03:
                b = -1
            bump = 0
            if allow_bump and rng.random() < 0.1:
                bump = rng.choice([1, 50, 500, 3000])
            if style == 0:
                eff = rng.choice([1000, 2000, 3000, 4000, 5000, 7000, 10000])
            elif style == 1:
                eff = 1 << rng.randrange(6, 16)
            elif style == 2:
                eff = rng.choice([5000, 5000, 5001, 4999, 2500, 10000])
            elif style == 3:
                eff = rng.randrange(1, 20000)
            else:
                eff = rng.choice([60000, 75000, 100000, 150000, 51000, 49999, 1000, 333])
            if allow_neg and rng.random() < 0.12:
                eff = -rng.choice([1, 10, 500, 2000])
            if rng.random() < 0.03:
                eff = rng.choice([0, 1])
            fee = (0 if b < 0 else fee_at(rate, b)) + bump
            coins.append((eff + fee, b, bump))
        groups.append(coins)
    return groups


def gstats(g, rate, sffo):
    eff = sum(v - ((0 if b < 0 else fee_at(rate, b)) + bump) for (v, b, bump) in g)
    val = sum(v for (v, b, bump) in g)
    w = sum(4 * b for (v, b, bump) in g if b > 0)
    return (val if sffo else eff), w


def fmt(algo, sffo, target, coc, ct, cfee, mvc, maxw, disc, rate, ltrate, seed, groups):
    return "%s %d %d %d %d %d %d %d %d %d %d %d %s" % (
        algo, sffo, target, coc, ct, cfee, mvc, maxw, disc, rate, ltrate, seed,
        " ".join(",".join("%d:%d:%d" % c for c in g) for g in groups))


def one_case(rng, algo, nmax):
    regime = rng.choice(["high", "high", "low", "equal", "zero"])
    if regime == "high":
        ltrate = rng.choice([1000, 3000, 10000]); rate = ltrate + rng.choice([1000, 2000, 20000])
    elif regime == "low":
        rate = rng.choice([1000, 2000, 5000]); ltrate = rate + rng.choice([1000, 5000, 25000])
    elif regime == "equal":
        rate = ltrate = rng.choice([1000, 10000])
    else:
        rate = 0; ltrate = rng.choice([0, 10000])
    if rng.random() < 0.1:   # non-integer sat/vB: exercises the rounding of GetFee (only without tight weights, see below)
        rate += rng.randrange(1, 999)
    sffo = 1 if rng.random() < 0.12 else 0
    n = rng.randrange(1, nmax + 1)
    style = rng.randrange(0, 5)
    allow_bump = rate >= ltrate or NO_EXCLUDE
    groups = mk_pool(rng, n, rate, ltrate, style, allow_neg=True, allow_bump=allow_bump, multi=True)
    st = [gstats(g, rate, sffo) for g in groups]
    usable = [i for i in range(n) if algo == "knap" or st[i][0] > 0]
    coc = rng.choice([0, 1, 100, 500, 5000])
    cfee = rng.choice([0, 100, 300])
    ct = rng.choice([1000, 5000, 50000 + cfee])
    mvc = rng.choice([max(1, coc - cfee + 1), max(1, coc - cfee + 1), 1, 300, 1000, 60000])
    disc = 0 if rng.random() < 0.85 else rng.choice([1, 100, 1000])
    # target relative to a chosen subset
    sub = [i for i in usable if rng.random() < 0.5] or usable[:1]
    S = sum(st[i][0] for i in sub)
    W = sum(st[i][1] for i in sub)
    r = rng.random()
    if algo == "bnb":
        off = rng.choice([0, 0, 0, 1, -1, coc, coc + 1, coc - 1, coc // 2])
        target = S - off if rng.random() < 0.8 else S + rng.choice([1, 2, 1000])
    elif algo == "cg":
        target = S - ct + rng.choice([0, 0, 1, -1, -5, 2])
    elif algo == "srd":
        target = S - 50000 - cfee + rng.choice([0, 0, 1, -1, -100, 100])
    else:
        target = S - rng.choice([0, 0, 0, 1, -1, ct, ct + 1, ct - 1])
    if r < 0.05:
        target = sum(x[0] for x in st if x[0] > 0) + rng.choice([0, 1, -1])   # around the pool total
    if target < 1:
        target = rng.choice([1, 2, 1000])
    # weight limit
    amts = [st[i][0] for i in usable]
    ties = len(set(amts)) != len(amts)
    clean_high = (rate > ltrate and rate % 1000 == 0 and ltrate % 1000 == 0
                  and all(c[2] == 0 for g in groups for c in g))
    tight_ok = (not ties) or clean_high or algo in ("srd", "knap") or NO_EXCLUDE
    if tight_ok and rng.random() < 0.45:
        maxw = W + rng.choice([0, 0, 1, -1, 4, -4])
        if maxw < 0:
            maxw = 0
    else:
        maxw = rng.choice([400000, 400000, sum(x[1] for x in st) + rng.choice([0, 1])])
        if not tight_ok:
            maxw = max(maxw, sum(x[1] for x in st))
    seed = rng.randrange(0, 1 << 32)
    return fmt(algo, sffo, target, coc, ct, cfee, mvc, maxw, disc, rate, ltrate, seed, groups)


def exhaustion_cases(rng):
    out = []
    # coinselection_tests.cpp bnb_exhaustion_with_solution_test: 19 coins 100000+i, target 800000: a solution is found
    # but the search runs into TOTAL_TRIES (algo_completed = false)
    for n, target, coc in ((19, 800000, 500), (18, 800000, 500), (17, 800000, 200), (19, 800000, 28)):
        groups = [[(100000 + i + fee_at(10000, 68), 68, 0)] for i in range(n)]
        rng.shuffle(groups)
        out.append(fmt("bnb", 0, target, coc, 50000, 100, 400, 400000, 0, 10000, 5000, 1, groups))
    # "Exhaust looking for smallest 8 of 19 unique UTXOs": no result, tries exhausted
    coc = 500
    for n in (17, 19):
        groups = []
        for i in range(n):
            eff = 1000000 + i if i < 8 else 1000000 + coc + i
            groups.append([(eff + fee_at(10000, 68), 68, 0)])
        out.append(fmt("bnb", 0, 8000000, coc, 50000, 100, 400, 400000, 0, 10000, 5000, 1, groups))
    # CoinGrinder on the same shape
    groups = [[(100000 + i + fee_at(30000, 68), 68 + (i % 5), 0)] for i in range(19)]
    out.append(fmt("cg", 0, 750000, 500, 50000, 100, 400, 400000, 0, 30000, 5000, 1, groups))
    return out


def gen(rng, tier):
    cases = []
    nq = 700 if tier == "quick" else 12000
    for algo in ("bnb", "bnb", "cg", "srd", "knap"):
        for _ in range(nq):
            nmax = 13 if rng.random() < 0.25 else 9
            cases.append(one_case(rng, algo, nmax))
    # pools of 14-16 groups: validity only (brute force skipped above 13 offered groups)
    for algo in ("bnb", "cg", "srd", "knap"):
        for _ in range(20 if tier == "quick" else 300):
            cases.append(one_case(rng, algo, 16))
    cases += exhaustion_cases(rng)
    return cases


class Line(str):
    """Result line whose part after ' R ' may be the wildcard '*' on the model side (randomised algorithms: SRD and the
    knapsack solver draw from FastRandomContext, which the model does not reproduce; their results are judged by the
    extracted checker in `holds`, not by equality).  Work-around for the runner comparing impl and model lines with !=."""
    def _key(self, other):
        a, b = str(self), str(other)
        if " R " in a and " R " in b:
            (pa, ra), (pb, rb) = a.split(" R ", 1), b.split(" R ", 1)
            if ra == "*" or rb == "*":
                return pa, pb
        return a, b
    def __eq__(self, other):
        a, b = self._key(other)
        return a == b
    def __ne__(self, other):
        a, b = self._key(other)
        return a != b
    __hash__ = str.__hash__


def shrink(case):
    w = case.split(" ")
    head, groups = w[:12], w[12:]
    for i in range(len(groups)):
        yield " ".join(head + groups[:i] + groups[i + 1:])
    for i, g in enumerate(groups):
        cs = g.split(",")
        if len(cs) > 1:
            for j in range(len(cs)):
                yield " ".join(head + groups[:i] + [",".join(cs[:j] + cs[j + 1:])] + groups[i + 1:])


TIES = [Tie("coin_selection", "tie/drivers/coinsel_drv.cpp", "Extract_CoinSel.v", "coinsel_driver.ml", gen,
            predicate="driver", nontrivial=lambda c: len(c.split(" ")) >= 14, canon=Line, shrink=shrink)]

LEVEL_TEXT = ("Coq theorems: soundness of the executable selection checker (a result it accepts is a sub-list of the offered pool - "
              "no coin twice, none invented - with the stated value/effective value/weight, covers the algorithm's target bound, "
              "BnB inside [target, target+cost_of_change], weight <= max weight, waste equal to the RecalculateWaste formula); "
              "correctness of the brute-force reference (existence and minimum over all sub-lists) and of the optimality / "
              "no-solution checks built on it; and, for Gallina transcriptions of SelectCoinsBnB and CoinGrinder with fuel TOTAL_TRIES, that every "
              "result they return is a valid (in-window resp. target+change) in-weight sub-multiset of the pool, best_waste equal to its waste. "
              "The C++ algorithms are tied by translation validation: every C++ result on the generated pools is judged by the "
              "extracted checker, BnB and CoinGrinder are also compared output-for-output with the transcriptions.")
LEVEL_NOTE = ("Not proved about the C++: optimality/completeness of BnB and CoinGrinder (checked against the proved brute force on "
              "pools of <= 13 offered groups) and any property of SRD / knapsack beyond per-case validation. BnB's optimality clause "
              "is relative to non-redundant selections. Known deviation excluded from generation: with tied selection amounts and a "
              "binding weight limit BnB's clone skipping can miss the only in-weight solution (see corpus/C40 comment).")
TECHNIQUE = "verified checker + verified brute-force reference + proved BnB transcription, differential execution against the C++"
