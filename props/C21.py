import os, re, threading
from vlib.runner import Tie
from vlib import core

ID = "C21"
LEVEL = "proof"
DESIGN_REF = "DESIGN.md section 5, C21"
PROP_FILES = ["props/Properties_C21.v"]
RULE = ("muhash: MuHash3072 register-machine cases (insert/remove/combine/finalize/serialize/unserialize on four objects): the same "
        "multiset inserted in two orders, insert/remove interleavings against the net multiset, *= and /= against union and difference, "
        "running states installed through Unserialize with numerator/denominator at 0, 1, p-1, p, p+1, 2^3072-1 (p = 2^3072-1103717); "
        "index: histories on a regtest TestChain100Setup with the real CoinStatsIndex, TxIndex and BlockFilterIndex (on-disk databases): "
        "blocks with real transactions (multi-input/output, in-block chains, OP_RETURN outputs with value, unclaimed fees and subsidy), "
        "reorgs by InvalidateBlock + longer fork and ReconsiderBlock, chainstate flushes (index commits), index restarts including "
        "a reorg while the index is down and an index started late; at every check the index answers for the active tip (and for deeper "
        "active blocks) are compared with ComputeUTXOStats(MUHASH) over the flushed coins database, with the BIP157 header chain "
        "recomputed from block+undo, and with the model. non-trivial = every case; distinct = distinct case lines")
ASSUMPTIONS = ["the MuHash elements in play are invertible modulo 2^3072-1103717 (premise `invertible` of the theorems; the C++ never checks "
               "for a zero element; true for every non-zero residue if the modulus is prime, which is not proved)",
               "SHA256 / ChaCha20 are the committed models of the crypto family (CryptoSHA256.v, CryptoChaCha.v), tied by C49/C10",
               "index theorems are about CustomAppend / CustomRemove histories of one index object; restarts are covered by the correspondence "
               "(RESTART_CASES are generated on every run) and by vm_compute witnesses; BlockFilterIndex cannot restart after an uncommitted "
               "reorg (open known finding, why_prefix `fail restart-init`); notifications delivered in order",
               "ledger validity of the history (every spent coin exists with the recorded undo data, no outpoint created twice) is a premise "
               "of index_eq_recompute; the drivers' histories are validated by the real ConnectBlock",
               "the BIP158 filter of a block is taken from the reference BlockFilter code (GCS construction is C51); the SipHash key prefix "
               "of txindex rows is abstracted by the txid"]
TRUSTED = ["Coq 8.16.1 kernel (coqc; vm_compute on closed 3072-bit facts)",
           "extraction: ExtrOcamlBasic only; ocaml/conv.ml + muhash_driver.ml / index_driver.ml glue (index_driver.ml caches the model state "
           "reached after the fixture's common transcript prefix: a cache of a pure function)",
           "tie/drivers/muhash_drv.cpp calls the real MuHash3072; tie/drivers/index_drv.cpp drives the real indexes through the public "
           "BaseIndex API on a TestChain100Setup and records blocks, undo data and validation notifications for the model",
           "props/C21.py IndexTie: passes the recorded transcript to the model driver and runs drivers in parallel"]

NPROC_MODEL = 4
B = 1 << 3072
P = B - 1103717


def _chunks(cases, n):
    n = max(1, min(n, len(cases)))
    out = [[] for _ in range(n)]
    for i, c in enumerate(cases):
        out[i % n].append((i, c))
    return out


def _parallel(fn, cases, n):
    """fn(list of cases) -> list of outputs; runs n chunks concurrently, keeps the order."""
    res = [None] * len(cases)
    errs = []

    def work(chunk):
        try:
            outs = fn([c for _, c in chunk])
            for (i, _), o in zip(chunk, outs):
                res[i] = o
        except Exception as e:  # re-raised in the caller's thread
            errs.append(e)
    ths = [threading.Thread(target=work, args=(ch,)) for ch in _chunks(cases, n) if ch]
    for t in ths:
        t.start()
    for t in ths:
        t.join()
    if errs:
        raise errs[0]
    return res


class ParTie(Tie):
    """The extracted model computes 3072-bit arithmetic on Coq's binary positives (0.1 s per product, 0.5 s per
    inverse): run several model processes side by side."""
    def run_model(self, mdl, cases):
        return _parallel(lambda cs: Tie.run_model(self, mdl, cs), cases, NPROC_MODEL)


class Obs(str):
    """An observation line; a from-scratch MuHash marked `~` is one the model does not predict (cost): it is compared
    modulo the mark, and judged by `holds` (index == from-scratch) on the implementation's own output."""
    def _n(self):
        return re.sub(r"~[0-9a-f]{64}", "~", str.__str__(self))

    def __eq__(self, o):
        return self._n() == (o._n() if isinstance(o, Obs) else str(o))

    def __ne__(self, o):
        return not self.__eq__(o)

    def __hash__(self):
        return hash(self._n())


class IndexTie(Tie):
    def __init__(self, *a, **k):
        Tie.__init__(self, *a, **k)
        self._tr = {}

    def run_impl(self, cpp, cases):
        raw = _parallel(lambda cs: Tie.run_impl(self, cpp, cs), cases, 3)
        outs = []
        for c, o in zip(cases, raw):
            if " ||" in o and not o.startswith(("CRASH", "EXC")):
                obs, tr = o.split(" ||", 1)
                self._tr[c] = tr.strip()
                outs.append(Obs(obs.strip()))
            else:
                self._tr[c] = ""
                outs.append(Obs(o))
        return outs

    def run_model(self, mdl, cases):
        lines = [c + " || " + self._tr.get(c, "") for c in cases]
        return [Obs(o) for o in _parallel(lambda cs: Tie.run_model(self, mdl, cs), lines, NPROC_MODEL)]


# ------------------------------------------------------------------------------------------------ muhash cases
def _hex(b):
    return b.hex() if b else "-"


def _data(rng):
    r = rng.random()
    if r < 0.1:
        return b""
    if r < 0.3:
        return bytes([rng.randrange(256)])
    if r < 0.6:   # a TxOutSer-like record
        return rng.randbytes(32) + rng.randrange(4).to_bytes(4, "little") + (2 * rng.randrange(1, 200000) + rng.randrange(2)).to_bytes(4, "little") + \
            rng.randrange(0, 50 * 10 ** 8).to_bytes(8, "little") + bytes([35]) + rng.randbytes(35)
    return rng.randbytes(rng.choice([2, 31, 32, 33, 55, 56, 63, 64, 65, 100, 200]))


def _num(rng):
    return rng.choice([0, 1, 2, P - 1, P, P + 1, B - 1, B - 2, P - 2, 1103717, 1103716, (1 << 3071), rng.randrange(B), rng.randrange(B),
                       rng.randrange(1 << 64), P + rng.randrange(1103717)])


def _ser(n, d):
    return (n.to_bytes(384, "little") + d.to_bytes(384, "little")).hex()


def gen_muhash(rng, tier):
    cases = []
    n = 10 if tier == "quick" else 150
    # aimed classes first
    for _ in range(n):          # the same set in two orders
        xs = [_data(rng) for _ in range(rng.choice([2, 3, 4, 6]))]
        ys = xs[:]
        rng.shuffle(ys)
        cases.append("mh " + " ".join("i0:" + _hex(x) for x in xs) + " " + " ".join("i1:" + _hex(y) for y in ys) + " f0 f1")
    for _ in range(n):          # interleaved insert/remove against the net multiset
        xs = [_data(rng) for _ in range(rng.choice([2, 3, 4]))]
        ops = [("i", x) for x in xs]
        rem = [x for x in xs if rng.random() < 0.5]
        ops += [("r", x) for x in rem]
        rng.shuffle(ops)
        net = list(xs)
        for x in rem:
            net.remove(x)
        cases.append("mh " + " ".join("%s0:%s" % (k, _hex(x)) for k, x in ops) + " " + " ".join("i1:" + _hex(x) for x in net) + " f0 f1 s0")
    for _ in range(n):          # remove before insert, and an element removed that was never inserted
        x, y = _data(rng), _data(rng)
        cases.append("mh r0:%s i0:%s i0:%s f0 i1:%s f1 r2:%s f2 s2" % (_hex(x), _hex(y), _hex(x), _hex(y), _hex(x)))
    for _ in range(n):          # *= union, /= difference
        a = [_data(rng) for _ in range(rng.choice([1, 2, 3]))]
        b = [_data(rng) for _ in range(rng.choice([1, 2]))]
        cases.append("mh " + " ".join("i0:" + _hex(x) for x in a) + " " + " ".join("i1:" + _hex(x) for x in b) + " m01 f0 " +
                     " ".join("i2:" + _hex(x) for x in a + b) + " f2 d21 f2 " + " ".join("i3:" + _hex(x) for x in a) + " f3 s0")
    for _ in range(2 * n):      # running states installed by Unserialize at the boundaries of the modulus
        nu, de = _num(rng), _num(rng)
        x = _data(rng)
        tail = rng.choice(["f0", "i0:%s f0" % _hex(x), "r0:%s f0 s0" % _hex(x), "i0:%s s0 f0 s0" % _hex(x), "u1:%s m01 s0 f0" % _ser(_num(rng), _num(rng)),
                           "u1:%s d01 s0 f0" % _ser(_num(rng), _num(rng)), "s0 f0 f0 s0"])
        cases.append("mh u0:%s %s" % (_ser(nu, de), tail))
    for _ in range(n):          # constructor, clear, finalize twice, serialize round trip
        x, y = _data(rng), _data(rng)
        cases.append("mh n0:%s i1:%s f0 f1 c0 f0 n2:%s i2:%s s2 f2 f2 s2" % (_hex(x), _hex(x), _hex(x), _hex(y)))
    cases.append("mh f0 s0")
    cases.append("mh u0:00 f0 i5:00 f0")
    return cases


# ------------------------------------------------------------------------------------------------ index cases
def _txspec(rng):
    nin = rng.choice([1, 1, 1, 2, 3])
    nout = rng.choice([1, 2, 2, 3, 5])
    opret = rng.choice([0, 0, 0, 1, 1000, 123456])
    fee = rng.choice([0, 0, 1, 500, 100000])
    return "%d,%d,%d,%d,0" % (nin, nout, opret, fee)


def _block(rng):
    k = rng.choice([1, 1, 2, 3])
    specs = [_txspec(rng) for _ in range(k)]
    if rng.random() < 0.5:   # an output created and spent in the same block
        specs.append("1,%d,%d,%d,1" % (rng.choice([1, 2]), rng.choice([0, 7]), rng.choice([0, 9])))
    burn = rng.choice([0, 0, 0, 1, 1234567])
    return "blk:%d:%s" % (burn, "/".join(specs))


def _history(rng, nops, allow_restart):
    """ops after the indexes are running; a flush always precedes a stop when something was connected since the last flush"""
    ops = []
    dirty = False
    down = False
    for _ in range(nops):
        r = rng.random()
        if r < 0.35:
            ops.append(_block(rng)); dirty = True
        elif r < 0.45:
            ops.append("mine:%d" % rng.choice([1, 2])); dirty = True
        elif r < 0.65:
            d = rng.choice([1, 1, 2, 3])
            ops.append("inval:%d" % d)
            if rng.random() < 0.3:
                ops.append("chk")
            if rng.random() < 0.75:     # a longer fork, with different contents
                for _k in range(d + rng.choice([0, 1])):
                    ops.append(_block(rng) if rng.random() < 0.6 else "mine:1")
            if rng.random() < 0.5:
                ops.append("recon")
            dirty = True
        elif r < 0.75:
            ops.append("flush"); dirty = False
        elif r < 0.85 and allow_restart and not down:
            # always commit before the index object goes away: a start may have synced blocks whose commit was skipped
            # (Commit requires the index tip to be an ancestor of the last flushed block), see RESTART_CASES
            ops.append("flush"); dirty = False
            ops.append("stop"); down = True
        else:
            ops.append("chk" if rng.random() < 0.7 else "chk:%d" % rng.choice([1, 2, 5, 50]))
        if down and rng.random() < 0.5:
            ops.append("start:ctf"); down = False
            ops.append("chk")
    if down:
        ops.append("start:ctf")
    return ops


RESTART_CASES = [
    # index restart after a reorg >= 2 deep that was not committed (unclean shutdown).  CoinStatsIndex: RevertBlock falls back to the
    # hash index; since /repo commit b3a3ee2 it reads the bare DBVal and the index follows the active chain (before: FatalErrorf,
    # finding C21-revert-fallback, repaired; a regression is a `fail fatal` VIOLATION)
    "ix start:c mine:2 flush inval:2 mine:3 stop start:c chk",
    # the same after a clean stop: reorg while the index is down, restart (the index syncs across the reorg but its commit is
    # skipped because the chainstate was not flushed since), second restart
    "ix start:c flush stop inval:2 mine:3 start:c chk stop start:c chk",
    # OPEN finding (known_findings.json, why_prefix "fail restart-init"): BlockFilterIndex::CustomInit reads the height index only
    # (ReadFilterHeader) and refuses to start in the same history
    "ix start:f mine:2 flush inval:2 mine:3 stop start:f chk",
]


def gen_index(rng, tier):
    cases = []
    n = 1 if tier == "quick" else 12
    # aimed first: reorg of blocks that spend and create coins (CustomRemove / RevertBlock), filter chaining, unclaimed amounts
    cases.append("ix start:ctf %s chk %s chk inval:2 chk %s mine:2 chk recon chk:1 chkh" % (_block(rng), _block(rng), _block(rng)))
    for _ in range(2 * n):
        cases.append("ix start:ctf " + " ".join(_history(rng, rng.choice([5, 7]), False)) + " chk")
    for _ in range(2 * n):      # restarts: committed state reloaded, reorg while the index is down
        cases.append("ix start:ctf " + " ".join(_history(rng, 4, False)) + " flush stop " + " ".join(_history(rng, 4, False)) + " start:ctf chk " +
                     " ".join(_history(rng, 3, True)) + " chk")
    for _ in range(n):          # indexes started late: initial sync over a chain with history, then live
        cases.append("ix " + " ".join(o for o in _history(rng, 5, False) if not o.startswith("chk")) + " start:ctf chk " +
                     " ".join(_history(rng, 3, False)) + " chk")
    for _ in range(n):          # one index at a time
        w = rng.choice(["c", "t", "f", "cf"])
        cases.append("ix start:%s %s inval:1 mine:2 chk flush stop mine:1 start:%s chk" % (w, _block(rng), w))
    return RESTART_CASES + cases


TIES = [ParTie("muhash_fn", "tie/drivers/muhash_drv.cpp", "Extract_MuHash.v", "muhash_driver.ml", gen_muhash, predicate="functional"),
        IndexTie("index_sim", "tie/drivers/index_drv.cpp", "Extract_Index.v", "index_driver.ml", gen_index, predicate="driver", timeout=3000)]

LEVEL_TEXT = ("Coq theorems about executable transcriptions of MuHash3072 (Z arithmetic modulo 2^3072-1103717: Multiply is the modular product "
              "with canonical result for all 3072-bit operands, Divide the modular quotient, order independence as equality of states, remove "
              "cancels insert, the multiset quotient for arbitrary insert/remove interleavings, *= / /= as union / difference, representation "
              "independence, serialization round trip) and of CoinStatsIndex: for ALL histories of CustomAppend / CustomRemove that follow a "
              "block tree (induction over the history; a reorg is disconnects then connects) no step fails, the members equal a replay of the "
              "current chain from genesis, CustomRemove undoes CustomAppend exactly, and LookUpStats of every block of the chain agrees with "
              "ComputeUTXOStats(MUHASH) from scratch over the chain's UTXO set (digest via the MuHash multiset theorem, output count, bogo size, "
              "amount, with the C++ wraps modelled). BaseIndex (Init/Sync/Rewind/BlockConnected/ChainStateFlushed/Commit), TxIndex and "
              "BlockFilterIndex are executable models tied by differential execution (BlockFilterIndex also has the header-chain theorem over "
              "all append/remove histories). Index restart after an uncommitted reorg two or more blocks deep: vm_compute witnesses show the "
              "coin statistics index recovering on the current code and aborting before /repo commit b3a3ee2 (old-code definition "
              "cs_remove_prefix_b3a3ee2), and the block filter index refusing to start (_refuted theorem, open known finding); the three "
              "histories are replayed on the real classes on every run. Models run against the real classes on generated cases; the index model is fed the blocks, undo data and "
              "notifications recorded from a real regtest node.")
LEVEL_NOTE = ("Trusted: Coq kernel, extraction + driver glue, the SHA256/ChaCha20 models of the crypto family. Not proved (full statement kept as a "
              "comment in Properties_C21.v): index_follows_active_chain for the generic BaseIndex model with restarts and sync steps, and the "
              "txindex / blockfilter header-chain consequences; these are covered by the correspondence only (histories with restarts, reorg "
              "while the index is down, late start). Not modelled: Num3072 limb arithmetic and the safegcd limbs (the model computes the canonical "
              "residue in Z; boundary values are exercised through Unserialize), thread hand-off between validation, scheduler and sync "
              "threads, interruption of Sync in the middle, the 30 s periodic commit inside Sync, filter flat files, SipHash prefixes of txindex "
              "keys, TxoSpenderIndex. IsBIP30Unspendable is transcribed but cannot be exercised on regtest. The model describes the code at /repo "
              "commit b3a3ee2 (RevertBlock reads the hash-index fallback entry as a bare DBVal); the theorem half about the failing restart is "
              "about the PRE-FIX code and names its definition cs_remove_prefix_b3a3ee2. The positive statement for coinstats with restarts is "
              "a witness on one history, not a theorem over all histories.")
TECHNIQUE = "Coq proof (modular arithmetic, permutation/multiset reasoning, induction over histories, vm_compute witnesses) + differential correspondence on a real regtest node"
