from vlib.runner import Tie
from vlib import core

ID = "C30"
LEVEL = "proof"
DESIGN_REF = "DESIGN.md section 5, C30"
PROP_FILES = ["props/Properties_C30.v"]
RULE = ("cases: mul <a> <b> (MulFallback pair + Mul), div <hi> <lo> <d> <down> (DivFallback + Div on the same 96-bit numerator, "
        "only numerators whose rounded quotient fits int64, as the functions require), eval <fee> <size> <at> <down> "
        "(EvaluateFee, Div(Mul()), DivFallback(MulFallback())), cmp <f1> <s1> <f2> <s2> (all ByRatio operators, ByRatioNegSize <=> and ==, "
        "MulFallback pairs <=>), chunks (CompareChunks on two chunk lists with positive sizes and prefix fee sums within +-2^62), "
        "getfee <fee> <size> <at> (CFeeRate(fee,size).GetFee(at), GetFeePerK). Operands are drawn from the limb/sign boundaries "
        "(0, +-1, +-2^31, +-(2^32-1), +-2^32, +-2^33 (the EvaluateFee fast-path bound), INT64_MIN/MAX, INT32_MIN/MAX) crossed with each "
        "other, plus seeded random values of every bit width, near-equal cross products (difference below one size unit) and "
        "equal feerates with different sizes. A case is non-trivial when an exact product in it is negative or needs more than 64 "
        "bits, or (chunks) both lists are non-empty; distinct = distinct case lines.")
ASSUMPTIONS = ["the Gallina functions in coq/model/Fee.v are hand transcriptions of the C++ (quoted there); tied by differential "
               "execution of the extracted model against the real functions on the listed cases",
               "C++20 semantics for the integer operations used: >> on negative int64_t is an arithmetic shift, << on int64_t is "
               "multiplication modulo 2^64, narrowing conversions are modular; signed +,-,* overflow is undefined and each theorem "
               "shows it does not happen under the function's documented precondition",
               "CompareChunks theorem precondition: chunk sizes > 0, prefix size sums <= INT32_MAX, prefix fee sums within "
               "[-2^62, 2^62) (the header only asks that the sums do not overflow; see LEVEL_NOTE)"]
TRUSTED = ["Coq 8.16.1 kernel (coqc; lia/nia/lra certificates checked by the kernel; no native_compute)",
           "extraction: ExtrOcamlBasic only; ocaml/conv.ml + fee_driver.ml glue (zarith only to parse/print text)",
           "tie/drivers/fee_drv.cpp calls FeeFrac::MulFallback/Mul/DivFallback/Div/EvaluateFeeDown/Up, ByRatio, ByRatioNegSize, "
           "CompareChunks, CFeeRate::GetFee/GetFeePerK and prints the results (its __int128 printer is 8 lines)"]

I64MIN, I64MAX = -(1 << 63), (1 << 63) - 1
I32MIN, I32MAX = -(1 << 31), (1 << 31) - 1


def fits64(x):
    return I64MIN <= x <= I64MAX


def clip64(x):
    return max(I64MIN, min(I64MAX, x))


def clip32(x):
    return max(I32MIN, min(I32MAX, x))


def S64():
    base = [0, 1, 2, 3, 1 << 16, (1 << 31) - 1, 1 << 31, (1 << 31) + 1, (1 << 32) - 1, 1 << 32, (1 << 32) + 1,
            (1 << 33) - 1, 1 << 33, (1 << 33) + 1, (1 << 34), (1 << 37) - 1, 0x1ffffffff00000001, (1 << 62), (1 << 62) + (1 << 32) - 1,
            I64MAX - 1, I64MAX, 0x7fffffff00000000, 0x7fffffffffffffff ^ 0xffffffff, 0x00000001ffffffff, 0x0000000180000000,
            2100000000000000, 100000000, 1000]
    out = set()
    for v in base:
        for s in (v, -v):
            if fits64(s):
                out.add(s)
    out.add(I64MIN)
    out.add(I64MIN + 1)
    return sorted(out)


def S32():
    base = [0, 1, 2, 3, 1000, 1 << 15, 1 << 16, (1 << 16) + 1, 1 << 30, I32MAX - 1, I32MAX, 4000000, 101000]
    out = set()
    for v in base:
        out.add(v)
        out.add(-v)
    out.add(I32MIN)
    return sorted(out)


def rand64(rng):
    bits = rng.choice([1, 8, 16, 31, 32, 33, 34, 40, 48, 52, 62, 63, 64])
    v = rng.getrandbits(bits)
    if rng.random() < 0.25:
        v |= 0xffffffff  # all-ones low limb: maximises the carry out of the low partial product
    if rng.random() < 0.15:
        v &= ~0xffffffff
    if rng.random() < 0.5:
        v = -v
    return clip64(v)


def rand32(rng, positive=False):
    bits = rng.choice([1, 4, 8, 10, 16, 20, 24, 30, 31])
    v = rng.getrandbits(bits)
    if rng.random() < 0.2:
        v = I32MAX - rng.randrange(0, 4)
    if not positive and rng.random() < 0.4:
        v = -v - (1 if rng.random() < 0.1 else 0)
    v = clip32(v)
    if positive and v <= 0:
        v = 1
    return v


def floor_div(n, d):
    return n // d


def ceil_div(n, d):
    return -((-n) // d)


def gen_mul(rng, n):
    out = []
    for a in S64():
        for b in S32():
            out.append("mul %d %d" % (a, b))
    for _ in range(n):
        out.append("mul %d %d" % (rand64(rng), rand32(rng)))
    return out


def gen_div(rng, n):
    out = set()

    def add(num, d):
        hi, lo = num >> 32, num & 0xffffffff
        if not fits64(hi):
            return
        for down in (1, 0):
            q = floor_div(num, d) if down else ceil_div(num, d)
            if fits64(q):
                out.add("div %d %d %d %d" % (hi, lo, d, down))

    ds = [1, 2, 3, 7, 1000, 65535, 65536, 65537, (1 << 30), I32MAX - 1, I32MAX]
    qs = [0, 1, -1, 2, -2, (1 << 31) - 1, (1 << 31), (1 << 32) - 1, 1 << 32, (1 << 32) + 1, -(1 << 32), -(1 << 32) - 1, -(1 << 32) + 1,
          (1 << 62), I64MAX, I64MAX - 1, I64MIN, I64MIN + 1, -(1 << 31), 0x7fffffff00000000, -0x7fffffff00000000, -0x8000000000000000 + (1 << 32)]
    for d in ds:
        for q in qs:
            for rem in {0, 1, d - 1, d // 2}:
                add(q * d + rem, d)
                add(q * d - rem, d)
    for _ in range(n):
        d = rand32(rng, positive=True)
        q = rand64(rng)
        r = rng.choice([0, 1, d - 1, rng.randrange(0, d)])
        add(q * d + r, d)
        add(q * d - r, d)
        # small numerators around zero with large divisors (mod_low sign cases)
        add(rng.randrange(-(1 << 34), 1 << 34), d)
    return sorted(out)


def gen_eval(rng, n):
    out = set()

    def add(fee, size, at):
        if size <= 0 or at < 0 or at > I32MAX or size > I32MAX or not fits64(fee):
            return
        for down in (1, 0):
            q = floor_div(fee * at, size) if down else ceil_div(fee * at, size)
            if fits64(q):
                out.add("eval %d %d %d %d" % (fee, size, at, down))

    fees = [0, 1, -1, 2, -2, 3, 999, 1000, (1 << 32) - 1, 1 << 32, (1 << 33) - 2, (1 << 33) - 1, 1 << 33, (1 << 33) + 1, (1 << 33) + 2,
            (1 << 34), (1 << 36) + 12345, (1 << 37) - 1, 1 << 40, -(1 << 33), -(1 << 33) + 1, -(1 << 33) - 1, 2100000000000000, -2100000000000000,
            I64MAX, I64MIN, I64MAX - 1, I64MIN + 1, 1 << 62, -(1 << 62)]
    sizes = [1, 2, 3, 7, 1000, 100000, 4000000, (1 << 30), I32MAX - 1, I32MAX]
    for fee in fees:
        for size in sizes:
            for at in {0, 1, 2, size - 1, size, size + 1, size // 2, 1000, I32MAX, I32MAX - 1}:
                add(fee, size, at)
    for _ in range(n):
        r = rng.random()
        if r < 0.35:
            fee = (1 << 33) + rng.randrange(-3, (1 << 31))     # just above the fast-path bound: products wrap uint64 if mis-routed
        elif r < 0.5:
            fee = rng.randrange(0, 1 << 33)
        else:
            fee = rand64(rng)
        size = rand32(rng, positive=True)
        at = rng.choice([rng.randrange(0, size + 1), rand32(rng, positive=True), I32MAX - rng.randrange(0, 3)])
        add(fee, size, at)
        add(fee, I32MAX - rng.randrange(0, 1000), I32MAX - rng.randrange(0, 1000))
    return sorted(out)


def gen_cmp(rng, n):
    out = []
    fs = [0, 1, -1, 2, 3, (1 << 32) - 1, 1 << 32, (1 << 32) + 1, -(1 << 32), 1 << 33, (1 << 62), I64MAX, I64MIN, I64MAX - 1, I64MIN + 1, 0x7fffffff00000000]
    ss = [0, 1, 2, 3, 65536, I32MAX, I32MAX - 1, -1, I32MIN]
    for f1 in fs:
        for s1 in ss:
            for f2 in (0, 1, -1, I64MAX, I64MIN, (1 << 32) - 1, 1 << 32):
                for s2 in (0, 1, 2, I32MAX, I32MIN):
                    out.append("cmp %d %d %d %d" % (f1, s1, f2, s2))
    for _ in range(n):
        r = rng.random()
        s1 = rand32(rng, positive=rng.random() < 0.85)
        s2 = rand32(rng, positive=rng.random() < 0.85)
        f1 = rand64(rng)
        if r < 0.3 and s1 != 0:
            # near-equal cross products: f2*s1 within a few units of f1*s2
            f2 = clip64((f1 * s2) // s1 + rng.randrange(-2, 3))
        elif r < 0.5:
            # equal feerates, different sizes (tie-break by size)
            k1, k2 = rng.randrange(1, 1 << 10), rng.randrange(1, 1 << 10)
            bf, bs = rng.randrange(-(1 << 40), 1 << 40), rng.randrange(1, 1 << 20)
            f1, s1, f2, s2 = bf * k1, bs * k1, bf * k2, bs * k2
        elif r < 0.55:
            f2, s2 = f1, s1
        elif r < 0.6:
            f1, s1 = 0, 0
            f2 = rand64(rng)
        else:
            f2 = rand64(rng)
        out.append("cmp %d %d %d %d" % (f1, s1, f2, s2))
    return out


def fmt_chunks(c0, c1):
    return "chunks %d %s %d %s" % (len(c0), " ".join("%d %d" % p for p in c0), len(c1), " ".join("%d %d" % p for p in c1))


def chunks_ok(c):
    f = s = 0
    for (cf, cs) in c:
        if cs <= 0:
            return False
        f += cf
        s += cs
        if not (-(1 << 62) <= f < (1 << 62)) or s > I32MAX:
            return False
    return True


def split_points(rng, pts, extra):
    """chunk list through the given cumulative points plus `extra` points on the same segments (same diagram)"""
    allp = [(0, 0)] + pts
    res = list(pts)
    for _ in range(extra):
        i = rng.randrange(0, len(allp) - 1)
        (s0, f0), (s1, f1) = allp[i], allp[i + 1]
        ds, df = s1 - s0, f1 - f0
        from math import gcd
        g = gcd(ds, abs(df)) if df else ds
        if g > 1:
            k = rng.randrange(1, g)
            res.append((s0 + ds // g * k, f0 + df // g * k))
    res = sorted(set(res))
    out, ps, pf = [], 0, 0
    for (s, f) in res:
        out.append((f - pf, s - ps))
        ps, pf = s, f
    return out


def gen_chunks(rng, n):
    out = [fmt_chunks([], []), fmt_chunks([(1, 1)], []), fmt_chunks([], [(1, 1)]), fmt_chunks([(0, 1)], []),
           fmt_chunks([(-1, 1)], []), fmt_chunks([], [(-1, 1)]), fmt_chunks([(1, 1)], [(1, 1)]),
           fmt_chunks([(2, 2)], [(1, 1), (1, 1)]), fmt_chunks([(1, 1), (1, 1)], [(2, 2)]),
           fmt_chunks([(3, 1), (1, 3)], [(2, 2), (2, 2)]), fmt_chunks([(2, 2), (2, 2)], [(3, 1), (1, 3)]),
           fmt_chunks([(5, 1), (0, 5)], [(1, 2), (9, 2)]), fmt_chunks([(4, 2)], [(1, 1), (3, 1)]),
           fmt_chunks([(4, 2)], [(3, 1), (1, 1)]), fmt_chunks([(4, 2), (-1, 1)], [(4, 2)]), fmt_chunks([(4, 2)], [(4, 2), (-1, 1)]),
           fmt_chunks([(4, 2), (0, 1)], [(4, 2)]), fmt_chunks([(1, I32MAX)], [(1, I32MAX - 1), (0, 1)]),
           fmt_chunks([((1 << 62) - 1, 1)], [(-(1 << 62), 1)]), fmt_chunks([(-(1 << 62), I32MAX)], [((1 << 62) - 1, I32MAX)])]
    for _ in range(n):
        mode = rng.random()
        big = rng.random() < 0.25
        smax = (1 << 27) if big else rng.choice([2, 4, 16, 1000])
        fmax = (1 << 58) if big else rng.choice([3, 10, 1000, 1 << 34])
        neg = rng.random() < 0.4

        def rc():
            f = rng.randrange(-fmax if neg else 0, fmax + 1)
            return (f, rng.randrange(1, smax + 1))
        n0, n1 = rng.randrange(0, 8), rng.randrange(0, 8)
        c0 = [rc() for _ in range(n0)]
        if mode < 0.25 and c0:
            # same diagram, different subdivision (must compare equivalent), possibly perturbed by one unit
            pts, s, f = [], 0, 0
            for (cf, cs) in c0:
                s += cs; f += cf; pts.append((s, f))
            c1 = split_points(rng, pts, rng.randrange(0, 4))
            c0 = split_points(rng, pts, rng.randrange(0, 4))
            if rng.random() < 0.6 and c1:
                i = rng.randrange(0, len(c1))
                c1[i] = (c1[i][0] + rng.choice([-1, 1]), c1[i][1])
                if rng.random() < 0.5 and i + 1 < len(c1):
                    c1[i + 1] = (c1[i + 1][0] - rng.choice([-1, 1]), c1[i + 1][1])
        elif mode < 0.45 and c0:
            # same sizes, fees perturbed
            c1 = [(f + rng.choice([0, 0, 1, -1]), s) for (f, s) in c0]
        elif mode < 0.6:
            # sorted by decreasing feerate (what real chunkings look like)
            c1 = [rc() for _ in range(n1)]
            c0.sort(key=lambda p: -p[0] / p[1])
            c1.sort(key=lambda p: -p[0] / p[1])
        else:
            c1 = [rc() for _ in range(n1)]
        if rng.random() < 0.5:
            c0, c1 = c1, c0
        if chunks_ok(c0) and chunks_ok(c1):
            out.append(fmt_chunks(c0, c1))
    return out


def gen_getfee(rng, n):
    out = set()

    def add(fee, size, at):
        if not fits64(fee) or not (I32MIN <= size <= I32MAX) or not (0 <= at <= I32MAX):
            return
        if size > 0:
            if not fits64(ceil_div(fee * at, size)) or not fits64(floor_div(fee * 1000, size)):
                return
        out.add("getfee %d %d %d" % (fee, size, at))

    for fee in [0, 1, -1, 2, -2, 999, 1000, 1001, -999, -1000, -1001, 100, 3000, (1 << 33) - 1, 1 << 33, (1 << 33) + 1, 2100000000000000,
                -2100000000000000, 9223372036854775, -9223372036854775]:
        for size in [1, 2, 3, 999, 1000, 1001, 4000000, I32MAX, 0, -1, I32MIN]:
            for at in {0, 1, 2, 999, 1000, 1001, abs(size), abs(size) - 1 if size else 0, abs(size) + 1, I32MAX}:
                add(fee, size, at)
    for _ in range(n):
        fee = rng.choice([rng.randrange(-2000, 2000), rand64(rng) // 1024, rng.randrange(0, 1 << 34)])
        size = rng.choice([1000, rand32(rng, positive=True), rand32(rng)])
        at = rng.choice([rng.randrange(0, 3000), rand32(rng, positive=True), 0])
        add(fee, size, at)
    return sorted(out)


def gen(rng, tier):
    k = 1 if tier == "quick" else 25
    cases = []
    cases += gen_mul(rng, 1500 * k)
    cases += gen_div(rng, 1200 * k)
    cases += gen_eval(rng, 1500 * k)
    cases += gen_cmp(rng, 2500 * k)
    cases += gen_chunks(rng, 2500 * k)
    cases += gen_getfee(rng, 800 * k)
    return cases


def nontrivial(c):
    w = c.split()
    try:
        if w[0] == "mul":
            p = int(w[1]) * int(w[2]); return p < 0 or p >= (1 << 64)
        if w[0] == "div":
            return int(w[1]) not in (0, -1)
        if w[0] == "eval":
            p = int(w[1]) * int(w[3]); return p < 0 or p >= (1 << 64)
        if w[0] == "cmp":
            p = int(w[1]) * int(w[4]); q = int(w[3]) * int(w[2]); return p < 0 or q < 0 or abs(p) >= (1 << 64) or abs(q) >= (1 << 64)
        if w[0] == "chunks":
            n0 = int(w[1]); return n0 > 0 and int(w[2 + 2 * n0]) > 0
        if w[0] == "getfee":
            return int(w[1]) != 0 and int(w[2]) > 0 and int(w[3]) > 0
    except Exception:
        pass
    return True


TIES = [Tie("feefrac_fn", "tie/drivers/fee_drv.cpp", "Extract_Fee.v", "fee_driver.ml", gen,
            predicate="driver", nontrivial=nontrivial)]

LEVEL_TEXT = ("Coq theorems over ALL int64 fees and int32 sizes: MulFallback's (int64,uint32) pair denotes a*b exactly and pair order = "
              "integer order; Mul is exact; DivFallback and Div equal floor resp. ceil of the exact quotient whenever that fits int64 "
              "(d>0), hence the portable path equals the __int128 path; EvaluateFee (fast path and slow path) is the exactly rounded "
              "fee*at_size/size incl. negative fees; every ByRatio operator is the comparison of the exact rationals fee/size; "
              "ByRatioNegSize is a total order (feerate, then larger size first, empty last) consistent with ==; CompareChunks equals the "
              "pointwise comparison of the two piecewise-linear diagrams over all rational abscissae; GetFee = ceil (with the -1 rule). "
              "No intermediate signed overflow under the stated preconditions (explicit wraps proved to be identities). Model tied to the "
              "real functions by differential execution.")
LEVEL_NOTE = ("Trusted: Coq kernel; extraction (ExtrOcamlBasic) and the OCaml/C++ driver glue. The model is a hand transcription checked by "
              "correspondence, not by a semantics of C++. CompareChunks: the header's stated precondition (fee sums < 2^63) is not enough to "
              "exclude signed overflow in P - A when the two diagrams have prefix fee sums of opposite sign near 2^62..2^63; the theorem "
              "assumes prefix fee sums within [-2^62, 2^62).")
TECHNIQUE = "Coq proof (lia/nia on limb decompositions, lra on rational diagrams) + differential correspondence"
