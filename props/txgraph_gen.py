"""Case generator for C25 (TxGraph). Keeps a small python replica of the interface-level model
(coq/model/TxGraph.v) ONLY to aim the scripts at interesting states (cluster limits +-1, merges,
removals in the middle of chains, staging); the verdicts never come from this file."""


class Level:
    def __init__(self):
        self.txs = {}        # id -> [fee, size]
        self.A = set()       # applied ancestry (closed), pairs (anc, desc)
        self.P = []          # pending dependencies
        self.H = set()       # closure over everything ever requested (never shrunk)

    def copy(self):
        l = Level()
        l.txs = {k: list(v) for k, v in self.txs.items()}
        l.A = set(self.A); l.P = list(self.P); l.H = set(self.H)
        return l


def add_closed(R, p, c):
    an = [p] + [a for (a, d) in R if d == p]
    de = [c] + [d for (a, d) in R if a == c]
    for a in an:
        for d in de:
            R.add((a, d))


class Model:
    def __init__(self, maxcount, maxsize):
        self.maxcount, self.maxsize = maxcount, maxsize
        self.main = Level()
        self.stag = None
        self.sticky = False
        self.used = set()

    def top(self):
        return self.stag if self.stag is not None else self.main

    def would(self, lv):
        W = set(lv.A)
        for (p, c) in lv.P:
            add_closed(W, p, c)
        return W

    def clusters(self, lv, W=None):
        W = self.would(lv) if W is None else W
        cls = {i: {i} for i in lv.txs}
        for (a, d) in W:
            if cls[a] is not cls[d]:
                u = cls[a] | cls[d]
                for x in u:
                    cls[x] = u
        out = []
        seen = set()
        for i in sorted(lv.txs):
            if i not in seen:
                out.append(sorted(cls[i])); seen |= cls[i]
        return out

    def over(self, lv, c):
        return len(c) > self.maxcount or sum(lv.txs[i][1] for i in c) > self.maxsize

    def oversized_calc(self, lv):
        return any(self.over(lv, c) for c in self.clusters(lv))

    def oversized(self, is_main):
        if is_main:
            if self.stag is not None:
                return self.sticky
            return self.oversized_calc(self.main)
        return self.oversized_calc(self.stag)

    def normalize(self, is_main):
        lv = self.main if is_main else self.stag
        if lv is None or self.oversized(is_main):
            return
        lv.A = self.would(lv)
        lv.P = []

    @staticmethod
    def rm_level(lv, i):
        if i in lv.txs:
            del lv.txs[i]
            lv.A = {(a, d) for (a, d) in lv.A if a != i and d != i}
            lv.P = [(a, d) for (a, d) in lv.P if a != i and d != i]

    def op(self, o):
        w = o.split()
        k = w[0]
        t = self.top()
        if k == "add":
            i, fee, size = int(w[1]), int(w[2]), int(w[3])
            if i in self.used or size <= 0:
                return
            self.used.add(i)
            t.txs[i] = [fee, size]
        elif k == "rm":
            self.rm_level(t, int(w[1]))
        elif k == "dep":
            p, c = int(w[1]), int(w[2])
            if p == c or (c, p) in t.H:
                return
            if p in t.txs and c in t.txs:
                t.P.append((p, c))
                add_closed(t.H, p, c)
        elif k == "fee":
            i = int(w[1])
            for lv in (self.main, self.stag):
                if lv is not None and i in lv.txs:
                    lv.txs[i][0] = int(w[2])
        elif k == "destroy":
            i = int(w[1])
            for lv in (self.main, self.stag):
                if lv is not None:
                    self.rm_level(lv, i)
        elif k == "start":
            if self.stag is None:
                self.normalize(True)
                self.sticky = self.oversized_calc(self.main)
                self.stag = self.main.copy()
        elif k == "commit":
            if self.stag is not None:
                self.main = self.stag; self.stag = None; self.sticky = False
        elif k == "abort":
            if self.stag is not None:
                self.stag = None; self.sticky = False
        elif k in ("q", "work"):
            # DoWork begins with ApplyDependencies(top level); main below a staging level has nothing
            # pending unless it is (sticky) oversized, so normalising both is the same thing
            self.normalize(True)
            if self.stag is not None:
                self.normalize(False)
        # trim: no prediction here

    def trim_ref(self):
        """A valid Trim outcome (used only to keep the generator's replica going): from every
        oversized would-be cluster drop members from the end of a topological order until it fits."""
        t = self.top()
        W = self.would(t)
        removed = []
        for c in self.clusters(t, W):
            if not self.over(t, c):
                continue
            order = sorted(c, key=lambda x: (len([1 for (a, d) in W if d == x]), x))
            keep = []
            for x in order:
                anc = [a for (a, d) in W if d == x]
                if all(a in keep for a in anc):
                    # would-be component of keep+x
                    comp = {x}
                    grow = True
                    while grow:
                        grow = False
                        for y in keep:
                            if y not in comp and any(((y, z) in W or (z, y) in W) for z in comp):
                                comp.add(y); grow = True
                    if len(comp) <= self.maxcount and sum(t.txs[i][1] for i in comp) <= self.maxsize:
                        keep.append(x)
            removed += [x for x in c if x not in keep]
        for x in removed:
            self.rm_level(t, x)
        return removed


def gen_case(rng, style, nops):
    maxcount = rng.choice([2, 3, 3, 4, 4, 5, 6])
    U = rng.choice([6, 8, 10, 12])
    base = rng.choice([10, 25, 100])
    # size limit aimed so that either the count or the size limit binds first
    maxsize = rng.choice([base * maxcount - 1, base * maxcount, base * maxcount + 1, base * (maxcount - 1) + 1,
                          base * maxcount * 3, base - 1, 4194303 * 64])
    cost = rng.choice([0, 1, 20, 1000, 100000])
    m = Model(maxcount, maxsize)
    ops = []
    next_id = 0

    def emit(o):
        ops.append(o)
        if o.split()[0] != "trim":
            m.op(o)

    def q():
        subsets = []
        for _ in range(rng.choice([0, 1, 2, 3])):
            k = rng.choice([0, 1, 2, 2, 3, 5, U])
            subsets.append(".".join(str(x) for x in rng.sample(range(U), min(k, U))) or "-")
        skip = rng.choice([0, 0, 1, 2, 5, 6, 0xAAAA, 0xFFFF])
        emit("q %d %s" % (skip, " ".join(subsets)) if subsets else "q %d" % skip)

    def size_pick():
        r = rng.random()
        if r < 0.5:
            return base
        if r < 0.7:
            return rng.choice([1, base - 1, base + 1])
        if r < 0.8:
            return rng.choice([maxsize, maxsize + 1, max(1, maxsize - 1)]) if maxsize < 100000 else base
        return rng.randrange(1, 2 * base + 1)

    def fee_pick():
        r = rng.random()
        if r < 0.6:
            return rng.randrange(0, 200)
        if r < 0.75:
            return rng.choice([0, base, 2 * base, 3 * base])       # equal feerates
        if r < 0.9:
            return rng.randrange(-50, 50)
        return rng.choice([-(1 << 51), (1 << 51) - 1, 1 << 40])

    qprob = {"batch": 0.25, "eager": 0.9, "eqfee": 0.8}.get(style, 0.6)
    for step in range(nops):
        t = m.top()
        live = sorted(t.txs)
        r = rng.random()
        if r < 0.26 and next_id < U:
            sz = size_pick()
            # "eqfee": (almost) every transaction has the same feerate, so every transaction is its own
            # chunk and the order inside a cluster rests on the equal-feerate tie-breaks
            fee = 2 * sz if (style == "eqfee" and rng.random() < 0.85) else fee_pick()
            emit("add %d %d %d" % (next_id, fee, sz))
            # often attach it right away (chains, diamonds)
            if live and rng.random() < 0.7:
                for p in rng.sample(live, min(len(live), rng.choice([1, 1, 1, 2, 3]))):
                    emit("dep %d %d" % (p, next_id))
            next_id += 1
        elif r < 0.48 and len(live) >= 2:
            W = m.would(t)
            cls = m.clusters(t, W)
            if len(cls) >= 2 and rng.random() < 0.6:
                # late dependency merging two clusters, preferably to the limit +-1
                c1, c2 = rng.sample(cls, 2)
                p, c = rng.choice(c1), rng.choice(c2)
            else:
                p, c = rng.sample(live, 2)
            if rng.random() < 0.1:
                p, c = c, p
            emit("dep %d %d" % (p, c))
        elif r < 0.60 and live:
            W = m.would(t)
            mids = [x for x in live if any(d == x for (a, d) in W) and any(a == x for (a, d) in W)]
            sel = rng.random()
            if mids and sel < 0.45:
                x = rng.choice(mids)             # middle of a chain: ancestry through the removed tx
                emit("rm %d" % x)
            elif sel < 0.75:
                # realistic: a transaction together with all its descendants (or all its ancestors)
                x = rng.choice(live)
                down = rng.random() < 0.5
                grp = [x] + [(d if down else a) for (a, d) in W if (a if down else d) == x]
                rng.shuffle(grp)
                for y in grp:
                    emit("rm %d" % y)
            else:
                emit("rm %d" % rng.choice(list(range(U))))
        elif r < 0.66 and live:
            emit("fee %d %d" % (rng.choice(live + [rng.randrange(U)]), fee_pick()))
        elif r < 0.70:
            cand = sorted(set(m.main.txs) | (set(m.stag.txs) if m.stag else set()))
            if cand and rng.random() < 0.8:
                emit("destroy %d" % rng.choice(cand))
            else:
                emit("destroy %d" % rng.randrange(U))
        elif r < 0.78:
            if m.stag is None:
                emit("start")
            else:
                emit(rng.choice(["commit", "abort"]))
        elif r < 0.86:
            emit("trim")
            # the replica continues with a valid outcome of its own only when nothing was oversized;
            # otherwise it is resynchronised below by ending the aimed phase
            if m.oversized_calc(m.top()):
                m.trim_ref()
                # after a real Trim the replica may differ from the real graph: that only makes the
                # remaining ops less aimed, never wrong (both drivers guard preconditions themselves)
        elif r < 0.90:
            emit("work %d" % rng.choice([0, 1, 50, 1000, 1000000]))
        else:
            emit(rng.choice(["start", "commit", "abort", "trim"]))
        if rng.random() < qprob:
            q()
    q()
    return "%d %d %d %d | %s" % (maxcount, maxsize, cost, U, " ; ".join(ops))


def gen(rng, tier):
    n = 700 if tier == "quick" else 20000
    cases = []
    for i in range(n):
        style = rng.choice(["eager", "mixed", "mixed", "batch", "eqfee"])
        cases.append(gen_case(rng, style, rng.choice([6, 10, 16, 24, 36, 50])))
    return cases


def shrink(case):
    head, ops = case.split(" | ", 1)
    ops = ops.split(" ; ")
    n = len(ops)

    def mk(o):
        o = list(o)
        if not o or not o[-1].startswith("q"):
            o.append("q 0")
        return head + " | " + " ; ".join(o)
    if n > 4:
        yield mk(ops[: n // 2])
        yield mk(ops[: (3 * n) // 4])
        for k in (8, 4, 2):
            if n > 2 * k:
                for s in range(0, n, k):
                    yield mk(ops[:s] + ops[s + k:])
    for i in range(n - 1, -1, -1):
        if n > 1:
            yield mk(ops[:i] + ops[i + 1:])
    # simplify the remaining queries
    for i in range(n):
        if ops[i].startswith("q") and ops[i] != "q 0":
            yield mk(ops[:i] + ["q 0"] + ops[i + 1:])
