from vlib.runner import Tie
from vlib import core
from props import mempool_gen as G

ID = "C22"
LEVEL = "proof"
DESIGN_REF = "DESIGN.md section 5, C22 (and the chainsim driver at the start of section 5)"
PROP_FILES = ["props/Properties_C22.v"]
RULE = ("cases: operation scripts run against a fresh regtest node (TestChain100Setup) with real transactions and blocks: "
        "(lockpoints) BIP68-locked children (nSequence 1..3 height type; 512-second time type with blocks 600 s apart) of outputs confirmed in "
        "the tip block or one below, then a competing branch of depth 1-2 (fork) that removes the funding block and ends one block higher, "
        "optionally re-confirming the funding transaction in its first or second block; "
        "(maturity) a coinbase spent at depth 99/100/101 with a child and a mixed coinbase/unconfirmed spender, then invalidateblock of one or "
        "two tips, an overtaking fork, or mine-then-disconnect; (resurrect) parents confirmed in a block (one of them non-standard) whose "
        "children stay in the pool, then invalidate / reconsider / forks that re-confirm a parent, confirm a conflict, or are empty; "
        "(conflict) replacements with sufficient and insufficient fees, a replacement spending a descendant of what it replaces, conflicts "
        "confirmed in blocks while the victim has unconfirmed descendants; (locks) nLockTime at height and median-time-past -1/0/+1, BIP68 height "
        "and time locks 0/1/2 on confirmed and unconfirmed parents, then a disconnect / a slow block; (chain) chains and trees of depth up to "
        "6, TrimToSize at several limits, clock jumps with Expire at age -1/0/+1, prioritisation; (random) random walks over all operations "
        "with missing inputs, bad witnesses, zero fees, v1/v3 transactions, -maxmempool=5, -mempoolexpiry=1; (package) ProcessNewPackage of a "
        "child with its unconfirmed parents: a low-fee parent paid for by the child, two parents, a parent already in the pool, a package "
        "replacing pool entries, refused packages (not child-with-parents, conflict in package, missing input), followed by a block or a "
        "disconnect. After every operation: the "
        "dump of mapTx / mapNextTx / totals / TxGraph ancestors / input status in CoinsTip, CTxMemPool::check, a fresh CalculateLockPointsAtTip + CheckSequenceLocksAtTip per entry, "
        "TestBlockValidity of the whole pool (any verdict but ok is a predicate failure entry-not-valid-for-next-block). Non-trivial = at least one submission; distinct = distinct scripts.")
ASSUMPTIONS = ["txids identify transactions among those in play (hash premise U_inj of the theorems); nLockTime is a uint32 (U_wf)",
               "policy is not decided by the model: fee / standardness / RBF economics / TRUC / cluster limits enter as an arbitrary stage at "
               "which the implementation said no, TrimToSize's choice of victims as an arbitrary set (the model removes its descendant closure); "
               "the theorems hold for every such answer",
               "the parent/child graph is derived from the spends index; TxGraph's copy is compared with it on every dump (holds: graph-links) "
               "but is not a component of the model state",
               "package submission is replayed as the sequence of single acceptances of the transactions the implementation added (in its "
               "order), with LimitMempoolSize once at the end; which members of a package enter is the implementation's answer",
               "amounts (C01) and script execution (C12) are not modelled: script validity is a bit of the model transaction; sequence locks "
               "(BIP68): the cached LockPoints are transcribed (incl. maxInputBlock = highest confirmed input block, the tip block included) and proved "
               "valid for the active chain and satisfied in the next block; that they agree with a FRESH evaluation is checked on every "
               "implementation dump (clause 9 of check_dump, premise fresh_bip68_ok of C22_dump_predicate) but not proved",
               "block validity is ConnectBlock's business: the model's block_ok keeps the structural checks the mempool argument needs "
               "(fresh txids, inputs created earlier, nTime above the parent's median time past, height in int range)",
               "the totals clause of the dump predicate assumes the sums are in the range of uint64 / int64 (totals_in_range)"]
TRUSTED = ["Coq 8.16.1 kernel (coqc; vm_compute in the example)",
           "tie/dump_params.cpp (+ tie/params/mempool.h) prints MEMPOOL_HEIGHT, STANDARD_LOCKTIME_VERIFY_FLAGS, COINBASE_MATURITY, the default expiry",
           "extraction: ExtrOcamlBasic only; ocaml/conv.ml + mempool_driver.ml glue (script parsing, names <-> ids, the block tree walk that "
           "turns old tip -> new tip into disconnect/connect steps, attribution of removals to reasons)",
           "tie/drivers/mempool_drv.cpp: real ProcessTransaction / ProcessNewBlock / InvalidateBlock / TrimToSize / Expire; reads mapTx, mapNextTx, "
           "totals, m_txgraph through `#define private public`; CTxMemPool::check is run with check_ratio forced to 1 and an assert is "
           "caught with a SIGABRT handler"]

TIES = [G.MempoolTie("mempool_scripts", "tie/drivers/mempool_drv.cpp", "Extract_Mempool.v", "mempool_driver.ml", G.gen_c22, mode="C22",
                     predicate="driver", nontrivial=G.nontrivial, classify=G.classify, shrink=G.shrink, timeout=3000)]

LEVEL_TEXT = ("Coq theorems over ALL operation histories of an executable transcription of the mempool's mechanisms (addNewTransaction, "
              "removeUnchecked, removeRecursive, removeConflicts, removeForBlock, removeForReorg with the filter_final_and_mature lambda, Expire, "
              "TrimToSize, the structural part of MemPoolAccept incl. replacement and the spends-conflicting test, DisconnectTip/ConnectTip's "
              "mempool parts with the DisconnectedBlockTransactions queue, MaybeUpdateMempoolForReorg): the invariant (distinct txids, no "
              "outpoint spent twice, mapNextTx = exactly the inputs, every input unspent in the chain or created by an entry, totals, every "
              "entry final and every coinbase spend mature for the next block) holds after every history and no assert of the modelled code "
              "fires; removal is descendant-closed and a replacement never orphans the replacing transaction; the dump predicate used on the "
              "implementation is proved sound and is passed by every model state. Tied to the real node by scripts aimed at the maturity, "
              "lock-time, conflict and resurrection boundaries, with the node's own check() and TestBlockValidity of the whole pool as extra oracles.")
LEVEL_NOTE = ("Trusted: Coq kernel, dump_params.cpp, extraction + driver glue. Named residue: policy decisions and eviction victims are taken "
              "from the implementation (quantified over in the theorems); TxGraph's dependency copy, BIP68 lock points and script validity "
              "are covered by the correspondence / the node's oracles only; the 20 MB overflow of the disconnect queue is not "
              "modelled; package validation itself (C29) is taken from the implementation.")
TECHNIQUE = "Coq proof (inductive invariant over all histories, graph closure with proved sufficient fuel, verified checker) + differential correspondence"
