from vlib.runner import Tie, InfraError
from vlib import core

ID = "C20"
LEVEL = "proof"
DESIGN_REF = "DESIGN.md section 5, C20"
PROP_FILES = ["props/Properties_C20.v"]
RULE = ("cases: 'act <flags> <mutations>' on the genuine regtest snapshot at height 110 written by the real CreateUTXOSnapshot: every "
        "single-field mutation class of a coin (value +-1 / out of money range, height +-1 / above the base height, coinbase bit, script "
        "byte incl. the compression type byte, vout index, txid byte), dropped / duplicated / regrouped / reordered coins with and without "
        "the metadata count kept in sync, metadata count +-1, magic / version / network magic / base block hash (zero, one, another block of "
        "the chain, unknown), truncation at metadata, group and coin boundaries, appended bytes, random byte flips; node conditions: mempool "
        "not empty, a snapshot already active, active tip equal to / ahead of the base block, base block marked failed, best header not "
        "containing the base. The extracted model decodes the mutated file itself (SHA256d and secp256k1 decompression in Coq) and predicts "
        "the result class with its counters, and on success the base block and the UTXO hash of the new chainstate; after every rejection "
        "the implementation's chainstates, active tip, snapshot directory and the UTXO hash of the existing chainstate must be unchanged. "
        "'bg <scenario> <tamper>': after a genuine activation the real MaybeValidateSnapshot is called on the fully validated chainstate "
        "(at the base block; already completed; one block short) whose coin set is left intact or tampered (coin added, removed, value, "
        "height, coinbase bit); the model hashes the validated set read back from the coins DB and predicts SUCCESS / HASH_MISMATCH / SKIPPED. "
        "non-trivial = a mutation or a flag is present; distinct = distinct case lines")
ASSUMPTIONS = ["the UTXO hash function is a Section variable; `accepted => loaded set = committed set` is proved for byte streams (bytes < 256) under its injectivity on the two "
               "serialized sets (SHA256d collision resistance)",
               "the block index facts consulted by the decision (base block known, height, failed flag, ancestor of the best header, work "
               "comparison with the active tip) are inputs of the model; the tie reads them from the real node",
               "the per-coin decoder is model/Compress.v's unser_coin (tied to the real Coin::Unserialize by C18's correspondence and again here)",
               "interrupts (m_interrupt) and the periodic cache flush inside the load loop are not modelled"]
TRUSTED = ["Coq 8.16.1 kernel (coqc)", "extraction: ExtrOcamlBasic only; ocaml/conv.ml + snapshot_driver.ml glue",
           "tie/drivers/snapshot_drv.cpp builds the mutated files with the real serializers, calls the real SnapshotMetadata::Unserialize and "
           "ChainstateManager::ActivateSnapshot (on-disk snapshot chainstate) the way test/util/chainstate.h does (tip moved back by one block so that "
           "the snapshot has more work), maps error strings to classes and recomputes the UTXO hashes with ComputeUTXOStats",
           "props/C20.py hands the implementation's observations (mutated file bytes, block-index facts, assumeutxo table) to the model run"]

NCOINS = 110


def one_mutation(rng):
    i = rng.randrange(NCOINS)
    r = rng.random()
    if r < 0.10: return "v%d:%d" % (i, rng.choice([1, -1, 2, 100000000]))
    if r < 0.16: return "v%d:%d" % (i, rng.choice([21 * 10 ** 14, -50 * 10 ** 8, -50 * 10 ** 8 - 1, 21 * 10 ** 14 - 50 * 10 ** 8, 21 * 10 ** 14 - 50 * 10 ** 8 + 1]))
    if r < 0.24: return "h%d:%d" % (i, rng.choice([1, -1, 110, 109 - i, 110 - i, 111 - i, 1 << 30]))
    if r < 0.29: return "b%d" % i
    if r < 0.39: return "s%d:%d:%d" % (i, rng.choice([0, 0, 1, 2, 17, 34]), 1 << rng.randrange(8))
    if r < 0.45: return "n%d:%d" % (i, rng.choice([1, 2, 252, 253, 65535, 65536, 33554432]))
    if r < 0.51: return "t%d:%d:%d" % (i, rng.randrange(32), 1 << rng.randrange(8))
    if r < 0.56: return rng.choice(["d%d", "D%d"]) % i
    if r < 0.62: return rng.choice(["u%d", "U%d"]) % i
    if r < 0.70: return "w%d:%d" % (i, rng.randrange(NCOINS))
    if r < 0.74: return "g%d" % i
    if r < 0.80: return "c%d" % rng.choice([1, -1, 2, -110, (1 << 64) - 111])
    if r < 0.83: return "Mm%d:%d" % (rng.randrange(5), 1 << rng.randrange(8))
    if r < 0.86: return "Mv%d" % rng.choice([0, 1, 3, 258, 65535])
    if r < 0.89: return "Mn%d:%d" % (rng.randrange(4), 1 << rng.randrange(8))
    if r < 0.95: return rng.choice(["B0", "B1", "Bh109", "Bh100", "Bh0", "Bh110", "Bx77", "Bt200", "Bt299", "Bt110"])
    return "none"


def byte_mutation(rng):
    r = rng.random()
    META = 51
    if r < 0.25: return "a%d" % rng.choice([0, 1, 4, 5, 6, 7, 10, 11, 42, 43, 50, 51, 52, 83, 84, 85, 86, 88, 89, 120, 121, 122, 123, 124, 2000])
    if r < 0.50: return "e%d" % rng.choice([1, 2, 33, 34, 35, 36, 37, 38, 39, 40, 70, 71, 72, 73])
    if r < 0.65: return "z" + "".join("%02x" % rng.randrange(256) for _ in range(rng.choice([1, 1, 2, 33, 72])))
    if r < 0.8: return "x%d:%d" % (rng.randrange(0, META), 1 << rng.randrange(8))
    return "x%d:%d" % (rng.randrange(META, META + 72 * NCOINS), 1 << rng.randrange(8))


def gen(rng, tier):
    cases = ["act - none", "act m none", "act t none", "act T none", "act f none", "act b none", "act s none",
             "act - Bt200", "act - w0:109", "act - u5", "act - U5", "act - d5", "act - D5", "act - c1", "act - c-1", "act - e1", "act - z00"]
    n = 170 if tier == "quick" else 5000
    for _ in range(n):
        r = rng.random()
        if r < 0.55:
            muts = [one_mutation(rng)]
        elif r < 0.7:
            muts = [one_mutation(rng), one_mutation(rng)]
        elif r < 0.95:
            muts = [byte_mutation(rng)]
            if rng.random() < 0.3:
                muts = [one_mutation(rng)] + muts
        else:
            muts = ["w%d:%d" % (rng.randrange(NCOINS), rng.randrange(NCOINS)) for _k in range(rng.choice([2, 5, 20]))]   # same set, other order
        r = rng.random()
        if r < 0.8: flags = "-"
        else: flags = rng.choice(["m", "t", "T", "f", "b", "s", "mf", "fb", "tb", "mt"])
        cases.append("act %s %s" % (flags, "+".join(muts)))
    # background validation: the real MaybeValidateSnapshot on the (possibly tampered) fully validated chainstate at the base block
    bg = ["bg ready none", "bg again none", "bg behind none", "bg ready add"]
    for _ in range(14 if tier == "quick" else 300):
        i = rng.randrange(NCOINS)
        t = rng.choice(["none", "add", "del%d" % i, "val%d:%d" % (i, rng.choice([1, -1, 5000])), "hgt%d:%d" % (i, rng.choice([1, -1])), "cb%d" % i])
        bg.append("bg %s %s" % (rng.choice(["ready", "ready", "ready", "again", "behind"]), t))
    return cases + bg


class HandoverTie(Tie):
    """The model decides from what the implementation was given: the mutated file bytes and the node facts printed by the
    driver are handed to the model run; compared are `res=<class>[ tip= utxo= ibdstate=] state=`."""
    def run_impl(self, cpp, cases):
        outs = Tie.run_impl(self, cpp, cases)
        if not hasattr(self, "_full"):
            self._full = {}
        res = []
        for c, o in zip(cases, outs):
            self._full[c] = o
            if o.startswith("bgres="):
                o = o.split()[0]
            elif " res=" in o:
                f = dict(w.split("=", 1) for w in o.split() if "=" in w)
                if f["res"] == "ok":
                    o = "res=ok tip=%s utxo=%s ibdstate=%s" % (f.get("tip"), f.get("utxo"), f.get("ibdstate"))
                    if f.get("from") != f.get("tip"):
                        o += " FROM-MISMATCH"
                else:
                    o = "res=%s state=%s" % (f["res"], o[o.index(" state=") + 7:])
            res.append(o)
        return res

    def run_model(self, mdl, cases):
        full = getattr(self, "_full", {})
        lines = [c + " => " + full.get(c, "") for c in cases]
        rc, out, err = core.run_lines(mdl, ["model"], lines, self.timeout)
        if len(out) != len(cases):
            raise InfraError("model driver returned %d lines for %d cases (rc=%s)\nstderr: %s" % (len(out), len(cases), rc, err[-2000:]))
        return out


TIES = [HandoverTie("activate_snapshot", "tie/drivers/snapshot_drv.cpp", "Extract_Snapshot.v", "snapshot_driver.ml", gen,
                    predicate="functional", nontrivial=lambda c: c != "act - none",
                    classify=lambda c: c.split()[0] + ":" + c.split()[1][0] + ":" + c.split()[2][0])]

LEVEL_TEXT = ("Coq theorems over an executable transcription of the snapshot activation decision (metadata parsing, the ActivateSnapshot "
              "precondition chain, the coin loading loop of PopulateAndValidateSnapshot with its count, height, money-range, truncation and "
              "left-over checks, first-wins insertion, the (txid, n)-ordered UTXO hash and its comparison with the chainparams commitment, both "
              "work comparisons; MaybeValidateSnapshot): activation succeeds only if the base block is in the assumeutxo table, known, not "
              "failed, an ancestor of the best header, with more work than the active tip, mempool empty, no snapshot active, the file holds "
              "exactly the announced number of coin records and nothing else, every coin is at or below the base height and in money range, "
              "and the hash of the loaded set equals the commitment (hence, under hash injectivity, the loaded set IS the committed set); "
              "every rejection leaves the node state unchanged; background validation succeeds iff the validated set hashes to the commitment. "
              "Model tied to the real ActivateSnapshot on mutations of the genuine regtest snapshot.")
LEVEL_NOTE = ("Trusted: Coq kernel, extraction + driver glue. The block-index facts are inputs of the model (read from the node by the driver). "
              "A snapshot that repeats a coin record (count adjusted) loads the same set and is accepted: the theorems speak about coin records "
              "and the resulting set, as the code does. MaybeValidateSnapshot is driven right after a genuine activation (the validated chainstate stands at the base block, as in the "
              "unit tests), with the validated coin set tampered in place; a real background sync is not run.")
TECHNIQUE = "Coq proof (case analysis over the decision, induction over the coin stream, injectivity of the canonical set serialization) + differential correspondence"
