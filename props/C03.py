from vlib.runner import Tie
from vlib import core

ID = "C03"
LEVEL = "proof"
DESIGN_REF = "DESIGN.md section 5, C03"
PROP_FILES = ["props/Properties_C03.v"]
RULE = ("cases: transaction shapes (inputs: outpoint hash/index/scriptSig length; outputs: value/script length; witness items) "
        "hitting each clause boundary (MAX_MONEY-1/0/+1, -1, INT64 extremes, coinbase scriptSig 1/2/100/101 bytes, non-witness size "
        "999999/1000000/1000001 bytes, duplicate outpoint at every pair of positions, null prevout at every position) and all pairs of "
        "simultaneous violations; non-trivial = at least one input and one output; distinct = distinct case lines")
ASSUMPTIONS = ["transactions are CTransaction values (sizes >= 0, values int64, indices uint32): premise wf_tx of the theorems",
               "the non-witness serialized size is modelled arithmetically (nowit_size) and compared with GetSerializeSize on every case"]
TRUSTED = ["Coq 8.16.1 kernel (coqc; vm_compute for the generated-constant lemmas)",
           "tie/dump_params.cpp prints MAX_MONEY, MAX_BLOCK_WEIGHT, WITNESS_SCALE_FACTOR from the compiled tree",
           "extraction: ExtrOcamlBasic only; ocaml/conv.ml + txcheck_driver.ml glue",
           "tie/drivers/txcheck_drv.cpp builds the CTransaction it is told to and prints CheckTransaction's verdict and reason"]
MAXM = 2100000000000000
I64 = 9223372036854775807


def fmt(vin, vout, wit=0):
    return "checktx %d %s %d %s %d" % (len(vin), " ".join("%d %d %d" % i for i in vin), len(vout), " ".join("%d %d" % o for o in vout), wit)


def base_size(vin, vout):
    def cs(n): return 1 if n < 253 else 3 if n <= 0xffff else 5 if n <= 0xffffffff else 9
    return 4 + cs(len(vin)) + sum(36 + cs(l) + l + 4 for (_, _, l) in vin) + cs(len(vout)) + sum(8 + cs(l) + l for (_, l) in vout) + 4


def pad_to(vin, vout, target):
    """lengthen the first scriptSig so that the no-witness size is exactly target (if possible)"""
    vin = list(vin)
    h, n, l = vin[0]
    for extra in range(0, 12):
        cand = target - (base_size(vin, vout) - l) - extra
        if cand < 0:
            continue
        vin[0] = (h, n, cand)
        if base_size(vin, vout) == target:
            return vin
    vin[0] = (h, n, max(0, target - base_size([(h, n, 0)] + vin[1:], vout) - 5))
    return vin


def gen(rng, tier):
    cases = []
    N = 0xffffffff
    vals = [-1, 0, 1, 546, MAXM - 1, MAXM, MAXM + 1, MAXM // 2, MAXM // 2 + 1, I64, -I64 - 1, I64 - MAXM, 2 ** 62]
    ok_in = [(5, 0, 107)]
    ok_out = [(1000, 25)]
    cases.append(fmt([], ok_out)); cases.append(fmt(ok_in, [])); cases.append(fmt([], []))
    # every value alone and every pair of values
    for v in vals:
        cases.append(fmt(ok_in, [(v, 25)]))
        for v2 in vals:
            cases.append(fmt(ok_in, [(v, 25), (v2, 0)]))
    # three outputs around the total boundary
    for a in (MAXM - 2, MAXM - 1, MAXM):
        for b in (0, 1, 2):
            cases.append(fmt(ok_in, [(a // 2, 1), (a - a // 2, 1), (b, 1)]))
    # coinbase scriptSig lengths
    for l in (0, 1, 2, 3, 99, 100, 101, 252, 253):
        cases.append(fmt([(0, N, l)], ok_out))
        cases.append(fmt([(0, N, l)], ok_out, 1))
        cases.append(fmt([(0, N - 1, l)], ok_out))      # not null: index differs
        cases.append(fmt([(1, N, l)], ok_out))          # not null: hash differs
    # null prevout / duplicates at every position for up to 5 inputs
    for k in range(2, 6):
        base = [(7, i, 10) for i in range(k)]
        for i in range(k):
            v = list(base); v[i] = (0, N, 10); cases.append(fmt(v, ok_out))
            for j in range(i + 1, k):
                v = list(base); v[j] = v[i]; cases.append(fmt(v, ok_out))
                v = list(base); v[j] = (v[i][0], v[i][1], 55); cases.append(fmt(v, ok_out))   # same outpoint, other script
                v = list(base); v[i] = (0, N, 10); v[j] = (0, N, 10); cases.append(fmt(v, ok_out))  # two nulls: duplicate first
    # size boundary (size*4 vs 4,000,000), also with witness data that must not count
    for target in (999999, 1000000, 1000001):
        v = pad_to(ok_in, ok_out, target)
        cases.append(fmt(v, ok_out)); cases.append(fmt(v, ok_out, 3))
        cases.append(fmt(v, [(-1, 25)])); cases.append(fmt(pad_to([(0, N, 0)], ok_out, target), ok_out))
        cases.append(fmt(pad_to([(7, 1, 0), (7, 1, 0)], ok_out, target), ok_out))
    # pairs of simultaneous violations to fix the order
    viol_in = {"dup": [(7, 1, 10), (7, 1, 10)], "null": [(7, 1, 10), (0, N, 10)], "cb": [(0, N, 1)], "ok": ok_in}
    viol_out = {"neg": [(-5, 1)], "big": [(MAXM + 1, 1)], "tot": [(MAXM, 1), (1, 1)], "ok": ok_out, "negbig": [(MAXM + 1, 1), (-1, 1)], "totneg": [(MAXM, 1), (1, 1), (-1, 1)]}
    for a in viol_in.values():
        for b in viol_out.values():
            cases.append(fmt(a, b))
            cases.append(fmt(pad_to(a, b, 1000001), b))
    # many individually valid outputs whose int64 running total would wrap if it were not range-checked per output
    for k, last in ((8784, 344073709552616), (8784, 344073709551616), (4392, MAXM), (4393, 1)):
        cases.append(fmt(ok_in, [(MAXM, 0)] * k + [(last, 0)]))
    # random structured
    nrand = 1500 if tier == "quick" else 60000
    for _ in range(nrand):
        nin = rng.choice([1, 1, 2, 3, 5, 8]); nout = rng.choice([1, 2, 3, 6])
        vin = []
        for i in range(nin):
            r = rng.random()
            if r < 0.1: vin.append((0, N, rng.choice([0, 1, 2, 50, 100, 101])))
            elif r < 0.25 and vin: vin.append(rng.choice(vin))
            elif r < 0.3: vin.append((0, rng.choice([0, N - 1]), 5))
            else: vin.append((rng.randrange(1, 4), rng.randrange(0, 3), rng.choice([0, 1, 72, 107, 252, 253, 254])))
        vout = []
        for i in range(nout):
            r = rng.random()
            if r < 0.6: vout.append((rng.randrange(0, MAXM // nout + 2), rng.choice([0, 22, 25, 34, 253])))
            else: vout.append((rng.choice(vals), 25))
        cases.append(fmt(vin, vout, rng.choice([0, 0, 2])))
    return cases


TIES = [Tie("checktx_fn", "tie/drivers/txcheck_drv.cpp", "Extract_TxCheck.v", "txcheck_driver.ml", gen,
            predicate="driver", nontrivial=lambda c: not c.startswith("checktx 0 ") and " 0  " not in c)]

LEVEL_TEXT = ("Coq theorems over all representable transactions: CheckTransaction's model accepts iff the stated conjunction holds "
              "(NoDup outpoints, value and total ranges, size*4 <= 4,000,000, coinbase/null-prevout rule), its reject reason equals the "
              "declarative first-violated-rule function, and the int64 output accumulator cannot overflow. Model tied to the real "
              "CheckTransaction (verdict, reason and GetSerializeSize) by differential execution at every clause boundary and every pair "
              "of simultaneous violations.")
LEVEL_NOTE = ("Trusted: Coq kernel, dump_params.cpp, extraction + driver glue. The model is a hand transcription (outpoints as number pairs, "
              "scripts by length only); uint256 equality is modelled as number equality. The first-violated-rule order among the three "
              "output rules is per output in sequence, as in the code.")
TECHNIQUE = "Coq proof (model = declarative spec, iff) + differential correspondence"
