from vlib.runner import Tie
from vlib import core
import os
from props import C41 as W

ID = "C56"
LEVEL = "translation_validation"
DESIGN_REF = "DESIGN.md section 5, C56"
PROP_FILES = ["props/Properties_C56.v"]


def findings_enabled(which):
    """Both recorded findings (known_findings.json, matched by the runner on the predicate's why-prefix) are always generated:
      bump-underpays-after-change-dropped   explicit feerate, the replacement drops the change output and misses BIP125 rule 4
      bump-underpays-with-smaller-outputs   `outputs` option with fewer/smaller outputs and an estimated feerate: the replacement
                                            can pay less than the original fee (BIP125 rule 3)
    Their replay cases are in corpus/C56/fee_bump.findings.case (run first)."""
    return True


RULE = ("cases: bump S <setup> R <request> B <bump options>: on the C41 scenarios (real descriptor wallet on a real regtest node) "
        "the request's transaction is created and committed (it is in the node's mempool), optionally made unbumpable (mined, "
        "given a descendant in the mempool, spent again by the wallet, already bumped), then the real "
        "feebumper::CreateRateBumpTransaction runs with: no feerate (EstimateFeeRate), explicit feerates at old rate + "
        "incremental -1/0/+1 and far above / below, above -maxtxfee; original_change_index in and out of range; replaced "
        "outputs (kept, changed amounts, added, change-only); both options together (refused); require_mine off; originals with "
        "change, without change (the bump must add a confirmed input), with change at min_viable_change +-1 (the bump drops it), "
        "with several recipients incl. own addresses, with subtract-fee recipients, spending unconfirmed wallet coins. Reported: "
        "original and replacement (inputs with coin values, outputs with scripts, IsMine, OutputIsChange), old/new fee, sizes, "
        "the facts PreconditionChecks consults, a digest of the wallet before/after, the signed replacement's mempool "
        "test-accept verdict against the original in the mempool, and for `commit=1` the real SignTransaction + CommitTransaction "
        "(new in mempool, old evicted, original marked replaced). Judged by the extracted Coq checker valid_bump; refusals are "
        "compared with the Gallina transcription of the option checks / PreconditionChecks / CheckFeeRate. non-trivial = "
        "every case; distinct = distinct case lines.")
ASSUMPTIONS = W.ASSUMPTIONS + [
    "the replacement is created by wallet::CreateTransaction: C41's checker is reused on it with the request "
    "CreateRateBumpTransaction derives (transcribed: recipients / change split, EstimateFeeRate)",
    "'refused without wallet changes' is observed per case (digest of mapWallet states, replaced/replaces links, spent and locked "
    "outputs before and after the call), not proved",
    "'accepted by the mempool as a replacement' is an executed oracle per case (test-accept of the signed replacement while the "
    "original is in the mempool; real commit in the commit=1 cases)"]
TRUSTED = W.TRUSTED[:2] + ["tie/drivers/walletspend_drv.cpp builds the scenario, commits the original, calls "
                           "feebumper::CreateRateBumpTransaction / SignTransaction / CommitTransaction and prints the results"]


def bump_variants(rng, S, req_rate, nouts, own_change_expected):
    v = [""]
    r = req_rate
    for fr in (r + 99, r + 100, r + 101, r + 150, r + 1000, 2 * r, 10 * r + 7, max(1, r - 100), 50):
        v.append("fr=%d" % fr)
    v.append("fr=%d" % (20000000 if "maxfee" not in S.opts else 900000))
    for k in range(0, nouts + 2):
        if rng.random() < 0.7:
            v.append("oci=%d" % k + (" fr=%d" % (r + rng.choice([150, 5000])) if rng.random() < 0.5 else ""))
    # replaced outputs (fewer outputs + estimated feerate is the regime of a recorded finding)
    allk = ",".join("k%d" % i for i in range(nouts))
    hi = " fr=%d" % (3 * r + 3000)
    v.append("out=%s,nb%d" % (allk, rng.choice([294, 293, 5000])))
    v.append("out=%s,nt%d%s" % (allk, rng.choice([330, 329, 7000]), rng.choice(["", hi])))
    v.append("out=k0" + hi)
    v.append("out=k0,k1" + hi)
    v.append("out=k1,k0" + hi)
    v.append("out=k0,nb%d%s" % (rng.choice([294, 293, 5000]), hi))
    v.append("out=k0:%d,k1%s" % (rng.choice([1000, 30000]), hi))
    v.append("out=k1:%d%s" % (rng.choice([600, 20000]), hi))
    v.append("out=nt%d%s" % (rng.choice([330, 40000]), hi))
    v.append("out=k0 oci=0")
    if findings_enabled("bump-underpays-with-smaller-outputs"):
        v.append("out=k0")
        v.append("out=k0,nb5000")
        v.append("out=k1:%d" % rng.choice([600, 20000]))
    v.append("rm=0")
    v.append("rm=0 fr=%d" % (r + 500))
    rng.shuffle(v)
    return v[:rng.randrange(9, 15)]


def originals(rng, S):
    """requests for the transaction that is going to be bumped: (request text, feerate, number of outputs)"""
    out = []
    conf = [(i, c) for i, c in S.confirmed() if not c[4]]
    for _ in range(3):
        rate = rng.choice([1000, 1000, 2000, 3456, 10000])
        if rate < max(S.minfee, 100):
            rate = max(S.minfee, 100)
        kind = rng.choice(["plain", "plain", "multi", "nochange", "tinychange", "sffo", "own"])
        total = sum(c[2] for _, c in conf)
        if kind in ("nochange", "tinychange") and conf:
            k = rng.randrange(1, min(3, len(conf)) + 1)
            sel = rng.sample(conf, k)
            ct = rng.choice("bt")
            eff = sum(c[2] - W.get_fee(rate, W.IN_VSIZE[c[1]]) for _, c in sel)
            nif = W.get_fee(rate, W.noinputs_size(['b']))
            if kind == "nochange":
                amt = eff - nif - rng.choice([0, 1, 30])
                n = 1
            else:
                amt = eff - nif - W.get_fee(rate, W.OUT_SIZE[ct]) - (W.mvc(S.discard, ct) + rng.choice([0, 1, 40, 200]))
                n = 2
            if amt < 1000:
                continue
            out.append(("rb%d fr=%d pre=%s other=0 ct=%s" % (amt, rate, ",".join(str(i) for i, _ in sel), ct), rate, n))
        elif kind == "multi":
            amts = [rng.randrange(2000, max(3000, total // 6)) for _ in range(rng.randrange(2, 4))]
            types = [rng.choice("lsbtm") for _ in amts]
            out.append((" ".join("r%s%d" % (t, a) for t, a in zip(types, amts)) + " fr=%d" % rate, rate, len(amts) + 1))
        elif kind == "sffo":
            a = rng.randrange(5000, max(6000, total // 2))
            out.append(("rb%ds rl%d fr=%d" % (a, rng.randrange(2000, 9000), rate), rate, 3))
        elif kind == "own":
            a = rng.randrange(5000, max(6000, total // 3))
            out.append(("rm%d fr=%d" % (a, rate), rate, 2))
        else:
            a = rng.randrange(3000, max(4000, total // 2))
            opts = " fr=%d" % rate
            if rng.random() < 0.3:
                opts += " unsafe=1"
            out.append(("r%s%d%s" % (rng.choice("lsbt"), a, opts), rate, 2))
    return out


def finding_cases():
    n = 60
    coins = " ".join(["cb10000"] * n)
    pre = ",".join(map(str, range(n)))
    out = []
    for amt, fr in ((595870, 1000), (595871, 1000), (595872, 1001)):
        out.append("bump S %s discard=3000 minfee=100 R rb%d fr=899 pre=%s other=0 ct=b B fr=%d" % (coins, amt, pre, fr))
    return out


def gen(rng, tier):
    cases = []
    if findings_enabled("bump-underpays-after-change-dropped"):
        cases += finding_cases()
    if findings_enabled("bump-underpays-with-smaller-outputs"):
        cases.append("bump S ct100000 cl250000/k discard=3000 R rt14727 rl11095 rb12498 fr=10000 B out=k0,nb5000")
    ngroups = 14 if tier == "quick" else 300
    for k in range(ngroups):
        style = ["plain", "mixed", "plain", "grouped"][k % 4]
        S = W.Setup(rng, style)
        if rng.random() < 0.15:
            S.opts["maxfee"] = rng.choice([3000, 1000000])
        st = S.text()
        for (req, rate, nouts) in originals(rng, S):
            head = "bump S %s R %s B" % (st, req)
            for v in bump_variants(rng, S, rate, nouts, True):
                cases.append((head + " " + v).rstrip())
            # variants that change the wallet / node: each needs its own scenario
            for stt in rng.sample(["state=conf", "state=desc", "state=wdesc", "state=bumped", "fr=%d commit=1" % (rate + 2000),
                                   "commit=1"], 2):
                cases.append(head + " " + stt)
    return cases


def shrink(case):
    w = case.split(" ")
    b = w.index("B")
    for i in range(b + 1, len(w)):
        yield " ".join(w[:i] + w[i + 1:])


TIES = [Tie("fee_bump", "tie/drivers/walletspend_drv.cpp", "Extract_WalletSpend.v", "walletspend_driver.ml", gen,
            mode="C56", predicate="driver", canon=W.Line, shrink=shrink, classify=lambda c: "bump")]

LEVEL_TEXT = ("Coq theorems: soundness of the executable checker valid_bump (what it accepts: the original was bumpable per the "
              "transcribed option checks and PreconditionChecks; every original input is spent by the replacement; reported old "
              "fee = the original's fee; new fee >= old fee + incremental relay fee x the replacement's own size; and the "
              "replacement satisfies C41's statement for the request the code derives - non-change outputs paid unchanged and in "
              "order or the caller's outputs, change to the original change script, added inputs confirmed spendable wallet "
              "coins, fee >= new feerate x size); specifications of the transcribed recipient/change split (with and without "
              "original_change_index), PreconditionChecks (iff), and CheckFeeRate: sufficient for BIP125 rule 4 up to 1 sat when "
              "the replacement is no smaller than the size checked, and a machine-checked witness that it is NOT sufficient when "
              "the change output is dropped. The real feebumper is tied by translation validation on real wallet transactions, "
              "with the node's mempool (test-accept against the original, and real commits) as second oracle.")
LEVEL_NOTE = ("Not proved: anything universal about CreateRateBumpTransaction / CreateTransaction (checked per case); 'refused "
              "without wallet changes' and mempool acceptance are observed per case. FINDING (real code, unchanged tree): with an "
              "explicit feerate CheckFeeRate validates old fee + incremental fee on the size WITH the change output; when the "
              "replacement then drops the change it is smaller, pays old fee + old change, and can fall short of BIP125 rule 4: "
              "CreateRateBumpTransaction returns OK for a transaction the mempool rejects (insufficient fee). That regime is "
              "generated only when the finding is listed in known_findings.json or C56_FINDINGS=1. The property's 'not signalling "
              "where required' refusal no longer exists in the code (no BIP125 signalling check in PreconditionChecks).")
TECHNIQUE = "verified checker (Coq, extracted) run on the real wallet's bump results + mempool replacement as second oracle"
