from vlib.runner import Tie
from vlib import core

ID = "C44"
LEVEL = "translation_validation"
DESIGN_REF = "DESIGN.md section 5, C44"
PROP_FILES = ["props/Properties_C44.v"]
RULE = ("cases: bal <op>*: scenarios run on a real CWallet attached to a real regtest node (TestChain100Setup). ops: "
        "mine:<k>[:w] (coinbase to the wallet), tx:<name>:<inputs>:<m|o amounts>:<p|b> (signed transaction to the mempool or "
        "directly into a block; inputs are earlier outputs, so receives from outside, own spends with change, chains of "
        "unconfirmed spends, spends of untrusted outputs, double spends in a competing block and RBF replacements are all "
        "expressible), pool (mine the mempool), reorg:<d> (invalidate d blocks and mine d+1 others), abandon:<name>. After every op "
        "the wallet's GetBalance (trusted / untrusted pending / immature), AvailableCoins and per-transaction states are compared "
        "with (1) the Gallina transcription evaluated on the reported states, (2) the specification evaluated on the reported "
        "active chain and mempool, (3) the `tracks` predicate (each wallet state equals the true status, nothing relevant missing). "
        "Fixed scenarios cover coinbase maturity at depth 99/100/101/102, conflict then reorg of the conflicting block, "
        "replacement, abandon; the rest are seeded random op sequences. non-trivial = at least 3 ops; distinct = distinct lines.")
ASSUMPTIONS = ["the wallet's event handlers (blockConnected / blockDisconnected / transactionAddedToMempool / "
               "transactionRemovedFromMempool, MarkConflicted, RecursiveUpdateTxState) are NOT modelled: that they keep the wallet's "
               "states equal to the true chain / mempool status is checked after every step of every scenario (`tracks`), not proved",
               "proved instead: whenever `tracks` holds, the transcription of GetBalance equals the balances computed directly from the "
               "active chain and mempool; conflicted transactions contribute nothing; outputs spent only by conflicted or abandoned "
               "transactions count as unspent",
               "wallet transactions that are neither in the chain nor in the mempool, and not conflicted or abandoned, still count as "
               "spending their inputs (HowSpent NONMEMPOOL with include_nonmempool = false): the specification includes them",
               "min_depth 0, avoid_reuse false, m_spend_zero_conf_change true, default coin control"]
TRUSTED = ["Coq 8.16.1 kernel",
           "tie/dump_params.cpp prints COINBASE_MATURITY from the compiled tree",
           "extraction: ExtrOcamlBasic only; ocaml/conv.ml + wallet_bal_driver.ml glue (parsing the snapshot, names <-> ids)",
           "tie/drivers/wallet_bal_drv.cpp builds the node and wallet, runs the scenario with the real validation / mempool / wallet "
           "code and prints what GetBalance, AvailableCoins, mapWallet, the active chain and the mempool report"]

COIN = 100000000
CB = 50 * COIN


class World:
    """python-side bookkeeping used only to generate plausible scenarios (what exists, what is probably unspent)"""
    def __init__(self, rng):
        self.rng = rng
        self.outs = {}        # name -> list of (value, mine)
        self.spent = set()    # refs spent at least once
        self.next_cb = 1
        self.n = 0
        self.ops = []
        self.fee = 10000

    def newname(self):
        self.n += 1
        return "t%d" % self.n

    def split(self, total, kinds):
        rng = self.rng
        self.fee += 7000
        total -= self.fee
        parts = []
        for i, k in enumerate(kinds):
            v = total if i == len(kinds) - 1 else rng.randrange(1000, max(1001, total - 1000 * (len(kinds) - i)))
            total -= v
            parts.append((v, k == "m"))
        return parts

    def add_tx(self, refs, kinds, dest):
        total = 0
        for r in refs:
            if r.startswith("cb") and "." not in r:
                total += CB
            else:
                n, k = r.split(".")
                total += self.outs[n][int(k)][0]
        if total < 20000 + self.fee + 1000 * len(kinds):
            return None
        name = self.newname()
        parts = self.split(total, kinds)
        self.outs[name] = parts
        for r in refs:
            self.spent.add(r)
        self.ops.append("tx:%s:%s:%s:%s" % (name, ",".join(refs), ",".join(("m" if m else "o") + str(v) for (v, m) in parts), dest))
        return name

    def fresh_cb(self):
        k = self.next_cb
        self.next_cb += 1
        return "cb%d" % k

    def all_refs(self, mine=None, unspent=None):
        out = []
        for n, parts in self.outs.items():
            for i, (v, m) in enumerate(parts):
                r = "%s.%d" % (n, i)
                if mine is not None and m != mine:
                    continue
                if unspent is not None and ((r not in self.spent) != unspent):
                    continue
                out.append(r)
        return out


def random_scenario(rng, nops):
    w = World(rng)
    kinds_choices = [["m"], ["m", "o"], ["m", "m"], ["o"], ["m", "o", "m"], ["o", "m"]]
    w.ops.append("mine:%d" % rng.choice([2, 3]))
    w.add_tx([w.fresh_cb()], rng.choice([["m", "o"], ["m", "m", "o"]]), rng.choice(["p", "b"]))
    for _ in range(nops):
        r = rng.random()
        if r < 0.17:
            w.add_tx([w.fresh_cb()], rng.choice(kinds_choices), rng.choice(["p", "p", "b"]))
        elif r < 0.50:
            cand = w.all_refs(unspent=True)
            if cand:
                k = 1 if rng.random() < 0.7 or len(cand) < 2 else 2
                w.add_tx(rng.sample(cand, k), rng.choice(kinds_choices), rng.choice(["p", "p", "p", "b"]))
        elif r < 0.62:
            cand = w.all_refs(unspent=False)
            if cand:
                # spend again: a competing block, or a replacement in the mempool (higher fee)
                w.add_tx([rng.choice(cand)], rng.choice(kinds_choices), rng.choice(["b", "b", "p"]))
        elif r < 0.74:
            w.ops.append("pool")
        elif r < 0.84:
            w.ops.append(rng.choice(["mine:1", "mine:2", "mine:1:w"]))
        elif r < 0.94:
            w.ops.append("reorg:%d" % rng.choice([1, 1, 2, 3]))
        else:
            if w.outs:
                w.ops.append("abandon:%s" % rng.choice(list(w.outs)))
    return "bal " + " ".join(w.ops)


FIXED = [
    # receive from outside: pending in the mempool, trusted once mined; own spend with change is trusted unconfirmed
    "bal tx:a:cb1:m100000000,o4899990000:p pool tx:b:a.0:m30000000,o69980000:p tx:c:b.0:m29970000:p pool",
    # a child of an untrusted (external, unconfirmed) transaction is untrusted too
    "bal tx:a:cb1:m100000000,o4899990000:p tx:b:a.0:m99980000:p pool",
    # double spend confirmed in a competing block: the mempool spend and its child become conflicted, the coin is restored to c's outputs
    "bal tx:a:cb1:m100000000,o4899990000:b tx:b:a.0:m50000000,m49980000:p tx:b2:b.0:m49970000:p tx:c:a.0:m99960000:b mine:1 reorg:2 pool",
    # the same, conflicting transaction paying outside: balance drops to zero, then the conflicting block is reorged away
    "bal tx:a:cb1:m100000000,o4899990000:b tx:b:a.0:m99980000:p tx:c:a.0:o99970000:b reorg:1 mine:1 pool",
    # replacement in the mempool (both signal RBF)
    "bal tx:a:cb1:m100000000,o4899990000:b tx:b:a.0:m99980000:p tx:c:a.0:m40000000,o59900000:p pool abandon:b",
    # reorg returns confirmed transactions to the mempool
    "bal tx:a:cb1:m100000000,o4899990000:b tx:b:a.0:m50000000,m49980000:b reorg:2 pool reorg:1 mine:1",
    # coinbase to the wallet reorged away
    "bal mine:1:w mine:1 reorg:2 mine:1:w reorg:1",
    # two inputs, one from outside, one own
    "bal tx:a:cb1:m100000000,o4899990000:b tx:x:cb2:o300000000,o4699990000:b tx:b:a.0,x.0:m399970000:p pool",
]
# coinbase maturity: depth 99, 100, 101, 102 (slow: ~100 blocks), spent once mature
MATURITY = ["bal mine:1:w mine:98 mine:1 mine:1 mine:1 tx:s:cb101.0:m100000000,m4899980000:p pool"]


def gen(rng, tier):
    cases = list(FIXED)
    cases += MATURITY if tier == "quick" else MATURITY + ["bal mine:2:w mine:99 mine:1 reorg:1 mine:1"]
    for _ in range(45 if tier == "quick" else 1500):
        cases.append(random_scenario(rng, rng.randrange(4, 12)))
    return cases


class Line(str):
    """The model side prints `*`: the scenario is executed by the real node and wallet only, and every snapshot is judged by
    the extracted functions in `holds`.  Work-around for the runner comparing impl and model lines with !=."""
    def __eq__(self, other):
        return str(self) == "*" or str(other) == "*" or str(self) == str(other)
    def __ne__(self, other):
        return not self.__eq__(other)
    __hash__ = str.__hash__


TIES = [Tie("wallet_balance", "tie/drivers/wallet_bal_drv.cpp", "Extract_WalletBal.v", "wallet_bal_driver.ml", gen,
            predicate="driver", canon=Line, nontrivial=lambda c: len(c.split(" ")) >= 4,
            classify=lambda c: "scenario")]

LEVEL_TEXT = ("Coq theorems about the model: whenever the wallet's per-transaction states equal the true status in the active chain and "
              "mempool (`tracks`), the transcription of GetBalance equals the trusted / untrusted-pending / immature balances computed "
              "directly from the chain and mempool; a conflicted transaction contributes nothing; an output spent only by conflicted "
              "or abandoned transactions is unspent. Tied to the code by running scenarios (receives, own spends, unconfirmed chains, "
              "competing-block double spends, replacements, coinbase maturity, reorgs, abandon) on the real node and wallet and judging "
              "every snapshot with the extracted transcription, specification and `tracks`.")
LEVEL_NOTE = ("Not proved: that the wallet's notification handlers maintain `tracks` over histories (state_tracks_chain of the design) - this "
              "is translation validation per step; AvailableCoins is compared per step only (no theorem). avoid_reuse, locked coins, "
              "TRUC filtering and min_depth > 0 are outside the cases.")
TECHNIQUE = "Coq proof of balance = specification under the checked tracking predicate + scenario-based translation validation"
