from vlib.runner import Tie
from vlib import core
import struct

ID = "C48"
LEVEL = "proof"
DESIGN_REF = "DESIGN.md section 5, C48"
PROP_FILES = ["props/Properties_C48.v"]
RULE = ("cases: cs <n> / dcs <range_check> <hex> at 0xfc/0xfd/0xffff/0x10000/0xffffffff/2^32/MAX_SIZE-1..+1/2^64-1, every non-canonical "
        "form and every truncation; tx <allow_witness> <tokens> builds a transaction object (with/without witnesses, empty vin/vout, "
        "empty witness items, extreme integers), serialises and reads it back; dtx <allow_witness> <hex> feeds bytes from an independent "
        "Python serialiser: basic and extended format, flags 0/2/3/0x81, superfluous witness, extended with empty vin, every truncation, "
        "trailing bytes, non-canonical and oversize counts, random byte flips; dblock <allow_witness> <hex> headers + transaction vectors, truncated and with bad counts; hex/dhex, b64/db64, b32/db32, b58/db58, money/dmoney: lengths 0..40, "
        "leading zeros, all 256 characters in each position, padding variants, white space, NUL, max_ret_len boundaries. "
        "A case is non-trivial when its payload is not empty; distinct = distinct case lines.")
ASSUMPTIONS = ["the Gallina models are hand transcriptions of serialize.h, primitives/transaction.h, util/strencodings.{h,cpp}, "
               "crypto/hex_base.cpp, base58.cpp; tied by the correspondence on the listed cases and by the generated constants MAX_SIZE "
               "and the HexDigit table"]
TRUSTED = ["Coq 8.16.1 kernel (coqc; vm_compute used in proofs; no native_compute)",
           "tie/dump_params.cpp + tie/params/ser.h print MAX_SIZE and HexDigit(0..255) from the compiled tree",
           "extraction: ExtrOcamlBasic only; ocaml/conv.ml + ser_driver.ml glue (zarith only to parse/print text)",
           "tie/drivers/ser_drv.cpp calls the real functions through DataStream and prints bytes and decoded values",
           "props/C48.py contains an independent Python serialiser used only to build input bytes"]


def hx(b):
    return bytes(b).hex() if len(b) else "-"


def rb(rng, n):
    return bytes(rng.getrandbits(8) for _ in range(n))


def cs(n):
    if n < 253:
        return bytes([n])
    if n <= 0xffff:
        return b"\xfd" + struct.pack("<H", n)
    if n <= 0xffffffff:
        return b"\xfe" + struct.pack("<I", n)
    return b"\xff" + struct.pack("<Q", n)


def ser_bytes(b):
    return cs(len(b)) + b


class Tx:
    def __init__(self, ver, vin, vout, lock):
        self.ver, self.vin, self.vout, self.lock = ver, vin, vout, lock  # vin: (hash32, n, script, seq, [items]); vout: (value, spk)

    def tokens(self):
        t = [str(self.ver), str(self.lock), str(len(self.vin))]
        for (h, n, sc, sq, wit) in self.vin:
            t += [hx(h), str(n), hx(sc), str(sq), str(len(wit))] + [hx(i) for i in wit]
        t.append(str(len(self.vout)))
        for (v, spk) in self.vout:
            t += [str(v), hx(spk)]
        return " ".join(t)

    def ser(self, witness, flags=None, force_ext=False):
        """independent serialiser; flags/force_ext let the generator build illegal encodings"""
        has_wit = any(len(i[4]) for i in self.vin)
        ext = force_ext or (witness and has_wit)
        out = struct.pack("<I", self.ver)
        if ext:
            out += b"\x00" + bytes([1 if flags is None else flags])
        out += cs(len(self.vin))
        for (h, n, sc, sq, wit) in self.vin:
            out += h + struct.pack("<I", n) + ser_bytes(sc) + struct.pack("<I", sq)
        out += cs(len(self.vout))
        for (v, spk) in self.vout:
            out += struct.pack("<q", v) + ser_bytes(spk)
        if ext and ((1 if flags is None else flags) & 1):
            for (h, n, sc, sq, wit) in self.vin:
                out += cs(len(wit))
                for it in wit:
                    out += ser_bytes(it)
        out += struct.pack("<I", self.lock)
        return out


def rand_tx(rng, nin=None, nout=None, wit=None):
    nin = rng.randrange(0, 4) if nin is None else nin
    nout = rng.randrange(0, 4) if nout is None else nout
    wit = (rng.random() < 0.5) if wit is None else wit
    vin = []
    for _ in range(nin):
        items = []
        if wit and rng.random() < 0.8:
            items = [rb(rng, rng.choice([0, 0, 1, 2, 33, 72, 80])) for _ in range(rng.randrange(0, 4))]
        vin.append((rb(rng, 32), rng.choice([0, 1, 0xffffffff, rng.getrandbits(32)]), rb(rng, rng.choice([0, 1, 5, 107, 252, 253, 300])),
                    rng.choice([0, 0xffffffff, 0xfffffffe, rng.getrandbits(32)]), items))
    vout = []
    for _ in range(nout):
        vout.append((rng.choice([0, 1, -1, 546, 5000000000, 2100000000000000, 2**63 - 1, -2**63, rng.getrandbits(50)]),
                     rb(rng, rng.choice([0, 1, 22, 25, 34, 252, 253, 255]))))
    return Tx(rng.choice([0, 1, 2, 3, 0xffffffff, 0x80000000, rng.getrandbits(32)]), vin, vout,
              rng.choice([0, 1, 499999999, 500000000, 0xffffffff, rng.getrandbits(32)]))


B58 = "123456789ABCDEFGHJKLMNPQRSTUVWXYZabcdefghijkmnopqrstuvwxyz"
B64 = "ABCDEFGHIJKLMNOPQRSTUVWXYZabcdefghijklmnopqrstuvwxyz0123456789+/"
B32 = "abcdefghijklmnopqrstuvwxyz234567"


def py_b58(b):
    z = len(b) - len(b.lstrip(b"\x00"))
    n = int.from_bytes(b, "big")
    s = ""
    while n:
        n, r = divmod(n, 58)
        s = B58[r] + s
    return "1" * z + s


def py_b64(b):
    import base64
    return base64.b64encode(b).decode()


def py_b32(b):
    import base64
    return base64.b32encode(b).decode().lower()


def sx(s):
    """a text string as the hex of its bytes (latin-1)"""
    b = s if isinstance(s, (bytes, bytearray)) else s.encode("latin-1")
    return hx(b)


def gen(rng, tier):
    P = core.parse_params()
    big = tier != "quick"
    MAXS = P["MAX_SIZE"]
    C = []
    # ---------------- compact size
    vals = {0, 1, 0xfb, 0xfc, 0xfd, 0xfe, 0xff, 0x100, 0xfffe, 0xffff, 0x10000, 0x10001, 0xfffffffe, 0xffffffff, 0x100000000,
            0x100000001, MAXS - 1, MAXS, MAXS + 1, 2**63, 2**64 - 1}
    for _ in range(60 if not big else 3000):
        vals.add(rng.getrandbits(rng.randrange(1, 65)))
    for v in sorted(vals):
        C.append("cs %d" % v)
    D = []
    for v in sorted(vals):
        e = cs(v)
        D.append(e + b"\x77")
        for cut in range(len(e)):
            D.append(e[:cut])
    # non-canonical forms of small values, in every wider width
    for v in (0, 1, 0xfc, 0xfd, 0xff, 0x100, 0xffff):
        D.append(b"\xfd" + struct.pack("<H", v & 0xffff)); D.append(b"\xfe" + struct.pack("<I", v)); D.append(b"\xff" + struct.pack("<Q", v))
    for v in (0x10000, 0xffffffff, MAXS, MAXS + 1):
        D.append(b"\xfe" + struct.pack("<I", v & 0xffffffff)); D.append(b"\xff" + struct.pack("<Q", v))
    D.append(b"\xff" + struct.pack("<Q", 0x100000000)); D.append(b"\xff" + struct.pack("<Q", 0xffffffff))
    for _ in range(60 if not big else 3000):
        D.append(bytes([rng.choice([0xfc, 0xfd, 0xfe, 0xff, rng.getrandbits(8)])]) + rb(rng, rng.randrange(0, 9)))
    for d in D:
        for rc in (1, 0):
            C.append("dcs %d %s" % (rc, hx(d)))
    # ---------------- transactions built as objects
    txs = []
    for nin in (0, 1, 2):
        for nout in (0, 1, 2):
            for wit in (False, True):
                txs.append(rand_tx(rng, nin, nout, wit))
    for _ in range(40 if not big else 1500):
        txs.append(rand_tx(rng))
    # witness stacks present but all empty, and stacks made of empty items only
    t = rand_tx(rng, 2, 1, False); txs.append(t)
    t2 = rand_tx(rng, 2, 1, False); t2.vin = [(h, n, sc, sq, [b""]) for (h, n, sc, sq, w) in t2.vin]; txs.append(t2)
    t3 = rand_tx(rng, 2, 1, False); t3.vin[1] = t3.vin[1][:4] + ([b"", b"\x01"],); txs.append(t3)
    # vout count 1 with empty vin (the ambiguous one), and vout counts whose byte looks like flags
    txs.append(Tx(2, [], [(1, b"\x51")], 0))
    txs.append(Tx(2, [], [(1, b"\x51"), (2, b"")], 7))
    for tx in txs:
        for aw in (1, 0):
            C.append("tx %d %s" % (aw, tx.tokens()))
    # ---------------- transaction bytes from the independent serialiser
    T = []
    base = [rand_tx(rng, 1, 1, False), rand_tx(rng, 2, 2, True), rand_tx(rng, 1, 1, True)]
    base[1].vin[0] = base[1].vin[0][:4] + ([b"\x01\x02"],)
    base[2].vin[0] = base[2].vin[0][:4] + ([b"\xaa"],)
    for tx in txs[: (30 if not big else 600)] + base:
        T.append(tx.ser(True)); T.append(tx.ser(False))
    for tx in base:
        T.append(tx.ser(True) + b"\x00")                                  # trailing byte
        for fl in (0, 2, 3, 4, 0x80, 0x81, 0xff):
            T.append(tx.ser(True, flags=fl, force_ext=True))              # unknown / zero flags
        nw = Tx(tx.ver, [i[:4] + ([],) for i in tx.vin], tx.vout, tx.lock)
        T.append(nw.ser(True, flags=1, force_ext=True))                   # superfluous witness record
        T.append(Tx(tx.ver, [], tx.vout, tx.lock).ser(True, flags=1, force_ext=True))   # extended with empty vin
        T.append(Tx(tx.ver, [], [], tx.lock).ser(True, flags=1, force_ext=True))
        T.append(Tx(tx.ver, [], [], tx.lock).ser(True))                   # "ver 00 00 lock"
        s_ = tx.ser(True)
        for cut in range(len(s_)):                                        # every truncation
            T.append(s_[:cut])
        # non-canonical / oversize counts in place of the vin count (offset 4 for basic format)
        b_ = tx.ser(False)
        for bad in (b"\xfd\x01\x00", b"\xfe\x01\x00\x00\x00", b"\xff\x01\x00\x00\x00\x00\x00\x00\x00",
                    cs(MAXS + 1), cs(MAXS), cs(2**32), cs(0xffff), cs(200)):
            T.append(b_[:4] + bad + b_[5:])
        for _ in range(20 if not big else 400):                           # random byte flips
            m = bytearray(s_); i = rng.randrange(len(m)); m[i] ^= 1 << rng.randrange(8); T.append(bytes(m))
    for _ in range(40 if not big else 2000):
        T.append(rb(rng, rng.randrange(0, 80)))
    for t_ in T:
        for aw in (1, 0):
            C.append("dtx %d %s" % (aw, hx(t_)))
    # ---------------- blocks: 80-byte header + vector of transactions
    for k in range(0, 4):
        hdr = struct.pack("<i", rng.choice([1, 2, 0x20000000, -1, -2**31, 2**31 - 1])) + rb(rng, 32) + rb(rng, 32) + struct.pack("<III", rng.getrandbits(32), rng.choice([0x207fffff, 0x1d00ffff, 0]), rng.getrandbits(32))
        sel = [rng.choice(txs) for _ in range(k)]
        for aw in (1, 0):
            body = hdr + cs(len(sel)) + b"".join(t_.ser(bool(aw)) for t_ in sel)
            C.append("dblock %d %s" % (aw, hx(body)))
            C.append("dblock %d %s" % (aw, hx(body + b"\x01")))
            if k == 1:
                for cut in range(0, len(body), 1 if len(body) < 200 else 7):
                    C.append("dblock %d %s" % (aw, hx(body[:cut])))
        C.append("dblock 1 %s" % hx(hdr + b"\xfd\x01\x00" + b"".join(t_.ser(True) for t_ in sel[:1])))
        C.append("dblock 1 %s" % hx(hdr + cs(MAXS + 1)))
    # ---------------- hex
    for n in list(range(0, 12)) + [32, 33, 64, 255]:
        C.append("hex %s" % hx(rb(rng, n)))
    C.append("hex %s" % hx(bytes(range(256))))
    H = ["", "0", "00", "0g", "g0", "aBcDeF", "AB CD", " ab", "ab ", "a b", "ab\tcd\n", "0x12", "12 3", "\x0bff\x0c", "ff\x00", "\x00"]
    for c in range(256):
        H.append(bytes([c]) + b"0"); H.append(b"0" + bytes([c])); H.append(b"ab" + bytes([c]) + b"cd")
    for _ in range(60 if not big else 3000):
        H.append("".join(rng.choice("0123456789abcdefABCDEF  \tgx") for _ in range(rng.randrange(0, 16))))
    for h in H:
        C.append("dhex %s" % sx(h))
    # ---------------- base64 / base32
    for n in range(0, 24):
        b = rb(rng, n)
        C.append("b64 %s" % hx(b)); C.append("b32 1 %s" % hx(b)); C.append("b32 0 %s" % hx(b))
    for b in (b"\x00", b"\xff", b"\x00" * 7, b"\xff" * 7, bytes(range(256))):
        C.append("b64 %s" % hx(b)); C.append("b32 1 %s" % hx(b)); C.append("b32 0 %s" % hx(b))
    S64, S32 = [], []
    for n in range(0, 12):
        b = rb(rng, n)
        e64, e32 = py_b64(b), py_b32(b)
        S64 += [e64, e64.rstrip("="), e64 + "=", e64 + "==", e64 + "====", e64[:-1], " " + e64, e64 + "\n"]
        S32 += [e32, e32.upper(), e32.rstrip("="), e32 + "=", e32 + "========", e32[:-1], e32.rstrip("=") + "=" * 2,
                e32.rstrip("=") + "=" * 5, e32.rstrip("=") + "=" * 7]
        if e64.endswith("="):     # set a non-zero bit in the discarded part
            core_ = e64.rstrip("=")
            S64.append(core_[:-1] + B64[(B64.index(core_[-1]) | 1)] + "=" * (len(e64) - len(core_)))
        if e32.endswith("="):
            core_ = e32.rstrip("=")
            S32.append(core_[:-1] + B32[(B32.index(core_[-1]) | 1)] + "=" * (len(e32) - len(core_)))
    S64 += ["=", "==", "===", "====", "A===", "AA==", "AAA=", "AAAA", "A", "AA", "AAA", "AA=A", "A=AA", "=AAA", "AAAAA===", "AAAAAA=="]
    S32 += ["=", "========", "aa======", "aaa=====", "aaaa====", "aaaaa===", "aaaaaa==", "aaaaaaa=", "aaaaaaaa", "a=======",
            "AAAAAAAA", "aa=====", "aaaa===="[:7], "aaaaaaaa========"]
    for c in range(256):
        S64.append(b"AAA" + bytes([c])); S64.append(bytes([c]) + b"AAA"); S64.append(b"AA" + bytes([c]) + b"=")
        S32.append(b"aaaaaaa" + bytes([c])); S32.append(bytes([c]) + b"aaaaaaa"); S32.append(b"aaaa" + bytes([c]) + b"===")
    for _ in range(60 if not big else 3000):
        S64.append("".join(rng.choice(B64 + "==") for _ in range(4 * rng.randrange(0, 5))))
        S32.append("".join(rng.choice(B32 + "AZ==") for _ in range(8 * rng.randrange(0, 4))))
    for s_ in S64:
        C.append("db64 %s" % sx(s_))
    for s_ in S32:
        C.append("db32 %s" % sx(s_))
    # ---------------- base58
    for n in range(0, 41):
        for z in (0, 1, 2, 5):
            if z <= n:
                C.append("b58 %s" % hx(bytes(z) + rb(rng, n - z)))
    for b in (bytes(1), bytes(10), b"\xff" * 8, b"\xff" * 33, b"\x00\xff", b"\x00\x00\x01", b"\x39", b"\x3a", bytes(range(256))):
        C.append("b58 %s" % hx(b))
    S58 = []
    for n in (0, 1, 2, 5, 21, 25, 33):
        for z in (0, 1, 3):
            if z <= n:
                b = bytes(z) + rb(rng, n - z)
                e = py_b58(b)
                for ml in (len(b) - 1, len(b), len(b) + 1, 0, z, z - 1, 1000, -1, 2**31 - 1):
                    S58.append((ml, e))
                S58 += [(len(b), " " + e), (len(b), e + " "), (len(b), " \t" + e + "\n "), (len(b), e + " x"), (len(b), e[:1] + " " + e[1:]),
                        (len(b), e + "0"), (len(b), e + "O"), (len(b), e + "I"), (len(b), e + "l"), (len(b) + 1, e + "1"), (len(b), e + "\x00"),
                        (len(b), "\x00" + e), (len(b) + 1, "1" + e), (len(b), "1" + e)]
    S58 += [(0, ""), (-1, ""), (0, "1"), (1, "1"), (2, "111"), (3, "111"), (5, " "), (5, " 1 "), (5, "1 1"), (100, "z" * 40), (29, "z" * 40), (30, "z" * 40)]
    for c in range(256):
        S58.append((10, b"2" + bytes([c]) + b"3")); S58.append((10, bytes([c])))
    for _ in range(80 if not big else 4000):
        S58.append((rng.randrange(0, 40), "".join(rng.choice(B58 + "1111") for _ in range(rng.randrange(0, 50)))))
    for (ml, s_) in S58:
        C.append("db58 %d %s" % (ml, sx(s_)))
    # ---------------- money
    MM = P["MAX_MONEY"]; COIN = P["COIN"]
    mv = {0, 1, 9, 10, 99, 100, 1000, 10**7, 10**7 + 1, COIN - 1, COIN, COIN + 1, 10 * COIN, 12345678, 123456780, 1234567800, MM - 1, MM, MM + 1,
          -1, -COIN, -COIN - 1, -MM, 2**63 - 1, -2**63, -2**63 + 1, 10**18, 10**18 - 1}
    for e in range(0, 16):
        for d in (1, 5, 9):
            mv.add(d * 10**e); mv.add(d * 10**e + 1); mv.add(d * 10**e - 1)
    for _ in range(100 if not big else 5000):
        mv.add(rng.randrange(0, MM + 1) if rng.random() < 0.8 else rng.getrandbits(64) - 2**63)
    for v in sorted(mv):
        C.append("money %d" % v)
    MS = ["", " ", ".", "0", "1", "1.", ".1", "1.0", "0.00000001", "0.000000001", "0.000000010", "0.123456789", "0.12345678", "1.234567891",
          "21000000", "21000000.0", "21000000.00000001", "20999999.99999999", "21000001", "9999999999", "10000000000", "99999999999",
          "00000000001", "0000000001", "-1", "+1", "1e8", "1,0", " 1", "1 ", " 1 ", "1 1", "1. 1", "1 .1", "1.1 ", "\t1.5\n", "1..1", "1.1.1",
          "0x1", "1\x00", "\x001", "1.\x00", "92233720368.54775807", "92233720368.54775808", "184467440737.09551616", ".00000001", "01.10",
          "0.99999999", "0.999999999", "1.23456789a", "a", "1a", "٣"]
    for _ in range(100 if not big else 5000):
        MS.append("".join(rng.choice("0123456789012345678..  -+a") for _ in range(rng.randrange(0, 14))))
    for k in range(0, 12):
        MS.append("1." + "0" * k + "1"); MS.append("0." + "9" * k); MS.append("9" * k); MS.append("9" * k + ".5")
    for m_ in MS:
        m_ = m_.encode("utf-8").decode("unicode_escape").encode("latin-1", "replace") if isinstance(m_, str) else m_
        C.append("dmoney %s" % hx(m_))
    seen = set(); out = []
    for c in C:
        if c not in seen:
            seen.add(c); out.append(c)
    return out


TIES = [Tie("serialization", "tie/drivers/ser_drv.cpp", "Extract_Ser.v", "ser_driver.ml", gen,
            predicate="driver", nontrivial=lambda c: not c.endswith(" -"))]

LEVEL_TEXT = ("Coq theorems for ALL inputs about Gallina transcriptions of WriteCompactSize/ReadCompactSize, VARINT, byte-vector and "
              "vector (de)serialisation, SerializeTransaction/UnserializeTransaction (witness marker/flag rules), block headers and blocks, "
              "HexStr/TryParseHex, ConvertBits with EncodeBase64/DecodeBase64 and EncodeBase32/DecodeBase32, EncodeBase58/DecodeBase58 "
              "(big-number arrays, carry loops, asserts), FormatMoney/ParseMoney: round trips, and canonicity (whatever a decoder accepts re-encodes to exactly the "
              "bytes it consumed, so non-canonical compact sizes, flags other than 1, superfluous witness records, wrong base64 padding "
              "can never be accepted). Models tied to the real code by differential execution against an independent Python "
              "serialiser's bytes and by generated constants (MAX_SIZE, the HexDigit table).")
LEVEL_NOTE = ("Proved: compact size, varint, byte vectors, vectors, transactions (both directions, with the exact side condition for the "
              "empty-vin ambiguity), headers, blocks, hex (both directions), ConvertBits (both directions), base64 (both directions), base32 "
              "and base58 round trips (base58 including that the 138/100 and 733/1000 array sizes always suffice, so the asserts never fire). "
              "ParseMoney(FormatMoney n) = n on [0, MAX_MONEY] is proved. Modelled and compared with the real code but NOT proved: base32/base58/money canonical direction "
              "(base32 accepts upper case, base58 accepts surrounding white space). Not modelled: txid/wtxid hashing and Base58Check "
              "(need SHA256), P2P message payloads, ToIntegral. Trusted: Coq kernel; dump_params; extraction (ExtrOcamlBasic) and the "
              "OCaml/C++ driver glue.")
TECHNIQUE = "Coq proof (induction over byte streams, canonical-form lemmas, digit-value invariants for the bit and big-number loops, exhaustive byte tables by vm_compute) + differential correspondence"
