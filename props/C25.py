from vlib.runner import Tie
from vlib import core
from props import txgraph_gen

ID = "C25"
LEVEL = "translation_validation"
DESIGN_REF = "DESIGN.md section 5, C25"
PROP_FILES = ["props/Properties_C25.v"]
RULE = ("cases: operation scripts on the real TxGraph (MakeTxGraph with max_cluster_count 2-6, max_cluster_size at "
        "count*size -1/0/+1 or far away, acceptable_cost 0..100000) over at most 12 transactions: AddTransaction (sizes at the "
        "limit +-1, individually oversized, equal feerates, negative and 2^51 fees), AddDependency (chains, diamonds, late "
        "dependencies merging clusters to the limit +-1), RemoveTransaction (middle of a chain, with all descendants / all "
        "ancestors, arbitrary), SetTransactionFee, Ref destruction (also while staging exists), StartStaging / CommitStaging / "
        "AbortStaging interleaved with queries on both levels, Trim, DoWork; mutations are batched without queries in a fifth "
        "of the scripts (so that removals overtake pending dependencies), another fifth uses one feerate for all transactions. After every `q` step the driver calls SanityCheck and "
        "prints for main and staging: GetTransactionCount, IsOversized, Exists for every id, GetIndividualFeerate, and when not "
        "oversized GetAncestors / GetDescendants / GetCluster of every transaction, CountDistinctClusters / GetAncestorsUnion / "
        "GetDescendantsUnion of given subsets, GetMainChunkFeerate, the full CompareMainOrder matrix, a BlockBuilder walk, a "
        "second walk with Skip(), GetWorstMainChunk, GetMainStagingDiagrams; for Trim the removed set. A case is non-trivial "
        "when some dump had more than two transactions; distinct = distinct case lines.")
ASSUMPTIONS = ["agreement with the EAGER naive graph is proved (and holds) only for histories whose removals are closed: each "
               "removed transaction or Trim set goes with all its descendants or all its ancestors (the condition txgraph.h "
               "states; C25_naive_graph_without_closed_removals_refuted shows it is necessary, the same witness is replayed on "
               "the real code from corpus/C25). For all other histories the comparison is with the interface-level model, which "
               "keeps the documented queue of pending dependencies.",
               "fees and sizes stay in FeeFrac's no-wrap range (sum of |fee| < 2^62, sum of sizes <= INT32_MAX): clause 20 of the "
               "validator rejects anything else",
               "AddDependency calls that would violate the interface precondition (parent already a descendant of child, judged "
               "on the closure over removed transactions) are skipped by both drivers",
               "the ordering answers are validated, not predicted; optimality of the linearization is not part of this property"]
TRUSTED = ["Coq 8.16.1 kernel (coqc; vm_compute in two closed examples, no native_compute)",
           "coq/model/Lin.v + proofs/LinLemmas.v (chunking = ChunkLinearizationInfo, its structure theorem, topo_walk, is_connected): family of C24",
           "extraction: ExtrOcamlBasic only; ocaml/conv.ml + txgraph_driver.ml glue (parsing of the dump; clause numbers -> names)",
           "tie/drivers/txgraph_drv.cpp drives the real TxGraph through its public interface only and keeps the liveness / "
           "requested-dependency bookkeeping needed to respect the interface preconditions",
           "props/C25.py feeds the implementation's output to the model run (Trim's removed sets and the ordering tokens are taken "
           "from it; every structural token is recomputed by the model)"]


class TxGraphTie(Tie):
    """The model cannot predict what Trim() removes nor any ordering answer: its run receives the
    implementation's output as a hint (`<case> => <impl>`), validates nothing there, and prints its own
    structural answers; the predicate (`holds`) judges everything."""

    def __init__(self, *a, **kw):
        Tie.__init__(self, *a, **kw)
        self._impl = {}

    def run_impl(self, cpp, cases):
        outs = Tie.run_impl(self, cpp, cases)
        for c, o in zip(cases, outs):
            self._impl[c] = o
        return outs

    def run_model(self, mdl, cases):
        lines = [c + " => " + self._impl.get(c, "") for c in cases]
        rc, out, err = core.run_lines(mdl, ["model"] + ([self.mode] if self.mode else []), lines, self.timeout)
        if len(out) != len(cases):
            raise core.InfraError("model driver %s returned %d lines for %d cases (rc=%s)\nstderr: %s"
                                  % (self.model_driver, len(out), len(cases), rc, err[-2000:]))
        return out


def nontrivial(c):
    return c.count("add ") >= 3


def classify(c):
    k = []
    if " start" in c:
        k.append("staging")
    if " trim" in c:
        k.append("trim")
    if " destroy" in c:
        k.append("destroy")
    return "+".join(k) or "plain"


TIES = [TxGraphTie("txgraph_ops", "tie/drivers/txgraph_drv.cpp", "Extract_TxGraph.v", "txgraph_driver.ml", txgraph_gen.gen,
                   predicate="driver", nontrivial=nontrivial, classify=classify, shrink=txgraph_gen.shrink)]

LEVEL_TEXT = ("Translation validation with a proved reference: (1) Coq theorems, for ALL operation sequences, about an executable "
              "interface-level model of TxGraph (naive graph of live transactions with transitively closed ancestry, main and "
              "staging levels, plus the two deviations txgraph.h documents: dependencies still pending when a removal arrives are "
              "dropped, and main stays oversized after a Ref destruction while staging exists): every reachable state is well "
              "formed; under the header's condition on removals the ancestry equals the eager naive graph = closure of all "
              "accepted dependencies through removed transactions, restricted to live ones (and a witness that the condition is "
              "necessary); ancestors/descendants are inverse; clusters are exactly the equivalence classes of connectedness; "
              "oversized means some cluster exceeds the count or size limit; start;ops;commit equals running ops on main; "
              "start;ops;abort leaves main unchanged except for fee changes and Ref destructions. (2) Proved-sound executable "
              "validators applied to what the REAL TxGraph answered on every dump of generated histories: all structural answers "
              "(both levels) equal the model's; CompareMainOrder is the position order of one total order that is topological, "
              "restricted to each cluster is the linearization GetCluster reports, whose chunks (ChunkLinearizationInfo) are "
              "connected, carry the exact feerate sums, equal GetMainChunkFeerate of their members, are the BlockBuilder's chunk "
              "sequence with non-increasing feerates, the last one reversed being GetWorstMainChunk; a builder walk with Skip() "
              "only yields topologically closed prefixes; diagrams are the cluster chunk feerates minus a common omitted part; "
              "Trim's removed set is non-empty iff oversized, closed under descendants, touches only oversized clusters, loses "
              "no ancestry among kept transactions and leaves every cluster within both limits.")
LEVEL_NOTE = ("Not proved: anything about TxGraphImpl's internals (cluster storage, lazy application, the linearizer, Trim's "
              "algorithm): the universal claim about the C++ rests on the differential runs. The eager-naive-graph equality of the "
              "property's first sentence holds only under txgraph.h's condition on removals; "
              "C25_naive_graph_without_closed_removals_refuted is the witness (documented behaviour, reproduced on the real code).")
TECHNIQUE = ("interface-level reference model + inductive invariants (transitive-closure maintenance = clos_trans of raw edges, "
             "label merging = clos_refl_sym_trans classes, simulation for staging) + verified validators for unpredictable outputs")
