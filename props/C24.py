from vlib.runner import Tie
from vlib import core

ID = "C24"
LEVEL = "translation_validation"
DESIGN_REF = "DESIGN.md section 5, C24"
PROP_FILES = ["props/Properties_C24.v"]
RULE = ("cases: lin <n> {fee size}*n <m> {parent child}*m <max_cost> <rng_seed> <is_topological> <k> {old}*k. Clusters: chains, "
        "in-trees, out-trees, layered diamonds, random DAGs, edgeless sets, with labels permuted; n mostly 2..7 (every result flagged "
        "optimal is then compared with ALL topological orders), some up to 64. Feerates: equal feerates, zero fees, negative fees, "
        "sizes 1 and 2^21, fees up to 2^50. Inputs: no old linearization, a random topological one (flag 1 or 0), a random "
        "non-topological permutation (flag 0); budgets 0, small, 10^12; random seeds. The driver runs the real "
        "ChunkLinearization(old), Linearize, PostLinearize (on Linearize's output and on old), ChunkLinearization[Info] of the results. "
        "Compared textually with the model: ChunkLinearization(old). Validated on the implementation's outputs by the proved "
        "validators: topological + permutation (Linearize, PostLinearize), chunking equals the model's chunking, PostLinearize "
        "equals its model (on Linearize's output and on old), chunk feerates "
        "non-increasing, Linearize not worse than a topological input, PostLinearize not worse than its input, chunks connected after "
        "PostLinearize, ChunkLinearizationInfo sets, optimal flag => dominates every topological order (n <= 7). "
        "A case is non-trivial when n >= 3 and there is at least one dependency; distinct = distinct case lines.")
ASSUMPTIONS = ["Linearize and PostLinearize are NOT modelled: the never-worse / optimal / connected clauses are established per output "
               "by validators with proved soundness, on the generated clusters only",
               "chunking (ChunkLinearization) is a hand transcription tied by output-for-output comparison on every linearization "
               "that occurs in a case (old, Linearize output, PostLinearize outputs)",
               "range: positive sizes, sum |fee| < 2^62, sum size <= INT32_MAX (then no FeeFrac sum overflows; proved)",
               "connectedness is checked over the direct dependencies given to AddDependencies (stronger than DepGraph::IsConnected, "
               "which uses the ancestor/descendant closure; equal for chunks of a topological order)"]
TRUSTED = ["Coq 8.16.1 kernel (coqc; no native_compute)",
           "extraction: ExtrOcamlBasic only; ocaml/conv.ml + lin_driver.ml glue (parsing of the result sections, sorting of chunk members)",
           "tie/drivers/lin_drv.cpp builds DepGraph<BitSet<64>> with AddTransaction/AddDependencies and calls the real functions",
           "props/C24.py LinTie: appends the implementation's non-deterministic result sections to the model's line so that only the "
           "deterministic section (ChunkLinearization(old)) is compared textually; everything else is judged by `holds`"]

I32MAX = (1 << 31) - 1


def topo_sort_random(rng, n, parents):
    placed, out, remaining = set(), [], set(range(n))
    while remaining:
        ready = [x for x in sorted(remaining) if parents[x] <= placed]
        x = rng.choice(ready)
        out.append(x); placed.add(x); remaining.discard(x)
    return out


def gen_graph(rng, n):
    """edges (parent, child) of a DAG on a hidden order, then labels permuted"""
    shape = rng.choice(["chain", "intree", "outtree", "layers", "dag", "dag", "dag_sparse", "none", "star_in", "star_out"])
    e = set()
    if shape == "chain":
        e = {(i, i + 1) for i in range(n - 1)}
    elif shape == "outtree":      # every node one parent
        e = {(rng.randrange(0, i), i) for i in range(1, n)}
    elif shape == "intree":       # every node one child
        e = {(i, rng.randrange(i + 1, n)) for i in range(0, n - 1)}
    elif shape == "layers":
        w = rng.randrange(1, 4)
        for i in range(n):
            for j in range(i + 1, n):
                if j // w == i // w + 1 and rng.random() < 0.7:
                    e.add((i, j))
    elif shape == "dag":
        p = rng.choice([0.15, 0.3, 0.5, 0.8])
        e = {(i, j) for i in range(n) for j in range(i + 1, n) if rng.random() < p}
    elif shape == "dag_sparse":
        for j in range(1, n):
            e.add((rng.randrange(0, j), j))
            if rng.random() < 0.3:
                e.add((rng.randrange(0, j), j))
    elif shape == "star_in":
        e = {(i, n - 1) for i in range(n - 1)}
    elif shape == "star_out":
        e = {(0, i) for i in range(1, n)}
    perm = list(range(n))
    rng.shuffle(perm)
    e = sorted({(perm[a], perm[b]) for (a, b) in e})
    if rng.random() < 0.3:
        rng.shuffle(e)
    return e


def gen_fees(rng, n):
    mode = rng.choice(["small", "small", "equalrate", "zero", "neg", "bigsize", "bigfee", "mixed", "twovalues"])
    out = []
    for _ in range(n):
        if mode == "small":
            s = rng.randrange(1, 6); f = rng.randrange(0, 12)
        elif mode == "equalrate":
            s = rng.randrange(1, 9); f = 3 * s if rng.random() < 0.8 else 3 * s + rng.choice([-1, 1])
        elif mode == "zero":
            s = rng.randrange(1, 4); f = 0 if rng.random() < 0.6 else rng.randrange(0, 5)
        elif mode == "neg":
            s = rng.randrange(1, 6); f = rng.randrange(-10, 11)
        elif mode == "bigsize":
            s = rng.choice([1, 1 << 21, (1 << 21) - 1, 1000]); f = rng.randrange(0, 1 << 30)
        elif mode == "bigfee":
            s = rng.randrange(1, 100000); f = rng.randrange(0, 1 << 50)
        elif mode == "twovalues":
            s = rng.choice([1, 2]); f = rng.choice([1, 2])
        else:
            s = rng.choice([1, 2, 250, 1 << 21]); f = rng.choice([0, 1, 1000, -1000, 1 << 40, rng.randrange(0, 1 << 20)])
        out.append((f, s))
    return out


def gen(rng, tier):
    k = 1 if tier == "quick" else 20
    cases = ["lin 1 5 1 0 0 1 0 0", "lin 1 5 1 0 1000 1 1 1 0",
             "lin 2 1 1 2 1 1 0 1 0 7 1 2 0 1", "lin 2 1 1 2 1 1 0 1 1000000 7 0 2 1 0"]
    total = 2400 * k
    for it in range(total):
        r = rng.random()
        if r < 0.70:
            n = rng.choice([2, 3, 3, 4, 4, 4, 5, 5, 5, 5, 6, 6, 6, 7])
        elif r < 0.93:
            n = rng.randrange(8, 25)
        else:
            n = rng.randrange(25, 65)
        edges = gen_graph(rng, n)
        fees = gen_fees(rng, n)
        if sum(abs(f) for f, _ in fees) >= (1 << 62) or sum(s for _, s in fees) > I32MAX:
            continue
        parents = [set() for _ in range(n)]
        for (p, c) in edges:
            parents[c].add(p)
        om = rng.random()
        if om < 0.25:
            old, flag = [], 0
        elif om < 0.6:
            old, flag = topo_sort_random(rng, n, parents), 1
        elif om < 0.75:
            old, flag = topo_sort_random(rng, n, parents), 0
        else:
            old = list(range(n)); rng.shuffle(old); flag = 0
        budget = rng.choice([0, 0, rng.randrange(1, 400), rng.randrange(1, 5000), 1000000000000, 1000000000000])
        seed = rng.getrandbits(64)
        cases.append("lin %d %s %d %s %d %d %d %d %s" % (
            n, " ".join("%d %d" % p for p in fees), len(edges), " ".join("%d %d" % e for e in edges),
            budget, seed, flag, len(old), " ".join(map(str, old))))
    return [" ".join(c.split()) for c in cases]


def nontrivial(c):
    w = c.split()
    n = int(w[1])
    return n >= 3 and int(w[2 + 2 * n]) >= 1


def parse_case(c):
    w = c.split()
    n = int(w[1]); i = 2
    fees = [(int(w[i + 2 * k]), int(w[i + 2 * k + 1])) for k in range(n)]; i += 2 * n
    m = int(w[i]); i += 1
    edges = [(int(w[i + 2 * k]), int(w[i + 2 * k + 1])) for k in range(m)]; i += 2 * m
    budget, seed, flag, k = int(w[i]), int(w[i + 1]), int(w[i + 2]), int(w[i + 3]); i += 4
    old = [int(x) for x in w[i:i + k]]
    return n, fees, edges, budget, seed, flag, old


def fmt_case(n, fees, edges, budget, seed, flag, old):
    return " ".join(("lin %d %s %d %s %d %d %d %d %s" % (
        n, " ".join("%d %d" % p for p in fees), len(edges), " ".join("%d %d" % e for e in edges),
        budget, seed, flag, len(old), " ".join(map(str, old)))).split())


def shrink(c):
    """smaller variants of a failing case: drop a transaction (renumbering), drop an edge, simplify fees / seed"""
    try:
        n, fees, edges, budget, seed, flag, old = parse_case(c)
    except Exception:
        return
    for t in range(n - 1, -1, -1):
        if n <= 1:
            break
        ren = lambda x: x if x < t else x - 1
        # keep reachability: connect t's parents to t's children
        par = [p for (p, ch) in edges if ch == t]
        chi = [ch for (p, ch) in edges if p == t]
        e2 = sorted({(ren(p), ren(ch)) for (p, ch) in edges if p != t and ch != t} | {(ren(p), ren(ch)) for p in par for ch in chi})
        yield fmt_case(n - 1, fees[:t] + fees[t + 1:], e2, budget, seed, flag, [ren(x) for x in old if x != t])
    for j in range(len(edges)):
        yield fmt_case(n, fees, edges[:j] + edges[j + 1:], budget, seed, 0 if flag else flag, old)
    for t in range(n):
        f, s = fees[t]
        for nf, ns in ((f, 1), (f // 2, s), (1, s), (0, s)):
            if (nf, ns) != (f, s):
                yield fmt_case(n, fees[:t] + [(nf, ns)] + fees[t + 1:], edges, budget, seed, flag, old)
    if seed != 1:
        yield fmt_case(n, fees, edges, budget, 1, flag, old)
    if old and not flag:
        yield fmt_case(n, fees, edges, budget, seed, 0, [])


class LinTie(Tie):
    """Translation validation: the model cannot predict Linearize's (seed dependent) result, it validates it.
    Only the section before ' ## ' is the model's own prediction; the implementation's remaining sections are
    appended to the model line so that the runner's textual comparison concerns the deterministic section only.
    All sections are judged by the model driver's `holds` (the proved validators)."""
    def __init__(self, *a, **kw):
        super().__init__(*a, **kw)
        self._impl = {}

    def run_impl(self, cpp, cases):
        out = super().run_impl(cpp, cases)
        for c, o in zip(cases, out):
            self._impl[c] = o
        return out

    def run_model(self, mdl, cases):
        out = super().run_model(mdl, cases)
        res = []
        for c, o in zip(cases, out):
            io = self._impl.get(c, "")
            tail = io.split(" ##", 1)[1] if " ##" in io else ""
            res.append(o + tail if o.endswith("##") else o)
        return res


TIES = [LinTie("linearize_tv", "tie/drivers/lin_drv.cpp", "Extract_Lin.v", "lin_driver.ml", gen,
               predicate="driver", nontrivial=nontrivial, shrink=shrink,
               classify=lambda c: "n<=7" if int(c.split()[1]) <= 7 else ("n<=24" if int(c.split()[1]) <= 24 else "n<=64"))]

LEVEL_TEXT = ("Translation validation with proved validators. Proved in Coq for all inputs: (1) ChunkLinearization's model: chunks are "
              "sums of consecutive groups that concatenate to the input, every prefix of a chunk has feerate <= the chunk, chunk "
              "feerates non-increasing, result satisfies CompareChunks' precondition, and the chunk diagram is nowhere below (at any "
              "rational abscissa) the diagram of ANY other grouping of the same linearization into consecutive groups; (2) "
              "is_topological is exact (iff) for 'permutation with parents before children'; (3) valid_and_not_worse = true implies "
              "the new order is a linearization and, if the old one was, diagram(new) >= diagram(old) at every rational abscissa "
              "(via C30's CompareChunks theorem); (4) dominates_all_topo = true implies the diagram is >= that of every "
              "linearization (enumeration proved complete); (5) is_connected sound; (6) the PostLinearize model (group list with "
              "merge/swap, compared output-for-output with the real function) always returns a permutation of its input and a "
              "linearization whenever the input is one. The real Linearize/PostLinearize are run on "
              "generated clusters and every output is checked by these validators.")
LEVEL_NOTE = ("Not proved: that SFL (Linearize) satisfies these clauses for every input, and that PostLinearize never worsens the diagram / "
              "leaves connected chunks (proved for it: permutation + topological); those are checked per output. "
              "Optimality is checked exhaustively only for n <= 7. Framework workaround: props/C24.py subclasses Tie (LinTie) so that only the deterministic "
              "section is compared textually.")
TECHNIQUE = "verified validators (Coq) + differential execution of the real Linearize/PostLinearize"
