from vlib.runner import Tie
from vlib import core
from props import mempool_gen as G

ID = "C23"
LEVEL = "partial"
DESIGN_REF = "DESIGN.md section 5, C23"
PROP_FILES = ["props/Properties_C23.v"]
RULE = ("cases: operation scripts run against a fresh regtest node; `template MAXW RESERVED MINFEE CBSIGOPS` calls the real "
        "BlockAssembler::CreateNewBlock with these options on the pool the script built: (tweight) padded transactions of computed weight with "
        "block_max_weight = reserved + cumulative chunk weight -1/0/+1, reserved 2000/3000/8000, block_max_weight = reserved, min fee rates "
        "around the chunks' fee rates, options CheckMiningOptions refuses; (tsigops) transactions carrying 1000-4000 legacy sigops with the "
        "coinbase sigop reservation moving the total to 80000 -1/0/+1; (tfinal) time / height locked transactions at the boundary, a "
        "template before and after a mined block and after a disconnect; (tclock) blocks stamped ahead of the clock so that the median time "
        "past exceeds the block time CreateNewBlock starts from, with transactions locked between the two; templates at the end of C22-style "
        "histories (resurrection, conflicts, chains, random walks). Each template: selected list, GetBlockWeight, coinbase value, per-entry "
        "weight / sigops / fee, the chunk sequence of the block builder, TestBlockValidity's verdict. Non-trivial = a submission; distinct = "
        "distinct scripts.")
ASSUMPTIONS = ["the chunk sequence is taken from the mempool's block builder (TxGraph, C25): premises chunk_wf (a chunk's size covers its transactions' "
               "weights; non-negative numbers fitting their machine types) and offered_ok (a chunk is offered only when the in-pool parents of its "
               "transactions are selected or earlier in the chunk) are stated in the theorems",
               "the fees of the pool do not exceed MAX_MONEY (C01), so nFees cannot wrap",
               "coinbase_output_max_additional_sigops >= 0 (a size_t)",
               "the clause `passes full consensus validation` is proved in part (C23_template_connects_partial: with C22's invariant, a parent-closed "
               "ordered duplicate-free block of pool entries passes the structural part of ConnectBlock); amounts, scripts and BIP68 locks are "
               "checked on every implementation template by TestBlockValidity only"]
TRUSTED = ["Coq 8.16.1 kernel (coqc; vm_compute in the example)",
           "tie/dump_params.cpp (+ tie/params/mempool.h) prints MAX_BLOCK_WEIGHT, MAX_BLOCK_SIGOPS_COST, MINIMUM_BLOCK_RESERVED_WEIGHT, WITNESS_SCALE_FACTOR",
           "extraction: ExtrOcamlBasic only; ocaml/conv.ml + mempool_driver.ml glue",
           "tie/drivers/mempool_drv.cpp: real CreateNewBlock; the chunk sequence is recorded by replaying the real block builder with the "
           "include/skip decisions the template shows; the regtest subsidy interval (150) is cross-checked against the driver's GetBlockSubsidy"]

TIES = [G.MempoolTie("templates", "tie/drivers/mempool_drv.cpp", "Extract_Mempool.v", "mempool_driver.ml", G.gen_c23, mode="C23",
                     predicate="driver", nontrivial=G.nontrivial, classify=G.classify, shrink=G.shrink, timeout=3000)]

LEVEL_TEXT = ("Coq theorems about an executable transcription of the template loop (resetBlock's reserved counters, the min-fee stop, "
              "TestChunkBlockLimits with its >= on uint64 sums, TestChunkTransactions, the give-up heuristic, AddToBlock, the coinbase value): "
              "for every chunk sequence and every accepted option set the counters equal reserved + selected, stay within block_max_weight <= "
              "MAX_BLOCK_WEIGHT and MAX_BLOCK_SIGOPS_COST including the reservations, every selected transaction is final at (height, median "
              "time past), the coinbase value is subsidy + fees of the selection, the selection is closed under in-pool parents and lists them "
              "first also when chunks are skipped; the predicate used on implementation templates is proved sound and is passed by the model's "
              "template. Tied to the real assembler at the weight / sigop / lock-time boundaries, with TestBlockValidity on every template.")
LEVEL_NOTE = ("Partial: of `the template passes full consensus validation` the structural part is proved from C22's invariant "
              "(C23_template_connects_partial); amounts, scripts and BIP68 are carried by the TestBlockValidity oracle of the tie. Trusted: Coq kernel, dump_params.cpp, extraction + driver glue; the block builder's chunk sequence is an input "
              "(premises chunk_wf / offered_ok are evaluated on the recorded sequences by the comparison of selected lists).")
TECHNIQUE = "Coq proof (loop invariant over the chunk sequence, verified checker) + differential correspondence at the limits"
