from vlib.runner import Tie
from vlib import core

ID = "C27"
LEVEL = "partial"
DESIGN_REF = "DESIGN.md section 5, C27"
PROP_FILES = ["props/Properties_C27.v"]
RULE = ("cases: op sequences on the real CTxMemPool: single submissions (with replacement of conflicting children and sibling "
        "eviction), package submissions, removals (recursive and for-block), direct queries of SingleTRUCChecks / PackageTRUCChecks "
        "with virtual sizes TRUC_MAX_VSIZE-1/0/+1 and TRUC_CHILD_MAX_VSIZE-1/0/+1 (explicit and through real transaction weights), "
        "version 2/3 mixes, 0/1/2 mempool parents, parents with 0/1/2 children, grandparents, in-package parents/siblings/children; "
        "histories with forced additions (reorg-like states: several children, chains of 3) are compared but not judged; "
        "limits cases: a second real CTxMemPool configured with cluster_count 1-8 and cluster_size 300-1000 vB: chains, stars, merges of "
        "clusters by one transaction, total weight at the limit -4/0/+4, CheckPolicyLimits queries and limit-checked additions, removals; "
        "accept3 cases: version-2/3 transactions through the real ProcessTransaction / ProcessNewPackage on a regtest chain (driver of C29): "
        "1-parent-1-child in every version mix with child vsize TRUC_CHILD_MAX_VSIZE/+1 and TRUC_MAX_VSIZE/+1, oversized parents, two "
        "parents, grandparents in the mempool or in the package, low-fee parents that push the TRUC checks into package evaluation. "
        "non-trivial = at least 3 ops; distinct = distinct case lines")
ASSUMPTIONS = ["acceptance applies exactly the answers of SingleTRUCChecks / PackageTRUCChecks (the other acceptance rules only reject more); "
               "the driver applies them on the real mempool the way PreChecks / ReplacementChecks do",
               "no block disconnection: histories judged by the predicate contain no forced additions (the statement excludes reorganizations)",
               "memory-usage / TrimToSize / ephemeral-dust clauses of C27 are not covered by this check (see LEVEL_NOTE)",
               "accept3 scenarios: no output is spent twice and no transaction gets two children, so neither RBF nor sibling eviction is "
               "triggered end-to-end (both are covered by the op-sequence tie on the real check functions and mempool)"]
TRUSTED = ["Coq 8.16.1 kernel (coqc)",
           "tie/dump_params.cpp + tie/params/mempoolpol.h print the TRUC_* and cluster limit constants from the compiled tree",
           "extraction: ExtrOcamlBasic only; ocaml/conv.ml + truc_driver.ml glue",
           "tie/drivers/truc_drv.cpp builds real CTransactions / a real CTxMemPool (test util TryAddToMempool), calls the real check functions and "
           "prints error kinds (classified by message text), real GetAncestorCount / GetDescendantCount of the final mempool"]


def cs(n):
    return 1 if n < 253 else 3 if n <= 0xffff else 5 if n <= 0xffffffff else 9


def weight(nin, nout, pad):
    size = 4 + cs(nin) + cs(nout) + nout * 10 + 4
    for i in range(nin):
        sl = pad if i == 0 else 0
        size += 36 + cs(sl) + sl + 4
    return 4 * size


def pad_for_vsize(nin, nout, target):
    """scriptSig padding of input 0 such that vsize (= size, no witness) is target"""
    for pad in range(max(0, target - 200), target + 1):
        if weight(nin, nout, pad) == 4 * target:
            return pad
    return 0


class T:
    def __init__(self):
        self.built = []   # [ver, inputs, nout, pad]
        self.ops = []

    def new(self, ver, inputs, nout=2, pad=0, vsize=None):
        if vsize is not None:
            pad = pad_for_vsize(len(inputs), nout, vsize)
        self.built.append([ver, list(inputs), nout, pad]); return len(self.built) - 1

    def line(self):
        out = ["truc", str(len(self.built))]
        for (ver, ins, nout, pad) in self.built:
            out += [str(ver), str(len(ins))]
            for i in ins:
                out += [str(x) for x in i]
            out += [str(nout), str(pad), str(weight(len(ins), nout, pad))]
        out.append(str(len(self.ops)))
        for o in self.ops:
            out += [str(x) for x in o]
        return " ".join(out)


def gen(rng, tier):
    P = core.parse_params()
    MAXV = P["MPP_TRUC_MAX_VSIZE"]; CHV = P["MPP_TRUC_CHILD_MAX_VSIZE"]
    cases = []
    ext = [0]

    def e():
        ext[0] += 1
        return ("e", ext[0], 0)

    # --- targeted motifs ---------------------------------------------------------------------------
    for pv in (2, 3):
        for cv in (2, 3):
            for how in ("A", "K", "S", "Q"):
                for csz in (None, CHV - 1, CHV, CHV + 1, MAXV, MAXV + 1):
                    t = T()
                    par = t.new(pv, [e()], nout=3)
                    ch = t.new(cv, [("p", par, 0)], vsize=csz)
                    if how == "A": t.ops = [("A", par), ("A", ch)]
                    if how == "K": t.ops = [("K", 2, par, ch)]
                    if how == "S": t.ops = [("A", par), ("S", ch, -1, 0)] + [("S", ch, v, 0) for v in (CHV - 1, CHV, CHV + 1, MAXV, MAXV + 1)]
                    if how == "Q": t.ops = [("Q", 2, par, ch, -1)] + [("Q", 2, par, ch, v) for v in (CHV, CHV + 1, MAXV, MAXV + 1)]
                    cases.append(t.line())
    # parent sizes
    for psz in (MAXV - 1, MAXV, MAXV + 1):
        for how in ("A", "K"):
            t = T(); par = t.new(3, [e()], vsize=psz); ch = t.new(3, [("p", par, 0)])
            t.ops = [("A", par), ("A", ch)] if how == "A" else [("K", 2, par, ch)]
            cases.append(t.line())
    # second child: sibling eviction, conflicting child (replacement), package sibling; third generation; two parents
    for v in (3, 2):
        t = T(); par = t.new(v, [e()], nout=3); c1 = t.new(v, [("p", par, 0)]); c2 = t.new(v, [("p", par, 1)]); c3 = t.new(v, [("p", par, 0), e()])
        g = t.new(v, [("p", c1, 0)]); g2 = t.new(v, [("p", c2, 0)])
        for ops in ([("A", par), ("A", c1), ("A", c2)],
                    [("A", par), ("A", c1), ("A", c3)],
                    [("A", par), ("A", c1), ("S", c2, -1, 0), ("S", c2, -1, 1, c1), ("S", c3, -1, 1, c1), ("S", c3, -1, 0)],
                    [("A", par), ("A", c1), ("A", g)],
                    [("A", par), ("A", c1), ("A", c2), ("A", g2), ("A", g)],
                    [("K", 3, par, c1, c2)], [("K", 3, par, c1, g)], [("A", par), ("K", 2, c1, g)], [("A", par), ("K", 2, c1, c2)],
                    [("A", par), ("A", c1), ("K", 2, c2, g2)],
                    [("Q", 3, par, c1, c2, -1)], [("Q", 3, par, c1, g, -1)], [("Q", 3, par, c2, c1, -1)],
                    [("A", par), ("A", c1), ("B", par), ("A", g), ("A", c2)],
                    [("A", par), ("A", c1), ("R", c1), ("A", c2), ("A", c1)],
                    [("F", par), ("F", c1), ("F", c2), ("S", c3, -1, 0), ("S", c3, -1, 1, c1), ("A", c3)],
                    [("F", par), ("F", c1), ("F", g), ("S", c2, -1, 0), ("A", c2)],
                    [("F", par), ("F", c1), ("F", g), ("F", c2), ("S", g2, -1, 0)]):
            t.ops = ops; cases.append(t.line())
        t = T(); p1 = t.new(v, [e()]); p2 = t.new(v, [e()]); p3 = t.new(5 - v, [e()]); c = t.new(v, [("p", p1, 0), ("p", p2, 0)]); d = t.new(v, [("p", p1, 0), ("p", p3, 0)])
        for ops in ([("A", p1), ("A", p2), ("A", c)], [("K", 3, p1, p2, c)], [("A", p1), ("K", 2, p2, c)], [("A", p1), ("A", p3), ("A", d)],
                    [("K", 3, p1, p3, d)], [("A", p3), ("K", 2, p1, d)], [("A", p1), ("K", 2, p3, d)]):
            t.ops = ops; cases.append(t.line())
    # --- random histories ---------------------------------------------------------------------------
    nrand = 1500 if tier == "quick" else 40000
    for it in range(nrand):
        t = T()
        nb = rng.choice([3, 4, 5, 6, 8, 10, 14])
        forced = rng.random() < 0.15
        bias3 = rng.choice([0.5, 0.8, 1.0])
        spent = {}
        for b in range(nb):
            ver = 3 if rng.random() < bias3 else 2
            nin = rng.choice([1, 1, 1, 2])
            ins = []
            for _ in range(nin):
                if b > 0 and rng.random() < 0.65:
                    j = rng.randrange(0, b)
                    n = rng.randrange(0, t.built[j][2])
                    ins.append(("p", j, n))
                else:
                    ins.append(("e", rng.randrange(0, 6) + 100 * it, 0) if rng.random() < 0.2 else e())
            ins = list(dict.fromkeys(ins))
            vs = rng.choice([None, None, None, None, CHV - 1, CHV, CHV + 1, MAXV, MAXV + 1])
            t.new(ver, ins, nout=rng.choice([1, 2, 3]), vsize=vs)
        nops = rng.choice([nb, nb + 2, 2 * nb])
        in_pool_guess = set()
        for _ in range(nops):
            r = rng.random()
            i = rng.randrange(0, nb)
            if r < 0.5:
                # prefer build order so that parents tend to be there
                cand = [b for b in range(nb) if b not in in_pool_guess]
                i = cand[0] if cand and rng.random() < 0.7 else i
                t.ops.append(("A", i)); in_pool_guess.add(i)
            elif r < 0.62:
                kids = [b for b in range(nb) if any(x[0] == "p" for x in t.built[b][1])]
                if kids:
                    c = rng.choice(kids)
                    pars = sorted(set(x[1] for x in t.built[c][1] if x[0] == "p"))
                    extra = [rng.randrange(0, nb)] if rng.random() < 0.2 else []
                    pk = sorted(set(pars + extra + [c]))
                    t.ops.append(("K", len(pk)) + tuple(pk)); in_pool_guess.update(pk)
            elif r < 0.70:
                k = rng.choice([2, 3, 4])
                pk = sorted(rng.sample(range(nb), min(k, nb)))
                t.ops.append(("Q", len(pk)) + tuple(pk) + (rng.choice([-1, -1, CHV, CHV + 1, MAXV + 1]),))
            elif r < 0.80:
                confs = [b for b in in_pool_guess if rng.random() < 0.3][:3]
                t.ops.append(("S", i, rng.choice([-1, -1, CHV, CHV + 1, MAXV, MAXV + 1]), len(confs)) + tuple(confs))
            elif r < 0.88:
                t.ops.append((rng.choice(["R", "B"]), i)); in_pool_guess.discard(i)
            elif forced:
                # forced addition only if it does not double-spend an outpoint already spent by an earlier forced/added tx (mapNextTx)
                t.ops.append(("F", i)); in_pool_guess.add(i)
        # forced adds may collide on outpoints inside the real mempool (two spenders of one outpoint): drop such cases
        if forced:
            seen = {}
            ok = True
            for b in range(nb):
                for x in t.built[b][1]:
                    if x in seen: ok = False
                    seen[x] = b
            if not ok:
                t.ops = [o for o in t.ops if o[0] != "F"]
        cases.append(t.line())
    return cases



def gen_lim(rng, tier):
    """cluster count / size limit decisions on a mempool configured with small limits"""
    cases = []
    ext = [0]

    def e():
        ext[0] += 1
        return ("e", 50000 + ext[0], 0)

    def line(cnt, sz, t):
        l = t.line().split(" ")
        return " ".join(["lim", str(cnt), str(sz)] + l[1:])

    # chains and stars at the count boundary, merges of two clusters by one transaction
    for cnt in (1, 2, 3, 4, 6):
        for shape in ("chain", "star", "merge", "fan_in"):
            t = T()
            n = cnt + 2
            if shape == "chain":
                t.new(2, [e()])
                for b in range(1, n): t.new(2, [("p", b - 1, 0)])
            elif shape == "star":
                t.new(2, [e()], nout=n)
                for b in range(1, n): t.new(2, [("p", 0, b - 1)])
            elif shape == "merge":
                a = [t.new(2, [e()]) for _ in range(cnt)]
                half = max(1, cnt // 2)
                c1 = t.new(2, [("p", x, 0) for x in a[:half]])
                c2 = t.new(2, [("p", x, 0) for x in a[half:]] or [e()])
                t.new(2, [("p", c1, 0), ("p", c2, 0)])
            else:
                a = [t.new(2, [e()]) for _ in range(n - 1)]
                t.new(2, [("p", x, 0) for x in a])
            nb = len(t.built)
            t.ops = []
            for b in range(nb):
                t.ops += [("C", b), ("T", b)]
            t.ops += [("R", 0)] + [("T", b) for b in range(nb)]
            cases.append(line(cnt, 100000, t))
    # size boundary: a chain whose total weight is exactly the limit, one weight unit (4) above / below
    for szv in (300, 500, 1000):
        for delta in (-1, 0, 1):
            for n in (1, 2, 3):
                t = T()
                t.new(2, [e()])
                for b in range(1, n): t.new(2, [("p", b - 1, 0)])
                rest = sum(weight(len(x[1]), x[2], x[3]) for x in t.built[1:])
                target = (4 * szv - rest) // 4 + delta      # vsize (= size) of built[0]
                if target < 70: continue
                t.built[0][3] = pad_for_vsize(1, t.built[0][2], target)
                t.ops = [("C", b) for b in range(n)] + [("T", b) for b in range(n)] + [("C", n - 1)]
                cases.append(line(10, szv, t))
    nrand = 500 if tier == "quick" else 15000
    for _ in range(nrand):
        t = T()
        cnt = rng.choice([1, 2, 3, 4, 5, 8]); szv = rng.choice([300, 500, 800, 100000])
        nb = rng.choice([3, 5, 8, 12])
        free = []
        for b in range(nb):
            ins = []
            for _i in range(rng.choice([1, 1, 2, 3])):
                if free and rng.random() < 0.6:
                    ins.append(free.pop(rng.randrange(len(free))))
                else:
                    ins.append(e())
            nout = rng.choice([1, 2, 3])
            t.new(2, ins, nout=nout, pad=rng.choice([0, 0, 0, 100, 400, 1000]))
            free += [("p", b, n) for n in range(nout)]
        # no two transactions may spend one outpoint (the raw mempool would hold both)
        seen = set(); ok = True
        for x in t.built:
            for i in x[1]:
                if i in seen: ok = False
                seen.add(i)
        if not ok: continue
        for b in range(nb):
            r = rng.random()
            if r < 0.3: t.ops.append(("C", b))
            t.ops.append(("T", b))
            if rng.random() < 0.1: t.ops.append(("R", rng.randrange(0, nb)))
        for _i in range(rng.choice([0, 2, 4])):
            t.ops.append((rng.choice(["C", "T", "T", "R"]), rng.randrange(0, nb)))
        cases.append(line(cnt, szv, t))
    return cases


def gen_acc3(rng, tier):
    """end-to-end: version-2/3 transactions through the real ProcessTransaction / ProcessNewPackage (driver of C29, mode accept3).
    No output is spent by two transactions, so no sibling-eviction candidate and no mempool conflict arises (no RBF)."""
    from props import C29 as PK
    P = core.parse_params()
    MAXV = P["MPP_TRUC_MAX_VSIZE"]; CHV = P["MPP_TRUC_CHILD_MAX_VSIZE"]
    cases = []

    def sized(a, b, target):
        """set nout / witness length of built[b] (1 input) so that its vsize is target"""
        for nout in range(1, 260):
            for wit in range(1, 80):
                if (PK.acc_weight(1, nout, wit) + 3) // 4 == target and PK.acc_weight(1, nout, wit) % 4 == 0:
                    a.built[b][3] = nout; a.built[b][5] = wit; return True
        return False

    # 1 parent 1 child: versions x child size x how it is submitted
    for pv in (2, 3):
        for cv in (2, 3):
            for csz in (None, CHV, CHV + 1, MAXV, MAXV + 1):
                for how in ("pkg", "pkg_lowfee_parent", "parent_in_pool", "child_alone_after"):
                    a = PK.A(rng)
                    par = a.new([a.coin()], nout=2, ver=pv, fee=0 if how == "pkg_lowfee_parent" else 10000)
                    ch = a.new([("p", par, 0)], nout=1, ver=cv, fee=60000)
                    if csz is not None and not sized(a, ch, csz): continue
                    if how in ("pkg", "pkg_lowfee_parent"): a.pkg = [par, ch]
                    if how == "parent_in_pool": a.pre = [par]; a.pkg = [par, ch]
                    if how == "child_alone_after": a.pre = [par]; a.pkg = [ch]
                    cases.append(a.line())
    # parent sizes
    for psz in (MAXV, MAXV + 1):
        for how in ("pkg", "single"):
            a = PK.A(rng); par = a.new([a.coin()], ver=3, fee=60000)
            if not sized(a, par, psz): continue
            ch = a.new([("p", par, 0)], ver=3, fee=60000)
            if how == "pkg": a.pkg = [par, ch]
            else: a.pkg = [par]
            cases.append(a.line())
    # two parents / grandparent / three generations in one package, every version mix, low-fee parents pushed into package evaluation
    for v1 in (2, 3):
        for v2 in (2, 3):
            for vc in (2, 3):
                for low in (False, True):
                    a = PK.A(rng)
                    p1 = a.new([a.coin()], ver=v1, fee=0 if low else 10000); p2 = a.new([a.coin()], ver=v2, fee=0 if low else 10000)
                    c = a.new([("p", p1, 0), ("p", p2, 0)], ver=vc, fee=80000)
                    a.pkg = [p1, p2, c]; cases.append(a.line())
                    a = PK.A(rng)
                    g = a.new([a.coin()], ver=v1, fee=10000); p = a.new([("p", g, 0)], ver=v2, fee=0 if low else 10000)
                    c = a.new([("p", p, 0)], ver=vc, fee=80000)
                    a.pre = [g]; a.pkg = [p, c]; cases.append(a.line())
                    a = PK.A(rng)
                    g = a.new([a.coin()], ver=v1, fee=10000); p = a.new([("p", g, 0)], ver=v2, fee=10000)
                    c = a.new([("p", p, 0)], ver=vc, fee=80000)
                    a.pre = [g, p]; a.pkg = [c]; cases.append(a.line())
    nrand = 500 if tier == "quick" else 15000
    for _ in range(nrand):
        a = PK.A(rng)
        bias3 = rng.choice([0.5, 0.8, 1.0])
        ver = lambda: 3 if rng.random() < bias3 else 2
        free = []          # unspent outputs of built transactions, each handed out once

        def inp():
            if free and rng.random() < 0.55:
                o = free.pop(rng.randrange(len(free)))
                # a transaction gets at most one child: no sibling-eviction candidate can arise
                free[:] = [x for x in free if x[1] != o[1]]
                return o
            return a.coin() if len(a.free) > 8 else ("x", rng.randrange(50))

        outside = []
        for _k in range(rng.choice([0, 1, 2, 3])):
            b = a.new([inp()], nout=rng.choice([1, 2]), ver=ver(), fee=10000)
            free += [("p", b, n) for n in range(a.built[b][3])]
            outside.append(b)
        npar = rng.choice([1, 1, 2, 3])
        pars = []
        for _k in range(npar):
            b = a.new([inp()] + ([inp()] if rng.random() < 0.2 else []), nout=2, ver=ver(), fee=rng.choice([0, 0, 10000, 10000]))
            pars.append(b)
        cins = [("p", q, 0) for q in pars]
        if rng.random() < 0.2: cins.append(inp())
        ch = a.new(cins, nout=1, ver=ver(), fee=rng.choice([10000, 90000, 90000]))
        if rng.random() < 0.15: sized(a, ch, rng.choice([CHV, CHV + 1])) if len(cins) == 1 else None
        a.pkg = pars + [ch]
        a.pre = list(outside) + [q for q in pars if rng.random() < 0.2]
        cases.append(a.line())
    return cases


TIES = [Tie("truc_ops", "tie/drivers/truc_drv.cpp", "Extract_Truc.v", "truc_driver.ml", gen,
            predicate="driver", nontrivial=lambda c: True),
        Tie("cluster_limits", "tie/drivers/truc_drv.cpp", "Extract_Truc.v", "truc_driver.ml", gen_lim, mode="limits",
            predicate="driver", nontrivial=lambda c: True),
        Tie("truc_accept", "tie/drivers/package_drv.cpp", "Extract_Package.v", "package_driver.ml", gen_acc3, mode="accept3",
            predicate="driver", nontrivial=lambda c: True)]

LEVEL_TEXT = ("Coq theorems over all mempools and all op sequences: what SingleTRUCChecks / PackageTRUCChecks accept implies (size caps, "
              "one parent, no grandparent, version inheritance, no second child unless it is replaced or evicted), and the topology "
              "invariant (every version-3 transaction has at most one unconfirmed parent and one unconfirmed child, both version 3, "
              "never both, within the size caps; no non-version-3 transaction has a version-3 parent) is preserved by every single "
              "submission the rules accept (including replacement and sibling eviction), every package submission and every removal; no "
              "version-3 transaction ever has more than 2 ancestors or descendants. The cluster count/size decision is the stated bound "
              "on every connected component. Model tied to the real check functions and the real mempool graph by differential execution "
              "of op sequences, to a real mempool with small cluster limits, and end-to-end to ProcessTransaction / ProcessNewPackage.")
LEVEL_NOTE = ("Partial: the TRUC topology clause and the cluster count/size decision are covered; memory usage / TrimToSize / minimum "
              "feerate after eviction and the ephemeral-dust clauses are not. Trusted: Coq kernel, dump_params.cpp, extraction + driver glue.")
TECHNIQUE = "Coq proof (inductive invariant over op sequences) + differential correspondence on the real mempool"
