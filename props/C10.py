from vlib.runner import Tie
from vlib import core
import json, os

ID = "C10"
LEVEL = "proof"
DESIGN_REF = "DESIGN.md section 5, C10"
PROP_FILES = ["props/Properties_C10.v"]
RULE = ("cases: (1) digests: legacy / BIP143 / BIP341 signature hashes of generated transactions (1-4 inputs, 0-4 outputs, boundary "
        "field values) for every input index, hash types 0..3, 0x80..0x83, undefined and 32-bit values, SIGHASH_SINGLE at index "
        "#outputs-1 / #outputs, scriptCodes with OP_CODESEPARATOR inside and outside push data, PUSHDATA1/2/4 and truncated pushes, "
        "annex absent/present (1 byte .. >252 bytes), key path / tapscript with codeseparator positions, every taproot hash type byte; "
        "the repository's sighash.json (500) and bip341_wallet_vectors.json replayed with their published digests; "
        "(2) encodings: CheckSignatureEncoding on DER signatures built from the grammar and on every single-field corruption of them, "
        "sizes 8/9/73/74, S around order/2 and order, every hash-type byte, under all 8 combinations of DERSIG/LOW_S/STRICTENC; "
        "CheckPubKeyEncoding through OP_CHECKSIG on keys of sizes 0..66 with every relevant prefix byte; "
        "(3) checksig: single-signature spends of P2PK / P2PKH / P2WPKH / P2WSH / P2TR key path / tapscript signed with a real key by the "
        "implementation, then each committed field, the amount, the script, the key, the signature or the hash type mutated, through VerifyScript. "
        "Non-trivial = not a precondition case; distinct = distinct case lines.")
ASSUMPTIONS = ["SHA-256 is collision-free on the values in play and returns 32 bytes: Section hypotheses H_inj / H_len of the commitment theorems",
               "the curve (CPubKey::Verify, XOnlyPubKey::VerifySchnorr, CPubKey::CheckLowS) is an oracle: Section variables; the correspondence uses "
               "an arithmetic reading of CheckLowS and, for checksig, the ideal oracle that accepts exactly the signed (key, digest, signature)",
               "transactions are CTransaction values (tx_wf: 32-byte prevout hashes, uint32/int64 field ranges, sizes <= MAX_SIZE)",
               "the models of SignatureHash / SignatureHashSchnorr / the encoding rules are hand transcriptions, tied by the correspondence"]
TRUSTED = ["Coq 8.16.1 kernel (coqc; vm_compute for the concrete witnesses)",
           "tie/dump_params.cpp + tie/params/sighash.h print the SIGHASH_* constants, opcode values, key sizes and flag masks from the compiled tree",
           "extraction: ExtrOcamlBasic only; ocaml/conv.ml + sighash_driver.ml glue; ocaml/sighash_sha256.ml (pure OCaml SHA-256 passed as H)",
           "tie/drivers/sighash_drv.cpp builds the transaction / execution data it is told to and prints the implementation's result",
           "the serialization models coq/model/SerBase.v, SerTx.v (family ser) that the preimages are written with"]

U32 = 0xffffffff
I64 = 9223372036854775807
ORDER = 0xFFFFFFFFFFFFFFFFFFFFFFFFFFFFFFFEBAAEDCE6AF48A03BBFD25E8CD0364141


def hx(b):
    return b.hex() if len(b) else "-"


def rbytes(rng, n):
    return bytes(rng.randrange(256) for _ in range(n))


def push(data):
    n = len(data)
    if n < 76: return bytes([n]) + data
    if n < 256: return bytes([76, n]) + data
    if n < 65536: return bytes([77, n & 255, n >> 8]) + data
    return bytes([78]) + n.to_bytes(4, "little") + data


def rand_script(rng, allow_trunc=True, maxops=8):
    """ops incl. OP_CODESEPARATOR (0xab), pushes whose data contains 0xab, the three PUSHDATA forms, optionally a truncated push at the end"""
    out = b""
    for _ in range(rng.randrange(0, maxops + 1)):
        r = rng.random()
        if r < 0.25: out += b"\xab"
        elif r < 0.45: out += bytes([rng.choice([0x00, 0x51, 0x52, 0x63, 0x65, 0x6a, 0xac, 0xad, 0x87, 0x4f, 0xba, 0xff, 0x50])])
        elif r < 0.65: out += push(bytes(rng.choice([0xab, 0xab, 0x00, 0x4c, 0x4d]) for _ in range(rng.choice([1, 2, 3, 20, 33]))))
        elif r < 0.75: out += bytes([76, 3]) + b"\xab\xab\xab"
        elif r < 0.83: out += bytes([77, 2, 0]) + b"\xab\x01"
        elif r < 0.90: out += bytes([78, 1, 0, 0, 0]) + b"\xab"
        else: out += push(rbytes(rng, rng.choice([0, 1, 75, 76, 80])))
    if allow_trunc and rng.random() < 0.2:
        out += rng.choice([bytes([5, 0xab, 0xab]), bytes([76]), bytes([76, 9, 0xab]), bytes([77, 1]), bytes([77, 5, 0, 0xab]),
                           bytes([78, 1, 0, 0]), bytes([78, 9, 0, 0, 0, 0xab, 0xab]), bytes([75]), bytes([1]), bytes([78, 0xff, 0xff, 0xff, 0xff, 1])])
    return out


def rand_tx(rng, nin=None, nout=None):
    nin = nin or rng.choice([1, 1, 2, 3, 4])
    nout = rng.choice([0, 1, 1, 2, 3, 4]) if nout is None else nout
    ver = rng.choice([1, 2, 0, U32, rng.randrange(U32 + 1)])
    vin = []
    for _ in range(nin):
        h = rbytes(rng, 32) if rng.random() < 0.9 else bytes(32)
        n = rng.choice([0, 1, 2, U32, rng.randrange(U32 + 1)])
        seq = rng.choice([U32, U32 - 1, 0, 1, rng.randrange(U32 + 1)])
        vin.append((h, n, rand_script(rng, False, 3), seq))
    if nin >= 2 and rng.random() < 0.15:
        vin[1] = (vin[0][0], vin[0][1], vin[1][2], vin[1][3])     # duplicate outpoint
    vout = []
    for _ in range(nout):
        v = rng.choice([0, 1, 546, 2100000000000000, -1, I64, -I64 - 1, rng.randrange(0, 2100000000000000)])
        spk = rng.choice([rand_script(rng, True, 4), b"", bytes([0x51, 0x20]) + rbytes(rng, 32), bytes([0, 20]) + rbytes(rng, 20),
                          rbytes(rng, rng.choice([252, 253, 254, 300]))])
        vout.append((v, spk))
    lock = rng.choice([0, 1, 499999999, 500000000, U32, rng.randrange(U32 + 1)])
    return (ver, vin, vout, lock)


def fmt_tx(t):
    ver, vin, vout, lock = t
    w = [str(ver), str(len(vin))]
    for (h, n, sc, seq) in vin:
        w += [hx(h), str(n), hx(sc), str(seq)]
    w.append(str(len(vout)))
    for (v, spk) in vout:
        w += [str(v), hx(spk)]
    w.append(str(lock))
    return " ".join(w)


def fmt_spent(sp):
    w = [str(len(sp))]
    for (v, spk) in sp:
        w += [str(v), hx(spk)]
    return " ".join(w)


# ---- raw transaction parser (corpus replay only) ----
def parse_raw_tx(b):
    p = [0]
    def rd(n):
        x = b[p[0]:p[0] + n]; p[0] += n
        assert len(x) == n
        return x
    def cs():
        c = rd(1)[0]
        if c < 253: return c
        return int.from_bytes(rd({253: 2, 254: 4, 255: 8}[c]), "little")
    ver = int.from_bytes(rd(4), "little")
    nin = cs()
    wit = False
    if nin == 0:
        flag = rd(1)[0]
        assert flag == 1
        wit = True
        nin = cs()
    vin = []
    for _ in range(nin):
        h = rd(32); n = int.from_bytes(rd(4), "little"); sc = rd(cs()); seq = int.from_bytes(rd(4), "little")
        vin.append((h, n, sc, seq))
    vout = []
    for _ in range(cs()):
        v = int.from_bytes(rd(8), "little", signed=True); spk = rd(cs())
        vout.append((v, spk))
    if wit:
        for _ in range(nin):
            for _ in range(cs()):
                rd(cs())
    lock = int.from_bytes(rd(4), "little")
    assert p[0] == len(b)
    return (ver, vin, vout, lock)


def corpus_cases():
    out = []
    d = os.path.join(core.REPO, "src/test/data")
    try:
        for e in json.load(open(os.path.join(d, "sighash.json"))):
            if len(e) != 5:
                continue
            raw, sc, nin, ht, exp = e
            t = parse_raw_tx(bytes.fromhex(raw))
            out.append("legacy %d %d %s %s =%s" % (nin, ht, sc if sc else "-", fmt_tx(t), bytes.fromhex(exp)[::-1].hex()))
    except FileNotFoundError:
        pass
    try:
        v = json.load(open(os.path.join(d, "bip341_wallet_vectors.json")))
        for k in v["keyPathSpending"]:
            t = parse_raw_tx(bytes.fromhex(k["given"]["rawUnsignedTx"]))
            sp = [(u["amountSats"], bytes.fromhex(u["scriptPubKey"])) for u in k["given"]["utxosSpent"]]
            for i in k["inputSpending"]:
                out.append("taproot %d %d none key 4294967295 %s %s =%s" % (i["given"]["txinIndex"], i["given"]["hashType"], fmt_tx(t), fmt_spent(sp),
                                                                            i["intermediary"]["sigHash"]))
    except FileNotFoundError:
        pass
    return out


LEGACY_HT = [0, 1, 2, 3, 0x80, 0x81, 0x82, 0x83, 4, 0x1f, 0x20, 0x21, 0x22, 0x23, 0x41, 0x42, 0x43, 0x9f, 0xa2, 0xe3, 0xff, 0x100, 0x101, 0x102, 0x103,
             0x183, 0x7fffffff, -1, -2, -125, -126, -2147483648, -2147483645]


def gen_digest(rng, tier):
    cases = list(corpus_cases())
    scale = 1 if tier == "quick" else 25
    # legacy + bip143: every hash type of the list x every index on a few transactions; SINGLE at the output boundary
    for _ in range(12 * scale):
        t = rand_tx(rng)
        sc = rand_script(rng)
        amount = rng.choice([0, 1, 2100000000000000, I64, -1, rng.randrange(0, 2100000000000000)])
        for ht in LEGACY_HT + [rng.randrange(-2 ** 31, 2 ** 31) for _ in range(3)]:
            for nin in range(len(t[1])):
                cases.append("legacy %d %d %s %s" % (nin, ht, hx(sc), fmt_tx(t)))
                cases.append("bip143 %d %d %s %d %s" % (nin, ht, hx(sc), amount, fmt_tx(t)))
    for _ in range(150 * scale):
        nin = rng.choice([1, 2, 3, 4])
        nout = rng.choice([max(0, nin - 1), nin, nin + 1, 0])
        t = rand_tx(rng, nin, nout)
        sc = rand_script(rng)
        ht = rng.choice([3, 0x83, 0x23, 3 + 256, rng.choice(LEGACY_HT)])
        for idx in sorted(set([0, nin - 1, min(nin - 1, max(0, nout - 1)), min(nin - 1, nout)])):
            cases.append("legacy %d %d %s %s" % (idx, ht, hx(sc), fmt_tx(t)))
            cases.append("bip143 %d %d %s %d %s" % (idx, ht, hx(sc), rng.randrange(0, 10 ** 9), fmt_tx(t)))
    # scriptCode shapes on one fixed transaction
    t0 = rand_tx(rng, 2, 2)
    fixed = [b"", b"\xab", b"\xab\xab", b"\x51\xab", b"\xab\x51", b"\x01\xab", b"\x02\xab\xab\xab", b"\x4c\x01\xab\xab", b"\x4d\x01\x00\xab",
             b"\x4e\x01\x00\x00\x00\xab\xab", b"\x02\xaa", b"\x02\xbb", b"\x4c", b"\x4c\x05\xab", b"\x4d\x00", b"\x4e\x00\x00\x00",
             b"\xab\x02\xaa", b"\x51\xab\x4c\x02\xab", bytes([0x4b]) + b"\xab" * 75, bytes([0x4b]) + b"\xab" * 74, b"\x6a" * 253 + b"\xab", b"\xab" * 253]
    for sc in fixed + [rand_script(rng, True, 12) for _ in range(120 * scale)]:
        ht = rng.choice([1, 2, 3, 0x81, 0x82, 0x83])
        cases.append("legacy %d %d %s %s" % (rng.randrange(2), ht, hx(sc), fmt_tx(t0)))
        cases.append("bip143 %d %d %s 5000 %s" % (rng.randrange(2), ht, hx(sc), fmt_tx(t0)))
    # taproot
    valid = [0, 1, 2, 3, 0x81, 0x82, 0x83]
    for _ in range(25 * scale):
        nin = rng.choice([1, 2, 3, 4])
        t = rand_tx(rng, nin, rng.choice([0, nin - 1, nin, nin + 1]))
        sp = [(rng.choice([0, 1, 2100000000000000, I64, -1, rng.randrange(10 ** 12)]),
               rng.choice([bytes([0x51, 0x20]) + rbytes(rng, 32), b"", rbytes(rng, 22), rbytes(rng, 253), rbytes(rng, 3)])) for _ in range(nin)]
        for ht in valid + [rng.randrange(256) for _ in range(2)] + [4, 0x80, 0x84, 0x7f, 0xff]:
            for idx in range(nin):
                annex = rng.choice(["none", "none", "50", "50" + rbytes(rng, 5).hex(), "50" + rbytes(rng, 252).hex(), "50" + rbytes(rng, 251).hex()])
                leaf = rng.choice(["key", "key", rbytes(rng, 32).hex()])
                pos = rng.choice([U32, 0, 1, 2, rng.randrange(U32 + 1)])
                cases.append("taproot %d %d %s %s %d %s %s" % (idx, ht, annex, leaf, pos, fmt_tx(t), fmt_spent(sp)))
    t = rand_tx(rng, 2, 2)
    sp = [(1000, bytes([0x51, 0x20]) + rbytes(rng, 32)), (2000, bytes([0x51, 0x20]) + rbytes(rng, 32))]
    for ht in range(256):
        cases.append("taproot %d %d none key %d %s %s" % (ht & 1, ht, U32, fmt_tx(t), fmt_spent(sp)))
    cases.append("taproot 0 1 none key %d %s 0" % (U32, fmt_tx(t)))       # no spent outputs: missing data
    for _ in range(40 * scale):
        cases.append("tapleaf %d %s" % (rng.choice([0xc0, 0xc2, 0, 0xfe, rng.randrange(256)]), hx(rand_script(rng, True, 10))))
    for n in (0, 1, 252, 253, 254, 600):
        cases.append("tapleaf 192 %s" % hx(rbytes(rng, n)))
    return cases


# ---- encodings ----
def der_int_body(rng, kind):
    if kind == "small": return bytes([rng.randrange(0, 128)])
    if kind == "zero": return b"\x00"
    if kind == "pad": return b"\x00" + bytes([rng.randrange(128, 256)]) + rbytes(rng, rng.randrange(0, 31))
    if kind == "full": return bytes([rng.randrange(1, 128)]) + rbytes(rng, 31)
    n = rng.randrange(2, 33)
    return bytes([rng.randrange(1, 128)]) + rbytes(rng, n - 1)


def der_sig(R, S, ht):
    return bytes([0x30, 4 + len(R) + len(S), 2, len(R)]) + R + bytes([2, len(S)]) + S + bytes([ht])


def int_body(v):
    b = v.to_bytes((v.bit_length() + 7) // 8 or 1, "big")
    if b[0] & 0x80: b = b"\x00" + b
    return b


def gen_enc(rng, tier):
    cases = []
    scale = 1 if tier == "quick" else 20
    FL = [0, 4, 8, 2, 4 | 8, 4 | 2, 8 | 2, 4 | 8 | 2, 1 << 15, (1 << 15) | 2]
    sigs = []
    for _ in range(60 * scale):
        R = der_int_body(rng, rng.choice(["small", "zero", "pad", "full", "rand"]))
        S = der_int_body(rng, rng.choice(["small", "zero", "pad", "full", "rand"]))
        sigs.append(der_sig(R, S, rng.choice([1, 2, 3, 0x81, 0x82, 0x83, 0, 4, 0x80, 0xff, rng.randrange(256)])))
    # boundary sizes
    sigs.append(der_sig(b"\x01", b"\x01", 1))                                   # 9 bytes
    sigs.append(der_sig(b"\x00" + b"\x80" + bytes(31), b"\x00" + b"\x80" + bytes(31), 1))     # 73 bytes
    sigs.append(der_sig(b"\x00" + b"\x80" + bytes(31), b"\x00" + b"\x80" + bytes(32), 1))     # 74 bytes
    sigs.append(der_sig(b"\x01", b"", 1)); sigs.append(der_sig(b"", b"\x01", 1)); sigs.append(der_sig(b"", b"", 1))
    sigs.append(bytes([0x30, 5, 2, 1, 1, 2, 0, 1]))                             # 8 bytes
    # S around order/2 and order; R >= order
    for s in (ORDER // 2, ORDER // 2 + 1, ORDER // 2 - 1, ORDER - 1, ORDER, ORDER + 1, 2 ** 256 - 1, 1, 0, 2 ** 255, 2 ** 256):
        for r in (1, ORDER - 1, ORDER, 2 ** 256 - 1):
            if 7 + len(int_body(r)) + len(int_body(s)) <= 73:
                sigs.append(der_sig(int_body(r), int_body(s), 1))
    for sg in sigs:
        for f in FL[:8]:
            cases.append("sigenc %d %s" % (f, hx(sg)))
    # every single-byte corruption of structural bytes, truncations and extensions of a few signatures
    for sg in sigs[:6 * scale] + sigs[60 * scale:60 * scale + 3]:
        lr = sg[3]
        idxs = set([0, 1, 2, 3, 4, 5, 4 + lr, 5 + lr, 6 + lr, 7 + lr, len(sg) - 2, len(sg) - 1])
        for i in idxs:
            if i < len(sg):
                for v in (0, 1, 2, 0x30, 0x7f, 0x80, 0xff, (sg[i] + 1) & 255, (sg[i] - 1) & 255, len(sg), len(sg) - 3):
                    m = bytearray(sg); m[i] = v & 255
                    cases.append("sigenc %d %s" % (rng.choice([4, 6, 14]), hx(bytes(m))))
        cases.append("sigenc 4 %s" % hx(sg[:-1])); cases.append("sigenc 4 %s" % hx(sg + b"\x01")); cases.append("sigenc 4 %s" % hx(sg[1:]))
    for n in (0, 1, 2, 3, 4, 5, 6, 7, 8, 9, 10):
        for f in (0, 4, 2, 8):
            cases.append("sigenc %d %s" % (f, hx(bytes([0x30] * n))))
    good = der_sig(b"\x01", b"\x01", 0)[:-1]
    for ht in range(256):
        cases.append("sigenc 2 %s" % hx(good + bytes([ht])))
        cases.append("sigenc 0 %s" % hx(good + bytes([ht])))
    for _ in range(60 * scale):
        cases.append("sigenc %d %s" % (rng.choice(FL[:8]), hx(rbytes(rng, rng.choice([1, 8, 9, 10, 70, 71, 72, 73, 74])))))
    # public keys
    for n in (0, 1, 2, 32, 33, 34, 64, 65, 66):
        for p0 in (0, 1, 2, 3, 4, 5, 6, 7, 8, 0xff):
            pk = (bytes([p0]) + rbytes(rng, n - 1)) if n else b""
            for f in (0, 2, 1 << 15, 2 | (1 << 15)):
                for sv in ("base", "v0"):
                    cases.append("pkenc %d %s %s" % (f, sv, hx(pk)))
    return cases


# ---- checksig: end-to-end single-signature spends through VerifyScript ----
# checksig <kind> <flags> nf<0|1> <sigmut> <priv> <pk> <ht_sign> <script> <scriptCode> <codesep-pos> <control|-> S <nIn> <annex|none> TX <spent> C <nIn> <annex|none> TX <spent>
def gen_checksig(rng, tier):
    from props import sighash_ec as ec
    P = core.parse_params()
    bit = lambda name, d: 1 << P.get("SCR_FLAG_" + name, d)
    BASE = bit("P2SH", 0) | bit("WITNESS", 11) | bit("TAPROOT", 17)
    NULLFAIL = bit("NULLFAIL", 14)
    OPT = [P.get("SH_FLAG_STRICTENC", 2), P.get("SH_FLAG_DERSIG", 4), P.get("SH_FLAG_LOW_S", 8), NULLFAIL, P.get("SH_FLAG_WITNESS_PUBKEYTYPE", 32768)]
    cases = []
    scale = 1 if tier == "quick" else 12
    GX = ec.G[0].to_bytes(32, "big")

    def mk_kind(kind, priv, compressed):
        """-> (pk bytes in the script, script, scriptCode, codesep pos, control, spk of the spent output)"""
        if kind in ("p2pk", "p2wsh"):
            pk = ec.pub_compressed(priv) if compressed else ec.pub_uncompressed(priv)
            shape = rng.choice(["plain", "plain", "cs_first", "cs_last", "junk_cs"])
            body = push(pk) + b"\xac"
            if shape == "plain": script, sc = body, body
            elif shape == "cs_first": script, sc = b"\xab" + body, body                    # executed OP_CODESEPARATOR: scriptCode starts after it
            elif shape == "cs_last": script, sc = body + b"\xab", body + b"\xab"           # not executed before CHECKSIG: stays in scriptCode (and is stripped by the legacy serializer)
            else: script, sc = b"\x51\x75\xab" + body, body                                 # OP_1 OP_DROP OP_CODESEPARATOR ...
            if kind == "p2pk":
                return pk, script, sc, U32, "-", script
            import hashlib
            return pk, script, sc, U32, "-", b"\x00\x20" + hashlib.sha256(script).digest()
        if kind == "p2trk":
            pk = ec.pub_xonly(priv)
            return pk, b"", b"", U32, "-", b"\x51\x20" + pk
        pk = ec.pub_xonly(priv)
        shape = rng.choice(["plain", "cs_first", "junk_cs"])
        body = push(pk) + b"\xac"
        if shape == "plain": script, pos = body, U32
        elif shape == "cs_first": script, pos = b"\xab" + body, 0
        else: script, pos = b"\x51\x75\xab" + body, 2
        q, par = ec.taproot_output(GX, ec.tapleaf(script))
        return pk, script, b"", pos, (bytes([0xc0 | par]) + GX).hex(), b"\x51\x20" + q

    def ctx_mutations(kind, t, nin, spent, annex):
        """list of (name, t', nin', spent', annex')"""
        ver, vin, vout, lock = t
        out = [("same", t, nin, spent, annex)]
        out.append(("version", ((ver + 1) & U32, vin, vout, lock), nin, spent, annex))
        out.append(("locktime", (ver, vin, vout, (lock + 1) & U32), nin, spent, annex))
        def with_in(i, f):
            v = list(vin); v[i] = f(v[i]); return (ver, v, vout, lock)
        out.append(("my_prevout_n", with_in(nin, lambda x: (x[0], (x[1] + 1) & U32, x[2], x[3])), nin, spent, annex))
        out.append(("my_prevout_hash", with_in(nin, lambda x: (bytes([x[0][0] ^ 1]) + x[0][1:], x[1], x[2], x[3])), nin, spent, annex))
        out.append(("my_sequence", with_in(nin, lambda x: (x[0], x[1], x[2], x[3] ^ 1)), nin, spent, annex))
        if len(vin) > 1:
            o = (nin + 1) % len(vin)
            out.append(("other_prevout", with_in(o, lambda x: (x[0], (x[1] + 1) & U32, x[2], x[3])), nin, spent, annex))
            out.append(("other_sequence", with_in(o, lambda x: (x[0], x[1], x[2], x[3] ^ 1)), nin, spent, annex))
            out.append(("other_scriptsig", with_in(o, lambda x: (x[0], x[1], x[2] + b"\x51", x[3])), nin, spent, annex))
            sp = list(spent); sp[o] = (sp[o][0] + 1, sp[o][1]); out.append(("other_amount", t, nin, sp, annex))
            sp = list(spent); sp[o] = (sp[o][0], sp[o][1] + b"\x51"); out.append(("other_spk", t, nin, sp, annex))
            # drop the other input / swap positions
            keep = [i for i in range(len(vin)) if i != o]
            out.append(("drop_other_input", (ver, [vin[i] for i in keep], vout, lock), keep.index(nin), [spent[i] for i in keep], annex))
            sw = list(range(len(vin))); sw[nin], sw[o] = sw[o], sw[nin]
            out.append(("swap_inputs", (ver, [vin[i] for i in sw], vout, lock), o, [spent[i] for i in sw], annex))
        extra_in = (rbytes(rng, 32), 7, b"", U32)
        out.append(("add_input", (ver, vin + [extra_in], vout, lock), nin, spent + [(5000, b"\x51")], annex))
        sp = list(spent); sp[nin] = (sp[nin][0] + 1, sp[nin][1]); out.append(("my_amount", t, nin, sp, annex))
        for j in range(len(vout)):
            vo = list(vout); vo[j] = (vo[j][0] + 1, vo[j][1]); out.append(("out%d_value" % j, (ver, vin, vo, lock), nin, spent, annex))
            vo = list(vout); vo[j] = (vo[j][0], vo[j][1] + b"\x51"); out.append(("out%d_script" % j, (ver, vin, vo, lock), nin, spent, annex))
        out.append(("add_output", (ver, vin, vout + [(1, b"\x51")], lock), nin, spent, annex))
        if vout:
            out.append(("drop_last_output", (ver, vin, vout[:-1], lock), nin, spent, annex))
        if kind in ("p2trk", "p2trs"):
            out.append(("annex_toggle", t, nin, spent, "none" if annex != "none" else "50aa"))
            if annex != "none":
                out.append(("annex_change", t, nin, spent, annex + "00"))
        return out

    def line(kind, flags, sigmut, priv, pk, ht, script, sc, pos, ctrl, S, C):
        def ctx(c):
            t, nin, spent, annex = c
            return "%d %s %s %s" % (nin, annex, fmt_tx(t), fmt_spent(spent))
        return "checksig %s %d nf%d %s %064x %s %d %s %s %d %s S %s C %s" % (
            kind, flags, 1 if flags & NULLFAIL else 0, sigmut, priv, hx(pk), ht, hx(script), hx(sc), pos, ctrl, ctx(S), ctx(C))

    for kind in ("p2pk", "p2wsh", "p2trk", "p2trs"):
        for rep in range(3 * scale):
            priv = rng.randrange(1, ec.N)
            compressed = rng.random() < 0.7
            pk, script, sc, pos, ctrl, spk = mk_kind(kind, priv, compressed)
            nin_count = rng.choice([1, 2, 3])
            t = rand_tx(rng, nin_count, rng.choice([1, 2, 3]))
            t = (t[0], t[1], [(max(0, v) % 2100000000000000, s[:40]) for (v, s) in t[2]], t[3])
            nin = rng.randrange(nin_count)
            spent = [(rng.randrange(1, 10 ** 9), b"\x51\x20" + rbytes(rng, 32)) for _ in range(nin_count)]
            spent[nin] = (rng.randrange(1, 10 ** 9), spk)
            annex = rng.choice(["none", "none", "50", "50" + rbytes(rng, 3).hex()]) if kind in ("p2trk", "p2trs") else "none"
            hts = [1, 2, 3, 0x81, 0x82, 0x83] + ([0] if kind in ("p2trk", "p2trs") else [])
            flagsets = [BASE, BASE | sum(OPT)] + [BASE | sum(x for x in OPT if rng.random() < 0.5) for _ in range(2)]
            S = (t, nin, spent, annex)
            # every context mutation under two hash types
            for ht in rng.sample(hts, 3 if tier == "quick" else len(hts)):
                flags = rng.choice(flagsets)
                for (name, t2, nin2, sp2, an2) in ctx_mutations(kind, t, nin, spent, annex):
                    cases.append(line(kind, flags, "none", priv, pk, ht, script, sc, pos, ctrl, S, (t2, nin2, sp2, an2)))
            # signature / key / hash-type mutations on the unchanged context
            for flags in flagsets:
                ht = rng.choice(hts)
                muts = ["none", "flip", "wrongkey", "empty"] + ["ht%d" % x for x in (0, 1, 2, 3, 4, 0x80, 0x81, 0x82, 0x83, 0x84, 0xff, ht ^ 0x80)]
                muts += ["highS"] if kind in ("p2pk", "p2wsh") else ["trunc", "append00", "extend"]
                for m in muts:
                    cases.append(line(kind, flags, m, priv, pk, ht, script, sc, pos, ctrl, S, S))
    # the SIGHASH_SINGLE quirk end to end: a signature over the constant 1 spends from any transaction without a matching output
    for rep in range(4 * scale):
        priv = rng.randrange(1, ec.N)
        pk, script, sc, pos, ctrl, spk = mk_kind("p2pk", priv, True)
        t = rand_tx(rng, 2, 1); t2 = rand_tx(rng, 3, rng.choice([0, 1, 2]))
        sp = [(1000, b"\x51"), (2000, spk)]; sp2 = [(1, b"\x51"), (2, b"\x51"), (3, spk)]
        for ht in (3, 0x83, 0x43):
            cases.append(line("p2pk", BASE, "none", priv, pk, ht, script, sc, pos, ctrl, (t, 1, sp, "none"), (t2, 2, sp2, "none")))
    return cases


def gen(rng, tier):
    return gen_digest(rng, tier) + gen_enc(rng, tier)


TIES = [Tie("sighash_fn", "tie/drivers/sighash_drv.cpp", "Extract_SigHash.v", "sighash_driver.ml", gen,
            predicate="driver", extra_ml=("sighash_sha256.ml",),
            nontrivial=lambda c: True),
        Tie("checksig_e2e", "tie/drivers/sighash_drv.cpp", "Extract_SigHash.v", "sighash_driver.ml", gen_checksig,
            predicate="driver", extra_ml=("sighash_sha256.ml",),
            classify=lambda c: " ".join(c.split(" ", 2)[:2]))]

LEVEL_TEXT = ("Coq theorems over all transactions, input indices, scripts, amounts and hash types: each of the three signature-hash preimages "
              "(legacy, BIP143, BIP341/342; SHA-256 a Section variable applied where the code finalises a hasher) has equal values on two signing "
              "contexts iff the contexts have the same declarative 'view' (the fields the hash type commits to), so under collision-freeness a changed "
              "committed field means the check runs on a different digest and every other field is free; the legacy preimage is the no-witness "
              "serialisation of the reference SignatureHashOld transaction; SIGHASH_SINGLE without matching output yields the constant 1; the strict-DER "
              "recogniser never reads out of bounds and accepts exactly the DER grammar; STRICTENC / taproot hash-type sets; CheckECDSASignature / "
              "CheckSchnorrSignature accept iff the curve oracle accepts the signature for the digest of this context and the signature's hash-type byte. "
              "Models tied to SignatureHash / SignatureHashSchnorr / ComputeTapleafHash / CheckSignatureEncoding / OP_CHECKSIG / VerifyScript by "
              "differential execution, byte for byte, including the repository's sighash.json and BIP341 wallet vectors.")
LEVEL_NOTE = ("Partial with respect to the literal 'makes the check fail': the curve is an oracle, so what is proved is that the check is evaluated on a "
              "different digest (a signature valid for d can be valid for d' = d mod n in principle). One clause is refuted for model and real code "
              "alike (C10_legacy_truncated_push_refuted): the bytes after the opcode/length of a truncated trailing push in a legacy scriptCode are "
              "counted in the CompactSize but not hashed - harmless, such a script always fails with BAD_OPCODE. Hash premises (32-byte output, "
              "injective, never zero / never uint256::ONE) stay in the statements; their joint satisfiability is shown with a toy injective function. "
              "Trusted: Coq kernel, dump_params, extraction + OCaml glue incl. the OCaml SHA-256, the C++ driver, the ser-family byte writers.")
TECHNIQUE = "Coq proof (serialisation injectivity under a collision-freeness premise, recogniser = grammar) + differential correspondence"
