from vlib.runner import Tie
from vlib import core

ID = "C06"
LEVEL = "proof"
DESIGN_REF = "DESIGN.md section 5, C06"
PROP_FILES = ["props/Properties_C06.v"]
RULE = ("sigops_fn cases: parse/count (grammar-generated scripts: every sigop opcode, OP_1..OP_16 and every other kind of opcode before "
        "CHECKMULTISIG(VERIFY), sigops after OP_RETURN, sigop bytes inside push data, direct / PUSHDATA1 / PUSHDATA2 / PUSHDATA4 pushes, "
        "each script also truncated at every position, declared push sizes beyond the end); p2sh (exact and near-miss P2SH templates, "
        "push-only / non-push-only / truncated scriptSigs, redeem script pushed with each push form, scriptSig ending in OP_N); wit "
        "(witness programs of every version opcode and length 1..41 with matching and mismatching length byte, sizes 3/4/42/43, "
        "P2SH-wrapped programs, stacks of 0..3 items, all four flag combinations); tx (1..4 inputs of legacy / P2SH / P2WPKH / P2WSH / "
        "P2SH-P2WSH / P2SH-P2WPKH kind, 0..3 outputs, coinbase or not, flags) ; bip34 (heights around every encoding boundary). "
        "blockcheck cases: blocks on a regtest chain judged by TestBlockValidity at limit-1/limit/limit+1 of the sigop cost (legacy, "
        "P2SH, witness mixes), of the weight, with wrong / missing / second coinbase and wrong BIP34 height. "
        "non-trivial = script or block not empty; distinct = distinct case lines")
ASSUMPTIONS = ["scripts are byte strings of at most 200,000,000 bytes and a transaction's scripts total at most 50,000,000 bytes (a block holds "
               "4,000,000): under these bounds the 32-bit counters cannot wrap (proved)",
               "SCRIPT_VERIFY_WITNESS is only set together with SCRIPT_VERIFY_P2SH (CountWitnessSigOps asserts it)",
               "the block-level model takes the serialized sizes and IsCoinBase() of the transactions as given (serialization is C48/C03)",
               "the models are hand transcriptions; tied by the correspondence on the listed cases"]
TRUSTED = ["Coq 8.16.1 kernel (coqc; vm_compute only in the non-vacuity example)",
           "tie/dump_params.cpp + tie/params/sigops.h print the opcode values, MAX_PUBKEYS_PER_MULTISIG, WITNESS_V0_*_SIZE, MAX_BLOCK_WEIGHT, "
           "MAX_BLOCK_SIGOPS_COST, WITNESS_SCALE_FACTOR from the compiled tree",
           "extraction: ExtrOcamlBasic only; ocaml/conv.ml + sigops_driver.ml glue (hex and rep: expansion)",
           "tie/drivers/sigops_drv.cpp builds the CScript / CScriptWitness / CTransaction / coins view it is told to and prints what GetOp, "
           "GetSigOpCount, CountWitnessSigOps, GetLegacySigOpCount, GetP2SHSigOpCount, GetTransactionSigOpCost return",
           "tie/drivers/blockcheck_drv.cpp builds the block it is told to on TestChain100Setup and prints TestBlockValidity's reject reason"]

SIGOPS = [0xac, 0xad, 0xae, 0xaf]
OPN = list(range(0x51, 0x61))
OTHER = [0x00, 0x4f, 0x50, 0x61, 0x63, 0x67, 0x68, 0x6a, 0x75, 0x76, 0x87, 0x88, 0xa9, 0xab, 0xb0, 0xb1, 0xb2, 0xba, 0xbb, 0xfe, 0xff]


def hx(b):
    return bytes(b).hex() if len(b) else "-"


def push(data, form=None):
    n = len(data)
    if form is None:
        form = 0 if n < 0x4c else 1 if n <= 0xff else 2
    if form == 0 and n < 0x4c:
        return bytes([n]) + bytes(data)
    if form <= 1 and n <= 0xff:
        return bytes([0x4c, n]) + bytes(data)
    if form <= 2 and n <= 0xffff:
        return bytes([0x4d, n & 0xff, n >> 8]) + bytes(data)
    return bytes([0x4e]) + n.to_bytes(4, "little") + bytes(data)


def rand_data(rng, n):
    pool = SIGOPS + OPN + [0, 1, 0x4c, 0x4d, 0x4e, 0xff, 0x6a]
    return bytes(rng.choice(pool) if rng.random() < 0.6 else rng.randrange(256) for _ in range(n))


def rand_op(rng):
    r = rng.random()
    if r < 0.30:
        return bytes([rng.choice(SIGOPS)])
    if r < 0.45:
        return bytes([rng.choice(OPN)])
    if r < 0.60:
        return bytes([rng.choice(OTHER)])
    if r < 0.80:
        return push(rand_data(rng, rng.choice([0, 1, 1, 2, 5, 20, 33, 75])), 0)
    if r < 0.88:
        return push(rand_data(rng, rng.choice([0, 1, 75, 76, 100, 255])), 1)
    if r < 0.95:
        return push(rand_data(rng, rng.choice([0, 1, 255, 256, 300])), 2)
    return push(rand_data(rng, rng.choice([0, 1, 3, 40])), 3)


def rand_script(rng, maxops=8):
    return b"".join(rand_op(rng) for _ in range(rng.randrange(0, maxops + 1)))


def sigop_script(rng, n=None):
    """a script that is mostly sigops with the operations in front of CHECKMULTISIG varied"""
    out = b""
    for _ in range(n if n is not None else rng.randrange(1, 7)):
        r = rng.random()
        if r < 0.4:
            out += bytes([rng.choice([0xac, 0xad])])
        else:
            pre = rng.choice([bytes([rng.choice(OPN)]), bytes([rng.choice(OTHER)]), b"", push(bytes([rng.randrange(1, 17)])),
                              bytes([rng.choice(SIGOPS)]), push(rand_data(rng, 3))])
            out += pre + bytes([rng.choice([0xae, 0xaf])])
    return out


P2SH = bytes([0xa9, 0x14]) + bytes(range(20)) + bytes([0x87])


def p2sh_variants(rng):
    v = [P2SH, P2SH[:-1], P2SH + b"\x00", bytes([0xa9, 0x13]) + P2SH[2:], bytes([0xa8]) + P2SH[1:], P2SH[:-1] + b"\x88",
         bytes([0xa9, 0x4c, 0x14]) + P2SH[2:], P2SH[:22] + b"\x87\x87", b"", bytes([0xa9, 0x14]) + bytes([0xac] * 20) + bytes([0x87]),
         bytes([0xa9, 0x14]) + bytes([0xac] * 20) + bytes([0xac])]
    return v


def witness_programs(rng):
    out = []
    for v in [0x00, 0x51, 0x52, 0x60, 0x4f, 0x50, 0x61, 0x01]:
        for n in [1, 2, 3, 19, 20, 21, 31, 32, 33, 39, 40, 41]:
            out.append(bytes([v, n]) + bytes([7] * n))
    for v in [0x00, 0x51]:
        for n, m in [(20, 19), (20, 21), (32, 31), (32, 33), (2, 1), (40, 41), (0, 2), (1, 2)]:
            out.append(bytes([v, n]) + bytes([7] * m))
        out.append(bytes([v, 0x4c, 20]) + bytes([7] * 20))   # PUSHDATA1 form is not a witness program
    out.append(bytes([0x00]) + bytes([0x14]))
    return out


def witness_stacks(rng):
    ws = sigop_script(rng)
    return [[], [ws], [b"\x01", ws], [ws, b"\x01"], [b"", b"\x02\x03", ws], [b"\xac"], [b""], [bytes([0x52, 0xae])], [bytes([0x60, 0xaf, 0xac])],
            [b"\x05\xac"]]


def fmt_wit(fp, fw, sig, spk, stack):
    return "wit %d %d %s %s %d %s" % (fp, fw, hx(sig), hx(spk), len(stack), " ".join(hx(i) for i in stack))


def fmt_in(sig, prev, stack):
    if len(prev) and prev[0] == 0x6a:       # an OP_RETURN output never enters the UTXO set (AddCoin drops it): not spendable
        prev = b"\x51" + prev
    return "%s %s %d %s" % (hx(sig), hx(prev), len(stack), " ".join(hx(i) for i in stack))


def rand_input(rng, kind=None):
    kind = kind or rng.choice(["legacy", "p2sh", "p2wpkh", "p2wsh", "p2sh-p2wsh", "p2sh-p2wpkh", "bare", "p2sh-bad", "junk"])
    ws = sigop_script(rng)
    if kind == "legacy":
        return (push(rand_data(rng, 71)) + push(rand_data(rng, 33)), bytes([0x76, 0xa9, 0x14]) + bytes(20) + bytes([0x88, 0xac]), [])
    if kind == "bare":
        return (rand_script(rng, 3), sigop_script(rng), [])
    if kind == "p2sh":
        return (rng.choice([b"\x00", b"\x60", b"\x51", b"\x4f"]) + push(rand_data(rng, 10)) + push(ws, rng.choice([None, 1, 2])), P2SH, [])
    if kind == "p2sh-bad":
        return (rng.choice([push(ws) + b"\x76", push(ws)[:-1], push(ws) + b"\x51", b"", b"\xac" + push(ws)]), P2SH, [])
    if kind == "p2wpkh":
        return (b"", bytes([0, 20]) + bytes(20), [rand_data(rng, 71), rand_data(rng, 33)])
    if kind == "p2wsh":
        return (rng.choice([b"", b"\xac"]), bytes([rng.choice([0, 0, 0, 0x51]), 32]) + bytes(32), [b"\x01", ws])
    if kind == "p2sh-p2wsh":
        return (push(bytes([0, 32]) + bytes(32)), P2SH, [b"", ws])
    if kind == "p2sh-p2wpkh":
        return (rng.choice([b"", b"\x00"]) + push(bytes([0, 20]) + bytes(20)), P2SH, [rand_data(rng, 2)])
    return (rand_script(rng, 4), rng.choice(p2sh_variants(rng) + witness_programs(rng)[:30]), rng.choice(witness_stacks(rng)))


def fmt_tx(fp, fw, coinbase, ins, outs):
    return "tx %d %d %d %d %s %d %s" % (fp, fw, 1 if coinbase else 0, len(ins), " ".join(fmt_in(*i) for i in ins), len(outs), " ".join(hx(o) for o in outs))


def gen_fn(rng, tier):
    cases = []
    scripts = [b"", b"\xac", b"\xae", b"\xaf", b"\x6a\xac\xad", bytes([0x51, 0xae]), bytes([0x60, 0xaf]), bytes([0x00, 0xae]), bytes([0x4f, 0xae]),
               bytes([0x50, 0xae]), bytes([0x61, 0xae]), bytes([0x01, 0x03, 0xae]), bytes([0x52]) + push(bytes(33)) * 3 + bytes([0x53, 0xae]),
               bytes([0x4c]), bytes([0x4d, 0x01]), bytes([0x4e, 1, 0, 0]), bytes([0x4e, 0xff, 0xff, 0xff, 0xff, 0xac]), bytes([0x4d, 0xff, 0xff, 0xac]),
               bytes([0x4c, 0x02, 0xac]), bytes([0xac, 0x4b]) + bytes([0xac] * 74), bytes([0xac, 0x4b]) + bytes([0xac] * 75) + b"\xac",
               bytes([0x4e, 0, 0, 0, 0, 0xac]), bytes([0x4d, 0, 0, 0xad]), bytes([0x4c, 0, 0xae])]
    for pre in OPN + OTHER + [0xac, 0xae]:
        for ms in (0xae, 0xaf):
            scripts.append(bytes([pre, ms]))
            scripts.append(bytes([0xac, pre, ms, pre, ms]))
    nrand = 250 if tier == "quick" else 8000
    for _ in range(nrand):
        scripts.append(rand_script(rng))
        scripts.append(sigop_script(rng))
    seen = set()
    for s in scripts:
        cuts = range(len(s) + 1) if len(s) <= 40 else sorted(set([len(s)] + [rng.randrange(len(s)) for _ in range(6)]))
        for k in cuts:
            t = s[:k]
            if t in seen:
                continue
            seen.add(t)
            cases.append("count " + hx(t))
            cases.append("parse " + hx(t))
    # p2sh
    for spk in p2sh_variants(rng):
        for _ in range(6 if tier == "quick" else 60):
            ws = sigop_script(rng)
            sigs = [push(ws), b"\x00" + push(rand_data(rng, 5)) + push(ws), push(ws, 1), push(ws, 2), push(ws, 3), push(ws) + b"\x76", push(ws) + b"\x51",
                    push(ws) + b"\x00", push(ws) + b"\x4f", push(ws) + b"\x50", push(ws) + b"\x61", b"", push(ws)[:-1], b"\x6a" + push(ws),
                    push(ws) + push(b""), push(ws) + bytes([0x4c]), rand_script(rng, 4)]
            # every opcode around the "push" boundary OP_16 in front of the redeem script push
            sigs += [bytes([op]) + push(ws) for op in (0x00, 0x4f, 0x50, 0x51, 0x5f, 0x60, 0x61, 0x62)]
            for sg in sigs:
                cases.append("p2sh %s %s" % (hx(spk), hx(sg)))
    # witness
    wps = witness_programs(rng)
    for spk in wps:
        for st in witness_stacks(rng)[:4]:
            cases.append(fmt_wit(1, 1, b"", spk, st))
        cases.append(fmt_wit(1, 1, b"\xac", spk, [bytes([0xac, 0xac])]))
        # P2SH-wrapped
        for st in witness_stacks(rng)[1:3]:
            cases.append(fmt_wit(1, 1, push(spk), P2SH, st))
            cases.append(fmt_wit(1, 1, b"\x00" + push(spk), P2SH, st))
            for op in (0x4f, 0x50, 0x60, 0x61):       # around the push-only boundary OP_16
                cases.append(fmt_wit(1, 1, bytes([op]) + push(spk), P2SH, st))
        cases.append(fmt_wit(1, 1, push(spk) + b"\x76", P2SH, [bytes([0xac])]))
        cases.append(fmt_wit(1, 1, push(spk, 1), P2SH, [bytes([0xac])]))
        cases.append(fmt_wit(1, 1, push(spk), P2SH[:-1] + b"\x88", [bytes([0xac])]))
    for st in witness_stacks(rng):
        for fp, fw in ((1, 1), (1, 0), (0, 0), (0, 1)):
            cases.append(fmt_wit(fp, fw, b"", bytes([0, 32]) + bytes(32), st))
            cases.append(fmt_wit(fp, fw, push(bytes([0, 32]) + bytes(32)), P2SH, st))
            cases.append(fmt_wit(fp, fw, b"", bytes([0, 20]) + bytes(20), st))
    # transactions
    ntx = 250 if tier == "quick" else 6000
    kinds = ["legacy", "p2sh", "p2wpkh", "p2wsh", "p2sh-p2wsh", "p2sh-p2wpkh", "bare", "p2sh-bad", "junk"]
    for k in kinds:
        for fp, fw in ((1, 1), (1, 0), (0, 0)):
            cases.append(fmt_tx(fp, fw, False, [rand_input(rng, k)], [sigop_script(rng)]))
        cases.append(fmt_tx(1, 1, True, [rand_input(rng, k)], [sigop_script(rng)]))
    for _ in range(ntx):
        coinbase = rng.random() < 0.12
        ins = [rand_input(rng) for _ in range(1 if coinbase else rng.randrange(1, 5))]
        outs = [rng.choice([sigop_script(rng), rand_script(rng, 4), b"\x6a" + sigop_script(rng), P2SH]) for _ in range(rng.randrange(0, 4))]
        fp, fw = rng.choice([(1, 1), (1, 1), (1, 1), (1, 0), (0, 0), (0, 1)])
        cases.append(fmt_tx(fp, fw, coinbase, ins, outs))
    # BIP34 height encodings
    hs = set(range(-2, 20))
    for b in (127, 128, 255, 256, 32767, 32768, 65535, 65536, 8388607, 8388608, 16777215, 16777216, 2147483647, 500000, 227931, 840000):
        hs.update([b - 1, b, b + 1])
    hs.discard(2147483648)
    for _ in range(40 if tier == "quick" else 2000):
        hs.add(rng.randrange(0, 2147483648))
    for h in sorted(hs):
        cases.append("bip34 %d" % h)
    return cases


# ---- end to end: blocks on a regtest chain --------------------------------------------------------------
import hashlib


def sha256(b):
    return hashlib.sha256(bytes(b)).digest()


def _rol(x, n):
    return ((x << n) | (x >> (32 - n))) & 0xffffffff


def ripemd160(msg):
    """pure python RIPEMD-160 (hashlib's may be disabled by the OpenSSL build)"""
    try:
        return hashlib.new("ripemd160", bytes(msg)).digest()
    except Exception:
        pass
    r1 = [0, 1, 2, 3, 4, 5, 6, 7, 8, 9, 10, 11, 12, 13, 14, 15, 7, 4, 13, 1, 10, 6, 15, 3, 12, 0, 9, 5, 2, 14, 11, 8, 3, 10, 14, 4, 9, 15, 8, 1, 2, 7, 0, 6,
          13, 11, 5, 12, 1, 9, 11, 10, 0, 8, 12, 4, 13, 3, 7, 15, 14, 5, 6, 2, 4, 0, 5, 9, 7, 12, 2, 10, 14, 1, 3, 8, 11, 6, 15, 13]
    r2 = [5, 14, 7, 0, 9, 2, 11, 4, 13, 6, 15, 8, 1, 10, 3, 12, 6, 11, 3, 7, 0, 13, 5, 10, 14, 15, 8, 12, 4, 9, 1, 2, 15, 5, 1, 3, 7, 14, 6, 9, 11, 8, 12, 2,
          10, 0, 4, 13, 8, 6, 4, 1, 3, 11, 15, 0, 5, 12, 2, 13, 9, 7, 10, 14, 12, 15, 10, 4, 1, 5, 8, 7, 6, 2, 13, 14, 0, 3, 9, 11]
    s1 = [11, 14, 15, 12, 5, 8, 7, 9, 11, 13, 14, 15, 6, 7, 9, 8, 7, 6, 8, 13, 11, 9, 7, 15, 7, 12, 15, 9, 11, 7, 13, 12, 11, 13, 6, 7, 14, 9, 13, 15, 14, 8,
          13, 6, 5, 12, 7, 5, 11, 12, 14, 15, 14, 15, 9, 8, 9, 14, 5, 6, 8, 6, 5, 12, 9, 15, 5, 11, 6, 8, 13, 12, 5, 12, 13, 14, 11, 8, 5, 6]
    s2 = [8, 9, 9, 11, 13, 15, 15, 5, 7, 7, 8, 11, 14, 14, 12, 6, 9, 13, 15, 7, 12, 8, 9, 11, 7, 7, 12, 7, 6, 15, 13, 11, 9, 7, 15, 11, 8, 6, 6, 14, 12, 13,
          5, 14, 13, 13, 7, 5, 15, 5, 8, 11, 14, 14, 6, 14, 6, 9, 12, 9, 12, 5, 15, 8, 8, 5, 12, 9, 12, 5, 14, 6, 8, 13, 6, 5, 15, 13, 11, 11]
    K1 = [0, 0x5a827999, 0x6ed9eba1, 0x8f1bbcdc, 0xa953fd4e]
    K2 = [0x50a28be6, 0x5c4dd124, 0x6d703ef3, 0x7a6d76e9, 0]
    def f(j, x, y, z):
        return [x ^ y ^ z, (x & y) | (~x & z), (x | ~y) ^ z, (x & z) | (y & ~z), x ^ (y | ~z)][j] & 0xffffffff
    msg = bytes(msg)
    ml = len(msg) * 8
    msg += b"\x80" + b"\x00" * ((55 - len(msg)) % 64) + ml.to_bytes(8, "little")
    h = [0x67452301, 0xefcdab89, 0x98badcfe, 0x10325476, 0xc3d2e1f0]
    for off in range(0, len(msg), 64):
        X = [int.from_bytes(msg[off + 4 * i:off + 4 * i + 4], "little") for i in range(16)]
        a1, b1, c1, d1, e1 = h
        a2, b2, c2, d2, e2 = h
        for j in range(80):
            t = (_rol((a1 + f(j // 16, b1, c1, d1) + X[r1[j]] + K1[j // 16]) & 0xffffffff, s1[j]) + e1) & 0xffffffff
            a1, e1, d1, c1, b1 = e1, d1, _rol(c1, 10), b1, t
            t = (_rol((a2 + f(4 - j // 16, b2, c2, d2) + X[r2[j]] + K2[j // 16]) & 0xffffffff, s2[j]) + e2) & 0xffffffff
            a2, e2, d2, c2, b2 = e2, d2, _rol(c2, 10), b2, t
        t = (h[1] + c1 + d2) & 0xffffffff
        h = [t, (h[2] + d1 + e2) & 0xffffffff, (h[3] + e1 + a2) & 0xffffffff, (h[4] + a1 + b2) & 0xffffffff, (h[0] + b1 + c2) & 0xffffffff]
    return b"".join(x.to_bytes(4, "little") for x in h)


def cs(n):
    return 1 if n < 253 else 3 if n <= 0xffff else 5 if n <= 0xffffffff else 9


class Big:
    """a script given as prefix bytes + a run of one byte (kept symbolic so that case lines stay small)"""
    def __init__(self, prefix, byte, count):
        self.prefix, self.byte, self.count = bytes(prefix), byte, count
    def __len__(self):
        return len(self.prefix) + self.count
    def hex(self):
        return (self.prefix.hex() + "+" if self.prefix else "") + "rep:%02x:%d" % (self.byte, self.count)


def shex(s):
    return s.hex() if isinstance(s, Big) else hx(s)


def tx_sizes(ins, outs):
    stripped = 4 + cs(len(ins)) + sum(36 + cs(len(sg)) + len(sg) + 4 for (sg, _, _) in ins) + cs(len(outs)) + sum(8 + cs(len(o)) + len(o) for o in outs) + 4
    if any(len(st) for (_, _, st) in ins):
        wit = 2 + sum(cs(len(st)) + sum(cs(len(i)) + len(i) for i in st) for (_, _, st) in ins)
    else:
        wit = 0
    return stripped, stripped + wit


def fmt_blk(bip34_height, txs, fund=None):
    """txs: list of (coinbase?, ins, outs); ins = (scriptSig, prev spk, witness stack).  The funding outputs are the prev scripts used."""
    N = 102
    fund = [i[1] for (cbf, ins, _) in txs if not cbf for i in ins] if fund is None else fund
    any_wit = any(len(st) for (_, ins, _) in txs for (_, _, st) in ins)
    first_cb = len(txs) > 0 and txs[0][0]
    stripped = 80 + cs(len(txs))
    total = 80 + cs(len(txs))
    for k, (cbf, ins, outs) in enumerate(txs):
        s, t = tx_sizes(ins, outs)
        if k == 0 and first_cb and any_wit:
            # GenerateCoinbaseCommitment: one more output (8 + 1 + 38 bytes) and, when the coinbase has no witness yet, a 32-byte witness item
            s += 47; t += 47
            if not any(len(st) for (_, _, st) in ins):
                t += 2 + 1 + 1 + 32
        stripped += s; total += t
    cbsig = txs[0][1][0][0] if first_cb else b""
    parts = ["blkchk", "1" if N >= bip34_height else "0", str(N), str(stripped), str(total), shex(cbsig), str(len(txs))]
    for (cbf, ins, outs) in txs:
        parts += ["1", "1", "1" if cbf else "0", str(len(ins))]
        for (sg, prev, st) in ins:
            parts += [shex(sg), shex(prev), str(len(st))] + [shex(i) for i in st]
        parts += [str(len(outs))] + [shex(o) for o in outs]
    parts += ["world", str(bip34_height), str(len(fund))] + [shex(f) for f in fund]
    return " ".join(parts), stripped, total


def unexecuted(body):
    """OP_0 OP_IF <body> OP_ENDIF OP_1 : the sigops in body are counted but never executed; leaves exactly one true element"""
    return b"\x00\x63" + bytes(body) + b"\x68\x51"


def usig(n):
    """an executable script whose accurate sigop count is n (n <= 3000): OP_16 CHECKMULTISIG pairs count 16 each and CHECKSIGs 1 each,
    inside an unexecuted branch; at most 201 non-push opcodes may appear in an executed script (MAX_OPS_PER_SCRIPT)"""
    a, b = n // 16, n % 16
    assert a + b <= 190
    return unexecuted(bytes([0x60, 0xae]) * a + bytes([0xac]) * b)


def p2sh_of(redeem):
    return bytes([0xa9, 0x14]) + ripemd160(sha256(redeem)) + bytes([0x87])


def p2wsh_of(ws):
    return bytes([0x00, 0x20]) + sha256(ws)


def height_push(h):
    if h == 0:
        return b"\x00"
    if 1 <= h <= 16:
        return bytes([0x50 + h])
    b = []
    a = h
    while a:
        b.append(a & 0xff); a >>= 8
    if b[-1] & 0x80:
        b.append(0)
    return bytes([len(b)]) + bytes(b)


def coinbase(outs, h=102, extra=b"\x00\x00", sig=None):
    return (True, [(sig if sig is not None else height_push(h) + extra, b"", [])], outs)


ANYONE = b"\x51"


def spend(prev=ANYONE, sig=b"", wit=(), outs=(b"\x51",)):
    return (False, [(sig, prev, list(wit))], list(outs))


def gen_blocks(rng, tier):
    pending = []
    def add(txs, bip34_height=1):
        pending.append((bip34_height, txs))
    CS = lambda n: bytes([0xac]) * n
    # --- legacy sigops in outputs: 4 * 20000 = 80000 is the last accepted value
    for n in (19999, 20000, 20001):
        add([coinbase([CS(10000), CS(n - 10000)])])
        add([coinbase([b"\x51"]), spend(outs=[CS(10000), b"\x6a" + CS(n - 10000)])])          # also behind OP_RETURN
    for n in (999, 1000, 1001):
        add([coinbase([bytes([0xae]) * n])])                                                    # CHECKMULTISIG = 20 each in the legacy count
        add([coinbase([bytes([0x53, 0xae]) * n])])                                              # OP_3 in front does not help the legacy count
    # scriptSig sigops of a plain input count as legacy too
    for n in (39, 40, 41):
        add([coinbase([CS(19960)]), spend(sig=b"\x00\x63" + CS(n) + b"\x68")])
    # --- P2SH: 4 per sigop of the redeem script (accurate count)
    for n in (499, 500, 501):
        r1, r2 = usig(500), usig(n)
        add([coinbase([CS(19000)]), spend(prev=p2sh_of(r1), sig=push(r1)), spend(prev=p2sh_of(r2), sig=b"\x00" + push(r2))])   # 76000 + 2000 + 4n
    for n in (15, 16):   # OP_n CHECKMULTISIG counts n in a redeem script
        rd = unexecuted(bytes([0x50 + n, 0xae]) * 10)
        add([coinbase([CS(19840)]), spend(prev=p2sh_of(rd), sig=push(rd))])                     # 79360 + 4*10*n : 79960 / 80000
    rd = unexecuted(bytes([0x60, 0xae]) * 10 + b"\xac")
    add([coinbase([CS(19840)]), spend(prev=p2sh_of(rd), sig=push(rd))])                         # 80004
    # --- witness: 1 per sigop of the witness script; P2SH-wrapped the same
    for n in (39, 40, 41):
        ws = usig(n)
        add([coinbase([CS(19990)]), spend(prev=p2wsh_of(ws), wit=[ws])])
        wrapped = p2wsh_of(ws)
        add([coinbase([CS(19990)]), spend(prev=p2sh_of(wrapped), sig=push(wrapped), wit=[ws])])
    for n in (3999, 4000, 4001):
        w1, w2 = usig(2000), usig(n - 2000)
        add([coinbase([CS(19000)]), spend(prev=p2wsh_of(w1), wit=[w1]), spend(prev=p2wsh_of(w2), wit=[w2])])
    # all kinds together, at 79999 / 80000 / 80001
    for d in (-1, 0, 1):
        rd = usig(100); ws = b"\x75" + usig(1000 + d); ws2 = unexecuted(bytes([0x5a, 0xaf]) * 20)
        add([coinbase([CS(10000), b"\x6a" + CS(9000)]),                                        # 76000
             spend(sig=b"\x00\x63" + CS(100) + b"\x68", outs=[CS(100)]),                       # +800 = 76800
             spend(prev=p2sh_of(rd), sig=push(rd), outs=[bytes([0xae]) * 10]),                 # +400 +800 = 78000
             spend(prev=p2wsh_of(ws), wit=[b"", ws]),                                          # +1000+d
             spend(prev=p2sh_of(p2wsh_of(ws2)), sig=push(p2wsh_of(ws2)), wit=[ws2]),           # +200 = 79200+d
             spend(outs=[CS(200)])])                                                           # +800 = 80000+d
    # --- structure
    add([])
    add([spend()])                                                                              # no coinbase
    add([spend(), coinbase([b"\x51"])])                                                         # coinbase not first
    add([coinbase([b"\x51"]), coinbase([b"\x52"], extra=b"\x01\x01")])                          # two coinbases
    add([coinbase([b"\x51"]), spend(), coinbase([b"\x52"], extra=b"\x01\x01")])
    add([coinbase([b"\x51"])])
    add([coinbase([b"\x51"]), spend()])
    # --- BIP34 height in the coinbase
    for bip34_height in (1, 102, 103, 500):
        for sig in (height_push(102) + b"\x00", height_push(102), height_push(101) + b"\x00", height_push(103) + b"\x00",
                    bytes([0x4c, 0x01, 102, 0]), bytes([0x02, 102, 0]), bytes([0x01, 102 + 256 & 0xff, 0]), b"\x00" + height_push(102),
                    height_push(102)[:1] + b"\x67", bytes([0x01]) + b"\x00" + bytes([102])):
            if 2 <= len(sig) <= 100:
                add([coinbase([b"\x51"], sig=sig)], bip34_height=bip34_height)
    # --- size and weight (paddings are split into outputs of at most 60,000 bytes: the extracted model walks scripts recursively)
    def pad(n):
        return Big(bytes([0x6a, 0x4e]) + n.to_bytes(4, "little"), 0, n)
    def pads(total, last):
        return [pad(60000) for _ in range(total // 60000)] + [pad(last)]
    for target in (999999, 1000000, 1000001):
        txs = [coinbase([b"\x51"]), spend(outs=pads(480000, 1000)), spend(outs=pads(480000, 1000))]
        _, s0, t0 = fmt_blk(1, txs)
        txs[2] = spend(outs=pads(480000, 1000 + target - s0))
        add(txs)
    ws = b"\x75" + unexecuted(b"\xac")      # OP_DROP first: the extra witness item must not stay on the stack
    for target in (3999999, 4000000, 4000001):
        txs = [coinbase([b"\x51"]), spend(outs=pads(480000, 1000)), spend(outs=pads(480000, 1000)), spend(prev=p2wsh_of(ws), wit=[bytes(300), ws])]
        _, s0, t0 = fmt_blk(1, txs)
        k = target - (3 * s0 + t0)     # every stripped byte weighs 4: adjust the padding (4 per byte) and the witness item (1 per byte)
        txs[2] = spend(outs=pads(480000, 1000 + k // 4))
        txs[3] = spend(prev=p2wsh_of(ws), wit=[bytes(300 + k % 4), ws])
        add(txs)
    # random small blocks with sigops of every kind near the limit
    for _ in range(12 if tier == "quick" else 300):
        base = rng.randrange(18000, 19990)
        txs = [coinbase([CS(base)])]
        cost = 4 * base
        target = 80000 + rng.choice([-3, -1, 0, 0, 1, 2, 4])
        while cost < target:
            left = target - cost
            kind = rng.choice(["out", "p2sh", "wsh", "wrapped", "sig"])
            if kind in ("wsh", "wrapped") or left < 4:
                n = min(left, rng.randrange(1, 2500))
                w = usig(n)
                txs.append(spend(prev=p2wsh_of(w), wit=[w]) if kind != "wrapped" else spend(prev=p2sh_of(p2wsh_of(w)), sig=push(p2wsh_of(w)), wit=[w]))
                cost += n
            elif kind == "out":
                n = min(left // 4, rng.randrange(1, 2000)); txs.append(spend(outs=[b"\x6a" * rng.randrange(0, 2) + CS(n)])); cost += 4 * n
            elif kind == "sig":
                n = min(left // 4, rng.randrange(1, 150)); txs.append(spend(sig=b"\x00\x63" + CS(n) + b"\x68")); cost += 4 * n
            else:
                n = min(left // 4, rng.randrange(1, 500)); r = usig(n); txs.append(spend(prev=p2sh_of(r), sig=push(r))); cost += 4 * n
        add(txs)
    # blocks of the same chain share one world: its funding transaction has, for every script, as many outputs as the neediest block
    cases = []
    for bh in sorted(set(b for b, _ in pending)):
        group = [t for b, t in pending if b == bh]
        for off in range(0, len(group), 25):
            chunk = group[off:off + 25]
            need = {}
            for txs in chunk:
                cnt = {}
                for (cbf, ins, _) in txs:
                    if not cbf:
                        for i in ins:
                            cnt[bytes(i[1])] = cnt.get(bytes(i[1]), 0) + 1
                for k, v in cnt.items():
                    need[k] = max(need.get(k, 0), v)
            fund = [k for k in sorted(need) for _ in range(need[k])]
            for txs in chunk:
                cases.append(fmt_blk(bh, txs, fund)[0])
    return cases


TIES = [Tie("sigops_fn", "tie/drivers/sigops_drv.cpp", "Extract_SigOps.v", "sigops_driver.ml", gen_fn, predicate="driver",
            nontrivial=lambda c: not c.endswith(" -")),
        Tie("blockcheck", "tie/drivers/blockcheck_drv.cpp", "Extract_SigOps.v", "sigops_driver.ml", gen_blocks, predicate="driver",
            nontrivial=lambda c: " 0 world" not in c[:40])]

LEVEL_TEXT = ("Coq theorems for all scripts within the stated size bounds: GetSigOpCount equals the declarative count over the parsed operation "
              "list (1 per CHECKSIG(VERIFY), OP_N value or 20 per CHECKMULTISIG(VERIFY), nothing after the first unreadable operation); the "
              "P2SH and witness counters are the accurate count of the redeem / witness script selected by the stated rule; the transaction "
              "cost is 4*legacy + 4*P2SH + witness; the block rules accept iff one coinbase first, the BIP34 height prefix, 4*count, 4*stripped "
              "size and 3*stripped+total within 4,000,000 and sigop cost within 80,000 (iff: one above any bound is rejected, with the reason "
              "named). Models tied to the real parser and counters by differential execution on grammar-generated and truncated scripts; "
              "constants regenerated from the compiled tree each run.")
LEVEL_NOTE = ("Trusted: Coq kernel, dump_params.cpp, extraction + driver glue. The block-level model abstracts a block to (IsCoinBase, legacy "
              "count, cost) per transaction plus the two serialized sizes and the coinbase scriptSig; CheckTransaction (C03), finality (C05) and "
              "the witness commitment are other properties' rules. Sigops after OP_RETURN are counted by the code (GetSigOpCount does not stop "
              "at OP_RETURN) and by the model.")
TECHNIQUE = "Coq proof (model = declarative spec) + differential correspondence"
