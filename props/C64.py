from vlib.runner import Tie
from vlib import core

ID = "C64"
LEVEL = "proof"
DESIGN_REF = "DESIGN.md section 5, C64"
PROP_FILES = ["props/Properties_C64.v"]
RULE = ("cases: histories over a parent P (pays to a P2WPKH key), the genuine spend G of it, copies of G with the same txid and a damaged "
        "signature (Gb), no witness at all (Gs, wtxid = txid) or an extra witness item (Go), a child K of G and an unrelated X: announcements "
        "by wtxid and by txid, deliveries in every order from 3-4 wtxid-relay peers (copies first, as orphans while P is unknown and again "
        "after P arrives), polls of all peers with time advanced past every delay and expiry, NOTFOUNDs and disconnections, blocks "
        "containing P and/or G with the tip change, reorg notifications; seeded random histories plus fixed orderings. "
        "non-trivial = the history delivers at least one copy; distinct = distinct case lines")
ASSUMPTIONS = ["hash collision freeness: no transaction other than the genuine one has its wtxid as txid or wtxid (premise ev_other of the theorems)",
               "mempool validation is a parameter V of the model; the theorems hold for every V; the correspondence instantiates it from the kind of each "
               "labelled transaction and compares the verdict classes with the implementation's",
               "the rolling bloom filters are modelled as exact sets (a false positive, probability about 1e-6 per lookup, would be reported as a "
               "difference); orphanage limits (C35) and request scheduling (C34) are abstracted: one `poll` = every delay elapsed, every request expired",
               "all peers are wtxid-relay, preferred peers below their announcement limits; 1p1c package validation is left out",
               "still-requested is proved for the step announcement -> poll (C64_genuine_still_requested_partial); persistence of the honest peer's "
               "candidate through intermediate events is observed by the correspondence, not proved"]
TRUSTED = ["Coq 8.16.1 kernel (coqc)",
           "extraction: ExtrOcamlBasic only; ocaml/conv.ml + txdownload_driver.ml glue (the validation function by transaction kind)",
           "tie/drivers/txdownload_drv.cpp builds the transactions on a TestChain100Setup chain, calls the real TxDownloadManagerImpl and "
           "ChainstateManager::ProcessTransaction, and replicates PeerManagerImpl's TX / orphan handling around them"]

COPIES = ["Gb", "Gs", "Go"]
PEER_OF = {"Gb": 2, "Go": 2, "Gs": 3, "K": 0, "P": 0, "X": 0, "G": 1}


def fixed():
    c = []
    # copies first, parent known / unknown / confirmed, then the honest announcement and delivery
    for copies in (["Gb"], ["Gs"], ["Go"], ["Gb", "Gs", "Go"], ["Gs", "Gb"]):
        for parent in ("none", "mempool", "block", "late"):
            ev = []
            if parent == "mempool":
                ev += ["T 0 P"]
            if parent == "block":
                ev += ["T 0 P", "B 1 P"]
            for k, m in enumerate(copies):
                ev += ["I %d w %s" % (2 + k % 2, m), "T %d %s" % (2 + k % 2, m)]
            ev += ["I 1 w G", "Q"]
            if parent == "late":
                ev += ["T 0 P"]
            ev += ["T 1 G", "Q"]
            for k, m in enumerate(copies):
                ev += ["T 3 %s" % m]
            ev += ["I 0 t G", "I 0 w G", "Q"]
            c.append(ev)
    # a child of G arrives first: parent fetch by txid, then copies, then G
    c.append(["T 0 P", "T 2 K", "Q", "T 3 Gs", "T 3 Gb", "I 1 w G", "Q", "T 1 G", "Q"])
    c.append(["T 2 K", "T 3 Gs", "Q", "T 0 P", "I 1 w G", "Q", "T 1 G"])
    # the txid-lookup corner: a stripped copy waiting in the orphanage
    c.append(["T 2 Gs", "I 1 t G", "I 1 w G", "Q"])
    # G confirmed in a block while copies are orphans
    c.append(["T 2 Gb", "T 3 Gs", "B 2 P G", "I 1 w G", "Q"])
    c.append(["T 0 P", "T 2 Gb", "R", "T 2 Gb", "I 1 w G", "Q", "T 1 G"])
    c.append(["T 0 P", "T 2 Gb", "B 0", "T 2 Gb", "I 1 w G", "Q", "T 1 G"])
    return c


def gen(rng, tier):
    cases = ["c64 4 %d %s" % (len(ev), " ".join(ev)) for ev in fixed()]
    n = 110 if tier == "quick" else 160
    for _ in range(n):
        ev = []
        polled = False
        g_delivered = False
        nev = rng.randrange(3, 14)
        announced = False
        for _k in range(nev):
            r = rng.random()
            if r < 0.28:
                m = rng.choice(COPIES)
                ev.append("T %d %s" % (PEER_OF[m], m))
            elif r < 0.40:
                # announcements by wtxid from the peer that owns the label (an orphan announced by a second peer is
                # reconsidered on behalf of a randomly chosen announcer, which the model does not predict)
                m = rng.choice(COPIES + ["K", "P"])
                ev.append("I %d w %s" % (PEER_OF[m], m))
            elif r < 0.50:
                ev.append("T 0 P")
            elif r < 0.58:
                ev.append("I 1 w G"); announced = True
            elif r < 0.66:
                ev.append("Q"); polled = True
            elif r < 0.74 and announced:
                ev.append("T 1 G"); g_delivered = True
            elif r < 0.79:
                ev.append("T 0 %s" % rng.choice(["K", "X"]))
            elif r < 0.84 and not polled:
                ev.append(rng.choice(["D 3", "D 2", "N 2 w Gb", "N 3 w G", "N 3 w Gs"]))
            elif r < 0.88:
                ev.append("R")
            elif r < 0.92:
                ev.append("B 0")
            else:
                ev.append("C %d" % rng.choice([2, 3]))
        if not announced:
            ev.append("I 1 w G")
        ev.append("Q")
        if not g_delivered and rng.random() < 0.7:
            ev.append("T 1 G")
        cases.append("c64 4 %d %s" % (len(ev), " ".join(ev)))
    return cases


TIES = [Tie("txdownload_fn", "tie/drivers/txdownload_drv.cpp", "Extract_TxDownloadMall.v", "txdownload_driver.ml", gen,
            predicate="driver", nontrivial=lambda c: any(" T %d %s" % (p, m) in c for p in (2, 3) for m in COPIES), timeout=3000)]

LEVEL_TEXT = ("Coq theorems about an executable transcription of TxDownloadManagerImpl (reject / reconsiderable / confirmed filters, orphanage keyed by "
              "wtxid, request tracker, AlreadyHaveTx, AddTxAnnouncement, ReceivedTx, MempoolRejectedTx's insertion rules, MempoolAcceptedTx, block and tip "
              "notifications), for EVERY validation function and EVERY history in which the genuine transaction itself has not been delivered — any "
              "malleated copies (other wtxid: invalid, stripped, oversized witness; orphaned or not), any other transactions, announcements, NOTFOUNDs, "
              "disconnections, polls, blocks, reorgs: the genuine wtxid is in none of the filters, is not 'already have', an announcement of it by a connected "
              "peer is recorded as a candidate and the next poll asks for it, and when it arrives it is validated and, if validation accepts it, is in the "
              "mempool. The lookup by TXID is shown not to have this protection (a witness-stripped copy in the orphanage answers it; replayed on the "
              "implementation). Model tied to the real TxDownloadManagerImpl + real mempool validation on generated histories.")
LEVEL_NOTE = ("Trusted: Coq kernel, extraction and driver glue. Filters are exact sets in the model, the request tracker is abstracted to candidate / "
              "requested / completed with a poll step (C34 has the real scheduling), orphanage limits are absent (C35). 'Still requested' is proved for the "
              "step announcement -> poll only (_partial): persistence of the candidate through intermediate events is checked by the correspondence. The "
              "property's premise that copies are invalid is not needed by the theorems: they hold for any validation function as long as no other "
              "transaction carries the genuine wtxid.")
TECHNIQUE = "Coq proof (fresh-name invariant over all events by induction, poll-loop invariant) + differential correspondence on real validation"
