from vlib.runner import Tie
from vlib import core

ID = "C33"
LEVEL = "proof"
DESIGN_REF = "DESIGN.md section 5, C33"
PROP_FILES = ["props/Properties_C33.v"]
RULE = ("cases: 'hs <commitment_period> <commit_offset> <redownload_buffer_size> <secs> <min_work> <start_height> <start_bits> <start_work> | "
        "<calls>' = one peer history against one HeadersSyncState (main-chain consensus parameters): calls are headers messages (full / "
        "partial) of abstract headers id:prev:nBits:commitment-bit. Periods 1..5 with every offset, buffers 0..5, max commitments 0..large "
        "(through the mocked clock), start heights around the 2016 retarget boundary, minimum work at k headers -1/0/+1. Peer behaviours: "
        "honest two-pass, too little work, partial messages at every point, switching to a different chain in the second pass at every "
        "height (same or different commitment bits), non-connecting first/inner headers, forbidden and permitted difficulty changes in "
        "either pass, second pass longer than the first (commitment overrun), re-serving the first pass up to its last commitment height "
        "and then a long cheap chain past further commitment heights (the deciding work being in the harder tail), calls after the end. Compared per call: success, "
        "request_more, state, ids and prevhashes of pow_validated_headers. A case is non-trivial when it has at least 2 calls; distinct = "
        "distinct case lines.")
ASSUMPTIONS = ["the caller passes internally continuous batches (net_processing checks this before): in PRESYNC only the first header's prevhash is "
               "compared by HeadersSyncState itself, as in the model",
               "header hashes are collision free on the headers of a history (the model takes the hash as a field)",
               "the salted commitment bit is a function of the header (the driver grinds the nonce to realise the bit chosen by the case); "
               "the probability statement about guessing bits is outside the theorems",
               "the model is a hand transcription; PermittedDifficultyTransition / SetCompact come from the pow family's model (model/Pow.v)"]
TRUSTED = ["Coq 8.16.1 kernel (coqc; no native_compute)",
           "extraction: ExtrOcamlBasic only; ocaml/conv.ml + headerssync_driver.ml glue",
           "tie/drivers/headerssync_drv.cpp builds real CBlockHeaders for abstract ids, fixes m_max_commitments through the mock clock and "
           "m_commit_offset by re-construction, reads m_hasher / m_commit_offset through '#define private public'"]

LIMIT = 0x1d00ffff          # pow limit of the main chain
Q4 = 0x1c3fffc0             # limit / 4
Q16 = 0x1c0ffff0            # limit / 16
Q64 = 0x1c03fffc            # limit / 64


def target_of(bits):
    e, m = bits >> 24, bits & 0x7fffff
    return m >> (8 * (3 - e)) if e <= 3 else m << (8 * (e - 3))


def proof(bits):
    t = target_of(bits)
    return 0 if t == 0 else (2 ** 256) // (t + 1)


def hd(i, prev, bits, cbit):
    return "%d:%d:%d:%d" % (i, prev, bits, cbit)


def batches(rng, hs, full_last=True, partial_at=None):
    out, i, n = [], 0, 0
    while i < len(hs):
        k = rng.randrange(1, 6)
        chunk = hs[i:i + k]
        i += k
        full = True
        if i >= len(hs) and not full_last:
            full = False
        if partial_at is not None and n == partial_at:
            full = False
        out.append((full, chunk))
        n += 1
    return out


def gen_case(rng):
    period = rng.choice([1, 1, 2, 3, 5])
    offset = rng.randrange(0, period)
    buffer = rng.choice([0, 1, 1, 2, 3, 5])
    start_height = rng.choice([0, 7, 2009, 2012, 2014, 2015, 4030])
    start_bits = rng.choice([LIMIT, Q4, Q4, Q16])
    start_work = rng.choice([0, 0, 12345])
    n1 = rng.randrange(1, 16)               # length of the chain served in the first pass
    nid = [0]

    def new_id():
        nid[0] += 1
        return nid[0]

    def chain(n, start_prev, first_height, prev_bits, easy=None):
        """n headers from height first_height, bits constant except a permitted change at multiples of 2016"""
        hs, prev, bits = [], start_prev, prev_bits
        for j in range(n):
            h = first_height + j
            if h % 2016 == 0:
                choices = [bits]
                if bits == Q4:
                    choices += [LIMIT, Q16] if easy is None else ([LIMIT] if easy else [Q16])
                elif bits == Q16:
                    choices += [Q4, Q64] if easy is None else ([Q4] if easy else [Q64])
                elif bits == LIMIT:
                    choices += [Q4] if not easy else []
                bits = rng.choice(choices)
            i = new_id()
            hs.append(dict(id=i, prev=prev, bits=bits, cbit=rng.randrange(2)))
            prev = i
        return hs
    A = chain(n1, 0, start_height + 1, start_bits, easy=rng.choice([None, False, True]))
    work = lambda hs: sum(proof(h["bits"]) for h in hs)
    # minimum work: reached after k headers of A (or never)
    k = rng.randrange(1, n1 + 3)
    reach = work(A[:k]) if k <= n1 else work(A) + proof(A[-1]["bits"]) * (k - n1)
    min_work = max(0, start_work + reach + rng.choice([-1, 0, 0, 1]))
    # commitments needed in the first pass; choose the clock so that max_commitments is around that
    need = sum(1 for j in range(min(k, n1)) if (start_height + 1 + j) % period == offset)
    mc = rng.choice([need - 1, need, need, need + 1, need + 50, 10 ** 6])
    mc = max(0, mc)
    secs = -(-mc * period // 6)                      # smallest secs with 6*secs/period >= mc
    behaviour = rng.choice(["honest", "honest", "switch", "switch", "baddiff1", "baddiff2", "nonconnect1", "nonconnect2",
                            "partial", "lowwork", "overrun", "after"])
    calls = []
    first = list(A)
    if behaviour == "baddiff1" and first:
        j = rng.randrange(len(first))
        first[j] = dict(first[j], bits=rng.choice([LIMIT, Q4, Q16, Q64, 0x1b0404cb, 0]))
    if behaviour == "nonconnect1":
        j = rng.choice([0, 0, rng.randrange(len(first))])
        first[j] = dict(first[j], prev=rng.choice([999, first[j]["id"], -1]))
    calls += batches(rng, first, full_last=(behaviour != "lowwork" and rng.random() < 0.9),
                     partial_at=(rng.randrange(0, 4) if behaviour == "partial" and rng.random() < 0.5 else None))
    # second pass
    B = [dict(h) for h in A]
    if behaviour == "switch" and B:
        j = rng.randrange(len(B))
        prev = B[j]["prev"]
        for t in range(j, len(B)):
            i = new_id()
            B[t] = dict(id=i, prev=prev, bits=B[t]["bits"], cbit=(B[t]["cbit"] if rng.random() < 0.7 else 1 - B[t]["cbit"]))
            prev = i
    if behaviour == "overrun" and B:
        # an easier chain after the retarget needs more headers than commitments were taken
        B = chain(len(B) + rng.randrange(1, 6), 0, start_height + 1, start_bits, easy=True)
        for x, a in zip(B, A):
            x["cbit"] = a["cbit"]
    if rng.random() < 0.5:
        ext = chain(rng.randrange(1, 8), B[-1]["id"] if B else 0, start_height + 1 + len(B), B[-1]["bits"] if B else start_bits)
        B += ext
    if behaviour == "baddiff2" and B:
        j = rng.randrange(len(B))
        B[j] = dict(B[j], bits=rng.choice([LIMIT, Q4, Q16, Q64, 0]))
    if behaviour == "nonconnect2" and B:
        j = rng.randrange(len(B))
        B[j] = dict(B[j], prev=rng.choice([999, B[j]["id"], 0]))
    calls += batches(rng, B, full_last=rng.random() < 0.7,
                     partial_at=(rng.randrange(0, 5) if behaviour == "partial" else None))
    if behaviour == "after" or rng.random() < 0.1:
        calls += batches(rng, chain(3, B[-1]["id"] if B else 0, start_height + 1 + len(B), start_bits))
    if rng.random() < 0.05:
        calls.insert(rng.randrange(len(calls) + 1), (True, []))
    txt = " ; ".join(("F" if f else "P") + (" " + ",".join(hd(h["id"], h["prev"], h["bits"], h["cbit"]) for h in c) if c else "")
                     for f, c in calls)
    return "hs %d %d %d %d %d %d %d %d | %s" % (period, offset, buffer, secs, min_work, start_height, start_bits, start_work, txt)


def gen_overrun_tail(rng):
    """A peer that re-serves the first-pass chain up to its last commitment height (still below the minimum
    work: the deciding work is in the harder tail after a retarget), then continues with a long cheap chain
    that crosses further commitment heights, for which the first pass took no commitment, and overfills the
    redownload buffer."""
    t = rng.randrange(1, 4)                       # length of the hard tail of the first pass
    period = rng.randrange(t + 1, t + 5)          # no commitment height inside the tail
    j = rng.randrange(1, 9)                       # headers before the retarget boundary
    boundary = 2016 * rng.choice([1, 1, 2])
    start_height = boundary - j - 1
    offset = (boundary - 1) % period              # the last header before the boundary is a commitment height
    buffer = rng.choice([0, 1, 2, 3, 5])
    start_work = rng.choice([0, 777])
    nid = [0]

    def new_id():
        nid[0] += 1
        return nid[0]
    A, prev = [], 0
    for x in range(j + t):
        i = new_id()
        A.append(dict(id=i, prev=prev, bits=(Q4 if x < j else Q16), cbit=rng.randrange(2)))
        prev = i
    min_work = start_work + sum(proof(h["bits"]) for h in A) + rng.choice([-1, 0, 0])
    need = sum(1 for x in range(len(A)) if (start_height + 1 + x) % period == offset)
    secs = -(-(need + rng.choice([0, 1, 40])) * period // 6)
    calls = batches(rng, A)
    # second pass: the same headers up to the boundary, then cheap ones (pow limit: 1/16 of the tail's work each)
    keep = rng.choice([j, j, j, max(0, j - 1)])
    B = [dict(h) for h in A[:keep]]
    prev = B[-1]["id"] if B else 0
    for x in range(keep, j):                      # (keep < j: switch already before the last commitment height)
        i = new_id()
        B.append(dict(id=i, prev=prev, bits=Q4, cbit=rng.randrange(2)))
        prev = i
    ncheap = rng.randrange(period, 16 * t + 8)
    for x in range(ncheap):
        i = new_id()
        B.append(dict(id=i, prev=prev, bits=LIMIT, cbit=rng.randrange(2)))
        prev = i
    calls += batches(rng, B, full_last=rng.random() < 0.8)
    txt = " ; ".join(("F" if f else "P") + (" " + ",".join(hd(h["id"], h["prev"], h["bits"], h["cbit"]) for h in c) if c else "")
                     for f, c in calls)
    return "hs %d %d %d %d %d %d %d %d | %s" % (period, offset, buffer, secs, min_work, start_height, Q4, start_work, txt)


def gen(rng, tier):
    n = 2500 if tier == "quick" else 60000
    seen, out = set(), []
    for _ in range(n // 8):                       # first: the runner looks closely only at the first few failures
        c = gen_overrun_tail(rng)
        if c not in seen:
            seen.add(c); out.append(c)
    for _ in range(n):
        c = gen_case(rng)
        if c not in seen:
            seen.add(c); out.append(c)
    return out


def shrink(c):
    head, calls = c.split(" | ", 1)
    cs = calls.split(" ; ")
    for i in range(len(cs) - 1, -1, -1):
        yield head + " | " + " ; ".join(cs[:i] + cs[i + 1:])
    for i in range(len(cs)):
        t = cs[i].split(" ")
        if len(t) == 2:
            hs = t[1].split(",")
            if len(hs) > 1:
                yield head + " | " + " ; ".join(cs[:i] + [t[0] + " " + ",".join(hs[:-1])] + cs[i + 1:])


TIES = [Tie("headers_sync_state", "tie/drivers/headerssync_drv.cpp", "Extract_HeadersSync.v", "headerssync_driver.ml", gen,
            predicate="driver", nontrivial=lambda c: c.count(";") >= 1, classify=lambda c: "hs/p%s" % c.split()[1], shrink=shrink)]

LEVEL_TEXT = ("Coq theorems about a function-by-function model of HeadersSyncState, for ALL peer histories, all parameters (period, offset, "
              "buffer, max commitments, minimum work), arbitrary commitment bits and arbitrary PermittedDifficultyTransition / GetBlockProof "
              "functions: no header is released unless the call started in REDOWNLOAD, which is entered only with first-pass work >= minimum; "
              "between calls at most max_commitments bits and redownload_buffer_size headers are held; everything released over a history "
              "is one continuous chain from the sync start, consisting of the received second-pass headers unchanged; a release leaves "
              "exactly redownload_buffer_size accepted headers behind it unless the re-downloaded chain itself reached the minimum work; "
              "every accepted second-pass header connects, has a permitted difficulty transition and matches the next stored commitment "
              "bit; over a whole history the bits of all re-downloaded headers equal the first-pass bits at the same heights. Model tied to the real class by differential execution on synthetic peer histories.")
LEVEL_NOTE = ("Partial: the "
              "proof-of-work check of released headers is net_processing's CheckHeadersPoW and is not modelled; the probability of guessing "
              "commitment bits is outside the theorems. The statement says a released header is followed by 'more than a full buffer' of "
              "re-downloaded headers: the code (and the theorem) give exactly redownload_buffer_size headers behind the last released one. "
              "With redownload_buffer_size = 0 the difficulty check of the first header of each later batch is made against the sync start's "
              "nBits (previous_nBits falls back to m_chain_start when the buffer is empty), not against the previously released header. "
              "Trusted: Coq kernel; extraction and driver glue; the hand transcription; model/Pow.v for the executable instance.")
TECHNIQUE = "Coq proof (state-machine invariants) + differential correspondence on synthetic peer histories"
