"""Case generators shared by the script family checks (C12, C11): script assembler for the
src/test/data/script_tests.json text format, CScriptNum encoder, grammar-based script generator."""
import json, os
from vlib import core

# ---------------------------------------------------------------------------------------------
# opcodes (names as printed by GetOpName; the model's decoder is proved against the generated values)
OPS = {
    "OP_0": 0x00, "OP_PUSHDATA1": 0x4c, "OP_PUSHDATA2": 0x4d, "OP_PUSHDATA4": 0x4e, "OP_1NEGATE": 0x4f, "OP_RESERVED": 0x50,
    "OP_1": 0x51, "OP_2": 0x52, "OP_3": 0x53, "OP_4": 0x54, "OP_5": 0x55, "OP_6": 0x56, "OP_7": 0x57, "OP_8": 0x58, "OP_9": 0x59,
    "OP_10": 0x5a, "OP_11": 0x5b, "OP_12": 0x5c, "OP_13": 0x5d, "OP_14": 0x5e, "OP_15": 0x5f, "OP_16": 0x60,
    "OP_NOP": 0x61, "OP_VER": 0x62, "OP_IF": 0x63, "OP_NOTIF": 0x64, "OP_VERIF": 0x65, "OP_VERNOTIF": 0x66, "OP_ELSE": 0x67,
    "OP_ENDIF": 0x68, "OP_VERIFY": 0x69, "OP_RETURN": 0x6a, "OP_TOALTSTACK": 0x6b, "OP_FROMALTSTACK": 0x6c, "OP_2DROP": 0x6d,
    "OP_2DUP": 0x6e, "OP_3DUP": 0x6f, "OP_2OVER": 0x70, "OP_2ROT": 0x71, "OP_2SWAP": 0x72, "OP_IFDUP": 0x73, "OP_DEPTH": 0x74,
    "OP_DROP": 0x75, "OP_DUP": 0x76, "OP_NIP": 0x77, "OP_OVER": 0x78, "OP_PICK": 0x79, "OP_ROLL": 0x7a, "OP_ROT": 0x7b,
    "OP_SWAP": 0x7c, "OP_TUCK": 0x7d, "OP_CAT": 0x7e, "OP_SUBSTR": 0x7f, "OP_LEFT": 0x80, "OP_RIGHT": 0x81, "OP_SIZE": 0x82,
    "OP_INVERT": 0x83, "OP_AND": 0x84, "OP_OR": 0x85, "OP_XOR": 0x86, "OP_EQUAL": 0x87, "OP_EQUALVERIFY": 0x88,
    "OP_RESERVED1": 0x89, "OP_RESERVED2": 0x8a, "OP_1ADD": 0x8b, "OP_1SUB": 0x8c, "OP_2MUL": 0x8d, "OP_2DIV": 0x8e,
    "OP_NEGATE": 0x8f, "OP_ABS": 0x90, "OP_NOT": 0x91, "OP_0NOTEQUAL": 0x92, "OP_ADD": 0x93, "OP_SUB": 0x94, "OP_MUL": 0x95,
    "OP_DIV": 0x96, "OP_MOD": 0x97, "OP_LSHIFT": 0x98, "OP_RSHIFT": 0x99, "OP_BOOLAND": 0x9a, "OP_BOOLOR": 0x9b,
    "OP_NUMEQUAL": 0x9c, "OP_NUMEQUALVERIFY": 0x9d, "OP_NUMNOTEQUAL": 0x9e, "OP_LESSTHAN": 0x9f, "OP_GREATERTHAN": 0xa0,
    "OP_LESSTHANOREQUAL": 0xa1, "OP_GREATERTHANOREQUAL": 0xa2, "OP_MIN": 0xa3, "OP_MAX": 0xa4, "OP_WITHIN": 0xa5,
    "OP_RIPEMD160": 0xa6, "OP_SHA1": 0xa7, "OP_SHA256": 0xa8, "OP_HASH160": 0xa9, "OP_HASH256": 0xaa, "OP_CODESEPARATOR": 0xab,
    "OP_CHECKSIG": 0xac, "OP_CHECKSIGVERIFY": 0xad, "OP_CHECKMULTISIG": 0xae, "OP_CHECKMULTISIGVERIFY": 0xaf,
    "OP_NOP1": 0xb0, "OP_CHECKLOCKTIMEVERIFY": 0xb1, "OP_CHECKSEQUENCEVERIFY": 0xb2, "OP_NOP4": 0xb3, "OP_NOP5": 0xb4,
    "OP_NOP6": 0xb5, "OP_NOP7": 0xb6, "OP_NOP8": 0xb7, "OP_NOP9": 0xb8, "OP_NOP10": 0xb9, "OP_CHECKSIGADD": 0xba,
}
# ParseScript accepts OP_x and x for x >= OP_NOP and OP_RESERVED; numbers are written in decimal
ASM = {}
for _n, _v in OPS.items():
    if _v >= 0x61 or _n == "OP_RESERVED":
        ASM[_n] = _v
        ASM[_n[3:]] = _v
ASM["OP_NOP2"] = ASM["NOP2"] = 0xb1
ASM["OP_NOP3"] = ASM["NOP3"] = 0xb2
O = {k[3:]: v for k, v in OPS.items()}


def hx(b):
    return bytes(b).hex() if len(b) else "-"


def scriptnum(n):
    """CScriptNum::serialize"""
    if n == 0:
        return b""
    neg = n < 0
    a = -n if neg else n
    r = bytearray()
    while a:
        r.append(a & 0xff)
        a >>= 8
    if r[-1] & 0x80:
        r.append(0x80 if neg else 0)
    elif neg:
        r[-1] |= 0x80
    return bytes(r)


def push(data):
    """CScript << vector: the minimal-size push opcode for the length (not CheckMinimalPush-minimal for 1-byte numbers)"""
    data = bytes(data)
    n = len(data)
    if n < 0x4c:
        return bytes([n]) + data
    if n <= 0xff:
        return bytes([0x4c, n]) + data
    if n <= 0xffff:
        return bytes([0x4d, n & 0xff, n >> 8]) + data
    return bytes([0x4e]) + n.to_bytes(4, "little") + data


def push_int(n):
    """CScript << int64"""
    if n == -1 or 1 <= n <= 16:
        return bytes([n + 0x50])
    if n == 0:
        return b"\x00"
    return push(scriptnum(n))


def assemble(s):
    """ParseScript (core_io.cpp)"""
    out = bytearray()
    for w in s.replace("\t", " ").replace("\n", " ").split(" "):
        if not w:
            continue
        if w.isdigit() or (w[0] == "-" and len(w) > 1 and w[1:].isdigit()):
            n = int(w)
            if abs(n) > 0xffffffff:
                raise ValueError("decimal out of range")
            out += push_int(n)
        elif w.startswith("0x") and len(w) > 2:
            out += bytes.fromhex(w[2:])
        elif len(w) >= 2 and w[0] == "'" and w[-1] == "'":
            out += push(w[1:-1].encode())
        elif w in ASM:
            out.append(ASM[w])
        else:
            raise ValueError("unknown opcode " + w)
    return bytes(out)


def flag_bits():
    P = core.parse_params()
    return {k[len("SCR_FLAG_"):]: v for k, v in P.items() if k.startswith("SCR_FLAG_") and k != "SCR_FLAG_END_MARKER"}


def parse_flags(s, bits=None):
    bits = bits or flag_bits()
    f = 0
    for w in s.split(","):
        w = w.strip()
        if not w or w == "NONE":
            continue
        f |= 1 << bits[w]
    return f


def json_vectors():
    """[(witness list of bytes, scriptSig bytes, scriptPubKey bytes, flags int, expected str)] from script_tests.json"""
    path = os.path.join(core.REPO, "src/test/data/script_tests.json")
    bits = flag_bits()
    out = []
    for t in json.load(open(path)):
        wit = []
        pos = 0
        if len(t) and isinstance(t[0], list):
            try:
                wit = [bytes.fromhex(x) for x in t[0][:-1]]
            except ValueError:
                continue          # taproot templates (#SCRIPT#, #CONTROLBLOCK#): not replayed
            pos = 1
        if len(t) < 4 + pos:
            continue
        try:
            out.append((wit, assemble(t[pos]), assemble(t[pos + 1]), parse_flags(t[pos + 2], bits), t[pos + 3]))
        except ValueError:
            continue
    return out


def parse_ops(script):
    """python GetOp: list of (opcode, data or None, raw bytes); stops at a truncated push (the tail is one raw item)"""
    out = []
    i = 0
    n = len(script)
    while i < n:
        op = script[i]
        j = i + 1
        if op <= 0x4e:
            if op < 0x4c:
                ln = op
            elif op == 0x4c:
                if j + 1 > n: break
                ln = script[j]; j += 1
            elif op == 0x4d:
                if j + 2 > n: break
                ln = script[j] | (script[j + 1] << 8); j += 2
            else:
                if j + 4 > n: break
                ln = int.from_bytes(script[j:j + 4], "little"); j += 4
            if j + ln > n: break
            out.append((op, script[j:j + ln], script[i:j + ln]))
            i = j + ln
        else:
            out.append((op, None, script[i:j]))
            i = j
    if i < n:
        out.append((-1, None, script[i:]))
    return out


# ---------------------------------------------------------------------------------------------
# building blocks for the grammar

I31 = 2 ** 31
NUMS = [0, 1, -1, 2, 16, 17, 127, 128, -127, -128, 255, 256, 32767, 32768, -32768, 8388607, 8388608, I31 - 2, I31 - 1,
        -(I31 - 1), I31, -I31, I31 + 1, 2 ** 32 - 1, 2 ** 32, 2 ** 39 - 1, 2 ** 39, -(2 ** 39), 500000000, 499999999, 2 ** 31 + 5, 2 ** 22]
NONMIN = [b"\x00", b"\x80", b"\x00\x00", b"\x00\x80", b"\x01\x00", b"\x01\x80", b"\xff\x00", b"\xff\x80", b"\x7f\x00", b"\x00\x00\x00\x00",
          b"\x00\x00\x00\x80", b"\x01\x00\x00\x00", b"\x01\x00\x00\x00\x00", b"\x00\x00\x00\x00\x00", b"\x05\x00", b"\x10", b"\x81", b"\x11"]
UNARY = ["1ADD", "1SUB", "NEGATE", "ABS", "NOT", "0NOTEQUAL"]
BINARY = ["ADD", "SUB", "BOOLAND", "BOOLOR", "NUMEQUAL", "NUMEQUALVERIFY", "NUMNOTEQUAL", "LESSTHAN", "GREATERTHAN",
          "LESSTHANOREQUAL", "GREATERTHANOREQUAL", "MIN", "MAX"]
STACKOPS = ["TOALTSTACK", "FROMALTSTACK", "2DROP", "2DUP", "3DUP", "2OVER", "2ROT", "2SWAP", "IFDUP", "DEPTH", "DROP", "DUP", "NIP",
            "OVER", "PICK", "ROLL", "ROT", "SWAP", "TUCK", "SIZE", "EQUAL", "EQUALVERIFY", "VERIFY"]
HASHES = ["RIPEMD160", "SHA1", "SHA256", "HASH160", "HASH256"]
DISABLED = ["CAT", "SUBSTR", "LEFT", "RIGHT", "INVERT", "AND", "OR", "XOR", "2MUL", "2DIV", "MUL", "DIV", "MOD", "LSHIFT", "RSHIFT"]
NOPS = ["NOP", "NOP1", "NOP4", "NOP5", "NOP6", "NOP7", "NOP8", "NOP9", "NOP10", "CHECKLOCKTIMEVERIFY", "CHECKSEQUENCEVERIFY"]
BADOPS = [0x50, 0x62, 0x65, 0x66, 0x89, 0x8a, 0xba, 0xbb, 0xc0, 0xfe, 0xff]
SECP_N = 0xFFFFFFFFFFFFFFFFFFFFFFFFFFFFFFFEBAAEDCE6AF48A03BBFD25E8CD0364141


def op(name):
    return bytes([O[name]])


def any_push(rng, data):
    """a push of data with a randomly chosen (possibly non-minimal) push opcode"""
    data = bytes(data)
    n = len(data)
    r = rng.random()
    if r < 0.75:
        if n == 1 and 1 <= data[0] <= 16 and rng.random() < 0.7:
            return bytes([0x50 + data[0]])
        if n == 1 and data[0] == 0x81 and rng.random() < 0.7:
            return b"\x4f"
        return push(data)
    ch = []
    if n < 0x4c: ch.append(bytes([n]) + data)
    if n <= 0xff: ch.append(bytes([0x4c, n]) + data)
    if n <= 0xffff: ch.append(bytes([0x4d, n & 0xff, n >> 8]) + data)
    ch.append(bytes([0x4e]) + n.to_bytes(4, "little") + data)
    return rng.choice(ch)


def rand_num_bytes(rng):
    r = rng.random()
    if r < 0.55:
        return scriptnum(rng.choice(NUMS) + rng.choice([0, 0, 0, 1, -1]))
    if r < 0.75:
        return rng.choice(NONMIN)
    if r < 0.9:
        return scriptnum(rng.randrange(-300, 300))
    return bytes(rng.randrange(256) for _ in range(rng.choice([1, 2, 3, 4, 4, 5, 6])))


def der_int(v):
    b = v.to_bytes(max(1, (v.bit_length() + 7) // 8), "big")
    if b[0] & 0x80:
        b = b"\x00" + b
    return b


def rand_sig(rng):
    """mostly structurally valid DER signatures (+hashtype), with the defects the encoding checks look for"""
    r = rng.random()
    if r < 0.08:
        return b""
    if r < 0.2:
        return bytes(rng.randrange(256) for _ in range(rng.choice([1, 8, 9, 40, 72, 73, 74])))
    rv = rng.choice([1, 0x7f, 0x80, rng.getrandbits(255), rng.getrandbits(256) | 1, SECP_N - 1, SECP_N, SECP_N + 1, rng.getrandbits(64)])
    sv = rng.choice([1, (SECP_N - 1) // 2, (SECP_N - 1) // 2 + 1, (SECP_N - 1) // 2 - 1, SECP_N - 1, SECP_N, rng.getrandbits(255),
                     rng.getrandbits(256) | (1 << 255), rng.getrandbits(250), 0])
    R, S = der_int(rv), der_int(sv)
    d = rng.random()
    if d < 0.08: R = b"\x00" + R          # excess padding
    elif d < 0.16: S = b"\x00" + S
    elif d < 0.2: R = R.lstrip(b"\x00") or b"\x00"   # negative
    elif d < 0.24: S = S.lstrip(b"\x00") or b"\x00"
    elif d < 0.26: R = b""
    elif d < 0.28: S = b""
    body = b"\x02" + bytes([len(R) & 0xff]) + R + b"\x02" + bytes([len(S) & 0xff]) + S
    sig = bytearray(b"\x30" + bytes([len(body) & 0xff]) + body)
    ht = rng.choice([1, 1, 2, 3, 0x81, 0x82, 0x83, 0, 4, 0x80, 0x84, 0xff])
    sig.append(ht)
    d = rng.random()
    if d < 0.05: sig[0] = 0x31
    elif d < 0.1: sig[1] = (sig[1] + rng.choice([1, 255])) & 0xff
    elif d < 0.13: sig[2] = 3
    elif d < 0.16 and len(sig) > 5 + len(R): sig[4 + len(R)] = 3
    elif d < 0.19: sig[3] = (sig[3] + 1) & 0xff
    elif d < 0.21: sig = sig[:-1]
    elif d < 0.23: sig += b"\x01"
    return bytes(sig)


def rand_pubkey(rng):
    r = rng.random()
    body = bytes(rng.randrange(256) for _ in range(64))
    if r < 0.35: return bytes([rng.choice([2, 3])]) + body[:32]
    if r < 0.55: return b"\x04" + body
    if r < 0.65: return bytes([rng.choice([6, 7])]) + body
    if r < 0.72: return bytes([rng.choice([2, 3])]) + body[:rng.choice([31, 33, 64])]
    if r < 0.78: return b"\x04" + body[:rng.choice([32, 63])] + (b"" if rng.random() < 0.5 else b"\x00\x00")
    if r < 0.84: return b""
    if r < 0.92: return body[:32]
    return bytes(rng.randrange(256) for _ in range(rng.choice([1, 20, 32, 33, 34, 65, 66])))


def rand_flags(rng, nbits=21):
    r = rng.random()
    if r < 0.1: return 0
    if r < 0.2: return (1 << nbits) - 1
    if r < 0.5:
        f = 0
        for _ in range(rng.choice([1, 1, 2, 3])):
            f |= 1 << rng.randrange(nbits)
        return f
    if r < 0.7:
        f = (1 << nbits) - 1
        for _ in range(rng.choice([1, 1, 2, 3])):
            f &= ~(1 << rng.randrange(nbits))
        return f
    return rng.getrandbits(nbits)
