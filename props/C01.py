from vlib.runner import Tie
from vlib import core
from props import ledger_gen as G

ID = "C01"
LEVEL = "proof"
DESIGN_REF = "DESIGN.md section 5, C01 (and the chainsim / fn drivers at the start of section 5)"
PROP_FILES = ["props/Properties_C01.v"]
RULE = ("cases: (1) operation scripts run against a fresh regtest node with real blocks: coinbases claiming reward-1 / reward / reward+1 / "
        "reward+2 with 1-5 fee-paying transactions, split or partly burnt coinbases, transactions creating in+1, negative / > MAX_MONEY / "
        "overflowing outputs, duplicated inputs paying out the doubled value, the subsidy halving at height 150, maturity depth 99/100, "
        "reorgs; UTXO dumps with totals (and ComputeUTXOStats). (2) function-level: Consensus::CheckTxInputs on a synthetic CCoinsViewCache "
        "with coin values in {-2,0,1,546,MAX_MONEY-1,MAX_MONEY,MAX_MONEY+1,MAX_MONEY/2(+1),2^62,INT64_MAX,INT64_MIN,...} for every value and "
        "pair of values, 2-8 inputs summing to MAX_MONEY-1/0/+1, in vs out -1/0/+1, maturity boundaries, missing inputs at each position, "
        "and random mixes. Non-trivial = a block is submitted / at least one input; distinct = distinct case lines.")
ASSUMPTIONS = ["every coin in the view has a value in [0, MAX_MONEY] and a height > 0 (wf_utxo): premise of the one-block theorems, an invariant of "
               "every reachable state in the history theorem",
               "0 < nSubsidyHalvingInterval and BIP30 enforced (cf_bip30 = true) in the supply invariant",
               "the subsidy is the model of C31 (model/Amount.v), CheckTransaction the model of C03 (model/TxCheck.v): imported",
               "script validity of an input is a bit carried by the model's transaction",
               "the model is a hand transcription of CheckTxInputs / ConnectBlock, tied by the correspondence (chain level and function level)"]
TRUSTED = ["Coq 8.16.1 kernel (coqc; vm_compute in the examples)",
           "tie/dump_params.cpp prints COIN, MAX_MONEY, COINBASE_MATURITY and the regtest nSubsidyHalvingInterval from the compiled tree",
           "extraction: ExtrOcamlBasic only; ocaml/conv.ml + ledger_driver.ml glue",
           "tie/drivers/ledger_drv.cpp: chain scripts through ProcessNewBlock and UTXO dumps; fn cases call Consensus::CheckTxInputs on a real "
           "CCoinsViewCache"]

TIES = [Tie("chainsim_value", "tie/drivers/ledger_drv.cpp", "Extract_Ledger.v", "ledger_driver.ml", G.gen_chain("C01"), mode="C01",
            predicate="driver", nontrivial=lambda c: "submit " in c, classify=G.classify, shrink=G.shrink, timeout=3000),
        Tie("checktxinputs_fn", "tie/drivers/ledger_drv.cpp", "Extract_Ledger.v", "ledger_driver.ml", G.gen_fn, mode="C01",
            predicate="driver", nontrivial=lambda c: not c.split(" ")[2] == "0", classify=G.classify, timeout=3000)]

LEVEL_TEXT = ("Coq theorems about an executable model of CheckTxInputs and ConnectBlock with every int64 sum wrapped explicitly: an accepted "
              "block's coinbase is at most subsidy + fees, every accepted transaction spends at least what it creates with all partial sums in "
              "[0, MAX_MONEY], no sum can wrap under the guards, the view's total grows by at most the subsidy, and for EVERY history of "
              "connects, disconnects and reorgs the UTXO total at the tip is at most the sum of the subsidies of the active chain. Tied to the "
              "real node by block scripts at the reward boundaries and by function-level CheckTxInputs cases at the 64-bit / MAX_MONEY boundaries.")
LEVEL_NOTE = ("Trusted: Coq kernel, dump_params.cpp, extraction + driver glue. Not modelled: script execution, sigops, sequence locks, snapshot "
              "chainstates. DESIGN.md's ConnectBlock(fJustCheck) function-level tie with synthetic coins injected into CoinsTip() is not built: "
              "bad-txns-accumulated-fee-outofrange needs more than MAX_MONEY of fees in one block and is unreachable through ProcessNewBlock; it "
              "is covered by the theorem (the accumulator is range-checked after every addition) only.")
TECHNIQUE = "Coq proof (value accounting + invariant over all histories) + differential correspondence (chain scripts and CheckTxInputs boundaries)"
