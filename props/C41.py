from vlib.runner import Tie
from vlib import core
import os

ID = "C41"
LEVEL = "translation_validation"
DESIGN_REF = "DESIGN.md section 5, C41"
PROP_FILES = ["props/Properties_C41.v"]
RULE = ("cases: ct S <setup> R <request>: a real descriptor CWallet on a real regtest node (TestChain100Setup) is funded as the "
        "setup says (confirmed coins of the four address types with chosen amounts, some sharing an address, some locked; "
        "unconfirmed coins received from outside; unconfirmed coins the wallet sent to itself with the spent source coin; "
        "coins of somebody else that a request supplies as external preset inputs with solving data; an "
        "immature coinbase; wallet settings -mintxfee / -fallbackfee / -discardfee / -maxtxfee / -maxapsfee / -spendzeroconfchange), "
        "then the real wallet::CreateTransaction runs on the request (1-4 recipients of all address types / OP_RETURN / own "
        "address with subtract-fee flags, explicit feerate with or without override, change position / type / custom change "
        "destination, preset inputs with or without other inputs, unsafe inputs, minimum depth, avoid-partial-spends, unsigned). "
        "Requests are aimed, with exact size arithmetic, at: amount = what the preset coins can pay with change at "
        "min_viable_change -1/0/+1; amount = everything the wallet can spend -fee -1/0/+1; subtract-fee with 1-3 subtracting "
        "recipients and fee remainders 0..2; recipient amounts at their dust threshold -1/0/+1; subtracting recipients left "
        "at dust -1/0/+1; fee at the maximum transaction fee -1/0/+1; feerates at the relay minimum, below the wallet minimum "
        "(refused), with override; many small coins. Every created transaction is printed structurally (inputs with the "
        "values of the coins they spend, outputs with scripts, IsMine / OutputIsChange, fee, change position, signed and "
        "maximum-signed vsize, ancestor bump fees, the wallet's coin table with depth / maturity / lock / spent / trusted / "
        "mempool flags) and judged by the extracted Coq checker valid_funding; signed results also go through the node's "
        "mempool test-accept. non-trivial = the wallet created a transaction request with at least one coin and recipient; "
        "distinct = distinct case lines.")
ASSUMPTIONS = ["translation validation: nothing universal is proved about CreateTransactionInternal / coin selection; the Coq theorems "
               "are about the checker that is run on every transaction the real wallet creates in the generated scenarios",
               "the facts about wallet coins (depth, maturity, locked, spent, trusted, in mempool) are read by the driver through "
               "the wallet's primitive accessors (GetTxDepthInMainChain, IsTxImmatureCoinBase, IsLockedCoin, IsSpent, "
               "CachedTxIsTrusted, InMempool); input values come from the wallet's TXO table / the UTXO set, not from the result",
               "the fee estimator of the test chain has no estimate (the Gallina transcription of GetMinimumFeeRate covers the "
               "explicit-feerate and fallback paths; compared with the real function on every case)",
               "a signed transaction is at most SIG_SLACK = 3 bytes per input smaller than its maximum signed size (DER "
               "signatures shorter than 71 bytes have probability < 2^-23 per signature beyond that)",
               "mempool acceptance of the created transaction is an executed oracle per case (testmempoolaccept), not a theorem"]
TRUSTED = ["Coq 8.16.1 kernel",
           "extraction: ExtrOcamlBasic only; ocaml/conv.ml + walletspend_driver.ml glue (parsing of the driver's report into the "
           "checker's records)",
           "tie/drivers/walletspend_drv.cpp builds the scenario on the real node + wallet, calls wallet::CreateTransaction and "
           "prints the result and the wallet's coin table"]

IN_VSIZE = {'b': 68, 'l': 148, 's': 91, 't': 58}
OUT_SIZE = {'b': 31, 'l': 34, 's': 32, 't': 43, 'm': 31, 'n': 16}
WITNESS = {'b': True, 't': True, 'm': True, 'l': False, 's': False, 'n': False}
DUST_RATE = 3000


def get_fee(rate, b):
    return (rate * b + 999) // 1000


def dust(rate, t):
    if t == 'n':
        return 0
    return get_fee(rate, OUT_SIZE[t] + (67 if WITNESS[t] else 148))


def mvc(discard, ct):
    return max(get_fee(discard, IN_VSIZE[ct]) + 1, dust(discard, ct))


def noinputs_size(rtypes):
    return 10 + 1 + sum(OUT_SIZE[t] for t in rtypes)


class Setup:
    def __init__(self, rng, style):
        self.coins = []      # (kind, type, amount, label, locked)
        self.opts = {}
        T = "lsbt"
        if style == "small":
            n = rng.randrange(18, 30)
            for _ in range(n):
                self.coins.append(('c', rng.choice("bbbt"), rng.randrange(3000, 7000), "", False))
        elif style == "grouped":
            for lab in range(rng.randrange(2, 4)):
                t = rng.choice(T)
                for _ in range(rng.randrange(2, 4)):
                    self.coins.append(('c', t, rng.choice([20000, 50000, 120000, 333333]), str(lab), False))
            self.coins.append(('c', rng.choice(T), 700000, "", False))
        else:
            n = rng.randrange(1, 9)
            for _ in range(n):
                amt = rng.choice([rng.randrange(5000, 30000), rng.randrange(50000, 600000), rng.randrange(1000000, 40000000),
                                  100000, 250000])
                self.coins.append(('c', rng.choice(T), amt, "", rng.random() < 0.15))
            if rng.random() < 0.4:
                for _ in range(rng.randrange(1, 3)):
                    self.coins.append(('x', rng.choice("lsb"), rng.randrange(20000, 900000), "", False))
            if style == "mixed":
                for _ in range(rng.randrange(0, 3)):
                    self.coins.append(('u', rng.choice("bt"), rng.randrange(40000, 900000), "", rng.random() < 0.1))
                for _ in range(rng.randrange(0, 3)):
                    self.coins.append(('w', rng.choice("bt"), rng.randrange(40000, 900000), "", rng.random() < 0.1))
                if rng.random() < 0.5:
                    self.coins.append(('i', 'b', 0, "", False))
                if rng.random() < 0.3:
                    self.opts["zc"] = 0
                if rng.random() < 0.3:
                    self.opts["ufee"] = rng.choice([150, 1000, 20000])
                if rng.random() < 0.3:
                    self.opts["wfee"] = rng.choice([1000, 2000, 30000])
        if not any(c[0] == 'c' and not c[4] for c in self.coins):
            self.coins.append(('c', 'b', 400000, "", False))
        if rng.random() < 0.35:
            self.opts["discard"] = rng.choice([3000, 3000, 5000, 25000])
        if rng.random() < 0.3:
            self.opts["minfee"] = rng.choice([100, 0, 2500])
        if rng.random() < 0.25:
            self.opts["fallback"] = rng.choice([20000, 1500, 50])
        if rng.random() < 0.2:
            self.opts["apsfee"] = rng.choice([-1, 1000])
        if rng.random() < 0.2:
            self.opts["depth"] = rng.choice([1, 5, 7])
        self.discard = max(self.opts.get("discard", 10000), DUST_RATE)
        self.minfee = self.opts.get("minfee", 1000)

    def text(self):
        toks = []
        for (k, t, a, lab, locked) in self.coins:
            if k == 'i':
                toks.append("imm")
            else:
                toks.append("%s%s%d%s%s" % (k, t, a, ("@" + lab) if lab else "", "/k" if locked else ""))
        toks += ["%s=%d" % kv for kv in sorted(self.opts.items())]
        return " ".join(toks)

    def confirmed(self):
        return [(i, c) for i, c in enumerate(self.coins) if c[0] == 'c']


def req_text(rcps, opts):
    return " ".join(["r%s%d%s" % (t, a, "s" if s else "") for (t, a, s) in rcps] + ["%s=%s" % kv for kv in opts])


def aimed_requests(rng, S, maxfee_probe):
    """requests whose boundary is computed exactly: preset coins only (other=0)"""
    out = []
    conf = [(i, c) for i, c in S.confirmed()]
    for _ in range(14):
        k = rng.randrange(1, min(4, len(conf)) + 1)
        sel = rng.sample(conf, k)
        rate = rng.choice([1000, 1000, 2000, 3333, 10000, 25000, 1001, 1999])
        if rate < max(S.minfee, 100):
            rate = max(S.minfee, 100)
        ct = rng.choice("lsbt")
        nr = rng.choice([1, 1, 2, 3])
        rtypes = [rng.choice("lsbtbt") for _ in range(nr)]
        total = sum(c[2] for _, c in sel)
        eff = sum(c[2] - get_fee(rate, IN_VSIZE[c[1]]) for _, c in sel)
        nif = get_fee(rate, noinputs_size(rtypes))
        cfee = get_fee(rate, OUT_SIZE[ct])
        m = mvc(S.discard, ct)
        opts = [("fr", rate), ("pre", ",".join(str(i) for i, _ in sel)), ("other", 0), ("ct", ct)]
        if rng.random() < 0.3:
            opts.append(("cp", rng.randrange(0, nr + 2)))
        kind = rng.choice(["mvc", "mvc", "all", "sffo", "sffo", "sffo_dust", "rcp_dust", "sffo_nochange"])
        first = sum(dust(DUST_RATE, t) for t in rtypes[1:]) + 1000 * (nr - 1)
        if kind == "mvc":
            # change would be exactly min_viable_change + d
            d = rng.choice([-2, -1, 0, 1, 2, 50])
            amt = eff - nif - cfee - (m + d)
            rest = [dust(DUST_RATE, t) + 1000 for t in rtypes[1:]]
            a0 = amt - sum(rest)
            if a0 < dust(DUST_RATE, rtypes[0]):
                continue
            rcps = [(rtypes[0], a0, False)] + [(t, r, False) for t, r in zip(rtypes[1:], rest)]
        elif kind == "all":
            # pay everything the preset coins hold: the no-change fee boundary
            d = rng.choice([-2, -1, 0, 1, 2])
            amt = eff - nif + d
            rest = [dust(DUST_RATE, t) + 1000 for t in rtypes[1:]]
            a0 = amt - sum(rest)
            if a0 < dust(DUST_RATE, rtypes[0]):
                continue
            rcps = [(rtypes[0], a0, False)] + [(t, r, False) for t, r in zip(rtypes[1:], rest)]
        elif kind in ("sffo", "sffo_nochange"):
            flags = [rng.random() < 0.7 for _ in rtypes]
            if not any(flags):
                flags[rng.randrange(nr)] = True
            if kind == "sffo":
                spend = total - rng.choice([0, 0, 1, 5000, m, m - 1, m + 1])
            else:
                spend = total - rng.randrange(0, m)
            per = spend // nr
            if per < 20000:
                continue
            amts = [per] * nr
            amts[0] += spend - per * nr
            rcps = [(t, a, f) for t, a, f in zip(rtypes, amts, flags)]
        elif kind == "sffo_dust":
            # a subtracting recipient is left with its dust threshold + d after paying the whole fee
            t0 = rtypes[0]
            vs_in = sum(IN_VSIZE[c[1]] for _, c in sel)
            fee_est = get_fee(rate, 11 + vs_in + OUT_SIZE[t0] + OUT_SIZE[ct])
            d = rng.choice([-1, 0, 1])
            a0 = dust(DUST_RATE, t0) + fee_est + d
            if a0 + m + 2000 > total:
                continue
            rcps = [(t0, a0, True)]
        else:
            d = rng.choice([-1, 0, 1])
            rcps = [(t, dust(DUST_RATE, t) + (d if j == 0 else 5), False) for j, t in enumerate(rtypes)]
        if sum(a for _, a, _ in rcps) <= 0:
            continue
        out.append(req_text(rcps, opts))
    return out


def free_requests(rng, S, n):
    out = []
    conf = [c for _, c in S.confirmed() if not c[4]]
    avail = sum(c[2] for c in conf)
    allin = sum(IN_VSIZE[c[1]] for c in conf)
    for _ in range(n):
        nr = rng.choice([1, 1, 1, 2, 3, 4])
        rtypes = [rng.choice("lsbtbtmn") for _ in range(nr)]
        rate = rng.choice([None, 100, 999, 1000, 1000, 1500, 5000, 20000, 100000, 31000])
        opts = []
        if rate is not None:
            opts.append(("fr", rate))
            if rng.random() < 0.15:
                opts.append(("ov", 1))
        r = rate if rate is not None else 1000
        style = rng.random()
        if style < 0.35:
            # around everything that can be spent
            est = get_fee(r, 11 + allin + sum(OUT_SIZE[t] for t in rtypes))
            total = avail - est + rng.choice([-400, -50, -2, -1, 0, 1, 2, 50, 400, -3000])
        elif style < 0.5:
            total = avail + rng.choice([0, 1, -1])
        else:
            total = rng.randrange(1000, max(2000, avail))
        sffo = rng.random() < 0.4
        amts = []
        left = total
        for j, t in enumerate(rtypes):
            if t == 'n':
                amts.append(0)
                continue
            if j == nr - 1 or all(x == 'n' for x in rtypes[j + 1:]):
                a = left
            else:
                a = rng.randrange(0, max(1, left // 2)) if rng.random() < 0.8 else dust(DUST_RATE, t) + rng.choice([-1, 0, 1])
            a = max(a, 0)
            left -= a
            amts.append(a)
        rcps = [(t, a, sffo and t != 'n' and rng.random() < 0.7) for t, a in zip(rtypes, amts)]
        if rng.random() < 0.2:
            opts.append(("cp", rng.randrange(0, nr + 2)))
        if rng.random() < 0.3:
            opts.append(("ct", rng.choice("lsbt")))
        elif rng.random() < 0.1:
            opts.append(("cd", rng.choice("lsbt")))
        if rng.random() < 0.15:
            opts.append(("unsafe", 1))
        if rng.random() < 0.1:
            opts.append(("mind", rng.choice([0, 1, 2, 6])))
        if rng.random() < 0.1:
            opts.append(("aps", 1))
        if rng.random() < 0.08:
            opts.append(("sign", 0))
        if rng.random() < 0.1:
            opts.append(("rbf", rng.choice([0, 1])))
        if rng.random() < 0.2 and S.coins:
            idx = [i for i, c in enumerate(S.coins) if c[0] != 'i']
            pre = rng.sample(idx, min(len(idx), rng.randrange(1, 3)))
            opts.append(("pre", ",".join(map(str, pre))))
            if rng.random() < 0.3:
                opts.append(("other", 0))
        xs = [i for i, c in enumerate(S.coins) if c[0] == 'x']
        if xs and rng.random() < 0.35:
            # somebody else's coin supplied as an external input (with its txout and solving data): unsigned result
            opts = [o for o in opts if o[0] != "sign"]
            opts.append(("ext", ",".join(map(str, rng.sample(xs, rng.randrange(1, len(xs) + 1))))))
            opts.append(("sign", 0))
        out.append(req_text(rcps, opts))
    return out


def maxfee_requests(rng, S):
    """fee at -maxtxfee -1/0/+1: one preset bech32 coin, one bech32 recipient, bech32 change: vsize 141"""
    out = []
    conf = [(i, c) for i, c in S.confirmed() if c[1] == 'b' and c[2] > 60000]
    if "maxfee" not in S.opts or not conf:
        return out
    i, c = conf[0]
    for rate in (S.opts["maxfee_rate"] - 8, S.opts["maxfee_rate"], S.opts["maxfee_rate"] + 8):
        out.append(req_text([('b', 20000, False)], [("fr", rate), ("pre", i), ("other", 0), ("ct", 'b')]))
    return out


def gen(rng, tier):
    cases = []
    nsetups = 26 if tier == "quick" else 400
    for k in range(nsetups):
        style = ["plain", "mixed", "plain", "mixed", "small", "grouped"][k % 6]
        S = Setup(rng, style)
        if k % 7 == 3:
            # maximum transaction fee exactly at the fee of a 141-vbyte transaction at some feerate
            rate = rng.choice([2000, 10000, 7000])
            S.opts["maxfee"] = get_fee(rate, 141)
            S.opts["maxfee_rate"] = rate
        st = " ".join(t for t in S.text().split(" ") if not t.startswith("maxfee_rate"))
        reqs = aimed_requests(rng, S, None) + maxfee_requests(rng, S) + free_requests(rng, S, 26 if style != "small" else 12)
        for r in reqs:
            cases.append("ct S %s R %s" % (st, r))
    return cases


class Line(str):
    """The model side prints the wildcard '*': which coins the wallet picks, where it puts the change and which keys it uses is
    randomised (FastRandomContext) and not predicted; every result is judged by the extracted checker in `holds`.
    Work-around for the runner comparing implementation and model lines with !=."""
    def __eq__(self, other):
        return True
    def __ne__(self, other):
        return False
    __hash__ = str.__hash__


def shrink(case):
    w = case.split(" ")
    r = w.index("R")
    setup, req = w[2:r], w[r + 1:]
    # drop a request option / recipient (coins are referred to by position: keep the setup)
    for i in range(len(req)):
        if "pre=" in req[i]:
            continue
        cand = req[:i] + req[i + 1:]
        if any(t.startswith("r") and "=" not in t for t in cand):
            yield " ".join(w[:r + 1] + cand)
    # drop setup settings
    for i in range(len(setup)):
        if "=" in setup[i]:
            yield " ".join(w[:2] + setup[:i] + setup[i + 1:] + w[r:])


TIES = [Tie("create_transaction", "tie/drivers/walletspend_drv.cpp", "Extract_WalletSpend.v", "walletspend_driver.ml", gen,
            mode="C41", predicate="driver", nontrivial=lambda c: " R r" in c, canon=Line, shrink=shrink,
            classify=lambda c: "ct")]

LEVEL_TEXT = ("Coq theorems: soundness of the executable checker valid_funding (a result it accepts has pairwise distinct inputs, "
              "each explicitly supplied by the caller or a spendable wallet coin - mature, in the chain or the mempool, trusted "
              "unless unsafe inputs were asked for, within the depth limits, not locked, not spent - every supplied input used, "
              "inputs = outputs + fee, every non-change output a recipient's in order and paid its amount minus its share, the "
              "shares following the quotient/remainder rule with the FIRST subtracting recipient paying the remainder and "
              "summing to the total reduction, no dust output, change to a wallet script or the caller's and at least "
              "min_viable_change, fee >= effective feerate x maximum signed size >= requested feerate x final size, fee <= maximum "
              "transaction fee) and the exact overpayment bounds the code guarantees (fee = feerate x maximum signed size + bump "
              "fees whenever there is change or a subtracting recipient, hence <= feerate x (vsize + 3 bytes per input); otherwise "
              "< per-piece fees + change fee + min_viable_change). The real wallet is tied by translation validation: every "
              "transaction CreateTransaction produces on the generated wallets is judged by the extracted checker and by the "
              "node's mempool test-accept.")
LEVEL_NOTE = ("Not proved: anything universal about CreateTransactionInternal, AvailableCoins or SelectCoins (checked per case). "
              "The property's sentence about subtract-fee recipients is sharpened by the code: without a change output the "
              "recipients pay the fee MINUS the surplus that was too small to become change (they may even receive more than "
              "requested), with a change output exactly the fee; both are in the checker. Observation on 'not overpaying': ancestor bump "
              "fees of PRESET inputs are charged per input (FetchSelectedInputs) and never discounted for shared ancestors, so two "
              "preset coins from one low-feerate unconfirmed parent pay that parent's bump fee twice (e.g. fee 2268 where 1644 was "
              "needed); the checker's r_bump follows the code's accounting and is checked to cover the real need. Mempool "
              "acceptance is an executed oracle.")
TECHNIQUE = "verified checker (Coq, extracted) run on the real wallet's output + mempool test-accept as second oracle"
